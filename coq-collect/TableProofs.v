(** C16 — the finite checks over the REGENERATED list of impls ([Gen/GenCollectImpls.v]),
    by [vm_compute], lifted to statements about every impl in the list. The bound of these
    checks is the list itself; the per-impl statement is for contents of every size. *)
From Coq Require Import List String Bool Permutation.
From GACollect Require Import ModelDSL ModelTables Proofs.
From GACollect.Gen Require Import GenCollectImpls.
Import ListNotations.

Lemma all_wf :
  forallb (wf_impl tables_real trace_default) (filter in_scope impls) = true.
Proof. vm_compute. reflexivity. Qed.

Lemma all_no_trace_ok :
  forallb (fun i => negb (claims_no_trace i) || no_trace_ok i) (filter in_scope impls) = true.
Proof. vm_compute. reflexivity. Qed.

Lemma covers_ok : covers impls = true.
Proof. vm_compute. reflexivity. Qed.

Lemma exact_all :
  forall i, In i impls -> in_scope i = true ->
    (forall c, content_ok i c ->
       Permutation (sem tables_real trace_default i c) (all_pointers tables_real i c)) /\
    (forall rho, needs_trace_val i rho = has_own tables_real i || existsb rho (collect_params i)).
Proof. exact (all_wf_exact tables_real trace_default impls in_scope all_wf). Qed.

Lemma no_trace_all :
  forall i, In i impls -> in_scope i = true -> claims_no_trace i = true ->
    (self_static i = true \/
     Forall (fun b => b_static b = true) (type_params i) \/
     i_tycon i = "std::PhantomData"%string) /\
    has_own tables_real i = false /\ collect_params i = [] /\
    (forall p, In p (stored_positions tables_real i) -> In p (static_tys i)).
Proof.
  intros i Hin Hsc Hcl. split.
  - exact (no_trace_static impls in_scope all_no_trace_ok i Hin Hsc Hcl).
  - apply (no_trace_stores_static tables_real trace_default); [|exact Hcl].
    pose proof all_wf as H. rewrite forallb_forall in H. apply H.
    apply filter_In. split; assumption.
Qed.

Lemma covers_all :
  forall t, In t required_ids ->
    exists i, In i impls /\ i_id i = t /\ in_scope i = true.
Proof.
  intros t Ht. pose proof covers_ok as H. unfold covers in H.
  rewrite forallb_forall in H. specialize (H t Ht).
  apply existsb_exists in H. destruct H as [i [Hi Hc]].
  apply andb_true_iff in Hc. destruct Hc as [He Hs].
  exists i. repeat split; [exact Hi | apply String.eqb_eq; exact He | exact Hs].
Qed.

(** The adapter read from the current source tree forwards faithfully. *)
Lemma dyn_adapter_check : dyn_adapter_ok dyn_adapter_real = true.
Proof. vm_compute. reflexivity. Qed.

Lemma dyn_exact_all :
  forall i, In i impls -> in_scope i = true ->
    forall c, content_ok i c ->
      Permutation (sem_dyn tables_real trace_default dyn_adapter_real i c) (all_pointers tables_real i c).
Proof.
  intros i Hin Hsc. apply dyn_exact; [exact dyn_adapter_check|].
  apply (proj1 (forallb_forall _ _) all_wf). apply filter_In. split; assumption.
Qed.
