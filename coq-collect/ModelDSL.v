(** C16 — the trace DSL into which the translator renders every [unsafe impl Collect], its
    semantics on abstract container contents, and the decidable well-formedness checker.
    Definitions only (no proofs): the model must still evaluate when a proof breaks. *)
From Coq Require Import List String Bool Arith.
Import ListNotations.
Open Scope string_scope.
Open Scope list_scope.

(* ------------------------------------------------------------------------------------ *)
(** * Syntax (produced by /verif/translator-collect)                                      *)
(* ------------------------------------------------------------------------------------ *)

Inductive strength := Strong | Weak.
Definition ptr := nat.
Definition pointer := (ptr * strength)%type.
(** An element value of some parameter type: the arena pointers it owns. *)
Definition elem := list pointer.

(** Boolean constant expressions ([const NEEDS_TRACE: bool = ...], [if T::NEEDS_TRACE]). *)
Inductive bexpr :=
| BTrue | BFalse
| BVar (t : string)              (* [t::NEEDS_TRACE], t a type expression such as "K" or "A::Item" *)
| BSelf                          (* [Self::NEEDS_TRACE] *)
| BOr (a b : bexpr) | BAnd (a b : bexpr) | BNot (a : bexpr)
| BUnknown (s : string).

Inductive deref_kind :=
| DStarStar   (* &**self            (Box, Rc, Arc) *)
| DBorrow     (* &*self.borrow()    (RefLock)      *)
| DGetCopy    (* &self.get()        (Lock: a copy) *)
| DAsRef.     (* self.as_ref()                     *)

Inductive place :=
| PSelf                          (* self, [*self], [Self::erase( *self )] *)
| PVar (x : string)              (* a pattern variable *)
| PField (f : string)            (* self.f / &self.f *)
| PDeref (k : deref_kind)
| PUnknown (s : string).

Inductive iter_src :=
| ISelf                          (* for .. in self *)
| IMethod (m : string)           (* for .. in self.m() *)
| IField (f : string)            (* for .. in &self.f *)
| IFieldMethod (f m : string)    (* for .. in self.f.m() *)
| IUnknown (s : string).

Inductive scrut :=
| SSelf                          (* match self / if let .. = self *)
| SMethod (m : string)           (* self.as_ref(), self.get() *)
| SUnknown (s : string).

Inductive stmt :=
| Nop
| Seq (a b : stmt)
| TraceVal (p : place)           (* cc.trace(p) / Trace::trace(cc, p): goes through Trace::trace *)
| CollectTrace (p : place)       (* p.trace(cc) / Collect::trace(p, cc): direct call *)
| TraceGc (p : place)            (* cc.trace_gc(p) *)
| TraceWeak (p : place)          (* cc.trace_gc_weak(p) *)
| ForEach (src : iter_src) (pats : list string) (body : stmt)
| MatchEnum (sc : scrut) (arms : list (string * list string * stmt))
| IfConst (g : bexpr) (body : stmt)
| LetTuple (pats : list string) (body : stmt)   (* let (a, b, ..) = self; body *)
| Unknown (s : string).

Record bound := {
  b_ty : string;            (* the bounded type, e.g. "T", "A::Item", "bool" *)
  b_is_param : bool;        (* it is a generic type parameter of the impl *)
  b_collect : bool;         (* has a [Collect<'gc>] bound *)
  b_static : bool;          (* has a ['static] bound *)
  b_others : list string    (* every other bound, verbatim *)
}.

Record impl := {
  i_id : string;            (* unique name, e.g. "std::HashMap", "tuple/3" *)
  i_tycon : string;         (* canonical type constructor *)
  i_self_ty : string;       (* the self type as written *)
  i_args : list string;     (* type / const arguments of the self type, in order *)
  i_file : string;
  i_gate : list string;     (* cfg gates: "feature:indexmap", ... (conjunction) *)
  i_bounds : list bound;
  i_consts : list string;   (* const generic parameters *)
  i_nt_explicit : bool;     (* the impl spells out NEEDS_TRACE (else: the trait default) *)
  i_needs_trace : bexpr;
  i_body_explicit : bool;   (* the impl spells out trace (else: the trait default body) *)
  i_body : stmt
}.

(* ------------------------------------------------------------------------------------ *)
(** * Small utilities                                                                     *)
(* ------------------------------------------------------------------------------------ *)

Fixpoint assoc {A} (k : string) (l : list (string * A)) : option A :=
  match l with
  | [] => None
  | (k', v) :: r => if String.eqb k k' then Some v else assoc k r
  end.

Definition mem (x : string) (l : list string) : bool := existsb (String.eqb x) l.

Fixpoint nodupb (l : list string) : bool :=
  match l with [] => true | x :: r => negb (mem x r) && nodupb r end.

Definition subsetb (a b : list string) : bool := forallb (fun x => mem x b) a.
Definition set_eqb (a b : list string) : bool := subsetb a b && subsetb b a.

Fixpoint all_some {A} (l : list (option A)) : option (list A) :=
  match l with
  | [] => Some []
  | Some x :: r => option_map (cons x) (all_some r)
  | None :: _ => None
  end.

(* ------------------------------------------------------------------------------------ *)
(** * Positions and the per-type-constructor tables' interface                            *)
(* ------------------------------------------------------------------------------------ *)

(** A reference to a storage position of a container, relative to the self type's arguments. *)
Inductive posref :=
| PArg (n : nat)                   (* the n-th type argument *)
| PAssoc (n : nat) (a : string).   (* an associated type of the n-th argument: [A::Item] *)

Definition resolve (args : list string) (r : posref) : option string :=
  match r with
  | PArg n => nth_error args n
  | PAssoc n a => option_map (fun s => String.append s (String.append "::" a)) (nth_error args n)
  end.

Definition resolve_all (args : list string) (rs : list posref) : option (list string) :=
  all_some (map (resolve args) rs).

(** What the semantics knows about a type constructor.  The instance for the real crate is
    [ModelTables.tables]; it is the "modelled, not verified" part (std iterators are total). *)
Record tables := {
  t_stored : string -> nat -> option (list posref);  (* positions the type stores inline *)
  t_own    : string -> list (string * strength);     (* arena pointers held directly as fields *)
  t_iter   : string -> iter_src -> option (list posref);  (* total iteration: item components *)
  t_deref  : string -> deref_kind -> option posref;
  t_field  : string -> string -> option posref;
  t_enum   : string -> scrut -> option (list (string * list posref)); (* variants with payloads *)
  t_tuple  : string -> nat -> option (list posref)
}.

(* ------------------------------------------------------------------------------------ *)
(** * Contents and semantics                                                              *)
(* ------------------------------------------------------------------------------------ *)

(** An abstract container value: for every position (named by the type expression stored there)
    a list of element values of ANY length; for every position the NEEDS_TRACE constant of the type
    it is instantiated with; and one pointer for every directly owned pointer field. *)
Record content := {
  c_pos : string -> list elem;
  c_nt  : string -> bool;
  c_own : string -> ptr
}.

(** A bound variable / evaluated place: NEEDS_TRACE of its type, and the element values it
    denotes (a row variable denotes at most one, a destructured / dereferenced position all). *)
Definition binding := (bool * list elem)%type.
Definition env := list (string * binding).

Fixpoint beval0 (rho : string -> bool) (selfv : bool) (g : bexpr) : bool :=
  match g with
  | BTrue => true
  | BFalse => false
  | BVar t => rho t
  | BSelf => selfv
  | BOr a b => beval0 rho selfv a || beval0 rho selfv b
  | BAnd a b => beval0 rho selfv a && beval0 rho selfv b
  | BNot a => negb (beval0 rho selfv a)
  | BUnknown _ => false
  end.

(** Value of a constant expression inside impl [i]: [Self::NEEDS_TRACE] is [i]'s own. *)
Definition beval (i : impl) (rho : string -> bool) (g : bexpr) : bool :=
  beval0 rho (beval0 rho true (i_needs_trace i)) g.

Definition needs_trace_val (i : impl) (rho : string -> bool) : bool :=
  beval0 rho true (i_needs_trace i).

Definition pos_binding (c : content) (p : string) : binding := (c_nt c p, c_pos c p).

Definition own_binding (c : content) (f : string) (s : strength) : binding :=
  (true, [[(c_own c f, s)]]).

Definition opt_elem (o : option elem) : list elem :=
  match o with Some e => [e] | None => [] end.

Definition row_binding (c : content) (p : string) (j : nat) : binding :=
  (c_nt c p, opt_elem (nth_error (c_pos c p) j)).

Definition max_len (c : content) (ps : list string) : nat :=
  fold_right (fun p n => Nat.max (List.length (c_pos c p)) n) 0 ps.

Section Sem.
  Variable T : tables.
  Variable call_trace : binding -> list pointer.   (* meaning of [cc.trace(x)] *)
  Variable i : impl.
  Variable c : content.
  Variable rho : string -> bool.                   (* valuation of [X::NEEDS_TRACE] *)

  Definition eval_place (e : env) (pl : place) : option binding :=
    match pl with
    | PVar x => assoc x e
    | PSelf =>
        match assoc "self" (t_own T (i_tycon i)) with
        | Some s => Some (own_binding c "self" s)
        | None => None
        end
    | PField f =>
        match assoc f (t_own T (i_tycon i)) with
        | Some s => Some (own_binding c f s)
        | None =>
            match t_field T (i_tycon i) f with
            | Some r => option_map (pos_binding c) (resolve (i_args i) r)
            | None => None
            end
        end
    | PDeref k =>
        match t_deref T (i_tycon i) k with
        | Some r => option_map (pos_binding c) (resolve (i_args i) r)
        | None => None
        end
    | PUnknown _ => None
    end.

  Definition relabel (s : strength) (b : binding) : list pointer :=
    map (fun q => (fst q, s)) (List.concat (snd b)).

  Fixpoint sem_gen (s : stmt) (e : env) : list pointer :=
    match s with
    | Nop => []
    | Seq a b => sem_gen a e ++ sem_gen b e
    | TraceVal p => match eval_place e p with Some b => call_trace b | None => [] end
    | CollectTrace p => match eval_place e p with Some b => List.concat (snd b) | None => [] end
    | TraceGc p => match eval_place e p with Some b => relabel Strong b | None => [] end
    | TraceWeak p => match eval_place e p with Some b => relabel Weak b | None => [] end
    | ForEach src pats body =>
        match t_iter T (i_tycon i) src with
        | Some rs =>
            match resolve_all (i_args i) rs with
            | Some ps =>
                if Nat.eqb (List.length pats) (List.length ps) then
                  flat_map (fun j =>
                              sem_gen body (combine pats (map (fun p => row_binding c p j) ps) ++ e))
                           (seq 0 (max_len c ps))
                else []
            | None => []
            end
        | None => []
        end
    | MatchEnum sc arms =>
        match t_enum T (i_tycon i) sc with
        | Some vt =>
            (fix go (arms : list (string * list string * stmt)) : list pointer :=
               match arms with
               | [] => []
               | (v, pats, b) :: r =>
                   (match assoc v vt with
                    | Some rs =>
                        match resolve_all (i_args i) rs with
                        | Some ps =>
                            if Nat.eqb (List.length pats) (List.length ps) then
                              sem_gen b (combine pats (map (pos_binding c) ps) ++ e)
                            else []
                        | None => []
                        end
                    | None => []
                    end) ++ go r
               end) arms
        | None => []
        end
    | IfConst g body => if beval i rho g then sem_gen body e else []
    | LetTuple pats body =>
        match t_tuple T (i_tycon i) (List.length (i_args i)) with
        | Some rs =>
            match resolve_all (i_args i) rs with
            | Some ps =>
                if Nat.eqb (List.length pats) (List.length ps) then
                  sem_gen body (combine pats (map (pos_binding c) ps) ++ e)
                else []
            | None => []
            end
        | None => []
        end
    | Unknown _ => []
    end.
End Sem.

(** The impl record under which the translated body of [Trace::trace] is interpreted: there
    [self] is the tracer, not a container; no table entry applies to it. *)
Definition td_impl : impl :=
  {| i_id := "<Trace::trace>"; i_tycon := "<Trace::trace>"; i_self_ty := ""; i_args := [];
     i_file := ""; i_gate := []; i_bounds := []; i_consts := []; i_nt_explicit := false;
     i_needs_trace := BTrue; i_body_explicit := true; i_body := Nop |}.

Definition empty_content : content :=
  {| c_pos := fun _ => []; c_nt := fun _ => false; c_own := fun _ => 0 |}.

Definition no_tables : tables :=
  {| t_stored := fun _ _ => None; t_own := fun _ => []; t_iter := fun _ _ => None;
     t_deref := fun _ _ => None; t_field := fun _ _ => None; t_enum := fun _ _ => None;
     t_tuple := fun _ _ => None |}.

(** [cc.trace(value)] with [value : &C]: run the translated default body of [Trace::trace]
    ([td]) with [value] bound and [C::NEEDS_TRACE] the constant of the value's type. *)
Definition td_call (td : stmt) (b : binding) : list pointer :=
  sem_gen no_tables (fun _ => []) td_impl empty_content
          (fun x => String.eqb x "C" && fst b) td [("value", b)].

(** The pointers the (translated) [trace] of impl [i] reports for container value [c]. *)
Definition sem (T : tables) (td : stmt) (i : impl) (c : content) : list pointer :=
  sem_gen T (td_call td) i c (c_nt c) (i_body i) [].

(* ------------------------------------------------------------------------------------ *)
(** * Specification side: every pointer the container value holds                         *)
(* ------------------------------------------------------------------------------------ *)

Definition collect_params (i : impl) : list string :=
  map b_ty (filter b_collect (i_bounds i)).

Definition static_tys (i : impl) : list string :=
  map b_ty (filter b_static (i_bounds i)).

(** [static_collect!]-style impls: the where clause says [SelfType: 'static]. *)
Definition self_static (i : impl) : bool := mem (i_self_ty i) (static_tys i).

Definition stored_positions (T : tables) (i : impl) : list string :=
  if self_static i then []
  else match t_stored T (i_tycon i) (List.length (i_args i)) with
       | Some rs => match resolve_all (i_args i) rs with Some ps => ps | None => [] end
       | None => []
       end.

Definition own_pointers (T : tables) (i : impl) (c : content) : list pointer :=
  map (fun fs => (c_own c (fst fs), snd fs)) (t_own T (i_tycon i)).

Definition all_pointers (T : tables) (i : impl) (c : content) : list pointer :=
  own_pointers T i c ++ flat_map (fun p => List.concat (c_pos c p)) (stored_positions T i).

(** Contents that can exist: a value of a type whose NEEDS_TRACE is false owns no arena pointer
    (that is the meaning of the constant), and neither does a value of a ['static] type. *)
Definition content_ok (i : impl) (c : content) : Prop :=
  (forall p, c_nt c p = false -> Forall (fun e => e = []) (c_pos c p)) /\
  (forall p, In p (static_tys i) -> Forall (fun e => e = []) (c_pos c p)).

(* ------------------------------------------------------------------------------------ *)
(** * The checker                                                                         *)
(* ------------------------------------------------------------------------------------ *)

(** Normal form of the [||]-fragment: [Some None] = constant true, [Some (Some vs)] = the
    disjunction of [v::NEEDS_TRACE] for v in vs, [None] = outside the fragment (fail closed). *)
Fixpoint nf (selfnf : option (option (list string))) (g : bexpr) : option (option (list string)) :=
  match g with
  | BTrue => Some None
  | BFalse => Some (Some [])
  | BVar t => Some (Some [t])
  | BSelf => selfnf
  | BOr a b =>
      match nf selfnf a, nf selfnf b with
      | Some x, Some y =>
          Some (match x, y with Some xs, Some ys => Some (xs ++ ys) | _, _ => None end)
      | _, _ => None
      end
  | BAnd _ _ | BNot _ | BUnknown _ => None
  end.

Definition impl_nf (i : impl) : option (option (list string)) := nf None (i_needs_trace i).

(** Symbolic summary of a statement. *)
Inductive item :=
| IPos (p : string)                  (* every element at position p, exactly once *)
| IRow (x : string)                  (* the current element bound to row variable x *)
| IOwn (f : string) (s : strength).  (* the directly owned pointer field f *)

Inductive sbind := SWhole (p : string) | SRow (p : string).
Definition senv := list (string * sbind).

Definition strength_eqb (a b : strength) : bool :=
  match a, b with Strong, Strong | Weak, Weak => true | _, _ => false end.

Definition item_eqb (a b : item) : bool :=
  match a, b with
  | IPos p, IPos q => String.eqb p q
  | IRow x, IRow y => String.eqb x y
  | IOwn f s, IOwn g t => String.eqb f g && strength_eqb s t
  | _, _ => false
  end.

Fixpoint count_item (x : item) (l : list item) : nat :=
  match l with [] => 0 | y :: r => (if item_eqb x y then 1 else 0) + count_item x r end.

Definition perm_check (a b : list item) : bool :=
  forallb (fun x => Nat.eqb (count_item x a) (count_item x b)) (a ++ b).

Definition item_pos (se : senv) (it : item) : option string :=
  match it with
  | IPos p => Some p
  | IRow x => match assoc x se with Some (SRow p) => Some p | Some (SWhole p) => Some p | None => None end
  | IOwn _ _ => None
  end.

Definition not_row (it : item) : bool := match it with IRow _ => false | _ => true end.

Section Summ.
  Variable T : tables.
  Variable i : impl.

  Definition seval_place (se : senv) (pl : place) : option item :=
    match pl with
    | PVar x => match assoc x se with
                | Some (SWhole p) => Some (IPos p)
                | Some (SRow _) => Some (IRow x)
                | None => None
                end
    | PSelf => match assoc "self" (t_own T (i_tycon i)) with
               | Some s => Some (IOwn "self" s) | None => None end
    | PField f =>
        match assoc f (t_own T (i_tycon i)) with
        | Some s => Some (IOwn f s)
        | None => match t_field T (i_tycon i) f with
                  | Some r => option_map IPos (resolve (i_args i) r)
                  | None => None
                  end
        end
    | PDeref k => match t_deref T (i_tycon i) k with
                  | Some r => option_map IPos (resolve (i_args i) r)
                  | None => None
                  end
    | PUnknown _ => None
    end.

  Definition guard_covers (se : senv) (g : option (list string)) (its : list item) : bool :=
    match g with
    | None => true
    | Some vs => forallb (fun it => match item_pos se it with
                                    | Some p => mem p vs | None => false end) its
    end.

  Fixpoint summ (s : stmt) (se : senv) : option (list item) :=
    match s with
    | Nop => Some []
    | Seq a b => match summ a se, summ b se with
                 | Some x, Some y => Some (x ++ y) | _, _ => None end
    | TraceVal p => option_map (fun it => [it]) (seval_place se p)
    | CollectTrace p => option_map (fun it => [it]) (seval_place se p)
    | TraceGc p => match seval_place se p with
                   | Some (IOwn f Strong) => Some [IOwn f Strong] | _ => None end
    | TraceWeak p => match seval_place se p with
                     | Some (IOwn f Weak) => Some [IOwn f Weak] | _ => None end
    | ForEach src pats body =>
        match t_iter T (i_tycon i) src with
        | Some rs =>
            match resolve_all (i_args i) rs with
            | Some ps =>
                if Nat.eqb (List.length pats) (List.length ps) && nodupb pats then
                  match summ body (combine pats (map SRow ps) ++ se) with
                  | Some its => if perm_check its (map IRow pats) then Some (map IPos ps) else None
                  | None => None
                  end
                else None
            | None => None
            end
        | None => None
        end
    | MatchEnum sc arms =>
        match t_enum T (i_tycon i) sc with
        | Some vt =>
            if nodupb (map (fun a => fst (fst a)) arms) then
              (fix go (arms : list (string * list string * stmt)) : option (list item) :=
                 match arms with
                 | [] => Some []
                 | (v, pats, b) :: r =>
                     match assoc v vt with
                     | Some rs =>
                         match resolve_all (i_args i) rs with
                         | Some ps =>
                             if Nat.eqb (List.length pats) (List.length ps) && nodupb pats then
                               match summ b (combine pats (map SWhole ps) ++ se), go r with
                               | Some x, Some y => if forallb not_row x then Some (x ++ y) else None
                               | _, _ => None
                               end
                             else None
                         | None => None
                         end
                     | None => None
                     end
                 end) arms
            else None
        | None => None
        end
    | IfConst g body =>
        match summ body se, nf (impl_nf i) g with
        | Some its, Some gg => if guard_covers se gg its then Some its else None
        | _, _ => None
        end
    | LetTuple pats body =>
        match t_tuple T (i_tycon i) (List.length (i_args i)) with
        | Some rs =>
            match resolve_all (i_args i) rs with
            | Some ps =>
                if Nat.eqb (List.length pats) (List.length ps) && nodupb pats then
                  match summ body (combine pats (map SWhole ps) ++ se) with
                  | Some x => if forallb not_row x then Some x else None
                  | None => None
                  end
                else None
            | None => None
            end
        | None => None
        end
    | Unknown _ => None
    end.
End Summ.

(** The translated default body of [Trace::trace] must be [value.trace(self)], possibly under
    the guard [if C::NEEDS_TRACE]. *)
Definition is_value_trace (s : stmt) : bool :=
  match s with
  | CollectTrace (PVar x) => String.eqb x "value"
  | _ => false
  end.

Definition td_guard_ok (g : bexpr) : bool :=
  match nf None g with
  | Some None => true
  | Some (Some vs) => negb (Nat.eqb (List.length vs) 0) && forallb (String.eqb "C") vs
  | None => false
  end.

Definition td_ok (td : stmt) : bool :=
  match td with
  | IfConst g b => is_value_trace b && td_guard_ok g
  | s => is_value_trace s
  end.

(** Storage discipline: every position the type stores is bounded by [Collect] or ['static];
    every [Collect]-bounded type is a stored position (once). *)
Definition wf_storage (T : tables) (i : impl) : bool :=
  nodupb (collect_params i) &&
  if self_static i then
    match collect_params i, t_own T (i_tycon i) with [], [] => true | _, _ => false end
  else
    match t_stored T (i_tycon i) (List.length (i_args i)) with
    | Some rs =>
        match resolve_all (i_args i) rs with
        | Some ps =>
            nodupb ps &&
            forallb (fun p => mem p (collect_params i) || mem p (static_tys i)) ps &&
            subsetb (collect_params i) ps
        | None => false
        end
    | None => false
    end.

Definition target_items (T : tables) (i : impl) : list item :=
  map (fun fs => IOwn (fst fs) (snd fs)) (t_own T (i_tycon i)) ++
  map IPos (filter (fun p => mem p (collect_params i)) (stored_positions T i)).

Definition wf_body (T : tables) (i : impl) : bool :=
  match summ T i (i_body i) [] with
  | Some its => perm_check its (target_items T i)
  | None => false
  end.

Definition has_own (T : tables) (i : impl) : bool :=
  match t_own T (i_tycon i) with [] => false | _ => true end.

Definition wf_needs_trace (T : tables) (i : impl) : bool :=
  match impl_nf i with
  | Some None => has_own T i
  | Some (Some vs) => negb (has_own T i) && set_eqb vs (collect_params i)
  | None => false
  end.

Definition wf_impl (T : tables) (td : stmt) (i : impl) : bool :=
  td_ok td && wf_storage T i && wf_body T i && wf_needs_trace T i.

(** Which component fails (for the failure protocol's diagnosis). *)
Definition wf_report (T : tables) (td : stmt) (i : impl) : list string :=
  (if td_ok td then [] else ["trace_default"]) ++
  (if wf_storage T i then [] else ["storage"]) ++
  (if wf_body T i then [] else ["body"]) ++
  (if wf_needs_trace T i then [] else ["needs_trace"]).

(** Impls that claim "no tracing needed": NEEDS_TRACE is the constant false and trace is empty. *)
Definition claims_no_trace (i : impl) : bool :=
  match impl_nf i, i_body i with
  | Some (Some []), Nop => true
  | _, _ => false
  end.

Definition type_params (i : impl) : list bound := filter b_is_param (i_bounds i).

Definition no_trace_ok (i : impl) : bool :=
  self_static i || forallb b_static (type_params i) ||
  String.eqb (i_tycon i) "std::PhantomData".

(* ------------------------------------------------------------------------------------ *)
(** * The object-safe adapter ([DynCollect], [dyn_collect!])                             *)
(* ------------------------------------------------------------------------------------ *)
(** [src/collect.rs] lets a value be traced through a trait object: [<dyn DynCollect as Collect>::trace]
    (and the impl generated by [dyn_collect!] for a user trait) calls [dyn_trace], whose blanket impl
    runs the value's own [Collect::trace] with a FORWARDING tracer wrapped around the real one.  The
    record below is what the translator reads from the source; [through_adapter] is what the real
    tracer then sees for each event the value's own trace produces. *)
Inductive fwd := FwdGc | FwdWeak | FwdNone | FwdUnknown (s : string).

Record dyn_adapter := {
  da_trait_gc_required : bool;     (* [Trace::trace_gc] has no default body *)
  da_trait_weak_required : bool;   (* [Trace::trace_gc_weak] has no default body *)
  da_dyn_collect_body : string;    (* body of [<dyn DynCollect as Collect>::trace], tracer renamed to cc *)
  da_dyn_trace_body : string;      (* body of the blanket [dyn_trace] without its nested items; wrapper renamed to W *)
  da_wrap_gc : fwd;                (* what the forwarding tracer does with a strong pointer *)
  da_wrap_weak : fwd;              (* ... with a weak pointer *)
  da_wrap_other : list string;     (* anything else the forwarding tracer overrides *)
  da_macro_bodies : list string    (* body of [fn trace] in each rule of [__dyn_collect!] *)
}.

Definition fwd_event (f : fwd) (p : ptr) : list pointer :=
  match f with
  | FwdGc => [(p, Strong)]
  | FwdWeak => [(p, Weak)]
  | FwdNone | FwdUnknown _ => []
  end.

Definition through_adapter (a : dyn_adapter) (evs : list pointer) : list pointer :=
  flat_map (fun e => match snd e with
                     | Strong => fwd_event (da_wrap_gc a) (fst e)
                     | Weak => fwd_event (da_wrap_weak a) (fst e)
                     end) evs.

Definition is_fwd_gc (f : fwd) : bool := match f with FwdGc => true | _ => false end.
Definition is_fwd_weak (f : fwd) : bool := match f with FwdWeak => true | _ => false end.

Definition dyn_adapter_ok (a : dyn_adapter) : bool :=
  da_trait_gc_required a && da_trait_weak_required a
  && String.eqb (da_dyn_collect_body a) "self.dyn_trace(cc)"
  && String.eqb (da_dyn_trace_body a) "self.trace(&mut W(cc))"
  && is_fwd_gc (da_wrap_gc a) && is_fwd_weak (da_wrap_weak a)
  && match da_wrap_other a with [] => true | _ => false end
  && match da_macro_bodies a with [] => false | _ => true end
  && forallb (String.eqb "$crate::collect::DynCollect::dyn_trace(self,cc);") (da_macro_bodies a).

(** Tracing a value of impl [i] through the adapter. *)
Definition sem_dyn (T : tables) (td : stmt) (a : dyn_adapter) (i : impl) (c : content) : list pointer :=
  through_adapter a (sem T td i c).
