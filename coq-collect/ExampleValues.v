(** C16 — hand-written example values for the non-vacuity [Example]s of Props/C16.v.
    (Definitions only. They do not depend on the generated file.) *)
From Coq Require Import List String Bool.
From GACollect Require Import ModelDSL ModelTables.
Import ListNotations.
Open Scope string_scope.
Open Scope list_scope.

Definition bnd (t : string) (c s : bool) : bound :=
  {| b_ty := t; b_is_param := true; b_collect := c; b_static := s; b_others := [] |}.

(** [std::collections::HashMap<K, V, S>] as it stands in collect_impl.rs. *)
Definition ex_hashmap : impl :=
  {| i_id := "std::HashMap"; i_tycon := "std::HashMap"; i_self_ty := "HashMap<K,V,S>";
     i_args := ["K"; "V"; "S"]; i_file := "example"; i_gate := ["feature:std"];
     i_bounds := [bnd "K" true false; bnd "V" true false; bnd "S" false true];
     i_consts := []; i_nt_explicit := true;
     i_needs_trace := BOr (BVar "K") (BVar "V");
     i_body_explicit := true;
     i_body := ForEach ISelf ["k"; "v"] (Seq (TraceVal (PVar "k")) (TraceVal (PVar "v"))) |}.

(** The same impl with [cc.trace(k)] deleted. *)
Definition ex_hashmap_no_key : impl :=
  {| i_id := "std::HashMap"; i_tycon := "std::HashMap"; i_self_ty := "HashMap<K,V,S>";
     i_args := ["K"; "V"; "S"]; i_file := "example"; i_gate := ["feature:std"];
     i_bounds := [bnd "K" true false; bnd "V" true false; bnd "S" false true];
     i_consts := []; i_nt_explicit := true;
     i_needs_trace := BOr (BVar "K") (BVar "V");
     i_body_explicit := true;
     i_body := ForEach ISelf ["k"; "v"] (TraceVal (PVar "v")) |}.

(** The same impl claiming [NEEDS_TRACE = V::NEEDS_TRACE]. *)
Definition ex_hashmap_nt_v_only : impl :=
  {| i_id := "std::HashMap"; i_tycon := "std::HashMap"; i_self_ty := "HashMap<K,V,S>";
     i_args := ["K"; "V"; "S"]; i_file := "example"; i_gate := ["feature:std"];
     i_bounds := [bnd "K" true false; bnd "V" true false; bnd "S" false true];
     i_consts := []; i_nt_explicit := true;
     i_needs_trace := BVar "V";
     i_body_explicit := true;
     i_body := ForEach ISelf ["k"; "v"] (Seq (TraceVal (PVar "k")) (TraceVal (PVar "v"))) |}.

(** The same impl without [S: 'static]. *)
Definition ex_hashmap_s_unbounded : impl :=
  {| i_id := "std::HashMap"; i_tycon := "std::HashMap"; i_self_ty := "HashMap<K,V,S>";
     i_args := ["K"; "V"; "S"]; i_file := "example"; i_gate := ["feature:std"];
     i_bounds := [bnd "K" true false; bnd "V" true false; bnd "S" false false];
     i_consts := []; i_nt_explicit := true;
     i_needs_trace := BOr (BVar "K") (BVar "V");
     i_body_explicit := true;
     i_body := ForEach ISelf ["k"; "v"] (Seq (TraceVal (PVar "k")) (TraceVal (PVar "v"))) |}.

(** [Result<T, E>] whose [Err] arm does nothing. *)
Definition ex_result_err_untraced : impl :=
  {| i_id := "std::Result"; i_tycon := "std::Result"; i_self_ty := "Result<T,E>";
     i_args := ["T"; "E"]; i_file := "example"; i_gate := [];
     i_bounds := [bnd "T" true false; bnd "E" true false];
     i_consts := []; i_nt_explicit := true;
     i_needs_trace := BOr (BVar "T") (BVar "E");
     i_body_explicit := true;
     i_body := MatchEnum SSelf [("Ok", ["r"], TraceVal (PVar "r")); ("Err", ["e"], Nop)] |}.

(** A guard by the wrong constant: [if K::NEEDS_TRACE { for (k, v) in self {..} }]. *)
Definition ex_indexmap_wrong_guard : impl :=
  {| i_id := "indexmap::IndexMap"; i_tycon := "indexmap::IndexMap"; i_self_ty := "IndexMap<K,V,S>";
     i_args := ["K"; "V"; "S"]; i_file := "example"; i_gate := ["feature:indexmap"];
     i_bounds := [bnd "K" true false; bnd "V" true false; bnd "S" false true];
     i_consts := []; i_nt_explicit := true;
     i_needs_trace := BOr (BVar "K") (BVar "V");
     i_body_explicit := true;
     i_body := IfConst (BVar "K")
                 (ForEach ISelf ["k"; "v"] (Seq (TraceVal (PVar "k")) (TraceVal (PVar "v")))) |}.

(** A body the translator did not understand. *)
Definition ex_unknown_body : impl :=
  {| i_id := "std::Vec"; i_tycon := "std::Vec"; i_self_ty := "Vec<T>";
     i_args := ["T"]; i_file := "example"; i_gate := [];
     i_bounds := [bnd "T" true false];
     i_consts := []; i_nt_explicit := true; i_needs_trace := BVar "T";
     i_body_explicit := true; i_body := Unknown "self.iter().for_each(|t| cc.trace(t))" |}.

Definition td_real : stmt := IfConst (BVar "C") (CollectTrace (PVar "value")).
Definition td_inverted : stmt := IfConst (BNot (BVar "C")) (CollectTrace (PVar "value")).

(** A HashMap value with two entries: keys hold strong pointers 1 and 2 (the second key also a
    weak pointer 3), values hold a weak pointer 4 and nothing; the hasher is ['static]. *)
Definition ex_content : content :=
  {| c_pos := fun p => if String.eqb p "K" then [[(1, Strong)]; [(2, Strong); (3, Weak)]]
                       else if String.eqb p "V" then [[(4, Weak)]; []]
                       else [];
     c_nt := fun p => String.eqb p "K" || String.eqb p "V";
     c_own := fun _ => 0 |}.
