(** C16 — soundness of the checker: a well-formed impl traces exactly the pointers its
    container value holds, for contents of every size; and its NEEDS_TRACE is the disjunction
    of its Collect-bounded parameters' constants. *)
From Coq Require Import List String Bool Arith Lia Permutation.
From GACollect Require Import ModelDSL.
Import ListNotations.
Open Scope string_scope.
Open Scope list_scope.

(* ------------------------------------------------------------------------------------ *)
(** * Utilities                                                                           *)
(* ------------------------------------------------------------------------------------ *)

Lemma mem_In x l : mem x l = true <-> In x l.
Proof.
  unfold mem. rewrite existsb_exists. split.
  - intros [y [Hy He]]. apply String.eqb_eq in He. subst. exact Hy.
  - intros H. exists x. split; [exact H | apply String.eqb_refl].
Qed.

Lemma mem_false_notin x l : mem x l = false -> ~ In x l.
Proof. intros H Hin. apply mem_In in Hin. congruence. Qed.

Lemma nodupb_NoDup l : nodupb l = true -> NoDup l.
Proof.
  induction l as [|x r IH]; simpl; intros H.
  - constructor.
  - apply andb_true_iff in H. destruct H as [H1 H2]. constructor.
    + apply negb_true_iff in H1. apply mem_false_notin. exact H1.
    + apply IH. exact H2.
Qed.

Lemma subsetb_incl a b : subsetb a b = true -> incl a b.
Proof.
  unfold subsetb. rewrite forallb_forall. intros H x Hx. apply mem_In. apply H. exact Hx.
Qed.

Lemma existsb_incl (rho : string -> bool) a b :
  incl a b -> existsb rho a = true -> existsb rho b = true.
Proof.
  intros Hi H. apply existsb_exists in H. destruct H as [x [Hx Hr]].
  apply existsb_exists. exists x. split; [apply Hi; exact Hx | exact Hr].
Qed.

Lemma existsb_set_eq (rho : string -> bool) a b :
  set_eqb a b = true -> existsb rho a = existsb rho b.
Proof.
  unfold set_eqb. intros H. apply andb_true_iff in H. destruct H as [H1 H2].
  apply subsetb_incl in H1. apply subsetb_incl in H2.
  destruct (existsb rho a) eqn:Ea.
  - symmetry. eapply existsb_incl; eauto.
  - destruct (existsb rho b) eqn:Eb; [|reflexivity].
    rewrite (existsb_incl rho b a H2 Eb) in Ea. discriminate.
Qed.

Lemma concat_all_nil {A} (l : list (list A)) :
  Forall (fun e => e = []) l -> List.concat l = [].
Proof. induction 1; simpl; [reflexivity | subst; simpl; assumption]. Qed.

Lemma Forall_incl_nil {A} (es l : list (list A)) :
  incl es l -> Forall (fun e => e = []) l -> Forall (fun e => e = []) es.
Proof.
  intros Hi Hf. apply Forall_forall. intros x Hx.
  rewrite Forall_forall in Hf. apply Hf. apply Hi. exact Hx.
Qed.

Lemma flat_map_ext_in {A B} (f g : A -> list B) l :
  (forall a, In a l -> f a = g a) -> flat_map f l = flat_map g l.
Proof.
  induction l as [|a r IH]; simpl; intros H; [reflexivity|].
  rewrite H by (left; reflexivity). rewrite IH; [reflexivity|].
  intros b Hb. apply H. right. exact Hb.
Qed.

Lemma flat_map_map {A B C} (f : B -> list C) (g : A -> B) l :
  flat_map f (map g l) = flat_map (fun a => f (g a)) l.
Proof. induction l; simpl; [reflexivity | rewrite IHl; reflexivity]. Qed.

Lemma flat_map_nil_in {A B} (f : A -> list B) l :
  (forall a, In a l -> f a = []) -> flat_map f l = [].
Proof.
  induction l as [|a r IH]; simpl; intros H; [reflexivity|].
  rewrite H by (left; reflexivity). simpl. apply IH. intros b Hb. apply H. right. exact Hb.
Qed.

Lemma Permutation_flat_map_pointwise {A B} (f g : A -> list B) l :
  (forall a, In a l -> Permutation (f a) (g a)) ->
  Permutation (flat_map f l) (flat_map g l).
Proof.
  induction l as [|a r IH]; simpl; intros H; [constructor|].
  apply Permutation_app.
  - apply H. left. reflexivity.
  - apply IH. intros b Hb. apply H. right. exact Hb.
Qed.

Lemma Permutation_flat_map_app {A B} (f g : A -> list B) l :
  Permutation (flat_map (fun a => f a ++ g a) l) (flat_map f l ++ flat_map g l).
Proof.
  induction l as [|a r IH]; simpl; [constructor|].
  rewrite <- !app_assoc.
  apply Permutation_app_head.
  eapply Permutation_trans.
  - apply Permutation_app_head. exact IH.
  - apply Permutation_app_swap_app.
Qed.

Lemma Permutation_flat_map_swap {A B C} (g : A -> B -> list C) (js : list A) (ps : list B) :
  Permutation (flat_map (fun j => flat_map (g j) ps) js)
              (flat_map (fun p => flat_map (fun j => g j p) js) ps).
Proof.
  induction js as [|j r IH]; simpl.
  - rewrite flat_map_nil_in; [constructor | reflexivity].
  - eapply Permutation_trans.
    + apply Permutation_app_head. exact IH.
    + apply Permutation_sym. apply Permutation_flat_map_app.
Qed.

Lemma flat_map_filter_nil {A B} (f : A -> list B) (P : A -> bool) l :
  (forall a, In a l -> P a = false -> f a = []) ->
  flat_map f (filter P l) = flat_map f l.
Proof.
  induction l as [|a r IH]; simpl; intros H; [reflexivity|].
  destruct (P a) eqn:E; simpl.
  - rewrite IH; [reflexivity|]. intros b Hb. apply H. right. exact Hb.
  - rewrite (H a) by (auto). simpl. apply IH. intros b Hb. apply H. right. exact Hb.
Qed.

(** Column lemma: reading a list by index over a long enough range yields the whole list. *)
Lemma column_all (l : list elem) : forall n,
  List.length l <= n ->
  flat_map (fun j => List.concat (opt_elem (nth_error l j))) (seq 0 n) = List.concat l.
Proof.
  induction l as [|a r IH]; intros n Hn.
  - simpl. apply flat_map_nil_in. intros j _. destruct j; reflexivity.
  - destruct n as [|n]; [simpl in Hn; lia|].
    simpl seq. rewrite <- seq_shift. simpl flat_map. rewrite app_nil_r.
    rewrite flat_map_map. simpl.
    rewrite IH by (simpl in Hn; lia). reflexivity.
Qed.

Lemma all_some_length {A} (l : list (option A)) r : all_some l = Some r -> List.length r = List.length l.
Proof.
  revert r. induction l as [|o l IH]; simpl; intros r H.
  - inversion H. reflexivity.
  - destruct o; [|discriminate]. destruct (all_some l); simpl in H; [|discriminate].
    inversion H. simpl. f_equal. apply IH. reflexivity.
Qed.

(* ------------------------------------------------------------------------------------ *)
(** * Items: decidable permutation check                                                  *)
(* ------------------------------------------------------------------------------------ *)

Lemma strength_eqb_eq a b : strength_eqb a b = true <-> a = b.
Proof. destruct a, b; simpl; split; congruence. Qed.

Lemma item_eqb_eq a b : item_eqb a b = true <-> a = b.
Proof.
  destruct a, b; simpl; try (split; [discriminate | congruence]).
  - rewrite String.eqb_eq. split; congruence.
  - rewrite String.eqb_eq. split; congruence.
  - rewrite andb_true_iff, String.eqb_eq, strength_eqb_eq. split.
    + intros [-> ->]. reflexivity.
    + intros H. inversion H. auto.
Qed.

Definition item_eq_dec (a b : item) : {a = b} + {a <> b}.
Proof.
  destruct (item_eqb a b) eqn:E.
  - left. apply item_eqb_eq. exact E.
  - right. intros H. apply item_eqb_eq in H. congruence.
Defined.

Lemma count_item_occ x l : count_item x l = count_occ item_eq_dec l x.
Proof.
  induction l as [|y r IH]; simpl; [reflexivity|].
  destruct (item_eq_dec y x) as [->|Hne].
  - assert (item_eqb x x = true) as -> by (apply item_eqb_eq; reflexivity).
    rewrite IH. reflexivity.
  - assert (item_eqb x y = false) as ->.
    { destruct (item_eqb x y) eqn:E; [|reflexivity]. apply item_eqb_eq in E. congruence. }
    rewrite IH. reflexivity.
Qed.

Lemma perm_check_sound a b : perm_check a b = true -> Permutation a b.
Proof.
  unfold perm_check. rewrite forallb_forall. intros H.
  apply (Permutation_count_occ item_eq_dec). intros x.
  destruct (in_dec item_eq_dec x (a ++ b)) as [Hin|Hnin].
  - specialize (H x Hin). apply Nat.eqb_eq in H.
    rewrite <- !count_item_occ. exact H.
  - assert (~ In x a) as Ha by (intros Hx; apply Hnin; apply in_or_app; left; exact Hx).
    assert (~ In x b) as Hb by (intros Hx; apply Hnin; apply in_or_app; right; exact Hx).
    rewrite (proj1 (count_occ_not_In item_eq_dec a x) Ha).
    rewrite (proj1 (count_occ_not_In item_eq_dec b x) Hb). reflexivity.
Qed.

(* ------------------------------------------------------------------------------------ *)
(** * Constant expressions                                                                *)
(* ------------------------------------------------------------------------------------ *)

Definition nfval (rho : string -> bool) (r : option (list string)) : bool :=
  match r with None => true | Some vs => existsb rho vs end.

Lemma nf_sound rho sv selfnf g r :
  (forall r', selfnf = Some r' -> sv = nfval rho r') ->
  nf selfnf g = Some r -> beval0 rho sv g = nfval rho r.
Proof.
  intros Hs. revert r. induction g; simpl; intros r H; try discriminate.
  - inversion H. reflexivity.
  - inversion H. reflexivity.
  - inversion H. simpl. rewrite orb_false_r. reflexivity.
  - apply Hs. exact H.
  - destruct (nf selfnf g1) as [x|] eqn:E1; [|discriminate].
    destruct (nf selfnf g2) as [y|] eqn:E2; [|discriminate].
    inversion H. subst r. rewrite (IHg1 x eq_refl), (IHg2 y eq_refl).
    destruct x as [xs|], y as [ys|]; simpl.
    + rewrite existsb_app. reflexivity.
    + apply orb_true_r.
    + reflexivity.
    + reflexivity.
Qed.

Lemma impl_nf_sound i rho r :
  impl_nf i = Some r -> needs_trace_val i rho = nfval rho r.
Proof.
  unfold impl_nf, needs_trace_val. intros H.
  eapply nf_sound; [|exact H]. intros r' Hr. discriminate.
Qed.

Lemma guard_sound i rho g r :
  nf (impl_nf i) g = Some r -> beval i rho g = nfval rho r.
Proof.
  unfold beval. intros H. eapply nf_sound; [|exact H].
  intros r' Hr. apply (impl_nf_sound i rho r' Hr).
Qed.

(* ------------------------------------------------------------------------------------ *)
(** * Structural induction on statements (nested through the arms of [MatchEnum])         *)
(* ------------------------------------------------------------------------------------ *)

Section StmtInd.
  Variable P : stmt -> Prop.
  Hypothesis HNop : P Nop.
  Hypothesis HSeq : forall a b, P a -> P b -> P (Seq a b).
  Hypothesis HTraceVal : forall p, P (TraceVal p).
  Hypothesis HCollectTrace : forall p, P (CollectTrace p).
  Hypothesis HTraceGc : forall p, P (TraceGc p).
  Hypothesis HTraceWeak : forall p, P (TraceWeak p).
  Hypothesis HForEach : forall src pats body, P body -> P (ForEach src pats body).
  Hypothesis HMatch : forall sc arms, Forall (fun a => P (snd a)) arms -> P (MatchEnum sc arms).
  Hypothesis HIf : forall g body, P body -> P (IfConst g body).
  Hypothesis HLet : forall pats body, P body -> P (LetTuple pats body).
  Hypothesis HUnknown : forall s, P (Unknown s).

  Fixpoint stmt_ind' (s : stmt) : P s :=
    match s with
    | Nop => HNop
    | Seq a b => HSeq a b (stmt_ind' a) (stmt_ind' b)
    | TraceVal p => HTraceVal p
    | CollectTrace p => HCollectTrace p
    | TraceGc p => HTraceGc p
    | TraceWeak p => HTraceWeak p
    | ForEach src pats body => HForEach src pats body (stmt_ind' body)
    | MatchEnum sc arms =>
        HMatch sc arms
          ((fix go (arms : list (string * list string * stmt)) : Forall (fun a => P (snd a)) arms :=
              match arms with
              | [] => Forall_nil _
              | a :: r =>
                  Forall_cons a
                    (match a as a0 return P (snd a0) with (_, b) => stmt_ind' b end)
                    (go r)
              end) arms)
    | IfConst g body => HIf g body (stmt_ind' body)
    | LetTuple pats body => HLet pats body (stmt_ind' body)
    | Unknown s => HUnknown s
    end.
End StmtInd.

(* ------------------------------------------------------------------------------------ *)
(** * Soundness of the symbolic summary                                                   *)
(* ------------------------------------------------------------------------------------ *)

Local Arguments String.eqb : simpl never.

Lemma existsb_C_guard (f : bool) vs :
  vs <> [] -> forallb (String.eqb "C") vs = true ->
  existsb (fun x => String.eqb x "C" && f) vs = f.
Proof.
  induction vs as [|x r IH]; intros Hne Hall; [congruence|].
  simpl in Hall. apply andb_true_iff in Hall. destruct Hall as [Hx Hr].
  apply String.eqb_eq in Hx. subst x. simpl existsb.
  change (String.eqb "C" "C") with true. simpl andb.
  destruct r as [|y r'].
  - simpl. apply orb_false_r.
  - rewrite IH; [apply orb_diag | discriminate | exact Hr].
Qed.

Lemma existsb_false_In (rho : string -> bool) vs x :
  existsb rho vs = false -> In x vs -> rho x = false.
Proof.
  intros H Hin. destruct (rho x) eqn:E; [|reflexivity].
  assert (existsb rho vs = true) by (apply existsb_exists; exists x; auto). congruence.
Qed.

Section Sound.
  Variable T : tables.
  Variable td : stmt.
  Variable i : impl.
  Variable c : content.
  Hypothesis Htd : td_ok td = true.
  Hypothesis Hnt : forall p, c_nt c p = false -> Forall (fun e => e = []) (c_pos c p).

  Definition good (b : binding) : Prop := fst b = false -> Forall (fun e => e = []) (snd b).

  Lemma value_trace_sound s ct rho b :
    is_value_trace s = true ->
    sem_gen no_tables ct td_impl empty_content rho s [("value", b)] = List.concat (snd b).
  Proof.
    destruct s; simpl; try discriminate. destruct p; try discriminate.
    intros H. apply String.eqb_eq in H. subst x. reflexivity.
  Qed.

  Lemma td_call_sound b : good b -> td_call td b = List.concat (snd b).
  Proof.
    intros Hg. unfold td_call. unfold td_ok in Htd.
    destruct td; try (apply value_trace_sound; exact Htd).
    apply andb_true_iff in Htd. destruct Htd as [Hv Hgd].
    simpl sem_gen. unfold td_guard_ok in Hgd.
    destruct (nf None g) as [r|] eqn:En; [|discriminate].
    assert (beval td_impl (fun x => String.eqb x "C" && fst b) g =
            nfval (fun x => String.eqb x "C" && fst b) r) as ->.
    { unfold beval. eapply nf_sound; [|exact En]. intros r' Hr. discriminate. }
    destruct r as [vs|]; simpl nfval.
    - apply andb_true_iff in Hgd. destruct Hgd as [Hne Hall].
      rewrite existsb_C_guard; [| |exact Hall].
      + destruct (fst b) eqn:Ef.
        * apply value_trace_sound. exact Hv.
        * symmetry. apply concat_all_nil. apply Hg. exact Ef.
      + intros ->. simpl in Hne. discriminate.
    - apply value_trace_sound. exact Hv.
  Qed.

  Definition denote (e : env) (it : item) : list pointer :=
    match it with
    | IPos p => List.concat (c_pos c p)
    | IRow x => match assoc x e with Some b => List.concat (snd b) | None => [] end
    | IOwn f s => [(c_own c f, s)]
    end.

  Inductive env_rel : senv -> env -> Prop :=
  | er_nil : env_rel [] []
  | er_whole x p se e :
      env_rel se e -> env_rel ((x, SWhole p) :: se) ((x, pos_binding c p) :: e)
  | er_row x p es se e :
      env_rel se e -> incl es (c_pos c p) ->
      env_rel ((x, SRow p) :: se) ((x, (c_nt c p, es)) :: e).

  Lemma env_rel_assoc se e x :
    env_rel se e ->
    match assoc x se with
    | Some (SWhole p) => assoc x e = Some (pos_binding c p)
    | Some (SRow p) => exists es, assoc x e = Some (c_nt c p, es) /\ incl es (c_pos c p)
    | None => assoc x e = None
    end.
  Proof.
    induction 1; simpl.
    - reflexivity.
    - destruct (String.eqb x x0); [reflexivity | exact IHenv_rel].
    - destruct (String.eqb x x0); [exists es; split; [reflexivity | assumption] | exact IHenv_rel].
  Qed.

  Lemma good_pos p : good (pos_binding c p).
  Proof. unfold good, pos_binding. simpl. apply Hnt. Qed.

  Lemma good_sub p es : incl es (c_pos c p) -> good (c_nt c p, es).
  Proof.
    unfold good. simpl. intros Hi Hf. eapply Forall_incl_nil; [exact Hi | apply Hnt; exact Hf].
  Qed.

  Lemma good_own f s : good (own_binding c f s).
  Proof. unfold good, own_binding. simpl. discriminate. Qed.

  Lemma place_sound se e pl it :
    env_rel se e -> seval_place T i se pl = Some it ->
    exists b, eval_place T i c e pl = Some b /\ good b /\
              List.concat (snd b) = denote e it /\
              (forall f s, it = IOwn f s -> b = own_binding c f s).
  Proof.
    intros Hr. destruct pl; simpl; intros H.
    - (* PSelf *)
      destruct (assoc "self" (t_own T (i_tycon i))) as [s|]; [|discriminate].
      inversion H. subst it. exists (own_binding c "self" s).
      repeat split; [apply good_own | intros f s0 Heq; inversion Heq; reflexivity].
    - (* PVar *)
      pose proof (env_rel_assoc se e x Hr) as Ha.
      destruct (assoc x se) as [[p|p]|]; [| |discriminate].
      + inversion H. subst it. exists (pos_binding c p).
        repeat split; [exact Ha | apply good_pos | intros; discriminate].
      + inversion H. subst it. destruct Ha as [es [Ha Hi]].
        exists (c_nt c p, es). repeat split.
        * exact Ha.
        * apply good_sub. exact Hi.
        * simpl. rewrite Ha. reflexivity.
        * intros; discriminate.
    - (* PField *)
      destruct (assoc f (t_own T (i_tycon i))) as [s|].
      + inversion H. subst it. exists (own_binding c f s).
        repeat split; [apply good_own | intros f0 s0 Heq; inversion Heq; reflexivity].
      + destruct (t_field T (i_tycon i) f) as [r|]; [|discriminate].
        destruct (resolve (i_args i) r) as [p|]; [|discriminate].
        simpl in H. inversion H. subst it. exists (pos_binding c p).
        repeat split; [apply good_pos | intros; discriminate].
    - (* PDeref *)
      destruct (t_deref T (i_tycon i) k) as [r|]; [|discriminate].
      destruct (resolve (i_args i) r) as [p|]; [|discriminate].
      simpl in H. inversion H. subst it. exists (pos_binding c p).
      repeat split; [apply good_pos | intros; discriminate].
    - discriminate.
  Qed.

  Lemma env_rel_rows pats ps j se e :
    env_rel se e ->
    env_rel (combine pats (map SRow ps) ++ se)
            (combine pats (map (fun p => row_binding c p j) ps) ++ e).
  Proof.
    intros Hr. revert ps. induction pats as [|x pats IH]; intros ps; [exact Hr|].
    destruct ps as [|p ps]; [exact Hr|]. simpl. unfold row_binding at 1.
    apply er_row; [apply IH|].
    destruct (nth_error (c_pos c p) j) as [el|] eqn:En; simpl.
    - intros y [<-|[]]. eapply nth_error_In. exact En.
    - intros y [].
  Qed.

  Lemma env_rel_whole pats ps se e :
    env_rel se e ->
    env_rel (combine pats (map SWhole ps) ++ se)
            (combine pats (map (pos_binding c) ps) ++ e).
  Proof.
    intros Hr. revert ps. induction pats as [|x pats IH]; intros ps; [exact Hr|].
    destruct ps as [|p ps]; [exact Hr|]. simpl. apply er_whole. apply IH.
  Qed.

  Lemma denote_rows (f : string -> binding) pats ps e :
    NoDup pats -> List.length pats = List.length ps ->
    flat_map (denote (combine pats (map f ps) ++ e)) (map IRow pats) =
    flat_map (fun p => List.concat (snd (f p))) ps.
  Proof.
    intros Hnd. revert ps. induction pats as [|x pats IH]; intros ps Hl.
    - destruct ps; [reflexivity | discriminate].
    - destruct ps as [|p ps]; [discriminate|]. simpl in Hl. inversion Hl as [Hl'].
      inversion Hnd as [|? ? Hnin Hnd']. subst.
      simpl. rewrite String.eqb_refl. f_equal.
      rewrite <- (IH Hnd' ps Hl').
      apply flat_map_ext_in. intros it Hit. apply in_map_iff in Hit.
      destruct Hit as [y [<- Hy]]. simpl.
      destruct (String.eqb y x) eqn:E; [|reflexivity].
      apply String.eqb_eq in E. subst y. contradiction.
  Qed.

  Lemma max_len_ge ps p : In p ps -> List.length (c_pos c p) <= max_len c ps.
  Proof.
    induction ps as [|q ps IH]; intros H; [contradiction|].
    change (max_len c (q :: ps)) with (Nat.max (List.length (c_pos c q)) (max_len c ps)).
    destruct H as [->|H]; [lia|]. specialize (IH H). lia.
  Qed.

  Lemma denote_not_row e e' its :
    forallb not_row its = true -> flat_map (denote e') its = flat_map (denote e) its.
  Proof.
    intros H. apply flat_map_ext_in. intros it Hit.
    rewrite forallb_forall in H. specialize (H it Hit).
    destruct it; simpl in *; [reflexivity | discriminate | reflexivity].
  Qed.

  Lemma guard_false_nil se e vs its :
    env_rel se e ->
    existsb (c_nt c) vs = false ->
    guard_covers se (Some vs) its = true ->
    flat_map (denote e) its = [].
  Proof.
    intros Hr Hex Hcov. apply flat_map_nil_in. intros it Hit.
    simpl in Hcov. rewrite forallb_forall in Hcov. specialize (Hcov it Hit).
    destruct (item_pos se it) as [p|] eqn:Ep; [|discriminate].
    apply mem_In in Hcov. pose proof (existsb_false_In _ _ _ Hex Hcov) as Hf.
    destruct it; simpl in *.
    - inversion Ep. subst. apply concat_all_nil. apply Hnt. exact Hf.
    - pose proof (env_rel_assoc se e x Hr) as Ha.
      destruct (assoc x se) as [[q|q]|]; [| |discriminate]; inversion Ep; subst q.
      + rewrite Ha. simpl. apply concat_all_nil. apply Hnt. exact Hf.
      + destruct Ha as [es [Ha Hi]]. rewrite Ha. simpl. apply concat_all_nil.
        eapply Forall_incl_nil; [exact Hi | apply Hnt; exact Hf].
    - discriminate.
  Qed.

  Definition semc := sem_gen T (td_call td) i c (c_nt c).

  Theorem summ_sound : forall s se e its,
    env_rel se e -> summ T i s se = Some its ->
    Permutation (semc s e) (flat_map (denote e) its).
  Proof.
    unfold semc.
    induction s using stmt_ind'; intros se e its Hr Hs; simpl in Hs |- *.
    - (* Nop *) inversion Hs. constructor.
    - (* Seq *)
      destruct (summ T i s1 se) as [x|] eqn:E1; [|discriminate].
      destruct (summ T i s2 se) as [y|] eqn:E2; [|discriminate].
      inversion Hs. subst its. rewrite flat_map_app.
      apply Permutation_app; [eapply IHs1 | eapply IHs2]; eauto.
    - (* TraceVal *)
      destruct (seval_place T i se p) as [it|] eqn:Ep; [|discriminate].
      simpl in Hs. inversion Hs. subst its.
      destruct (place_sound se e p it Hr Ep) as [b [Hb [Hg [Hd _]]]].
      rewrite Hb. rewrite td_call_sound by exact Hg. simpl. rewrite app_nil_r.
      rewrite Hd. apply Permutation_refl.
    - (* CollectTrace *)
      destruct (seval_place T i se p) as [it|] eqn:Ep; [|discriminate].
      simpl in Hs. inversion Hs. subst its.
      destruct (place_sound se e p it Hr Ep) as [b [Hb [Hg [Hd _]]]].
      rewrite Hb. simpl. rewrite app_nil_r. rewrite Hd. apply Permutation_refl.
    - (* TraceGc *)
      destruct (seval_place T i se p) as [it|] eqn:Ep; [|discriminate].
      destruct it as [| |f s]; try discriminate. destruct s; [|discriminate].
      inversion Hs. subst its.
      destruct (place_sound se e p _ Hr Ep) as [b [Hb [Hg [Hd Ho]]]].
      rewrite Hb. rewrite (Ho f Strong eq_refl). apply Permutation_refl.
    - (* TraceWeak *)
      destruct (seval_place T i se p) as [it|] eqn:Ep; [|discriminate].
      destruct it as [| |f s]; try discriminate. destruct s; [discriminate|].
      inversion Hs. subst its.
      destruct (place_sound se e p _ Hr Ep) as [b [Hb [Hg [Hd Ho]]]].
      rewrite Hb. rewrite (Ho f Weak eq_refl). apply Permutation_refl.
    - (* ForEach *)
      destruct (t_iter T (i_tycon i) src) as [rs|]; [|discriminate].
      destruct (resolve_all (i_args i) rs) as [ps|]; [|discriminate].
      destruct (Nat.eqb (List.length pats) (List.length ps) && nodupb pats) eqn:Ec; [|discriminate].
      apply andb_true_iff in Ec. destruct Ec as [El End].
      rewrite El. apply Nat.eqb_eq in El. apply nodupb_NoDup in End.
      destruct (summ T i s (combine pats (map SRow ps) ++ se)) as [bits|] eqn:Eb; [|discriminate].
      destruct (perm_check bits (map IRow pats)) eqn:Epc; [|discriminate].
      inversion Hs. subst its. apply perm_check_sound in Epc.
      rewrite flat_map_map. simpl denote.
      eapply Permutation_trans.
      + apply Permutation_flat_map_pointwise. intros j _.
        eapply Permutation_trans.
        * eapply IHs; [apply env_rel_rows; exact Hr | exact Eb].
        * eapply Permutation_trans.
          -- apply Permutation_flat_map. exact Epc.
          -- rewrite (denote_rows (fun p => row_binding c p j)) by assumption.
             apply Permutation_refl.
      + simpl. eapply Permutation_trans.
        * apply (Permutation_flat_map_swap
                   (fun j p => List.concat (opt_elem (nth_error (c_pos c p) j)))).
        * erewrite flat_map_ext_in; [apply Permutation_refl|].
          intros p Hp. apply column_all. apply max_len_ge. exact Hp.
    - (* MatchEnum *)
      destruct (t_enum T (i_tycon i) sc) as [vt|]; [|discriminate].
      destruct (nodupb (map (fun a => fst (fst a)) arms)); [|discriminate].
      revert its Hs. induction H as [|a r Ha Hrest IH]; intros its Hs.
      + inversion Hs. constructor.
      + destruct a as [[v pats] b]. simpl in Ha.
        destruct (assoc v vt) as [rs|]; [|discriminate].
        destruct (resolve_all (i_args i) rs) as [ps|]; [|discriminate].
        destruct (Nat.eqb (List.length pats) (List.length ps) && nodupb pats) eqn:Ec; [|discriminate].
        apply andb_true_iff in Ec. destruct Ec as [El End]. rewrite El.
        destruct (summ T i b (combine pats (map SWhole ps) ++ se)) as [x|] eqn:Eb; [|discriminate].
        match type of Hs with
        | match ?G with _ => _ end = _ => destruct G as [y|] eqn:Eg; [|discriminate]
        end.
        destruct (forallb not_row x) eqn:Enr; [|discriminate].
        inversion Hs. subst its. rewrite flat_map_app.
        apply Permutation_app.
        * rewrite <- (denote_not_row e (combine pats (map (pos_binding c) ps) ++ e) x Enr).
          eapply Ha; [apply env_rel_whole; exact Hr | exact Eb].
        * apply IH. reflexivity.
    - (* IfConst *)
      destruct (summ T i s se) as [bits|] eqn:Eb; [|discriminate].
      destruct (nf (impl_nf i) g) as [gg|] eqn:Eg; [|discriminate].
      destruct (guard_covers se gg bits) eqn:Ecov; [|discriminate].
      inversion Hs. subst its.
      rewrite (guard_sound i (c_nt c) g gg Eg).
      destruct gg as [vs|]; simpl nfval.
      + destruct (existsb (c_nt c) vs) eqn:Eex.
        * eapply IHs; eauto.
        * rewrite (guard_false_nil se e vs bits Hr Eex Ecov). constructor.
      + eapply IHs; eauto.
    - (* LetTuple *)
      destruct (t_tuple T (i_tycon i) (List.length (i_args i))) as [rs|]; [|discriminate].
      destruct (resolve_all (i_args i) rs) as [ps|]; [|discriminate].
      destruct (Nat.eqb (List.length pats) (List.length ps) && nodupb pats) eqn:Ec; [|discriminate].
      apply andb_true_iff in Ec. destruct Ec as [El End]. rewrite El.
      destruct (summ T i s (combine pats (map SWhole ps) ++ se)) as [x|] eqn:Eb; [|discriminate].
      destruct (forallb not_row x) eqn:Enr; [|discriminate].
      inversion Hs. subst its.
      rewrite <- (denote_not_row e (combine pats (map (pos_binding c) ps) ++ e) x Enr).
      eapply IHs; [apply env_rel_whole; exact Hr | exact Eb].
    - (* Unknown *) discriminate.
  Qed.
End Sound.

(* ------------------------------------------------------------------------------------ *)
(** * The generic theorem                                                                 *)
(* ------------------------------------------------------------------------------------ *)

Lemma flat_map_singleton {A B} (f : A -> B) l : flat_map (fun x => [f x]) l = map f l.
Proof. induction l; simpl; [reflexivity | rewrite IHl; reflexivity]. Qed.

Lemma wf_storage_static T i p :
  wf_storage T i = true -> In p (stored_positions T i) ->
  mem p (collect_params i) = false -> In p (static_tys i).
Proof.
  unfold wf_storage, stored_positions. intros H Hin Hm.
  apply andb_true_iff in H. destruct H as [_ H].
  destruct (self_static i); [contradiction|].
  destruct (t_stored T (i_tycon i) (List.length (i_args i))) as [rs|]; [|contradiction].
  destruct (resolve_all (i_args i) rs) as [ps|]; [|contradiction].
  apply andb_true_iff in H. destruct H as [H _].
  apply andb_true_iff in H. destruct H as [_ H].
  rewrite forallb_forall in H. specialize (H p Hin). rewrite Hm in H. simpl in H.
  apply mem_In. exact H.
Qed.

Theorem wf_exact T td i :
  wf_impl T td i = true ->
  (forall c, content_ok i c -> Permutation (sem T td i c) (all_pointers T i c)) /\
  (forall rho, needs_trace_val i rho = has_own T i || existsb rho (collect_params i)).
Proof.
  unfold wf_impl. intros H.
  apply andb_true_iff in H. destruct H as [H Hn].
  apply andb_true_iff in H. destruct H as [H Hb].
  apply andb_true_iff in H. destruct H as [Htd Hst].
  split.
  - intros c [Hnt Hstat]. unfold wf_body in Hb.
    destruct (summ T i (i_body i) []) as [its|] eqn:Es; [|discriminate].
    apply perm_check_sound in Hb.
    eapply Permutation_trans.
    + apply (summ_sound T td i c Htd Hnt (i_body i) [] [] its); [constructor | exact Es].
    + eapply Permutation_trans.
      * apply Permutation_flat_map. exact Hb.
      * unfold target_items, all_pointers, own_pointers. rewrite flat_map_app.
        rewrite !flat_map_map. simpl.
        rewrite (flat_map_singleton (fun fs : string * strength => (c_own c (fst fs), snd fs))).
        rewrite flat_map_filter_nil; [apply Permutation_refl|].
        intros p Hin Hm. apply concat_all_nil. apply Hstat.
        eapply wf_storage_static; eauto.
  - intros rho. unfold wf_needs_trace in Hn.
    destruct (impl_nf i) as [[vs|]|] eqn:En; [| |discriminate].
    + apply andb_true_iff in Hn. destruct Hn as [Ho Hs].
      apply negb_true_iff in Ho. rewrite Ho. simpl.
      rewrite (impl_nf_sound i rho _ En). simpl. apply existsb_set_eq. exact Hs.
    + rewrite Hn. rewrite (impl_nf_sound i rho _ En). reflexivity.
Qed.

(** Lifting a [forallb] over the finite regenerated list of impls. *)
Corollary all_wf_exact T td (impls : list impl) (scope : impl -> bool) :
  forallb (wf_impl T td) (filter scope impls) = true ->
  forall i, In i impls -> scope i = true ->
    (forall c, content_ok i c -> Permutation (sem T td i c) (all_pointers T i c)) /\
    (forall rho, needs_trace_val i rho = has_own T i || existsb rho (collect_params i)).
Proof.
  intros H i Hin Hsc. apply wf_exact.
  rewrite forallb_forall in H. apply H. apply filter_In. split; assumption.
Qed.

(** Impls claiming that no tracing is needed. *)
Lemma no_trace_static (impls : list impl) (scope : impl -> bool) :
  forallb (fun i => negb (claims_no_trace i) || no_trace_ok i) (filter scope impls) = true ->
  forall i, In i impls -> scope i = true -> claims_no_trace i = true ->
    self_static i = true \/
    Forall (fun b => b_static b = true) (type_params i) \/
    i_tycon i = "std::PhantomData".
Proof.
  intros H i Hin Hsc Hcl. rewrite forallb_forall in H.
  specialize (H i (proj2 (filter_In scope i impls) (conj Hin Hsc))).
  rewrite Hcl in H. simpl in H. unfold no_trace_ok in H.
  apply orb_true_iff in H. destruct H as [H|H].
  - apply orb_true_iff in H. destruct H as [H|H]; [left; exact H|].
    right. left. apply Forall_forall. rewrite forallb_forall in H. exact H.
  - right. right. apply String.eqb_eq. exact H.
Qed.

(** A well-formed impl that claims "no trace" stores no position that could hold a pointer:
    every stored position is ['static]. *)
Lemma no_trace_stores_static T td i :
  wf_impl T td i = true -> claims_no_trace i = true ->
  has_own T i = false /\ collect_params i = [] /\
  forall p, In p (stored_positions T i) -> In p (static_tys i).
Proof.
  unfold wf_impl, claims_no_trace. intros H Hc.
  apply andb_true_iff in H. destruct H as [H Hn].
  apply andb_true_iff in H. destruct H as [H _].
  apply andb_true_iff in H. destruct H as [_ Hst].
  unfold wf_needs_trace in Hn.
  destruct (impl_nf i) as [[[|v vs]|]|]; try discriminate.
  apply andb_true_iff in Hn. destruct Hn as [Ho Hs].
  apply negb_true_iff in Ho.
  assert (collect_params i = []) as Hcp.
  { unfold set_eqb in Hs. apply andb_true_iff in Hs. destruct Hs as [_ Hs].
    destruct (collect_params i) as [|x r]; [reflexivity|]. simpl in Hs. discriminate. }
  repeat split; [exact Ho | exact Hcp |].
  intros p Hp. eapply wf_storage_static; eauto. rewrite Hcp. reflexivity.
Qed.

(* ------------------------------------------------------------------------------------ *)
(** * The object-safe adapter forwards every event unchanged                             *)
(* ------------------------------------------------------------------------------------ *)
Lemma adapter_identity :
  forall a, dyn_adapter_ok a = true -> forall evs, through_adapter a evs = evs.
Proof.
  intros a Hok evs. unfold dyn_adapter_ok in Hok.
  repeat (apply andb_prop in Hok; destruct Hok as [Hok ?]).
  match goal with Hg : is_fwd_gc (da_wrap_gc a) = true |- _ => rename Hg into Hgc end.
  match goal with Hw : is_fwd_weak (da_wrap_weak a) = true |- _ => rename Hw into Hwk end.
  unfold through_adapter.
  destruct (da_wrap_gc a); try discriminate. destruct (da_wrap_weak a); try discriminate.
  induction evs as [|[p [|]] evs IH]; [reflexivity| |];
    simpl; f_equal; exact IH.
Qed.

Lemma dyn_exact :
  forall (T : tables) (td : stmt) (a : dyn_adapter) (i : impl),
    dyn_adapter_ok a = true -> wf_impl T td i = true ->
    forall c, content_ok i c -> Permutation (sem_dyn T td a i c) (all_pointers T i c).
Proof.
  intros T td a i Ha Hwf c Hc. unfold sem_dyn. rewrite (adapter_identity a Ha).
  exact (proj1 (wf_exact T td i Hwf) c Hc).
Qed.
