(** C16 — what the semantics knows about each type constructor of the real crate.
    This is the "modelled, not verified" table: which positions a container stores, which
    iteration / dereference / match constructs are TOTAL over them (std and third-party iterators
    visit every element exactly once), and which types hold an arena pointer directly.
    Every row has a behavioural twin in /verif/harness-collect.  A type constructor without a
    row has no semantics: [wf_impl] is false for it (fail closed). *)
From Coq Require Import List String Bool Arith.
From GACollect Require Import ModelDSL.
Import ListNotations.
Open Scope string_scope.
Open Scope list_scope.

Definition seq1 : list string :=                 (* C<T>: stores T, iterable *)
  ["std::Vec"; "std::VecDeque"; "std::LinkedList"; "std::BTreeSet"; "std::BinaryHeap";
   "slice"; "array"; "hashbrown::HashTable"].
Definition set_s : list string :=                (* C<T, S>: stores T and the hasher S *)
  ["std::HashSet"; "hashbrown::HashSet"; "indexmap::IndexSet"].
Definition map_s : list string :=                (* C<K, V, S> *)
  ["std::HashMap"; "hashbrown::HashMap"; "indexmap::IndexMap"].
Definition map_2 : list string := ["std::BTreeMap"].            (* C<K, V> *)
Definition values_only : list string :=          (* C<K, V>: stores only V; K is a phantom key *)
  ["slotmap::SlotMap"; "enum_map::EnumMap"].
Definition smart_ptr : list string := ["std::Box"; "std::Rc"; "std::Arc"].
Definition static_wrap1 : list string :=         (* one stored position, impl demands 'static *)
  ["ref_static"; "std::Cell"; "std::RefCell"; "crate::Static"].

Definition stored_tbl (tycon : string) (nargs : nat) : option (list posref) :=
  if String.eqb tycon "tuple" then Some (map PArg (seq 0 nargs))
  else if mem tycon seq1 then Some [PArg 0]
  else if mem tycon set_s then Some [PArg 0; PArg 1]
  else if mem tycon map_s then Some [PArg 0; PArg 1; PArg 2]
  else if mem tycon map_2 then Some [PArg 0; PArg 1]
  else if mem tycon values_only then Some [PArg 1]
  else if String.eqb tycon "smallvec::SmallVec" then Some [PAssoc 0 "Item"]
  else if mem tycon smart_ptr then Some [PArg 0]
  else if mem tycon ["crate::Lock"; "crate::RefLock"; "crate::OnceLock"] then Some [PArg 0]
  else if String.eqb tycon "std::Option" then Some [PArg 0]
  else if String.eqb tycon "std::Result" then Some [PArg 0; PArg 1]
  else if String.eqb tycon "crate::SliceWithHeader" then Some [PArg 0; PArg 1]
  else if mem tycon static_wrap1 then Some [PArg 0]
  else if String.eqb tycon "std::PhantomData" then Some []     (* a ZST: stores nothing *)
  else if mem tycon ["crate::Gc"; "crate::GcWeak"; "crate::ZstCache"; "crate::DynamicRootSet"]
       then Some []                                            (* only the pointer itself *)
  else None.

Definition own_tbl (tycon : string) : list (string * strength) :=
  if String.eqb tycon "crate::Gc" then [("self", Strong)]
  else if String.eqb tycon "crate::GcWeak" then [("self", Weak)]
  else if String.eqb tycon "crate::ZstCache" then [("cached_ptr", Strong)]
  else if String.eqb tycon "crate::DynamicRootSet" then [("0", Strong)]
  else [].

Definition iter_tbl (tycon : string) (src : iter_src) : option (list posref) :=
  let whole := match src with
               | ISelf => true
               | IMethod m => String.eqb m "iter"
               | _ => false
               end in
  if mem tycon seq1 || mem tycon set_s then
    if whole then Some [PArg 0] else None
  else if String.eqb tycon "smallvec::SmallVec" then
    if whole then Some [PAssoc 0 "Item"] else None
  else if mem tycon map_s || mem tycon map_2 then
    if whole then Some [PArg 0; PArg 1]
    else match src with
         | IMethod m => if String.eqb m "values" then Some [PArg 1]
                        else if String.eqb m "keys" then Some [PArg 0] else None
         | _ => None
         end
  else if mem tycon values_only then
    match src with
    | IMethod m => if String.eqb m "values" then Some [PArg 1] else None
    | _ => None
    end
  else if String.eqb tycon "crate::SliceWithHeader" then
    match src with
    | IField f => if String.eqb f "slice" then Some [PArg 1] else None
    | IFieldMethod f m => if String.eqb f "slice" && String.eqb m "iter" then Some [PArg 1] else None
    | _ => None
    end
  else None.

Definition deref_tbl (tycon : string) (k : deref_kind) : option posref :=
  if mem tycon smart_ptr then
    match k with DStarStar | DAsRef => Some (PArg 0) | _ => None end
  else if String.eqb tycon "crate::RefLock" then
    match k with DBorrow => Some (PArg 0) | _ => None end
  else if String.eqb tycon "crate::Lock" then
    match k with DGetCopy => Some (PArg 0) | _ => None end
  else None.

Definition field_tbl (tycon f : string) : option posref :=
  if String.eqb tycon "crate::SliceWithHeader" && String.eqb f "header" then Some (PArg 0)
  else None.

Definition option_like : list (string * list posref) := [("Some", [PArg 0]); ("None", [])].

Definition enum_tbl (tycon : string) (sc : scrut) : option (list (string * list posref)) :=
  if String.eqb tycon "std::Option" then
    match sc with
    | SSelf => Some option_like
    | SMethod m => if String.eqb m "as_ref" then Some option_like else None
    | _ => None
    end
  else if String.eqb tycon "std::Result" then
    match sc with
    | SSelf => Some [("Ok", [PArg 0]); ("Err", [PArg 1])]
    | SMethod m => if String.eqb m "as_ref" then Some [("Ok", [PArg 0]); ("Err", [PArg 1])] else None
    | _ => None
    end
  else if String.eqb tycon "crate::OnceLock" then
    match sc with
    | SMethod m => if String.eqb m "get" then Some option_like else None
    | _ => None
    end
  else None.

Definition tuple_tbl (tycon : string) (nargs : nat) : option (list posref) :=
  if String.eqb tycon "tuple" then Some (map PArg (seq 0 nargs)) else None.

Definition tables_real : tables :=
  {| t_stored := stored_tbl; t_own := own_tbl; t_iter := iter_tbl; t_deref := deref_tbl;
     t_field := field_tbl; t_enum := enum_tbl; t_tuple := tuple_tbl |}.

(** Impls of the crate that are NOT container impls in the sense of C16 and are excluded by
    name: the private slot table of [DynamicRootSet] (property C14's model covers it; the
    public [DynamicRootSet] handle itself IS checked here) and the [dyn DynCollect] forwarding
    impl (it forwards to the erased type's own [trace]; there is no storage position to check). *)
Definition out_of_scope : list string :=
  ["crate::Inner"; "crate::Slot"; "crate::Slots"; "dyn:DynCollect"].

Definition in_scope (i : impl) : bool := negb (mem (i_tycon i) out_of_scope).

(** The type constructors named in the property statement: each must have an impl. *)
Definition required_tycons : list string :=
  ["std::Option"; "std::Result"; "array"; "slice"; "std::Box"; "std::Rc"; "std::Arc";
   "std::Vec"; "std::VecDeque"; "std::LinkedList"; "std::BinaryHeap"; "std::BTreeMap";
   "std::BTreeSet"; "std::HashMap"; "std::HashSet"; "crate::Lock"; "crate::RefLock";
   "crate::OnceLock"; "crate::SliceWithHeader";
   "hashbrown::HashMap"; "hashbrown::HashSet"; "hashbrown::HashTable";
   "indexmap::IndexMap"; "indexmap::IndexSet"; "slotmap::SlotMap"; "smallvec::SmallVec";
   "enum_map::EnumMap"; "crate::Gc"; "crate::GcWeak"].

Definition required_ids : list string :=
  required_tycons ++
  ["tuple/1"; "tuple/2"; "tuple/3"; "tuple/4"; "tuple/5"; "tuple/6"; "tuple/7"; "tuple/8";
   "tuple/9"; "tuple/10"; "tuple/11"; "tuple/12"; "tuple/13"; "tuple/14"; "tuple/15"; "tuple/16"].

Definition covers (impls : list impl) : bool :=
  forallb (fun t => existsb (fun i => String.eqb (i_id i) t && in_scope i) impls) required_ids.
