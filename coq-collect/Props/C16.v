(** Property C16 — provided Collect impls for containers are exact in every position.

    [impls], [trace_default] are REGENERATED from /repo's working tree on every run
    (Gen/GenCollectImpls.v); [tables_real] is the hand-written table of total iteration
    constructs (modelled, not verified; twin-tested by /verif/harness-collect). *)
From Coq Require Import List String Bool Permutation.
From GACollect Require Import ModelDSL ModelTables Proofs TableProofs ExampleValues.
From GACollect.Gen Require Import GenCollectImpls.
Import ListNotations.
Open Scope string_scope.
Open Scope list_scope.

(** Generic lemma, for ANY tables, ANY translated [Trace::trace] body, ANY impl record and
    contents of EVERY size: a well-formed impl reports exactly the pointers the container value
    holds (as a multiset, with the right strength), and its NEEDS_TRACE is the disjunction of the
    NEEDS_TRACE of its Collect-bounded parameters (constant true for the pointer types). *)
Theorem C16_wf_exact :
  forall (T : tables) (td : stmt) (i : impl),
    wf_impl T td i = true ->
    (forall c, content_ok i c -> Permutation (sem T td i c) (all_pointers T i c)) /\
    (forall rho, needs_trace_val i rho = has_own T i || existsb rho (collect_params i)).
Proof. exact wf_exact. Qed.
Print Assumptions C16_wf_exact.

(** Every impl of the current source tree (outside the four named exclusions) is well-formed. *)
Theorem C16_all_wf :
  forallb (wf_impl tables_real trace_default) (filter in_scope impls) = true.
Proof. exact all_wf. Qed.
Print Assumptions C16_all_wf.

(** Hence: the property, for every provided impl and every container content. *)
Theorem C16_exact_every_impl :
  forall i, In i impls -> in_scope i = true ->
    (forall c, content_ok i c ->
       Permutation (sem tables_real trace_default i c) (all_pointers tables_real i c)) /\
    (forall rho, needs_trace_val i rho = has_own tables_real i || existsb rho (collect_params i)).
Proof. exact exact_all. Qed.
Print Assumptions C16_exact_every_impl.

(** ... also through a trait object: for every provided impl, tracing the value as [dyn DynCollect]
    (or as a user trait object made collectable with [dyn_collect!]) hands the real tracer exactly
    the same pointers with the same strengths -- the forwarding tracer of [src/collect.rs], as read
    from the current source, passes strong pointers on as strong and weak ones as weak, overrides
    nothing else, and [Trace] gives neither method a default body. *)
Theorem C16_dyn_adapter_exact :
  dyn_adapter_ok dyn_adapter_real = true /\
  (forall a evs, dyn_adapter_ok a = true -> through_adapter a evs = evs) /\
  (forall i, In i impls -> in_scope i = true ->
     forall c, content_ok i c ->
       Permutation (sem_dyn tables_real trace_default dyn_adapter_real i c) (all_pointers tables_real i c)).
Proof. exact (conj dyn_adapter_check (conj (fun a evs H => adapter_identity a H evs) dyn_exact_all)). Qed.
Print Assumptions C16_dyn_adapter_exact.

(** Impls that claim "no tracing needed" (NEEDS_TRACE = false and an empty trace) exist only for
    types that cannot contain arena pointers: the where clause says [Self: 'static], or every
    type parameter is bounded ['static] (vacuous when there is none), or the type is
    [PhantomData<T>] — the one named exception: it is a ZST and stores nothing.  In every case
    the type holds no pointer field and every position it stores is ['static]. *)
Theorem C16_no_trace_only_static :
  forall i, In i impls -> in_scope i = true -> claims_no_trace i = true ->
    (self_static i = true \/
     Forall (fun b => b_static b = true) (type_params i) \/
     i_tycon i = "std::PhantomData") /\
    has_own tables_real i = false /\ collect_params i = [] /\
    (forall p, In p (stored_positions tables_real i) -> In p (static_tys i)).
Proof. exact no_trace_all. Qed.
Print Assumptions C16_no_trace_only_static.

(** Every type constructor named in the property statement (and every tuple arity 1..16) has an
    impl in the list, so deleting one is noticed. *)
Theorem C16_covers_named_types :
  forall t, In t required_ids ->
    exists i, In i impls /\ i_id i = t /\ in_scope i = true.
Proof. exact covers_all. Qed.
Print Assumptions C16_covers_named_types.

(* ---- Non-vacuity and discrimination ------------------------------------------------- *)

(** The HashMap impl record is well-formed ... *)
Example ex_hashmap_wf : wf_impl tables_real td_real ex_hashmap = true.
Proof. vm_compute. reflexivity. Qed.

(** ... a concrete, non-trivial content satisfies the hypothesis of the theorem ... *)
Example ex_content_ok : content_ok ex_hashmap ex_content.
Proof.
  split.
  - intros p H. unfold ex_content in *. simpl in *.
    destruct (String.eqb p "K"); [discriminate|].
    destruct (String.eqb p "V"); [discriminate|]. constructor.
  - intros p H. simpl in H. destruct H as [<-|[]]. vm_compute. constructor.
Qed.

(** ... on which the translated trace reports all four pointers with their strengths ... *)
Example ex_hashmap_sem :
  sem tables_real td_real ex_hashmap ex_content =
  [(1, Strong); (4, Weak); (2, Strong); (3, Weak)] /\
  all_pointers tables_real ex_hashmap ex_content =
  [(1, Strong); (2, Strong); (3, Weak); (4, Weak)].
Proof. split; vm_compute; reflexivity. Qed.

(** ... whereas the checker REJECTS the impl with [cc.trace(k)] deleted, and on the same
    content that impl misses pointers 1, 2 and 3. *)
Example ex_broken_not_wf : wf_impl tables_real td_real ex_hashmap_no_key = false.
Proof. vm_compute. reflexivity. Qed.

Example ex_broken_misses :
  sem tables_real td_real ex_hashmap_no_key ex_content = [(4, Weak)].
Proof. vm_compute. reflexivity. Qed.

(** The checker also rejects: a too-weak NEEDS_TRACE, a missing ['static] on the hasher, an
    untraced [Err] arm, a guard by the wrong constant, an [Unknown] body (fail closed), and
    every impl if the short-circuit of [Trace::trace] is inverted. *)
Example ex_rejects :
  wf_impl tables_real td_real ex_hashmap_nt_v_only = false /\
  wf_impl tables_real td_real ex_hashmap_s_unbounded = false /\
  wf_impl tables_real td_real ex_result_err_untraced = false /\
  wf_impl tables_real td_real ex_indexmap_wrong_guard = false /\
  wf_impl tables_real td_real ex_unknown_body = false /\
  wf_impl tables_real td_inverted ex_hashmap = false.
Proof. vm_compute. repeat split; reflexivity. Qed.

(** The semantics really depends on the short-circuit: inverted, nothing is traced. *)
Example ex_inverted_sem : sem tables_real td_inverted ex_hashmap ex_content = [].
Proof. vm_compute. reflexivity. Qed.

(** The generated list is not empty and not all filtered out. *)
Example ex_scope_nonempty : 60 <= List.length (filter in_scope impls).
Proof. vm_compute. repeat constructor. Qed.

(** The adapter checker discriminates: a forwarding tracer that reports weak pointers as strong (they
    would be retained), or drops them (their targets would be freed under the holder), is rejected,
    and its [through_adapter] visibly differs. *)
Example ex_adapter_rejects :
  let weak_as_strong := {| da_trait_gc_required := true; da_trait_weak_required := true;
                           da_dyn_collect_body := "self.dyn_trace(cc)"; da_dyn_trace_body := "self.trace(&mut W(cc))";
                           da_wrap_gc := FwdGc; da_wrap_weak := FwdGc; da_wrap_other := [];
                           da_macro_bodies := ["$crate::collect::DynCollect::dyn_trace(self,cc);"] |} in
  let weak_dropped := {| da_trait_gc_required := true; da_trait_weak_required := false;
                         da_dyn_collect_body := "self.dyn_trace(cc)"; da_dyn_trace_body := "self.trace(&mut W(cc))";
                         da_wrap_gc := FwdGc; da_wrap_weak := FwdUnknown "missing"; da_wrap_other := [];
                         da_macro_bodies := ["$crate::collect::DynCollect::dyn_trace(self,cc);"] |} in
  dyn_adapter_ok weak_as_strong = false /\ dyn_adapter_ok weak_dropped = false
  /\ through_adapter weak_as_strong [(1, Strong); (2, Weak)] = [(1, Strong); (2, Strong)]
  /\ through_adapter weak_dropped [(1, Strong); (2, Weak)] = [(1, Strong)].
Proof. vm_compute. repeat split. Qed.
