//! C01-style oracle shared by the run-time probes of /verif/probes/c13 (included there with
//! `#[path = "../../harness-api/src/oracle.rs"] mod oracle;`) and by the C19 twin.
//!
//! A `Payload` is a `'static` value with a destructor that counts, per id, how often it ran. A probe
//! stores a freshly allocated `Gc<Payload>` through the `Write` it obtained (after the holder has been
//! fully marked, i.e. is black), runs `finish_cycle` twice and then asks `expect_alive(id)` *before*
//! it dereferences anything: if the destructor already ran although the pointer is still reachable
//! from the root, the process prints `C01-VIOLATION ...` and exits with code 3 (no freed memory is
//! ever read). Exit code 0 = oracle held. Any other exit code = the probe itself is broken.
#![allow(dead_code)]

use gc_arena::{Collect, Gc, Mutation};
use std::cell::RefCell;

thread_local! {
    // Harness-side bookkeeping only (the crate under test has no thread-locals; see C20).
    static DROPS: RefCell<Vec<u32>> = RefCell::new(Vec::new());
}

pub const EXIT_VIOLATION: i32 = 3;

#[derive(Collect, Debug)]
#[collect(require_static)]
pub struct Payload {
    pub id: usize,
    pub value: u64,
}

impl Drop for Payload {
    fn drop(&mut self) {
        let id = self.id;
        DROPS.with(|d| {
            let mut d = d.borrow_mut();
            if d.len() <= id {
                d.resize(id + 1, 0);
            }
            d[id] += 1;
        });
    }
}

/// Allocate a payload with the given id; `value` is derived from the id so a later read can be
/// checked against it.
pub fn payload<'gc>(mc: &Mutation<'gc>, id: usize) -> Gc<'gc, Payload> {
    Gc::new(mc, Payload { id, value: value_of(id) })
}

pub fn value_of(id: usize) -> u64 {
    0x5eed_0000_0000u64 + (id as u64) * 7919
}

pub fn drops(id: usize) -> u32 {
    DROPS.with(|d| d.borrow().get(id).copied().unwrap_or(0))
}

/// The payload `id` is still reachable from the root: its destructor must not have run.
pub fn expect_alive(id: usize) {
    let n = drops(id);
    if n != 0 {
        println!(
            "C01-VIOLATION payload {} was destructed {} time(s) while still reachable from the root",
            id, n
        );
        std::process::exit(EXIT_VIOLATION);
    }
}

/// The payload `id` is unreachable and two full cycles have run: destructed exactly once.
pub fn expect_dropped_once(id: usize) {
    let n = drops(id);
    if n != 1 {
        println!("ORACLE-ERROR payload {} destructed {} time(s), expected exactly once", id, n);
        std::process::exit(4);
    }
}

/// Check a payload read back through the graph (call only after `expect_alive`).
pub fn check_read(p: &Payload, id: usize) {
    if p.id != id || p.value != value_of(id) {
        println!("C01-VIOLATION payload {} reads back as {:?}", id, p);
        std::process::exit(EXIT_VIOLATION);
    }
}

pub fn done(name: &str) {
    println!("ORACLE-OK {}", name);
}
