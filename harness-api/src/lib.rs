//! Run-time twins for the API-level properties (C13 oracle support, C19 identity tests).
pub mod oracle;
