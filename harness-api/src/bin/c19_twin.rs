//! C19 twin: "pointer conversions preserve identity".
//!
//! For every (conversion, target) cell that is type-correct in the API this binary checks
//!   identity  : the converted pointer is address-equal / `ptr_eq` to the original,
//!   survive   : with ONLY the converted pointer reachable from the root the value survives
//!               `finish_cycle` x2, `finish_marking` (+ not `is_dead`) and another `finish_cycle`,
//!   deref     : the converted pointer (or a typed pointer rebuilt from it) reads the original value,
//!   drop_once : after the root slot is cleared the value is destructed exactly once, by the `Drop`
//!               impl of its ORIGINAL type (tag written by that impl), and `total_gc_count` returns
//!               to its base line.
//! plus the `ZstCache` iff grid (zst_grid / zst_align).
//!
//! Output (stdout): `CHECK <group> <name> ok|FAIL ..`, `SKIP <group> <name> <why>`, `INFO ..`,
//! final `SUMMARY checks=<n> failed=<k> skipped=<s>`. Exit code 0 iff failed == 0.
#![allow(clippy::type_complexity)]

use std::cell::{Cell as StdCell, RefCell};
use std::marker::PhantomData;
use std::panic::{AssertUnwindSafe, catch_unwind};

use gc_arena::gc::{GcKind, Thin};
use gc_arena::meta::{PtrMeta, TypeMeta, UnitPtrMeta};
use gc_arena::slice::{SlicePtrMeta, SliceWithHeaderPtrMeta, StrPtrMeta};
use gc_arena::zst_cache::ZstCache;
use gc_arena::{
    Arena, Collect, DynamicRoot, DynamicRootSet, Gc, GcBuilder, GcFat, GcSlice, GcSliceBuilder,
    GcSliceWithHeaderBuilder, GcStr, GcThin, GcWeak, Mutation, RefLock, Rootable, SliceWithHeader,
    static_collect, unsize,
};

// ------------------------------------------------------------------------------------------------
// Report
// ------------------------------------------------------------------------------------------------

const CELL_GROUPS: [&str; 4] = ["identity", "survive", "deref", "drop_once"];

struct Report {
    filter: Option<String>,
    checks: usize,
    failed: usize,
    skipped: usize,
    /// groups already reported for the cell that is currently running
    cell_done: Vec<&'static str>,
}

fn one_line(s: &str) -> String {
    s.replace(['\n', '\r'], " ")
}

impl Report {
    fn wants(&self, group: &str) -> bool {
        match &self.filter {
            None => true,
            Some(f) => group.contains(f.as_str()),
        }
    }

    fn wants_any(&self, groups: &[&str]) -> bool {
        groups.iter().any(|g| self.wants(g))
    }

    fn check(&mut self, group: &'static str, name: &str, res: Result<(), String>) {
        self.cell_done.push(group);
        if !self.wants(group) {
            return;
        }
        self.checks += 1;
        match res {
            Ok(()) => println!("CHECK {} {} ok", group, name),
            Err(e) => {
                self.failed += 1;
                println!("CHECK {} {} FAIL {}", group, name, one_line(&e));
            }
        }
    }

    fn skip(&mut self, group: &'static str, name: &str, why: &str) {
        if !self.wants(group) {
            return;
        }
        self.skipped += 1;
        println!("SKIP {} {} {}", group, name, one_line(why));
    }

    fn skip_cell(&mut self, name: &str, why: &str) {
        for g in CELL_GROUPS {
            self.skip(g, name, why);
        }
    }

    fn info(&self, text: &str) {
        println!("INFO {}", one_line(text));
    }

    fn begin_cell(&mut self) {
        self.cell_done.clear();
    }

    /// A cell panicked: every group of the cell that was not reported yet becomes a FAIL.
    fn fail_remaining(&mut self, name: &str, msg: &str) {
        for g in CELL_GROUPS {
            if !self.cell_done.contains(&g) {
                self.check(g, name, Err(format!("panicked: {}", msg)));
            }
        }
    }
}

fn panic_msg(p: Box<dyn std::any::Any + Send>) -> String {
    if let Some(s) = p.downcast_ref::<&'static str>() {
        (*s).to_string()
    } else if let Some(s) = p.downcast_ref::<String>() {
        s.clone()
    } else {
        "<non-string panic payload>".to_string()
    }
}

/// Collects the reasons why one check fails.
struct Problems(Vec<String>);

impl Problems {
    fn new() -> Self {
        Problems(Vec::new())
    }
    fn truth(&mut self, what: &str, ok: bool) {
        if !ok {
            self.0.push(format!("{} does not hold", what));
        }
    }
    fn eq<T: PartialEq + std::fmt::Debug>(&mut self, what: &str, got: T, want: T) {
        if got != want {
            self.0.push(format!("{}: got {:?}, expected {:?}", what, got, want));
        }
    }
    fn add(&mut self, r: Result<(), String>) {
        if let Err(e) = r {
            self.0.push(e);
        }
    }
    fn is_ok(&self) -> bool {
        self.0.is_empty()
    }
    fn done(self) -> Result<(), String> {
        if self.0.is_empty() { Ok(()) } else { Err(self.0.join("; ")) }
    }
}

// ------------------------------------------------------------------------------------------------
// Drop log: every destructor of a test type records (id, tag of the type whose Drop ran, intact).
// ------------------------------------------------------------------------------------------------

thread_local! {
    static DROP_LOG: RefCell<Vec<(usize, &'static str, bool)>> = RefCell::new(Vec::new());
    static NEXT_ID: StdCell<usize> = StdCell::new(1);
}

fn log_drop(id: usize, tag: &'static str, intact: bool) {
    DROP_LOG.with(|l| l.borrow_mut().push((id, tag, intact)));
}

/// All drop records of `id`, in order.
fn drops_of(id: usize) -> Vec<(&'static str, bool)> {
    DROP_LOG.with(|l| l.borrow().iter().filter(|e| e.0 == id).map(|e| (e.1, e.2)).collect())
}

fn fresh_id() -> usize {
    NEXT_ID.with(|n| {
        let v = n.get();
        n.set(v + 1);
        v
    })
}

fn value_of(id: usize) -> u64 {
    0xC19_0000_0000u64 + (id as u64) * 7919
}

const ZST_ID: usize = 9_000_001;
const ZST_SAY: u64 = 0x25_7D;
const STR_VALUE: &str = "c19 twin: h\u{e9}llo w\u{f6}rld";
const COPY_SLICE: [u32; 5] = [11, 22, 33, 44, 55];
const OBJ_META: u32 = 0xC19;

// ------------------------------------------------------------------------------------------------
// Test types
// ------------------------------------------------------------------------------------------------

macro_rules! counted_struct {
    ($name:ident, $tag:literal) => {
        #[derive(Collect)]
        #[collect(require_static)]
        struct $name {
            id: usize,
            value: u64,
        }

        impl $name {
            fn new(id: usize) -> Self {
                $name { id, value: value_of(id) }
            }
            fn verify(&self, id: usize) -> Result<(), String> {
                if self.id == id && self.value == value_of(id) {
                    Ok(())
                } else {
                    Err(format!(
                        "{} reads back as id={} value={:#x}, expected id={} value={:#x}",
                        $tag,
                        self.id,
                        self.value,
                        id,
                        value_of(id)
                    ))
                }
            }
        }

        impl Drop for $name {
            fn drop(&mut self) {
                log_drop(self.id, $tag, self.value == value_of(self.id));
            }
        }
    };
}

counted_struct!(Obj, "Obj");
counted_struct!(Elem, "Elem");
counted_struct!(Hdr, "Hdr");

/// Zero-sized type with a destructor (alignment 4 so that `ZstCache<2>` misses, `ZstCache<8>` hits).
#[derive(Collect)]
#[collect(require_static)]
#[repr(align(4))]
struct ZstD;

impl Drop for ZstD {
    fn drop(&mut self) {
        log_drop(ZST_ID, "ZstD", true);
    }
}

trait Speak {
    fn id(&self) -> usize;
    fn say(&self) -> u64;
}

impl Speak for Obj {
    fn id(&self) -> usize {
        self.id
    }
    fn say(&self) -> u64 {
        self.value ^ 0xD1
    }
}

impl Speak for ZstD {
    fn id(&self) -> usize {
        ZST_ID
    }
    fn say(&self) -> u64 {
        ZST_SAY
    }
}

type DynS = dyn Speak + 'static;
type Swh = SliceWithHeader<Hdr, Elem>;

struct ObjMeta;

impl TypeMeta for ObjMeta {
    type TypeMetadata = u32;
    const TYPE_METADATA: &'static u32 = &OBJ_META;
}

fn addr<T: ?Sized>(p: *const T) -> usize {
    p.cast::<()>() as usize
}

/// Same address and same pointer metadata (observed through the size of the pointee).
///
/// Only call while both pointees are known to be live.
fn same_fat<T: ?Sized>(a: *const T, b: *const T) -> bool {
    addr(a) == addr(b) && unsafe { std::mem::size_of_val(&*a) == std::mem::size_of_val(&*b) }
}

// ------------------------------------------------------------------------------------------------
// Expectations
// ------------------------------------------------------------------------------------------------

#[derive(Clone)]
struct Exp {
    id: usize,
    tag: &'static str,
    /// destructor runs expected while the converted pointer is still held by the root
    live: usize,
    /// destructor runs expected after the root slot was cleared and two cycles ran
    fin: usize,
}

#[derive(Clone)]
struct Spec {
    /// ids of the destructor-carrying parts of the value, in construction order
    ids: Vec<usize>,
    exp: Vec<Exp>,
}

impl Spec {
    fn counted(tags: &[&'static str]) -> Spec {
        let ids: Vec<usize> = tags.iter().map(|_| fresh_id()).collect();
        let exp = ids
            .iter()
            .zip(tags)
            .map(|(&id, &tag)| Exp { id, tag, live: 0, fin: 1 })
            .collect();
        Spec { ids, exp }
    }
    fn none() -> Spec {
        Spec { ids: Vec::new(), exp: Vec::new() }
    }
    fn zst(n: usize) -> Spec {
        Spec { ids: vec![ZST_ID], exp: vec![Exp { id: ZST_ID, tag: "ZstD", live: 0, fin: n }] }
    }
}

// ------------------------------------------------------------------------------------------------
// Targets
// ------------------------------------------------------------------------------------------------

trait Target: 'static {
    const NAME: &'static str;
    type T: ?Sized + 'static;
    type M: 'static;
    type P: 'static;

    fn spec() -> Spec;
    /// Allocate the value with its original kind.
    fn make<'gc>(mc: &Mutation<'gc>, s: &Spec) -> GcFat<'gc, Self::T, Self::M, Self::P>;
    /// Check that `v` is the original value.
    fn check(v: &Self::T, s: &Spec) -> Result<(), String>;
    /// Rebuild a typed pointer from an erased one (unsafe round trip) and check the value.
    ///
    /// # Safety
    /// `e` must point to a live value made by `Self::make`.
    unsafe fn check_erased<'gc>(e: Gc<'gc, ()>, s: &Spec) -> Result<(), String>;
}

fn check_elems(v: &[Elem], ids: &[usize]) -> Result<(), String> {
    if v.len() != ids.len() {
        return Err(format!("slice length reads back as {}, expected {}", v.len(), ids.len()));
    }
    for (e, &id) in v.iter().zip(ids) {
        e.verify(id)?;
    }
    Ok(())
}

struct TSized;
impl Target for TSized {
    const NAME: &'static str = "sized";
    type T = Obj;
    type M = ();
    type P = UnitPtrMeta;
    fn spec() -> Spec {
        Spec::counted(&["Obj"])
    }
    fn make<'gc>(mc: &Mutation<'gc>, s: &Spec) -> Gc<'gc, Obj> {
        Gc::new(mc, Obj::new(s.ids[0]))
    }
    fn check(v: &Obj, s: &Spec) -> Result<(), String> {
        v.verify(s.ids[0])
    }
    unsafe fn check_erased<'gc>(e: Gc<'gc, ()>, s: &Spec) -> Result<(), String> {
        let p: Gc<'gc, Obj> = unsafe { Gc::cast::<Obj>(e) };
        p.verify(s.ids[0])
    }
}

/// Sized struct allocated with per-type metadata (so that `erase_kind` changes the kind).
struct TSizedMeta;
impl Target for TSizedMeta {
    const NAME: &'static str = "sized_meta";
    type T = Obj;
    type M = u32;
    type P = UnitPtrMeta;
    fn spec() -> Spec {
        Spec::counted(&["Obj"])
    }
    fn make<'gc>(mc: &Mutation<'gc>, s: &Spec) -> GcFat<'gc, Obj, u32, UnitPtrMeta> {
        GcBuilder::new_with_type_meta::<ObjMeta>().write(mc, Obj::new(s.ids[0]))
    }
    fn check(v: &Obj, s: &Spec) -> Result<(), String> {
        v.verify(s.ids[0])
    }
    unsafe fn check_erased<'gc>(e: Gc<'gc, ()>, s: &Spec) -> Result<(), String> {
        let p: Gc<'gc, Obj> = unsafe { Gc::cast::<Obj>(e) };
        p.verify(s.ids[0])
    }
}

struct TSlice;
impl Target for TSlice {
    const NAME: &'static str = "slice";
    type T = [Elem];
    type M = ();
    type P = SlicePtrMeta;
    fn spec() -> Spec {
        Spec::counted(&["Elem", "Elem", "Elem"])
    }
    fn make<'gc>(mc: &Mutation<'gc>, s: &Spec) -> GcSlice<'gc, Elem> {
        GcSliceBuilder::<Elem>::new(s.ids.len()).write_slice_with(mc, |i| Elem::new(s.ids[i]))
    }
    fn check(v: &[Elem], s: &Spec) -> Result<(), String> {
        check_elems(v, &s.ids)
    }
    unsafe fn check_erased<'gc>(e: Gc<'gc, ()>, s: &Spec) -> Result<(), String> {
        // `()` is the thin pointee of a slice: rebuild the length from the GC header.
        let t = unsafe {
            Gc::<'gc, [Elem], GcKind<Thin, (), SlicePtrMeta>>::from_thin_ptr_with_kind(Gc::as_ptr(e))
        };
        check_elems(&t, &s.ids)
    }
}

/// `GcSlice::new_slice` of `Copy` elements (no destructor: liveness is observed by gc count only).
struct TSliceCopy;
impl Target for TSliceCopy {
    const NAME: &'static str = "slice_copy";
    type T = [u32];
    type M = ();
    type P = SlicePtrMeta;
    fn spec() -> Spec {
        Spec::none()
    }
    fn make<'gc>(mc: &Mutation<'gc>, _s: &Spec) -> GcSlice<'gc, u32> {
        GcSlice::<u32>::new_slice(mc, &COPY_SLICE)
    }
    fn check(v: &[u32], _s: &Spec) -> Result<(), String> {
        if v == COPY_SLICE { Ok(()) } else { Err(format!("slice reads back as {:?}", v)) }
    }
    unsafe fn check_erased<'gc>(e: Gc<'gc, ()>, s: &Spec) -> Result<(), String> {
        let t = unsafe {
            Gc::<'gc, [u32], GcKind<Thin, (), SlicePtrMeta>>::from_thin_ptr_with_kind(Gc::as_ptr(e))
        };
        Self::check(&t, s)
    }
}

struct TStr;
impl Target for TStr {
    const NAME: &'static str = "str";
    type T = str;
    type M = ();
    type P = StrPtrMeta;
    fn spec() -> Spec {
        Spec::none()
    }
    fn make<'gc>(mc: &Mutation<'gc>, _s: &Spec) -> GcStr<'gc> {
        GcStr::new_str(mc, STR_VALUE)
    }
    fn check(v: &str, _s: &Spec) -> Result<(), String> {
        if v == STR_VALUE { Ok(()) } else { Err(format!("str reads back as {:?}", v)) }
    }
    unsafe fn check_erased<'gc>(e: Gc<'gc, ()>, s: &Spec) -> Result<(), String> {
        let t = unsafe {
            Gc::<'gc, str, GcKind<Thin, (), StrPtrMeta>>::from_thin_ptr_with_kind(Gc::as_ptr(e))
        };
        Self::check(&t, s)
    }
}

struct TSwh;
impl Target for TSwh {
    const NAME: &'static str = "slice_with_header";
    type T = Swh;
    type M = ();
    type P = SliceWithHeaderPtrMeta;
    fn spec() -> Spec {
        Spec::counted(&["Hdr", "Elem", "Elem", "Elem"])
    }
    fn make<'gc>(mc: &Mutation<'gc>, s: &Spec) -> GcFat<'gc, Swh, (), SliceWithHeaderPtrMeta> {
        GcSliceWithHeaderBuilder::<Hdr, Elem>::new(s.ids.len() - 1)
            .write_header(Hdr::new(s.ids[0]))
            .write_slice_with(mc, |i| Elem::new(s.ids[i + 1]))
    }
    fn check(v: &Swh, s: &Spec) -> Result<(), String> {
        v.header.verify(s.ids[0])?;
        check_elems(&v.slice, &s.ids[1..])
    }
    unsafe fn check_erased<'gc>(e: Gc<'gc, ()>, s: &Spec) -> Result<(), String> {
        let t = unsafe {
            Gc::<'gc, Swh, GcKind<Thin, (), SliceWithHeaderPtrMeta>>::from_thin_ptr_with_kind(
                Gc::as_ptr(e) as *const Hdr,
            )
        };
        Self::check(&t, s)
    }
}

/// Trait object made with `unsize!` from a `Gc<Obj>`.
struct TDyn;
impl Target for TDyn {
    const NAME: &'static str = "dyn";
    type T = DynS;
    type M = ();
    type P = UnitPtrMeta;
    fn spec() -> Spec {
        Spec::counted(&["Obj"])
    }
    fn make<'gc>(mc: &Mutation<'gc>, s: &Spec) -> Gc<'gc, DynS> {
        unsize!(Gc::new(mc, Obj::new(s.ids[0])) => DynS)
    }
    fn check(v: &DynS, s: &Spec) -> Result<(), String> {
        let id = s.ids[0];
        if v.id() == id && v.say() == value_of(id) ^ 0xD1 {
            Ok(())
        } else {
            Err(format!("dyn Speak reads back as id={} say={:#x}, expected id={}", v.id(), v.say(), id))
        }
    }
    unsafe fn check_erased<'gc>(e: Gc<'gc, ()>, s: &Spec) -> Result<(), String> {
        // The vtable cannot be recovered from `()`: go back to the concrete type.
        let p: Gc<'gc, Obj> = unsafe { Gc::cast::<Obj>(e) };
        p.verify(s.ids[0])?;
        Self::check(&*p as &DynS, s)
    }
}

struct TZst;
impl TZst {
    fn check_ref(v: &ZstD) -> Result<(), String> {
        let a = addr(v as *const ZstD);
        if a % std::mem::align_of::<ZstD>() != 0 {
            return Err(format!("&ZstD at {:#x} is not aligned to {}", a, std::mem::align_of::<ZstD>()));
        }
        if v.id() != ZST_ID || v.say() != ZST_SAY {
            return Err("ZstD methods return wrong constants".to_string());
        }
        Ok(())
    }
}
impl Target for TZst {
    const NAME: &'static str = "zst";
    type T = ZstD;
    type M = ();
    type P = UnitPtrMeta;
    fn spec() -> Spec {
        Spec::zst(1)
    }
    fn make<'gc>(mc: &Mutation<'gc>, _s: &Spec) -> Gc<'gc, ZstD> {
        Gc::new(mc, ZstD)
    }
    fn check(v: &ZstD, _s: &Spec) -> Result<(), String> {
        Self::check_ref(v)
    }
    unsafe fn check_erased<'gc>(e: Gc<'gc, ()>, _s: &Spec) -> Result<(), String> {
        let p: Gc<'gc, ZstD> = unsafe { Gc::cast::<ZstD>(e) };
        Self::check_ref(&p)
    }
}

// ------------------------------------------------------------------------------------------------
// Root: one slot holding (at most) the converted pointer, plus a dynamic root set.
// ------------------------------------------------------------------------------------------------

trait SlotFam: 'static {
    type Slot<'gc>: Collect<'gc> + Copy + 'gc;
    fn erased<'gc>(s: Self::Slot<'gc>) -> Gc<'gc, ()>;
}

struct ErasedSlot;
impl SlotFam for ErasedSlot {
    type Slot<'gc> = Gc<'gc, ()>;
    fn erased<'gc>(s: Self::Slot<'gc>) -> Gc<'gc, ()> {
        s
    }
}

struct FatSlot<T: ?Sized, M, P>(PhantomData<(fn() -> M, fn() -> P, fn() -> *const T)>);
impl<T: ?Sized + 'static, M: 'static, P: 'static> SlotFam for FatSlot<T, M, P> {
    type Slot<'gc> = GcFat<'gc, T, M, P>;
    fn erased<'gc>(s: Self::Slot<'gc>) -> Gc<'gc, ()> {
        Gc::erase(s)
    }
}

type DefSlot<T> = FatSlot<T, (), UnitPtrMeta>;

struct ThinSlot<T: ?Sized, M, P>(PhantomData<(fn() -> M, fn() -> P, fn() -> *const T)>);
impl<T: ?Sized + 'static, M: 'static, P: 'static> SlotFam for ThinSlot<T, M, P>
where
    P: PtrMeta<T, M>,
    P::Thin: 'static,
{
    type Slot<'gc> = GcThin<'gc, T, M, P>;
    fn erased<'gc>(s: Self::Slot<'gc>) -> Gc<'gc, ()> {
        Gc::erase(s)
    }
}

#[derive(Collect)]
#[collect(no_drop, bound = "")]
struct RootT<'gc, S: SlotFam> {
    slot: Gc<'gc, RefLock<Option<S::Slot<'gc>>>>,
    set: DynamicRootSet<'gc>,
}

struct RootR<S>(PhantomData<S>);
impl<'a, S: SlotFam> Rootable<'a> for RootR<S> {
    type Root = RootT<'a, S>;
}

/// `Rootable` whose root is the (possibly unsized) `'static` type `T` itself.
struct RootOf<T: ?Sized>(PhantomData<fn() -> *const T>);
impl<'a, T: ?Sized + 'static> Rootable<'a> for RootOf<T> {
    type Root = T;
}

// ------------------------------------------------------------------------------------------------
// Cell driver
// ------------------------------------------------------------------------------------------------

type SlotOf<'gc, C> = <<C as Cell>::S as SlotFam>::Slot<'gc>;

trait Cell {
    type S: SlotFam;
    fn name(&self) -> String;
    fn expect(&self) -> Vec<Exp>;
    /// Allocate the original, convert it, return ONLY the converted pointer (to be stored in the
    /// root slot) and the verdict of the identity checks.
    fn make<'gc>(
        &self,
        mc: &Mutation<'gc>,
        set: DynamicRootSet<'gc>,
    ) -> (Option<SlotOf<'gc, Self>>, Result<(), String>);
    /// Read the value back through what was kept.
    fn read<'gc>(
        &self,
        mc: &Mutation<'gc>,
        set: DynamicRootSet<'gc>,
        slot: Option<SlotOf<'gc, Self>>,
    ) -> Result<(), String>;
    /// Drop whatever keeps the value alive from outside the arena (dynamic root handles).
    fn release(&self) {}
    /// True if the value is kept by a `DynamicRoot` handle instead of the root slot.
    fn kept_outside(&self) -> bool {
        false
    }
}

fn check_drops(exp: &[Exp], before: &[usize], fin: bool, when: &str, out: &mut Problems) {
    for (e, &b) in exp.iter().zip(before) {
        let all = drops_of(e.id);
        let new = &all[b.min(all.len())..];
        let want = if fin { e.fin } else { e.live };
        if new.len() != want {
            out.0.push(format!(
                "{}: value id={} ({}) destructed {} time(s), expected {}",
                when,
                e.id,
                e.tag,
                new.len(),
                want
            ));
        }
        for (tag, intact) in new {
            if *tag != e.tag {
                out.0.push(format!(
                    "{}: value id={} destructed as `{}`, original type is `{}`",
                    when, e.id, tag, e.tag
                ));
            }
            if !*intact {
                out.0.push(format!("{}: value id={} was corrupted when its destructor ran", when, e.id));
            }
        }
    }
}

fn run_cell<C: Cell>(rep: &mut Report, cell: C) {
    run_cell_ref(rep, &cell)
}

fn run_cell_ref<C: Cell>(rep: &mut Report, cell: &C) {
    if !rep.wants_any(&CELL_GROUPS) {
        return;
    }
    let name = cell.name();
    rep.begin_cell();
    let r = catch_unwind(AssertUnwindSafe(|| run_cell_inner(rep, cell, &name)));
    if let Err(p) = r {
        rep.fail_remaining(&name, &panic_msg(p));
    }
}

fn run_cell_inner<C: Cell>(rep: &mut Report, cell: &C, name: &str) {
    let exp = cell.expect();
    let before: Vec<usize> = exp.iter().map(|e| drops_of(e.id).len()).collect();

    let mut arena = Arena::<RootR<C::S>>::new(|mc| RootT {
        slot: Gc::new(mc, RefLock::new(None)),
        set: DynamicRootSet::new(mc),
    });
    arena.finish_cycle();
    arena.finish_cycle();
    let base = arena.metrics().total_gc_count();

    // --- make + identity; the original pointer dies with the callback -------------------------
    let identity = arena.mutate(|mc, root| {
        let (slot, idn) = cell.make(mc, root.set);
        let mut p = Problems::new();
        p.add(idn);
        if slot.is_none() && !cell.kept_outside() {
            p.0.push("conversion produced no pointer to keep".to_string());
        }
        // A pointer that failed the identity checks may not point to a GC object at all: never hand
        // it to the collector.
        if p.is_ok() {
            *root.slot.borrow_mut(mc) = slot;
        }
        p.done()
    });
    if identity.is_err() {
        rep.check("identity", name, identity);
        cell.release();
        for g in ["survive", "deref", "drop_once"] {
            rep.check(g, name, Err("not attempted: the identity check failed".to_string()));
        }
        return;
    }
    let have_ptr = arena.mutate(|_, root| root.slot.borrow().is_some()) || cell.kept_outside();
    rep.check("identity", name, identity);

    // --- survive ------------------------------------------------------------------------------
    let mut surv = Problems::new();
    surv.truth("a converted pointer is held", have_ptr);
    arena.finish_cycle();
    arena.finish_cycle();
    check_drops(&exp, &before, false, "after 2x finish_cycle", &mut surv);
    surv.eq("total_gc_count after 2x finish_cycle", arena.metrics().total_gc_count(), base + 1);
    if surv.is_ok() {
        match arena.finish_marking() {
            Some(marked) => {
                let dead = marked.finalize(|fc, root| {
                    let slot: Option<SlotOf<'_, C>> = *root.slot.borrow();
                    slot.map(|s| Gc::is_dead(fc, <C::S as SlotFam>::erased(s)))
                });
                if dead == Some(true) {
                    surv.0.push("kept pointer is_dead after finish_marking".to_string());
                }
            }
            None => surv.0.push("finish_marking returned None from the Sleeping phase".to_string()),
        }
        arena.finish_cycle();
        check_drops(&exp, &before, false, "after finish_marking + finish_cycle", &mut surv);
        surv.eq(
            "total_gc_count after finish_marking + finish_cycle",
            arena.metrics().total_gc_count(),
            base + 1,
        );
    }
    let alive = surv.is_ok();
    rep.check("survive", name, surv.done());

    // --- deref (never touch memory of a value whose destructor already ran) --------------------
    if alive {
        let r = arena.mutate(|mc, root| cell.read(mc, root.set, *root.slot.borrow()));
        rep.check("deref", name, r);
    } else {
        rep.check("deref", name, Err("not attempted: the value did not survive".to_string()));
    }

    // --- release + drop_once -------------------------------------------------------------------
    arena.mutate(|mc, root| {
        *root.slot.borrow_mut(mc) = None;
    });
    cell.release();
    arena.finish_cycle();
    arena.finish_cycle();
    let mut fin = Problems::new();
    check_drops(&exp, &before, true, "after release + 2x finish_cycle", &mut fin);
    fin.eq("total_gc_count after release + 2x finish_cycle", arena.metrics().total_gc_count(), base);
    // Dropping the arena must not run any destructor a second time.
    drop(arena);
    check_drops(&exp, &before, true, "after dropping the arena", &mut fin);
    rep.check("drop_once", name, fin.done());
}

// ------------------------------------------------------------------------------------------------
// Conversion cells, generic over the target
// ------------------------------------------------------------------------------------------------

type Orig<'gc, X> = GcFat<'gc, <X as Target>::T, <X as Target>::M, <X as Target>::P>;
type OrigSlot<X> = FatSlot<<X as Target>::T, <X as Target>::M, <X as Target>::P>;
type ThinOf<'gc, X> = GcThin<'gc, <X as Target>::T, <X as Target>::M, <X as Target>::P>;
type ThinSlotOf<X> = ThinSlot<<X as Target>::T, <X as Target>::M, <X as Target>::P>;

macro_rules! cell_struct {
    ($name:ident) => {
        struct $name<X: Target> {
            spec: Spec,
            _x: PhantomData<X>,
        }
        impl<X: Target> $name<X> {
            fn new() -> Self {
                $name { spec: X::spec(), _x: PhantomData }
            }
        }
    };
}

fn want_slot<T>(slot: Option<T>) -> Result<T, String> {
    slot.ok_or_else(|| "root slot is empty".to_string())
}

// --- erase ---------------------------------------------------------------------------------------
cell_struct!(EraseCell);
impl<X: Target> Cell for EraseCell<X> {
    type S = ErasedSlot;
    fn name(&self) -> String {
        format!("erase/{}", X::NAME)
    }
    fn expect(&self) -> Vec<Exp> {
        self.spec.exp.clone()
    }
    fn make<'gc>(&self, mc: &Mutation<'gc>, _set: DynamicRootSet<'gc>) -> (Option<Gc<'gc, ()>>, Result<(), String>) {
        let p: Orig<'gc, X> = X::make(mc, &self.spec);
        let n0 = mc.metrics().total_gc_count();
        let e = Gc::erase(p);
        let mut c = Problems::new();
        c.eq("erase allocates", mc.metrics().total_gc_count(), n0);
        c.eq("addr(as_ptr(erase(p)))", addr(Gc::as_ptr(e)), addr(Gc::as_ptr(p)));
        c.truth("ptr_eq(erase(p), erase(p))", Gc::ptr_eq(e, Gc::erase(p)));
        // (`{:p}` of a fat `Gc` prints `Pointer { addr, metadata }`, so compare with the thin address.)
        c.eq("{:p} of erased", format!("{:p}", e), format!("{:p}", Gc::as_ptr(p).cast::<()>()));
        (Some(e), c.done())
    }
    fn read<'gc>(&self, _mc: &Mutation<'gc>, _set: DynamicRootSet<'gc>, slot: Option<Gc<'gc, ()>>) -> Result<(), String> {
        let e = want_slot(slot)?;
        unsafe { X::check_erased(e, &self.spec) }
    }
}

// --- erase_kind ----------------------------------------------------------------------------------
cell_struct!(EraseKindCell);
impl<X: Target> Cell for EraseKindCell<X> {
    type S = DefSlot<X::T>;
    fn name(&self) -> String {
        format!("erase_kind/{}", X::NAME)
    }
    fn expect(&self) -> Vec<Exp> {
        self.spec.exp.clone()
    }
    fn make<'gc>(&self, mc: &Mutation<'gc>, _set: DynamicRootSet<'gc>) -> (Option<Gc<'gc, X::T>>, Result<(), String>) {
        let p: Orig<'gc, X> = X::make(mc, &self.spec);
        let n0 = mc.metrics().total_gc_count();
        let d: Gc<'gc, X::T> = Gc::erase_kind(p);
        let mut c = Problems::new();
        c.eq("erase_kind allocates", mc.metrics().total_gc_count(), n0);
        c.truth("as_ptr(erase_kind(p)) == as_ptr(p) (address and metadata)", same_fat(Gc::as_ptr(d), Gc::as_ptr(p)));
        c.truth("ptr_eq(erase_kind(p), erase_kind(p))", Gc::ptr_eq(d, Gc::erase_kind(p)));
        c.truth("ptr_eq(erase(erase_kind(p)), erase(p))", Gc::ptr_eq(Gc::erase(d), Gc::erase(p)));
        (Some(d), c.done())
    }
    fn read<'gc>(&self, _mc: &Mutation<'gc>, _set: DynamicRootSet<'gc>, slot: Option<Gc<'gc, X::T>>) -> Result<(), String> {
        let d = want_slot(slot)?;
        X::check(&d, &self.spec)
    }
}

// --- downgrade + upgrade ---------------------------------------------------------------------------
cell_struct!(DowngradeUpgradeCell);
impl<X: Target> Cell for DowngradeUpgradeCell<X> {
    type S = OrigSlot<X>;
    fn name(&self) -> String {
        format!("downgrade_upgrade/{}", X::NAME)
    }
    fn expect(&self) -> Vec<Exp> {
        self.spec.exp.clone()
    }
    fn make<'gc>(&self, mc: &Mutation<'gc>, _set: DynamicRootSet<'gc>) -> (Option<Orig<'gc, X>>, Result<(), String>) {
        let p: Orig<'gc, X> = X::make(mc, &self.spec);
        let n0 = mc.metrics().total_gc_count();
        let w = Gc::downgrade(p);
        let mut c = Problems::new();
        c.truth("weak.as_ptr() == as_ptr(p) (address and metadata)", same_fat(w.as_ptr(), Gc::as_ptr(p)));
        c.truth("GcWeak::ptr_eq(downgrade(p), downgrade(p))", GcWeak::ptr_eq(w, Gc::downgrade(p)));
        c.truth("!weak.is_dropped()", !w.is_dropped());
        c.eq("{:p} of weak", format!("{:p}", w), format!("{:p}", p));
        let u = w.upgrade(mc);
        c.truth("upgrade succeeds", u.is_some());
        if let Some(u) = u {
            c.truth("ptr_eq(upgrade(downgrade(p)), p)", Gc::ptr_eq(u, p));
            c.truth("as_ptr(upgraded) == as_ptr(p)", same_fat(Gc::as_ptr(u), Gc::as_ptr(p)));
        }
        c.eq("downgrade/upgrade allocates", mc.metrics().total_gc_count(), n0);
        (u, c.done())
    }
    fn read<'gc>(&self, _mc: &Mutation<'gc>, _set: DynamicRootSet<'gc>, slot: Option<Orig<'gc, X>>) -> Result<(), String> {
        let u = want_slot(slot)?;
        X::check(&u, &self.spec)
    }
}

// --- as_thin (keep the thin pointer) ---------------------------------------------------------------
cell_struct!(AsThinCell);
impl<X: Target> Cell for AsThinCell<X>
where
    X::P: PtrMeta<X::T, X::M>,
    <X::P as PtrMeta<X::T, X::M>>::Thin: 'static,
{
    type S = ThinSlotOf<X>;
    fn name(&self) -> String {
        format!("as_thin/{}", X::NAME)
    }
    fn expect(&self) -> Vec<Exp> {
        self.spec.exp.clone()
    }
    fn make<'gc>(&self, mc: &Mutation<'gc>, _set: DynamicRootSet<'gc>) -> (Option<ThinOf<'gc, X>>, Result<(), String>) {
        let p: Orig<'gc, X> = X::make(mc, &self.spec);
        let n0 = mc.metrics().total_gc_count();
        let t: ThinOf<'gc, X> = Gc::as_thin(p);
        // Nothing below may read through a thin pointer whose raw address is already wrong.
        if addr(Gc::as_thin_ptr(t)) != addr(Gc::as_ptr(p)) {
            return (None, Err(format!(
                "addr(as_thin_ptr(as_thin(p))) differs from addr(as_ptr(p)) by {} bytes",
                addr(Gc::as_thin_ptr(t)).wrapping_sub(addr(Gc::as_ptr(p))) as isize
            )));
        }
        let mut c = Problems::new();
        c.eq("as_thin allocates", mc.metrics().total_gc_count(), n0);
        c.eq("size_of::<GcThin>()", std::mem::size_of::<ThinOf<'gc, X>>(), std::mem::size_of::<usize>());
        c.truth("as_ptr(as_thin(p)) == as_ptr(p) (address and metadata)", same_fat(Gc::as_ptr(t), Gc::as_ptr(p)));
        c.eq("addr(as_thin_ptr(as_thin(p)))", addr(Gc::as_thin_ptr(t)), addr(Gc::as_ptr(p)));
        c.eq("addr(as_thin_ref(as_thin(p)))", addr(Gc::as_thin_ref(t) as *const _), addr(Gc::as_ptr(p)));
        c.truth("ptr_eq(as_thin(p), as_thin(p))", Gc::ptr_eq(t, Gc::as_thin(p)));
        c.truth("ptr_eq(as_fat(as_thin(p)), p)", Gc::ptr_eq(Gc::as_fat(t), p));
        c.truth("ptr_eq(erase(as_thin(p)), erase(p))", Gc::ptr_eq(Gc::erase(t), Gc::erase(p)));
        (Some(t), c.done())
    }
    fn read<'gc>(&self, _mc: &Mutation<'gc>, _set: DynamicRootSet<'gc>, slot: Option<ThinOf<'gc, X>>) -> Result<(), String> {
        let t = want_slot(slot)?;
        X::check(&t, &self.spec)?;
        X::check(&Gc::as_fat(t), &self.spec)
    }
}

// --- as_thin + as_fat (keep the round-tripped fat pointer) -------------------------------------------
cell_struct!(AsThinAsFatCell);
impl<X: Target> Cell for AsThinAsFatCell<X>
where
    X::P: PtrMeta<X::T, X::M>,
    <X::P as PtrMeta<X::T, X::M>>::Thin: 'static,
{
    type S = OrigSlot<X>;
    fn name(&self) -> String {
        format!("as_thin_as_fat/{}", X::NAME)
    }
    fn expect(&self) -> Vec<Exp> {
        self.spec.exp.clone()
    }
    fn make<'gc>(&self, mc: &Mutation<'gc>, _set: DynamicRootSet<'gc>) -> (Option<Orig<'gc, X>>, Result<(), String>) {
        let p: Orig<'gc, X> = X::make(mc, &self.spec);
        let n0 = mc.metrics().total_gc_count();
        let t: ThinOf<'gc, X> = Gc::as_thin(p);
        // Nothing below may read through a thin pointer whose raw address is already wrong.
        if addr(Gc::as_thin_ptr(t)) != addr(Gc::as_ptr(p)) {
            return (None, Err(format!(
                "addr(as_thin_ptr(as_thin(p))) differs from addr(as_ptr(p)) by {} bytes",
                addr(Gc::as_thin_ptr(t)).wrapping_sub(addr(Gc::as_ptr(p))) as isize
            )));
        }
        let f: Orig<'gc, X> = Gc::as_fat(t);
        let mut c = Problems::new();
        c.eq("as_thin/as_fat allocates", mc.metrics().total_gc_count(), n0);
        c.truth("as_ptr(as_fat(as_thin(p))) == as_ptr(p) (address and metadata)", same_fat(Gc::as_ptr(f), Gc::as_ptr(p)));
        c.truth("ptr_eq(as_fat(as_thin(p)), p)", Gc::ptr_eq(f, p));
        (Some(f), c.done())
    }
    fn read<'gc>(&self, _mc: &Mutation<'gc>, _set: DynamicRootSet<'gc>, slot: Option<Orig<'gc, X>>) -> Result<(), String> {
        let f = want_slot(slot)?;
        X::check(&f, &self.spec)
    }
}

// --- as_thin_ptr + from_thin_ptr_with_kind -----------------------------------------------------------
cell_struct!(ThinPtrRoundTripCell);
impl<X: Target> Cell for ThinPtrRoundTripCell<X>
where
    X::P: PtrMeta<X::T, X::M>,
    <X::P as PtrMeta<X::T, X::M>>::Thin: 'static,
{
    type S = ThinSlotOf<X>;
    fn name(&self) -> String {
        format!("as_thin_ptr_from_thin_ptr/{}", X::NAME)
    }
    fn expect(&self) -> Vec<Exp> {
        self.spec.exp.clone()
    }
    fn make<'gc>(&self, mc: &Mutation<'gc>, _set: DynamicRootSet<'gc>) -> (Option<ThinOf<'gc, X>>, Result<(), String>) {
        let p: Orig<'gc, X> = X::make(mc, &self.spec);
        let n0 = mc.metrics().total_gc_count();
        let t: ThinOf<'gc, X> = Gc::as_thin(p);
        // Nothing below may read through a thin pointer whose raw address is already wrong.
        if addr(Gc::as_thin_ptr(t)) != addr(Gc::as_ptr(p)) {
            return (None, Err(format!(
                "addr(as_thin_ptr(as_thin(p))) differs from addr(as_ptr(p)) by {} bytes",
                addr(Gc::as_thin_ptr(t)).wrapping_sub(addr(Gc::as_ptr(p))) as isize
            )));
        }
        let raw = Gc::as_thin_ptr(t);
        let t2: ThinOf<'gc, X> = unsafe { ThinOf::<'gc, X>::from_thin_ptr_with_kind(raw) };
        let mut c = Problems::new();
        c.eq("thin ptr round trip allocates", mc.metrics().total_gc_count(), n0);
        c.truth("ptr_eq(from_thin_ptr(as_thin_ptr(t)), t)", Gc::ptr_eq(t2, t));
        c.truth("as_ptr(round trip) == as_ptr(p) (address and metadata)", same_fat(Gc::as_ptr(t2), Gc::as_ptr(p)));
        (Some(t2), c.done())
    }
    fn read<'gc>(&self, _mc: &Mutation<'gc>, _set: DynamicRootSet<'gc>, slot: Option<ThinOf<'gc, X>>) -> Result<(), String> {
        let t = want_slot(slot)?;
        X::check(&t, &self.spec)
    }
}

// --- as_ptr + from_ptr -----------------------------------------------------------------------------
cell_struct!(AsPtrFromPtrCell);
impl<X: Target> Cell for AsPtrFromPtrCell<X> {
    type S = DefSlot<X::T>;
    fn name(&self) -> String {
        format!("as_ptr_from_ptr/{}", X::NAME)
    }
    fn expect(&self) -> Vec<Exp> {
        self.spec.exp.clone()
    }
    fn make<'gc>(&self, mc: &Mutation<'gc>, _set: DynamicRootSet<'gc>) -> (Option<Gc<'gc, X::T>>, Result<(), String>) {
        let p: Orig<'gc, X> = X::make(mc, &self.spec);
        let n0 = mc.metrics().total_gc_count();
        let raw: *const X::T = Gc::as_ptr(p);
        let q: Gc<'gc, X::T> = unsafe { Gc::from_ptr(raw) };
        let mut c = Problems::new();
        c.eq("as_ptr/from_ptr allocates", mc.metrics().total_gc_count(), n0);
        c.truth("as_ptr(from_ptr(as_ptr(p))) == as_ptr(p) (address and metadata)", same_fat(Gc::as_ptr(q), raw));
        c.truth("ptr_eq(erase(from_ptr(as_ptr(p))), erase(p))", Gc::ptr_eq(Gc::erase(q), Gc::erase(p)));
        c.truth("ptr_eq(from_ptr(as_ptr(p)), erase_kind(p))", Gc::ptr_eq(q, Gc::erase_kind(p)));
        c.add(X::check(unsafe { &*raw }, &self.spec).map_err(|e| format!("*as_ptr(p): {}", e)));
        (Some(q), c.done())
    }
    fn read<'gc>(&self, _mc: &Mutation<'gc>, _set: DynamicRootSet<'gc>, slot: Option<Gc<'gc, X::T>>) -> Result<(), String> {
        let q = want_slot(slot)?;
        X::check(&q, &self.spec)
    }
}

// --- as_ptr + from_ptr_with_kind (original kind) -------------------------------------------------------
cell_struct!(AsPtrFromPtrKindCell);
impl<X: Target> Cell for AsPtrFromPtrKindCell<X> {
    type S = OrigSlot<X>;
    fn name(&self) -> String {
        format!("as_ptr_from_ptr_with_kind/{}", X::NAME)
    }
    fn expect(&self) -> Vec<Exp> {
        self.spec.exp.clone()
    }
    fn make<'gc>(&self, mc: &Mutation<'gc>, _set: DynamicRootSet<'gc>) -> (Option<Orig<'gc, X>>, Result<(), String>) {
        let p: Orig<'gc, X> = X::make(mc, &self.spec);
        let n0 = mc.metrics().total_gc_count();
        let raw: *const X::T = Gc::as_ptr(p);
        let q: Orig<'gc, X> = unsafe { Orig::<'gc, X>::from_ptr_with_kind(raw) };
        let mut c = Problems::new();
        c.eq("as_ptr/from_ptr_with_kind allocates", mc.metrics().total_gc_count(), n0);
        c.truth("ptr_eq(from_ptr_with_kind(as_ptr(p)), p)", Gc::ptr_eq(q, p));
        c.truth("as_ptr(round trip) == as_ptr(p) (address and metadata)", same_fat(Gc::as_ptr(q), raw));
        (Some(q), c.done())
    }
    fn read<'gc>(&self, _mc: &Mutation<'gc>, _set: DynamicRootSet<'gc>, slot: Option<Orig<'gc, X>>) -> Result<(), String> {
        let q = want_slot(slot)?;
        X::check(&q, &self.spec)
    }
}

// --- GcWeak::as_ptr + GcWeak::from_ptr (keep the upgraded pointer) ---------------------------------------
cell_struct!(WeakAsPtrFromPtrCell);
impl<X: Target> Cell for WeakAsPtrFromPtrCell<X> {
    type S = DefSlot<X::T>;
    fn name(&self) -> String {
        format!("weak_as_ptr_from_ptr/{}", X::NAME)
    }
    fn expect(&self) -> Vec<Exp> {
        self.spec.exp.clone()
    }
    fn make<'gc>(&self, mc: &Mutation<'gc>, _set: DynamicRootSet<'gc>) -> (Option<Gc<'gc, X::T>>, Result<(), String>) {
        let p: Orig<'gc, X> = X::make(mc, &self.spec);
        let n0 = mc.metrics().total_gc_count();
        let w = Gc::downgrade(p);
        let raw: *const X::T = w.as_ptr();
        let w2: GcWeak<'gc, X::T> = unsafe { GcWeak::from_ptr(raw) };
        let mut c = Problems::new();
        c.truth("weak.as_ptr() == as_ptr(p) (address and metadata)", same_fat(raw, Gc::as_ptr(p)));
        c.truth("from_ptr(weak.as_ptr()).as_ptr() == as_ptr(p)", same_fat(w2.as_ptr(), Gc::as_ptr(p)));
        c.truth("GcWeak::ptr_eq(erase(from_ptr(..)), erase(weak))", GcWeak::ptr_eq(GcWeak::erase(w2), GcWeak::erase(w)));
        c.truth("!is_dropped()", !w2.is_dropped());
        let u = w2.upgrade(mc);
        c.truth("upgrade succeeds", u.is_some());
        if let Some(u) = u {
            c.truth("ptr_eq(erase(upgraded), erase(p))", Gc::ptr_eq(Gc::erase(u), Gc::erase(p)));
        }
        c.eq("weak as_ptr/from_ptr allocates", mc.metrics().total_gc_count(), n0);
        (u, c.done())
    }
    fn read<'gc>(&self, _mc: &Mutation<'gc>, _set: DynamicRootSet<'gc>, slot: Option<Gc<'gc, X::T>>) -> Result<(), String> {
        let u = want_slot(slot)?;
        X::check(&u, &self.spec)
    }
}

// --- GcWeak::erase (keep the upgraded erased pointer) ------------------------------------------------------
cell_struct!(WeakEraseCell);
impl<X: Target> Cell for WeakEraseCell<X> {
    type S = ErasedSlot;
    fn name(&self) -> String {
        format!("weak_erase/{}", X::NAME)
    }
    fn expect(&self) -> Vec<Exp> {
        self.spec.exp.clone()
    }
    fn make<'gc>(&self, mc: &Mutation<'gc>, _set: DynamicRootSet<'gc>) -> (Option<Gc<'gc, ()>>, Result<(), String>) {
        let p: Orig<'gc, X> = X::make(mc, &self.spec);
        let n0 = mc.metrics().total_gc_count();
        let we: GcWeak<'gc, ()> = GcWeak::erase(Gc::downgrade(p));
        let mut c = Problems::new();
        c.eq("addr(GcWeak::erase(downgrade(p)).as_ptr())", addr(we.as_ptr()), addr(Gc::as_ptr(p)));
        c.truth("GcWeak::ptr_eq(erased weak, downgrade(erase(p)))", GcWeak::ptr_eq(we, Gc::downgrade(Gc::erase(p))));
        let u = we.upgrade(mc);
        c.truth("upgrade succeeds", u.is_some());
        if let Some(u) = u {
            c.truth("ptr_eq(upgraded, erase(p))", Gc::ptr_eq(u, Gc::erase(p)));
        }
        c.eq("GcWeak::erase allocates", mc.metrics().total_gc_count(), n0);
        (u, c.done())
    }
    fn read<'gc>(&self, _mc: &Mutation<'gc>, _set: DynamicRootSet<'gc>, slot: Option<Gc<'gc, ()>>) -> Result<(), String> {
        let e = want_slot(slot)?;
        unsafe { X::check_erased(e, &self.spec) }
    }
}

// --- DynamicRootSet::stash + fetch / try_fetch (kept by the handle only) ---------------------------------------
struct StashCell<X: Target> {
    spec: Spec,
    try_fetch: bool,
    handle: RefCell<Option<DynamicRoot<RootOf<X::T>>>>,
}
impl<X: Target> StashCell<X> {
    fn new(try_fetch: bool) -> Self {
        StashCell { spec: X::spec(), try_fetch, handle: RefCell::new(None) }
    }
    fn fetch<'gc>(&self, set: DynamicRootSet<'gc>, h: &DynamicRoot<RootOf<X::T>>) -> Result<Gc<'gc, X::T>, String> {
        if self.try_fetch {
            set.try_fetch(h).map_err(|e| format!("try_fetch on the owning set failed: {}", e))
        } else {
            Ok(set.fetch(h))
        }
    }
}
impl<X: Target> Cell for StashCell<X> {
    type S = ErasedSlot;
    fn name(&self) -> String {
        format!("{}/{}", if self.try_fetch { "stash_try_fetch" } else { "stash_fetch" }, X::NAME)
    }
    fn expect(&self) -> Vec<Exp> {
        self.spec.exp.clone()
    }
    fn kept_outside(&self) -> bool {
        true
    }
    fn make<'gc>(&self, mc: &Mutation<'gc>, set: DynamicRootSet<'gc>) -> (Option<Gc<'gc, ()>>, Result<(), String>) {
        let p: Orig<'gc, X> = X::make(mc, &self.spec);
        // `stash` only takes pointers of the default kind.
        let d: Gc<'gc, X::T> = Gc::erase_kind(p);
        let n0 = mc.metrics().total_gc_count();
        let h: DynamicRoot<RootOf<X::T>> = set.stash::<RootOf<X::T>>(mc, d);
        let mut c = Problems::new();
        c.eq("stash allocates a Gc", mc.metrics().total_gc_count(), n0);
        c.truth("set.contains(handle)", set.contains(&h));
        c.truth("handle.as_ptr() == as_ptr(p) (address and metadata)", same_fat(h.as_ptr(), Gc::as_ptr(p)));
        match self.fetch(set, &h) {
            Ok(f) => {
                c.truth("ptr_eq(fetch(stash(p)), p)", Gc::ptr_eq(f, d));
                c.truth("as_ptr(fetched) == as_ptr(p)", same_fat(Gc::as_ptr(f), Gc::as_ptr(p)));
            }
            Err(e) => c.0.push(e),
        }
        let h2 = h.clone();
        match self.fetch(set, &h2) {
            Ok(f) => c.truth("ptr_eq(fetch(handle.clone()), p)", Gc::ptr_eq(f, d)),
            Err(e) => c.0.push(e),
        }
        drop(h2);
        if self.try_fetch {
            // A foreign set must refuse the handle (it becomes garbage right away).
            let other = DynamicRootSet::new(mc);
            c.truth("!other_set.contains(handle)", !other.contains(&h));
            c.truth("other_set.try_fetch(handle) is Err", other.try_fetch(&h).is_err());
        }
        *self.handle.borrow_mut() = Some(h);
        (None, c.done())
    }
    fn read<'gc>(&self, _mc: &Mutation<'gc>, set: DynamicRootSet<'gc>, _slot: Option<Gc<'gc, ()>>) -> Result<(), String> {
        let guard = self.handle.borrow();
        let h = guard.as_ref().ok_or_else(|| "no handle was stored".to_string())?;
        let f = self.fetch(set, h)?;
        X::check(&f, &self.spec)
    }
    fn release(&self) {
        self.handle.borrow_mut().take();
    }
}

// --- unsize!: array -> slice ---------------------------------------------------------------------------
struct UnsizeSliceCell {
    spec: Spec,
}
impl Cell for UnsizeSliceCell {
    type S = DefSlot<[Elem]>;
    fn name(&self) -> String {
        "unsize_slice/slice".to_string()
    }
    fn expect(&self) -> Vec<Exp> {
        self.spec.exp.clone()
    }
    fn make<'gc>(&self, mc: &Mutation<'gc>, _set: DynamicRootSet<'gc>) -> (Option<Gc<'gc, [Elem]>>, Result<(), String>) {
        let ids = &self.spec.ids;
        let a: Gc<'gc, [Elem; 3]> = Gc::new(mc, [Elem::new(ids[0]), Elem::new(ids[1]), Elem::new(ids[2])]);
        let n0 = mc.metrics().total_gc_count();
        let s: Gc<'gc, [Elem]> = unsize!(a => [Elem]);
        let mut c = Problems::new();
        c.eq("unsize! allocates", mc.metrics().total_gc_count(), n0);
        c.eq("addr(as_ptr(unsize!(a)))", addr(Gc::as_ptr(s)), addr(Gc::as_ptr(a)));
        c.eq("len of the unsized slice", s.len(), 3);
        c.truth("ptr_eq(erase(unsize!(a)), erase(a))", Gc::ptr_eq(Gc::erase(s), Gc::erase(a)));
        (Some(s), c.done())
    }
    fn read<'gc>(&self, _mc: &Mutation<'gc>, _set: DynamicRootSet<'gc>, slot: Option<Gc<'gc, [Elem]>>) -> Result<(), String> {
        check_elems(&want_slot(slot)?, &self.spec.ids)
    }
}

struct UnsizeSliceZstCell;
impl Cell for UnsizeSliceZstCell {
    type S = DefSlot<[ZstD]>;
    fn name(&self) -> String {
        "unsize_slice/zst".to_string()
    }
    fn expect(&self) -> Vec<Exp> {
        Spec::zst(2).exp
    }
    fn make<'gc>(&self, mc: &Mutation<'gc>, _set: DynamicRootSet<'gc>) -> (Option<Gc<'gc, [ZstD]>>, Result<(), String>) {
        let a: Gc<'gc, [ZstD; 2]> = Gc::new(mc, [ZstD, ZstD]);
        let n0 = mc.metrics().total_gc_count();
        let s: Gc<'gc, [ZstD]> = unsize!(a => [ZstD]);
        let mut c = Problems::new();
        c.eq("unsize! allocates", mc.metrics().total_gc_count(), n0);
        c.eq("addr(as_ptr(unsize!(a)))", addr(Gc::as_ptr(s)), addr(Gc::as_ptr(a)));
        c.eq("len of the unsized slice", s.len(), 2);
        c.truth("ptr_eq(erase(unsize!(a)), erase(a))", Gc::ptr_eq(Gc::erase(s), Gc::erase(a)));
        (Some(s), c.done())
    }
    fn read<'gc>(&self, _mc: &Mutation<'gc>, _set: DynamicRootSet<'gc>, slot: Option<Gc<'gc, [ZstD]>>) -> Result<(), String> {
        let s = want_slot(slot)?;
        if s.len() != 2 {
            return Err(format!("slice length reads back as {}, expected 2", s.len()));
        }
        for z in s.iter() {
            TZst::check_ref(z)?;
        }
        Ok(())
    }
}

// --- unsize!: value -> dyn Trait -----------------------------------------------------------------------
/// `X` is a Sized target whose `T` implements `Speak`.
struct UnsizeDynCell<X: Target> {
    spec: Spec,
    via_weak: bool,
    _x: PhantomData<X>,
}
impl<X: Target> UnsizeDynCell<X> {
    fn new(via_weak: bool) -> Self {
        UnsizeDynCell { spec: X::spec(), via_weak, _x: PhantomData }
    }
}
impl<X: Target> Cell for UnsizeDynCell<X>
where
    X::T: Speak + Sized,
{
    type S = DefSlot<DynS>;
    fn name(&self) -> String {
        format!("{}/{}", if self.via_weak { "unsize_dyn_weak" } else { "unsize_dyn" }, X::NAME)
    }
    fn expect(&self) -> Vec<Exp> {
        self.spec.exp.clone()
    }
    fn make<'gc>(&self, mc: &Mutation<'gc>, _set: DynamicRootSet<'gc>) -> (Option<Gc<'gc, DynS>>, Result<(), String>) {
        let p: Orig<'gc, X> = X::make(mc, &self.spec);
        let n0 = mc.metrics().total_gc_count();
        let mut c = Problems::new();
        let d: Option<Gc<'gc, DynS>> = if self.via_weak {
            let w = Gc::downgrade(p);
            let dw: GcWeak<'gc, DynS> = unsize!(w => DynS);
            c.eq("addr(unsize!(weak).as_ptr())", addr(dw.as_ptr()), addr(Gc::as_ptr(p)));
            c.truth("GcWeak::ptr_eq(erase(unsize!(weak)), erase(weak))", GcWeak::ptr_eq(GcWeak::erase(dw), GcWeak::erase(w)));
            let u = dw.upgrade(mc);
            c.truth("upgrade succeeds", u.is_some());
            u
        } else {
            Some(unsize!(p => DynS))
        };
        c.eq("unsize! allocates", mc.metrics().total_gc_count(), n0);
        if let Some(d) = d {
            c.eq("addr(as_ptr(unsize!(p)))", addr(Gc::as_ptr(d)), addr(Gc::as_ptr(p)));
            c.truth("ptr_eq(erase(unsize!(p)), erase(p))", Gc::ptr_eq(Gc::erase(d), Gc::erase(p)));
            c.eq("size_of_val(dyn) vs size_of::<T>()", std::mem::size_of_val::<DynS>(&*d), std::mem::size_of::<X::T>());
            c.eq("dyn id() vs typed id()", d.id(), p.id());
        }
        (d, c.done())
    }
    fn read<'gc>(&self, _mc: &Mutation<'gc>, _set: DynamicRootSet<'gc>, slot: Option<Gc<'gc, DynS>>) -> Result<(), String> {
        let d = want_slot(slot)?;
        // Through the vtable first, then through the concrete type again.
        let want_id = self.spec.ids[0];
        if d.id() != want_id {
            return Err(format!("dyn id() reads back as {}, expected {}", d.id(), want_id));
        }
        let back: Gc<'gc, X::T> = unsafe { Gc::cast::<X::T>(d) };
        X::check(&back, &self.spec)?;
        if back.say() != d.say() {
            return Err("dyn say() differs from typed say()".to_string());
        }
        Ok(())
    }
}

// --- ZstCache::alloc / alloc_static ----------------------------------------------------------------------
/// `hit`: `ZstCache<8>` (ZstD has alignment 4: cached); otherwise `ZstCache<2>` (fresh allocation).
struct ZstCacheCell {
    hit: bool,
    use_static: bool,
    dropped_at_alloc: StdCell<usize>,
}
impl ZstCacheCell {
    fn new(hit: bool, use_static: bool) -> Self {
        ZstCacheCell { hit, use_static, dropped_at_alloc: StdCell::new(usize::MAX) }
    }
    fn conv(&self) -> String {
        format!(
            "zst_cache_{}_{}",
            if self.use_static { "alloc_static" } else { "alloc" },
            if self.hit { "hit" } else { "miss" }
        )
    }
    fn identity<'gc, const MAX: usize>(
        &self,
        mc: &Mutation<'gc>,
        cache: ZstCache<'gc, MAX>,
    ) -> (Option<Gc<'gc, ZstD>>, Result<(), String>)
    where
        gc_arena::zst_cache::Alignment<MAX>: gc_arena::zst_cache::ValidAlignment,
    {
        let n0 = mc.metrics().total_gc_count();
        let d0 = drops_of(ZST_ID).len();
        let p: Gc<'gc, ZstD> = if self.use_static { cache.alloc_static(mc, ZstD) } else { cache.alloc(mc, ZstD) };
        self.dropped_at_alloc.set(drops_of(ZST_ID).len() - d0);
        let mut c = Problems::new();
        c.eq("is_cached(p)", cache.is_cached(p), self.hit);
        c.eq("ptr_eq(erase(p), cached_ptr())", Gc::ptr_eq(Gc::erase(p), cache.cached_ptr()), self.hit);
        c.eq("addr(p) == addr(cached_ptr())", addr(Gc::as_ptr(p)) == addr(Gc::as_ptr(cache.cached_ptr())), self.hit);
        c.eq("allocations made by alloc", mc.metrics().total_gc_count() - n0, if self.hit { 0 } else { 1 });
        c.eq("addr(p) % align_of::<ZstD>()", addr(Gc::as_ptr(p)) % std::mem::align_of::<ZstD>(), 0);
        c.eq("destructor runs at alloc time", self.dropped_at_alloc.get(), if self.hit { 1 } else { 0 });
        (Some(p), c.done())
    }
}
impl Cell for ZstCacheCell {
    type S = DefSlot<ZstD>;
    fn name(&self) -> String {
        format!("{}/zst", self.conv())
    }
    fn expect(&self) -> Vec<Exp> {
        // On a hit the value handed to `alloc` is dropped immediately (once) and the shared dummy
        // allocation is never destructed as a `ZstD`.
        vec![Exp { id: ZST_ID, tag: "ZstD", live: if self.hit { 1 } else { 0 }, fin: 1 }]
    }
    fn make<'gc>(&self, mc: &Mutation<'gc>, _set: DynamicRootSet<'gc>) -> (Option<Gc<'gc, ZstD>>, Result<(), String>) {
        // The cache itself is NOT kept: only the pointer it handed out is.
        if self.hit {
            self.identity(mc, ZstCache::<8>::new(mc))
        } else {
            self.identity(mc, ZstCache::<2>::new(mc))
        }
    }
    fn read<'gc>(&self, _mc: &Mutation<'gc>, _set: DynamicRootSet<'gc>, slot: Option<Gc<'gc, ZstD>>) -> Result<(), String> {
        let p = want_slot(slot)?;
        TZst::check_ref(&p)
    }
}

/// A non-ZST through the cache behaves like `Gc::new` / `Gc::new_static`.
struct ZstCacheObjCell {
    spec: Spec,
    use_static: bool,
}
impl Cell for ZstCacheObjCell {
    type S = DefSlot<Obj>;
    fn name(&self) -> String {
        format!("zst_cache_{}_miss/sized", if self.use_static { "alloc_static" } else { "alloc" })
    }
    fn expect(&self) -> Vec<Exp> {
        self.spec.exp.clone()
    }
    fn make<'gc>(&self, mc: &Mutation<'gc>, _set: DynamicRootSet<'gc>) -> (Option<Gc<'gc, Obj>>, Result<(), String>) {
        let cache = ZstCache::<64>::new(mc);
        let n0 = mc.metrics().total_gc_count();
        let v = Obj::new(self.spec.ids[0]);
        let p: Gc<'gc, Obj> = if self.use_static { cache.alloc_static(mc, v) } else { cache.alloc(mc, v) };
        let mut c = Problems::new();
        c.truth("!is_cached(p)", !cache.is_cached(p));
        c.truth("!ptr_eq(erase(p), cached_ptr())", !Gc::ptr_eq(Gc::erase(p), cache.cached_ptr()));
        c.eq("allocations made by alloc", mc.metrics().total_gc_count() - n0, 1);
        (Some(p), c.done())
    }
    fn read<'gc>(&self, _mc: &Mutation<'gc>, _set: DynamicRootSet<'gc>, slot: Option<Gc<'gc, Obj>>) -> Result<(), String> {
        want_slot(slot)?.verify(self.spec.ids[0])
    }
}

// ------------------------------------------------------------------------------------------------
// ZstCache grid: cached  <=>  size_of::<T>() == 0 && align_of::<T>() <= MAX
// ------------------------------------------------------------------------------------------------

macro_rules! grid_zsts {
    ($($name:ident = $align:literal),* $(,)?) => {
        $(
            #[repr(align($align))]
            #[derive(Default)]
            struct $name;
            static_collect!($name);
        )*
    };
}

grid_zsts!(Za1 = 1, Za2 = 2, Za4 = 4, Za8 = 8, Za16 = 16, Za32 = 32, Za64 = 64, Za128 = 128);

#[repr(align(16))]
#[derive(Default)]
struct NzA16(#[allow(dead_code)] u8);
static_collect!(NzA16);

#[derive(Clone, Copy, PartialEq)]
enum Via {
    Alloc,
    AllocStatic,
    AllocZst,
}

impl Via {
    fn label(self) -> &'static str {
        match self {
            Via::Alloc => "alloc",
            Via::AllocStatic => "alloc_static",
            Via::AllocZst => "alloc_zst",
        }
    }
}

fn grid_cell<'gc, const MAX: usize, T>(rep: &mut Report, mc: &Mutation<'gc>, cache: &ZstCache<'gc, MAX>, label: &str)
where
    T: Default + Collect<'gc> + 'static,
    gc_arena::zst_cache::Alignment<MAX>: gc_arena::zst_cache::ValidAlignment,
{
    let size = std::mem::size_of::<T>();
    let align = std::mem::align_of::<T>();
    let expected = size == 0 && align <= MAX;
    for via in [Via::Alloc, Via::AllocStatic, Via::AllocZst] {
        let tail = format!("max{}/{}/{}_size{}_align{}", MAX, via.label(), label, size, align);
        let grid_name = format!("grid/{}", tail);
        let align_name = format!("align/{}", tail);
        // (cached?, ptr_eq?, allocations, address) or None if alloc_zst returned None
        let observed = catch_unwind(AssertUnwindSafe(|| {
            let n0 = mc.metrics().total_gc_count();
            let p: Option<Gc<'gc, T>> = match via {
                Via::Alloc => Some(cache.alloc(mc, T::default())),
                Via::AllocStatic => Some(cache.alloc_static(mc, T::default())),
                // SAFETY: every grid type is an inhabited type with a public constructor; for
                // non-ZSTs the function returns `None` and conjures nothing.
                Via::AllocZst => unsafe { cache.alloc_zst::<T>() },
            };
            let allocs = mc.metrics().total_gc_count() - n0;
            p.map(|p| {
                // A zero-sized read through the pointer (what `*p` does in the crate's own test).
                let r: &T = &p;
                let via_ref = addr(r as *const T);
                (
                    cache.is_cached(p),
                    Gc::ptr_eq(Gc::erase(p), cache.cached_ptr()),
                    allocs,
                    addr(Gc::as_ptr(p)),
                    via_ref,
                )
            })
            .ok_or(allocs)
        }));
        // alloc_zst has no pointer to measure whenever it is expected to return None.
        let align_skipped = via == Via::AllocZst && !expected;
        let exp_txt = if expected { "cached" } else if via == Via::AllocZst { "none" } else { "fresh" };
        match observed {
            Err(p) => {
                let msg = panic_msg(p);
                rep.check("zst_grid", &grid_name, Err(format!("panicked: {}", msg)));
                if align_skipped {
                    rep.skip("zst_align", &align_name, "alloc_zst must return None here: no pointer to measure");
                } else {
                    rep.check("zst_align", &align_name, Err(format!("panicked: {}", msg)));
                }
            }
            Ok(Err(allocs)) => {
                // alloc_zst returned None
                if rep.wants("zst_grid") {
                    rep.info(&format!("{} expected={} observed=none allocs={}", grid_name, exp_txt, allocs));
                }
                let mut c = Problems::new();
                c.truth("alloc_zst returns None only when T is not (ZST with align <= MAX)", !expected);
                c.eq("allocations made by alloc_zst", allocs, 0);
                rep.check("zst_grid", &grid_name, c.done());
                if align_skipped {
                    rep.skip("zst_align", &align_name, "alloc_zst must return None here: no pointer to measure");
                } else {
                    rep.check("zst_align", &align_name, Err("alloc_zst returned None: no pointer to measure".to_string()));
                }
            }
            Ok(Ok((cached, peq, allocs, a, via_ref))) => {
                if rep.wants("zst_grid") {
                    rep.info(&format!(
                        "{} expected={} observed={} ptr_eq_cached_ptr={} allocs={}",
                        grid_name,
                        exp_txt,
                        if cached { "cached" } else { "fresh" },
                        peq,
                        allocs
                    ));
                }
                let mut c = Problems::new();
                c.eq("is_cached(p)", cached, expected);
                c.eq("ptr_eq(erase(p), cached_ptr())", peq, expected);
                c.eq("allocations", allocs, if expected { 0 } else { 1 });
                rep.check("zst_grid", &grid_name, c.done());
                let mut c = Problems::new();
                c.eq(&format!("address {:#x} % align_of::<T>() ({})", a, align), a % align, 0);
                c.eq("address of &*p vs as_ptr(p)", via_ref, a);
                if align_skipped {
                    // Keep the set of CHECK names independent of the observed behaviour; the
                    // unexpected `Some` is already a zst_grid failure.
                    rep.skip("zst_align", &align_name, "alloc_zst must return None here: no pointer to measure");
                } else {
                    rep.check("zst_align", &align_name, c.done());
                }
            }
        }
    }
}

/// `cached_ptr` "will always be aligned to MAX_ALIGN": several caches, with allocations of
/// different sizes in between so that the allocator does not hand out aligned blocks by accident.
fn grid_cached_ptr_alignment<'gc, const MAX: usize>(rep: &mut Report, mc: &Mutation<'gc>)
where
    gc_arena::zst_cache::Alignment<MAX>: gc_arena::zst_cache::ValidAlignment,
{
    let name = format!("cached_ptr/max{}", MAX);
    let r = catch_unwind(AssertUnwindSafe(|| {
        let mut c = Problems::new();
        for i in 0..12usize {
            let filler = vec![0u8; 1 + 24 * i];
            let _ = GcSlice::<u8>::new_slice(mc, &filler);
            let cache = ZstCache::<MAX>::new(mc);
            let a = addr(Gc::as_ptr(cache.cached_ptr()));
            c.eq(&format!("cache #{}: cached_ptr address {:#x} % MAX", i, a), a % MAX, 0);
            c.truth("is_cached(cast(cached_ptr))", cache.is_cached(cache.cached_ptr()));
        }
        c.done()
    }));
    rep.check("zst_align", &name, r.unwrap_or_else(|p| Err(format!("panicked: {}", panic_msg(p)))));
}

fn grid_for_max<const MAX: usize>(rep: &mut Report)
where
    gc_arena::zst_cache::Alignment<MAX>: gc_arena::zst_cache::ValidAlignment,
{
    gc_arena::arena::rootless_mutate(|mc| {
        grid_cached_ptr_alignment::<MAX>(rep, mc);
        let cache = ZstCache::<MAX>::new(mc);
        grid_cell::<MAX, Za1>(rep, mc, &cache, "zst_a1");
        grid_cell::<MAX, Za2>(rep, mc, &cache, "zst_a2");
        grid_cell::<MAX, Za4>(rep, mc, &cache, "zst_a4");
        grid_cell::<MAX, Za8>(rep, mc, &cache, "zst_a8");
        grid_cell::<MAX, Za16>(rep, mc, &cache, "zst_a16");
        grid_cell::<MAX, Za32>(rep, mc, &cache, "zst_a32");
        grid_cell::<MAX, Za64>(rep, mc, &cache, "zst_a64");
        grid_cell::<MAX, Za128>(rep, mc, &cache, "zst_a128");
        grid_cell::<MAX, ()>(rep, mc, &cache, "unit");
        grid_cell::<MAX, [u64; 0]>(rep, mc, &cache, "u64x0");
        grid_cell::<MAX, [u8; 0]>(rep, mc, &cache, "u8x0");
        grid_cell::<MAX, PhantomData<u32>>(rep, mc, &cache, "phantom_u32");
        grid_cell::<MAX, u8>(rep, mc, &cache, "u8");
        grid_cell::<MAX, u16>(rep, mc, &cache, "u16");
        grid_cell::<MAX, u64>(rep, mc, &cache, "u64");
        grid_cell::<MAX, [u8; 3]>(rep, mc, &cache, "u8x3");
        grid_cell::<MAX, NzA16>(rep, mc, &cache, "nonzst_a16");
    });
}

fn run_grid(rep: &mut Report) {
    if !rep.wants_any(&["zst_grid", "zst_align"]) {
        return;
    }
    grid_for_max::<1>(rep);
    grid_for_max::<2>(rep);
    grid_for_max::<8>(rep);
    grid_for_max::<16>(rep);
    grid_for_max::<64>(rep);
}

const NO_PTRMETA_DYN: &str =
    "no PtrMeta impl for dyn Trait: UnitPtrMeta only covers Sized T, so as_thin does not type-check";

/// Cells that exist for every target.
fn run_common<X: Target>(rep: &mut Report) {
    run_cell(rep, EraseCell::<X>::new());
    run_cell(rep, EraseKindCell::<X>::new());
    run_cell(rep, DowngradeUpgradeCell::<X>::new());
    run_cell(rep, AsPtrFromPtrCell::<X>::new());
    run_cell(rep, AsPtrFromPtrKindCell::<X>::new());
    run_cell(rep, WeakAsPtrFromPtrCell::<X>::new());
    run_cell(rep, WeakEraseCell::<X>::new());
    run_cell(rep, StashCell::<X>::new(false));
    run_cell(rep, StashCell::<X>::new(true));
}

/// Cells that need a `PtrMeta` impl for the target's kind.
fn run_thin<X: Target>(rep: &mut Report)
where
    X::P: PtrMeta<X::T, X::M>,
    <X::P as PtrMeta<X::T, X::M>>::Thin: 'static,
{
    run_cell(rep, AsThinCell::<X>::new());
    run_cell(rep, AsThinAsFatCell::<X>::new());
    run_cell(rep, ThinPtrRoundTripCell::<X>::new());
}

fn run_all(rep: &mut Report) {
    run_common::<TSized>(rep);
    run_thin::<TSized>(rep);
    run_common::<TSizedMeta>(rep);
    run_thin::<TSizedMeta>(rep);
    run_common::<TSlice>(rep);
    run_thin::<TSlice>(rep);
    run_common::<TSliceCopy>(rep);
    run_thin::<TSliceCopy>(rep);
    run_common::<TStr>(rep);
    run_thin::<TStr>(rep);
    run_common::<TSwh>(rep);
    run_thin::<TSwh>(rep);
    run_common::<TDyn>(rep);
    for c in ["as_thin", "as_thin_as_fat", "as_thin_ptr_from_thin_ptr"] {
        rep.skip_cell(&format!("{}/{}", c, TDyn::NAME), NO_PTRMETA_DYN);
    }
    run_common::<TZst>(rep);
    run_thin::<TZst>(rep);

    // unsize!
    run_cell(rep, UnsizeSliceCell { spec: Spec::counted(&["Elem", "Elem", "Elem"]) });
    run_cell(rep, UnsizeSliceZstCell);
    for t in ["sized", "str", "dyn"] {
        rep.skip_cell(
            &format!("unsize_slice/{}", t),
            "unsize! to a slice needs a Sized array source; no such coercion exists for this target",
        );
    }
    rep.skip_cell(
        "as_thin/unsized_slice",
        "Gc<[E]> made by unsize! has DefaultGcKind and UnitPtrMeta is not PtrMeta<[E]>: as_thin does not type-check",
    );
    run_cell(rep, UnsizeDynCell::<TSized>::new(false));
    run_cell(rep, UnsizeDynCell::<TSizedMeta>::new(false));
    run_cell(rep, UnsizeDynCell::<TZst>::new(false));
    run_cell(rep, UnsizeDynCell::<TSized>::new(true));
    run_cell(rep, UnsizeDynCell::<TZst>::new(true));
    for t in ["slice", "str", "dyn"] {
        rep.skip_cell(
            &format!("unsize_dyn/{}", t),
            "unsize! needs a Sized source type (impl __CoercePtrInternal for Gc<T, K> has T: Sized)",
        );
    }

    // ZstCache as a conversion
    for (hit, use_static) in [(true, false), (true, true), (false, false), (false, true)] {
        let cell = ZstCacheCell::new(hit, use_static);
        let conv = cell.conv();
        run_cell_ref(rep, &cell);
        if rep.wants_any(&CELL_GROUPS) {
            let n = cell.dropped_at_alloc.get();
            rep.info(&format!(
                "{}: the ZstD value handed to the cache was destructed {} time(s) inside alloc (before any collection)",
                conv,
                if n == usize::MAX { "?".to_string() } else { n.to_string() }
            ));
        }
    }
    run_cell(rep, ZstCacheObjCell { spec: Spec::counted(&["Obj"]), use_static: false });
    run_cell(rep, ZstCacheObjCell { spec: Spec::counted(&["Obj"]), use_static: true });
    for t in ["slice", "str", "dyn"] {
        rep.skip_cell(
            &format!("zst_cache_alloc/{}", t),
            "ZstCache::alloc/alloc_static take the value by move (T: Sized); unsized targets cannot be passed",
        );
    }
    if rep.wants_any(&CELL_GROUPS) {
        rep.info("str and slice_copy targets have no destructor: their survive/drop_once checks rest on total_gc_count only");
    }

    run_grid(rep);
    run_rooted_cache(rep);
}

// ------------------------------------------------------------------------------------------------
// A ZstCache that is reachable from the root (directly, inside a derived struct, inside an Option, behind a
// Gc) keeps its cached allocation alive: pointers handed out before and after any number of collections are
// the same object, a weak pointer to it still upgrades, nothing is released.
// ------------------------------------------------------------------------------------------------
#[derive(Collect)]
#[collect(no_drop)]
struct CacheHolder<'gc> {
    pad: u32,
    cache: ZstCache<'gc, 8>,
}

#[derive(Collect)]
#[collect(no_drop)]
struct CacheRoot<'gc> {
    direct: ZstCache<'gc, 8>,
    in_struct: CacheHolder<'gc>,
    in_option: Option<ZstCache<'gc, 8>>,
    behind_gc: Gc<'gc, CacheHolder<'gc>>,
    weaks: Gc<'gc, gc_arena::lock::RefLock<Vec<GcWeak<'gc, ZstD>>>>,
}

fn run_rooted_cache(rep: &mut Report) {
    if !rep.wants("zst_rooted") {
        return;
    }
    let mut arena = Arena::<Rootable![CacheRoot<'_>]>::new(|mc| CacheRoot {
        direct: ZstCache::new(mc),
        in_struct: CacheHolder { pad: 1, cache: ZstCache::new(mc) },
        in_option: Some(ZstCache::new(mc)),
        behind_gc: Gc::new(mc, CacheHolder { pad: 2, cache: ZstCache::new(mc) }),
        weaks: Gc::new(mc, gc_arena::lock::RefLock::new(Vec::new())),
    });
    let names = ["direct", "in_struct", "in_option", "behind_gc"];
    let before = arena.metrics().total_gc_count();
    // weak pointers to the four cached allocations, taken before any collection
    arena.mutate(|mc, root| {
        let caches = [&root.direct, &root.in_struct.cache, root.in_option.as_ref().unwrap(), &root.behind_gc.cache];
        let mut w = root.weaks.borrow_mut(mc);
        for c in caches {
            let p: Gc<'_, ZstD> = c.alloc(mc, ZstD);
            w.push(Gc::downgrade(p));
        }
    });
    for round in 0..3 {
        arena.finish_cycle();
        arena.finish_cycle();
        let now = arena.metrics().total_gc_count();
        rep.check("zst_rooted", &format!("round{round}/count"),
                  if now == before { Ok(()) } else { Err(format!("total_gc_count went from {before} to {now} although every cache is reachable from the root")) });
        arena.mutate(|mc, root| {
            let caches = [&root.direct, &root.in_struct.cache, root.in_option.as_ref().unwrap(), &root.behind_gc.cache];
            let weaks = root.weaks.borrow();
            for (i, c) in caches.iter().enumerate() {
                let mut pr = Problems::new();
                let up = weaks[i].upgrade(mc);
                pr.truth("weak pointer to the cached allocation is not dropped", !weaks[i].is_dropped());
                pr.truth("weak pointer to the cached allocation upgrades", up.is_some());
                if up.is_some() {
                    let p: Gc<'_, ZstD> = c.alloc(mc, ZstD);
                    pr.truth("alloc hands out the cached allocation", c.is_cached(p));
                    pr.truth("same object as before the collections", Gc::ptr_eq(p, up.unwrap()));
                }
                rep.check("zst_rooted", &format!("round{round}/{}", names[i]), pr.done());
            }
        });
    }
}

fn main() {
    let filter = std::env::args().nth(1).filter(|s| !s.is_empty());
    // Panics are reported as FAIL lines; keep the default hook's message off stdout (it goes to
    // stderr anyway) but make it short.
    std::panic::set_hook(Box::new(|info| {
        eprintln!("c19_twin: caught panic: {}", info);
    }));
    let mut rep = Report { filter, checks: 0, failed: 0, skipped: 0, cell_done: Vec::new() };

    run_all(&mut rep);

    println!("SUMMARY checks={} failed={} skipped={}", rep.checks, rep.failed, rep.skipped);
    std::process::exit(if rep.failed == 0 { 0 } else { 1 });
}
