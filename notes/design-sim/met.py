# metrics extension of the throwaway sim: checks C09/C10 candidate statements with exact rationals
import random, sys
from fractions import Fraction as Fr
import sim
from sim import *
class M:
    def __init__(m, pac):
        m.p=pac; m.total=0; m.wake=Fr(0); m.art=Fr(0); m.alloc=0; m.dropped=0; m.freed=0; m.marked=0; m.traced=0; m.rem=0
    def debits(m): return m.alloc - m.wake + m.art
    def credits(m): p=m.p; return m.marked*p['mark']+m.traced*p['trace']+m.rem*p['keep']+m.dropped*p['drop']+m.freed*p['free']
    def debt(m):
        if m.total==0: return Fr(0)
        d=m.debits()
        if d<=0: return Fr(0)
        return max(Fr(0), d-m.credits())
    def finish_cycle(m, reset):
        wake=max(m.rem*m.p['sleep'], Fr(m.p['min_sleep'])); art = Fr(0) if reset else m.debt()
        m.wake=wake; m.art=art; m.alloc=m.dropped=m.freed=m.marked=m.traced=m.rem=0
# monkeypatch sim functions to count metrics
def install(s, m):
    s.m=m
_alloc=sim.alloc
def alloc2(s,nt): i=_alloc(s,nt); s.m.total+=1; s.m.alloc+=1; return i
sim.alloc=alloc2
def mga(s,p):
    o=s.h[p]; assert o.color==B; o.color=G; s.gray_again.append(p); assert s.m.traced>=1, 'C10 underflow'; s.m.traced-=1
sim.make_gray_again=mga
def trace2(s,p):
    o=s.h[p]; c=o.color
    if c in (W,WW):
        if o.nt: o.color=G; s.gray.append(p)
        else: o.color=B
        if c==W: s.m.marked+=1
sim.trace=trace2
def tw2(s,p):
    o=s.h[p]
    if o.color==W: o.color=WW; s.m.marked+=1
sim.trace_weak=tw2
def mark_one2(s, pa=None):
    g = s.gray.pop() if s.gray else (s.gray_again.pop() if s.gray_again else None)
    if g is not None:
        s.m.traced+=1; o=s.h[g]; o.color=B
        if not sim.trace_obj_edges(s,o.strong,o.weak,pa): sim.make_gray_again(s,g); return 'panic'
        return 'cont'
    elif s.rnt:
        if not sim.trace_obj_edges(s,s.root_s,s.root_w,pa): return 'panic'
        s.rnt=False; return 'cont'
    return 'break'
def sweep_one2(s):
    if s.sweep is None: s.sweep_prev=None; return 'break'
    u=s.sweep; o=s.h[u]; nxt=o.next; s.sweep=nxt
    if o.color==W:
        if s.sweep_prev is not None: s.h[s.sweep_prev].next=nxt
        else: s.all=nxt
        if o.live: s.m.dropped+=1
        del s.h[u]; s.m.total-=1; s.m.freed+=1
    elif o.color==WW:
        s.sweep_prev=u; o.color=W
        if o.live: o.live=False; o.strong=[]; o.weak=[]; s.m.dropped+=1
        s.m.rem+=1
    else: s.sweep_prev=u; o.color=W; s.m.rem+=1
    return 'cont'
def resurrect2(s,t):
    o=s.h[t]; c=o.color
    if c in (W,WW):
        o.color=G; s.gray.append(t)
        if c==W: s.m.marked+=1
def do_coll(s, paydebt, stop):
    m=s.m
    if paydebt and not m.debt()>0: return
    has_slept=False
    while True:
        if s.phase=='Sleep':
            has_slept=True; s.phase='Mark'; s.wakeinfo=(m.total, m.alloc, m.debits(), paydebt)
        elif s.phase=='Mark':
            if mark_one2(s)=='break':
                if ORD[stop]<=0: break
                s.phase='Sweep'; s.sweep=s.all
        elif s.phase=='Sweep':
            if ORD[stop]<=1: break
            if sweep_one2(s)=='break':
                m.finish_cycle(has_slept); s.rnt=True; s.phase='Sleep'; s.wakeinfo=None
                if stop=='FinishCycle': return
                if has_slept: break
        sim.check(s)
        if paydebt and not m.debt()>0: break
def run(seed, steps):
    rng=random.Random(seed); s=St(); s.fixed=True
    den=32
    def pick(): return Fr(rng.randrange(0,den),den)
    while True:
        p={'mark':pick(),'trace':pick(),'keep':pick(),'drop':pick(),'free':pick(),'sleep':Fr(rng.randrange(0,64),16),'min_sleep':rng.choice([0,1,4,16,64])}
        rho=max(p['mark']+p['trace']+p['keep'], p['drop']+p['free'], p['mark']+p['drop']+p['keep'])
        if rho<1: break
    m=M(p); install(s,m); s.wakeinfo=None; viol=0
    for _ in range(steps):
        k=rng.random()
        if k<0.6:
            d0=m.debt(); mk=m.marked; sim.callback(s,rng); assert m.debt()>=d0-(m.marked-mk)*p['mark'], ('C10 debt decreased by mutation', d0, m.debt())
        elif k<0.63:
            x=Fr(rng.randrange(0,40),4); d0=m.debt(); m.art+=x
            if d0>0: assert m.debt()==d0+x
        else:
            mode=rng.choice(['collect','mark_debt','finish_marking','cycle_debt','cycle_debt','finish_cycle'])
            if mode=='collect': do_coll(s,True,'Full'); assert m.debt()==0
            elif mode=='mark_debt': do_coll(s,True,'FullyMarked'); assert m.debt()==0 or s.phase in('Mark','Sweep')
            elif mode=='finish_marking': do_coll(s,False,'FullyMarked')
            elif mode=='finish_cycle': do_coll(s,False,'FinishCycle'); assert s.phase=='Sleep'
            else:
                do_coll(s,True,'FinishCycle')
                assert m.debt()==0 or s.phase=='Sleep'
                if s.phase!='Sleep' and s.wakeinfo is not None:
                    H,a0,dd0,bydebt=s.wakeinfo; A=m.alloc-a0
                    # general: A*(1-rho) <= rho*H - d0   (or heap empty)
                    if m.total>0: assert A*(1-rho) <= rho*H - dd0, ('C09 general', A,H,dd0,rho)
                    if bydebt and m.total>0: assert A*(1-rho) < rho*H, ('C09', A, H, rho)
                    if (not bydebt) and not (A*(1-rho) < rho*H): viol+=1
        sim.check(s)
        if s.phase=='Sleep' and m.art==0: assert (m.debt()>0) == (m.total>0 and m.alloc>m.wake)
    return viol
if __name__=='__main__':
    n=int(sys.argv[1]); v=0
    for seed in range(n): v+=run(seed,400)
    print('ok',n,'early-wake literal-bound exceedances:',v)
