# more statement checks on the throwaway sim: C02 exactness, C05 completeness, C07, C04, C08
import random, sys, copy
import sim
from sim import *
def finish_cycle(s, rng):
    # no trace panics here
    class R:
        def random(self): return 1.0
        def randrange(self,a,b=None): return 0
    sim.do_collection(s, False, 'FinishCycle', 0, R(), sim.check)
def weak_targets_of_reach(s, r):
    out=set()
    for t in s.root_w:
        if t is not None: out.add(t)
    for i in r:
        if i in s.h and s.h[i].live:
            for t in s.h[i].weak:
                if t is not None: out.add(t)
    return out
def c02(s, rng):
    c=copy.deepcopy(s); c.regs=[None]*4
    r0=sim.reach(c); wt=weak_targets_of_reach(c,r0)
    finish_cycle(c,rng); assert c.phase=='Sleep'
    finish_cycle(c,rng); assert c.phase=='Sleep'
    live={i for i,o in c.h.items() if o.live}
    assert live==r0, ('C02 live != reach', live, r0)
    for i,o in c.h.items():
        if not o.live: assert i in wt, ('C02 stray shell', i)
    # shells exactly those weakly referenced (that still existed)
def c05(s):
    for x in sim.reach(s): assert sim.upgrade(s,x), ('C05 complete', x, s.phase, s.h[x].color)
def drop_arena(s, ever):
    L=sim.chain(s,s.all)
    for i in L:
        if s.h[i].live: assert i not in s.dropped; s.dropped.add(i)
        assert i not in s.freed; s.freed.add(i)
    assert s.dropped==ever and s.freed==ever, ('C04', ever-s.dropped, ever-s.freed)
PH={'Sleep':0,'Marking':1,'Marked':2,'Sweep':3}
def obs(s):
    if s.phase=='Mark': return 'Marked' if not (s.gray or s.gray_again or s.rnt) else 'Marking'
    return s.phase
ALLOWED={('Sleep','Marking'),('Marking','Marked'),('Marked','Marking'),('Marked','Sweep'),('Sweep','Sleep')}
def path_ok(a,b,multi):
    if a==b: return True
    # reachable within automaton without passing Sweep->Sleep->Marking when not multi
    seen={a}; fr=[a]
    while fr:
        x=fr.pop()
        for (p,q) in ALLOWED:
            if p==x and q not in seen:
                if not multi and p=='Sleep' and a!='Sleep': continue
                seen.add(q); fr.append(q)
    return b in seen
def run(seed, steps):
    rng=random.Random(seed); s=St(); s.fixed=True; mutated=True
    for n in range(steps):
        k=rng.random(); before=obs(s)
        if k<0.5:
            sim.callback(s,rng); mutated=True
            a=obs(s); assert a==before or (before=='Marked' and a=='Marking'), ('C08 callback', before, a)
        else:
            mode=rng.choice(['collect','mark_debt','finish_marking','cycle_debt','finish_cycle','ss'])
            bud=rng.choice([0,1,1,2,3,5,50])
            if s.phase=='Sleep': mutated_local=False
            if mode=='collect': sim.do_collection(s,True,'Full',bud,rng,sim.check)
            elif mode=='mark_debt':
                sim.do_collection(s,True,'FullyMarked',bud,rng,sim.check); a=obs(s)
                if before=='Marked': assert a=='Marked'
                if before=='Sweep': assert a=='Sweep'
                assert a!='Sweep' or before=='Sweep'
            elif mode=='finish_marking':
                sim.do_collection(s,False,'FullyMarked',0,rng,sim.check); a=obs(s)
                if before=='Sweep': assert a=='Sweep'
                # may fail to reach Marked only because of an injected trace panic
            elif mode=='cycle_debt':
                sim.do_collection(s,True,'FinishCycle',bud,rng,sim.check); a=obs(s)
                assert not (before=='Sweep' and a in ('Marking','Marked'))
            elif mode=='finish_cycle':
                sim.do_collection(s,False,'FinishCycle',0,rng,sim.check)
            else:
                sim.do_collection(s,False,'FullyMarked',0,rng,sim.check)
                if obs(s)=='Marked':
                    r=sim.reach(s)
                    for x in r: assert s.h[x].color==B, ('C07 sound', x)
                    if rng.random()<0.5: sim.callback(s,rng,fin=True); mutated=True
                    else: sim.do_collection(s,False,'AtSweep',0,rng,sim.check); assert s.phase=='Sweep'
        sim.check(s); c05(s)
        if rng.random()<0.05: c02(s,rng)
    ever=set(range(s.nid)); drop_arena(s, ever)
def run_c07_exact(seed):
    # build a graph, then from Sleep mark with no mutation: is_dead <-> unreachable
    rng=random.Random(seed); s=St(); s.fixed=True
    for _ in range(rng.randrange(1,12)): sim.callback(s,rng)
    finish_cycle(s,rng)
    for _ in range(rng.randrange(0,6)): sim.callback(s,rng)
    if s.phase!='Sleep': finish_cycle(s,rng)
    # now Sleep; mutate a bit while asleep, then mark atomically or in increments w/o mutation
    for _ in range(rng.randrange(0,4)): sim.callback(s,rng)
    assert s.phase=='Sleep'
    class R:
        def random(self): return 1.0
        def randrange(self,a,b=None): return 0
    while not (s.phase=='Mark' and not (s.gray or s.gray_again or s.rnt)):
        sim.do_collection(s,True,'FullyMarked',rng.randrange(1,4),R(),sim.check)
    r=sim.reach(s)
    for i,o in s.h.items():
        dead = o.color in (W,WW)
        assert dead == (i not in r), ('C07 exact', i, o.color, i in r)
if __name__=='__main__':
    n=int(sys.argv[1])
    for seed in range(n): run(seed,300)
    for seed in range(n*3): run_c07_exact(seed)
    print('ok',n)
