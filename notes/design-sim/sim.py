# Throwaway design-validation simulation of gc-arena's Context (src/context.rs) with the
# candidate invariants G*/A1/T*/SW* asserted after every micro step.  Not part of /verif.
import random, sys
W, WW, G, B = 'W', 'WW', 'G', 'B'
class Obj:
    def __init__(s, nt, nslots): s.color=W; s.nt=nt; s.live=True; s.strong=[None]*nslots if nt else []; s.weak=[None]*nslots if nt else []; s.next=None
class St:
    def __init__(s):
        s.h={}; s.phase='Sleep'; s.all=None; s.sweep=None; s.sweep_prev=None; s.rnt=True; s.gray=[]; s.gray_again=[]
        s.root_s=[None]*3; s.root_w=[None]*3; s.nid=0; s.regs=[None]*4; s.events=[]; s.dropped=set(); s.freed=set()
        s.fixed=False  # apply candidate fix for C10
def chain(s, start):
    out=[]; p=start; seen=set()
    while p is not None:
        assert p in s.h, ('dangling next', p); assert p not in seen; seen.add(p); out.append(p); p=s.h[p].next
    return out
def alloc(s, nt):
    i=s.nid; s.nid+=1; o=Obj(nt,2); s.h[i]=o; o.next=s.all; s.all=i
    if s.phase=='Sweep' and s.sweep_prev is None: s.sweep_prev=s.all
    return i
def make_gray_again(s,p): o=s.h[p]; assert o.color==B; o.color=G; s.gray_again.append(p)
def trace(s,p):
    o=s.h[p]
    if o.color in (W,WW):
        if o.nt: o.color=G; assert o.live; s.gray.append(p)
        else: o.color=B
def trace_weak(s,p):
    o=s.h[p]
    if o.color==W: o.color=WW
def bb(s,p,c):
    if s.phase=='Mark' and s.h[p].color==B and (c is None or s.h[c].color in (W,WW)):
        if s.fixed and not s.h[p].nt: return
        make_gray_again(s,p)
def bbw(s,p,c):
    if s.phase=='Mark' and s.h[p].color==B and s.h[c].color==W:
        if s.fixed and not s.h[p].nt: return
        make_gray_again(s,p)
def fb(s,p,c):
    if s.phase=='Mark' and (p is None or s.h[p].color==B): trace(s,c)
def fbw(s,p,c):
    if s.phase=='Mark' and (p is None or s.h[p].color==B): trace_weak(s,c)
def upgrade(s,p):
    o=s.h[p]
    if not o.live: return False
    if s.phase=='Sweep' and o.color==WW: return False
    return True
def trace_obj_edges(s, strong, weak, panic_after=None):
    n=0
    for t in strong:
        if panic_after is not None and n>=panic_after: return False
        if t is not None: trace(s,t)
        n+=1
    for t in weak:
        if panic_after is not None and n>=panic_after: return False
        if t is not None: trace_weak(s,t)
        n+=1
    return True
def mark_one(s, panic_after=None):
    g = s.gray.pop() if s.gray else (s.gray_again.pop() if s.gray_again else None)
    if g is not None:
        o=s.h[g]; o.color=B; assert o.live
        if not trace_obj_edges(s,o.strong,o.weak,panic_after): make_gray_again(s,g); return 'panic'
        return 'cont'
    elif s.rnt:
        if not trace_obj_edges(s,s.root_s,s.root_w,panic_after): return 'panic'
        s.rnt=False; return 'cont'
    return 'break'
def sweep_one(s):
    if s.sweep is None: s.sweep_prev=None; return 'break'
    u=s.sweep; o=s.h[u]; nxt=o.next; s.sweep=nxt
    if o.color==W:
        if s.sweep_prev is not None: s.h[s.sweep_prev].next=nxt
        else: assert s.all==u; s.all=nxt
        if o.live: s.events.append(('drop',u)); assert u not in s.dropped; s.dropped.add(u)
        s.events.append(('free',u)); s.freed.add(u); del s.h[u]
    elif o.color==WW:
        s.sweep_prev=u; o.color=W
        if o.live: o.live=False; s.events.append(('drop',u)); assert u not in s.dropped; s.dropped.add(u); o.strong=[]; o.weak=[]
    elif o.color==B: s.sweep_prev=u; o.color=W
    else: assert False,'gray in sweep'
    return 'cont'
ORD={'FullyMarked':0,'AtSweep':1,'FinishCycle':2,'Full':3}
def do_collection(s, paydebt, stop, budget, rng, check):
    # budget: oracle for "debt positive": number of loop iterations allowed when paydebt
    if paydebt and budget<=0: return
    has_slept=False
    while True:
        if s.phase=='Sleep': has_slept=True; s.phase='Mark'
        elif s.phase=='Mark':
            pa = rng.randrange(0,4) if rng.random()<0.03 else None
            r=mark_one(s,pa)
            if r=='panic': check(s); return
            if r=='break':
                if ORD[stop]<=0: break
                s.phase='Sweep'; s.sweep=s.all
        elif s.phase=='Sweep':
            if ORD[stop]<=1: break
            if sweep_one(s)=='break':
                s.rnt=True; s.phase='Sleep'
                if stop=='FinishCycle': return
                if has_slept: assert stop=='Full'; break
        check(s)
        budget-=1
        if paydebt and budget<=0: break
def resurrect(s,t):
    o=s.h[t]
    if o.color in (W,WW): o.color=G; s.gray.append(t)
def reach(s):
    seen=set(); st=[t for t in s.root_s if t is not None]
    while st:
        p=st.pop()
        if p in seen: continue
        seen.add(p)
        if p in s.h and s.h[p].live: st+= [t for t in s.h[p].strong if t is not None]
    return seen
def check(s, in_callback=False):
    L=chain(s,s.all); assert set(L)==set(s.h.keys()) and len(L)==len(s.h)
    q=s.gray+s.gray_again; assert len(set(q))==len(q)
    for i,o in s.h.items():
        assert (o.color==G)==(i in q), ('gray/queue',i,o.color)
        if o.color==G: assert o.live and s.phase=='Mark'
        if not o.nt: assert not o.strong and not o.weak
    if s.phase=='Sleep':
        assert all(o.color==W for o in s.h.values()) and s.rnt and s.sweep is None and s.sweep_prev is None
    if s.phase=='Mark': assert s.sweep is None and s.sweep_prev is None
    cond=set(); doomed=set()
    if s.phase=='Sweep':
        U=chain(s,s.sweep); k=len(L)-len(U); assert L[k:]==U
        pre=L[:k]
        assert s.sweep_prev==(pre[-1] if pre else None), ('sweep_prev',s.sweep_prev,pre)
        for i in pre: assert s.h[i].color==W
        for i in U:
            c=s.h[i].color; assert c!=G
            if c in (W,WW): cond.add(i)
            if c==W: doomed.add(i)
    def okS(t): return t in s.h and s.h[t].live and t not in cond
    def okW(t): return t in s.h and t not in doomed
    for i,o in s.h.items():
        if o.live and i not in cond:
            for t in o.strong:
                if t is not None: assert okS(t), ('A1/SW1',i,t,s.phase)
            for t in o.weak:
                if t is not None: assert okW(t), ('A1w/SW2',i,t,s.phase)
        if s.phase=='Mark' and o.color==B:
            for t in o.strong:
                if t is not None: assert s.h[t].color in (G,B), ('T1',i,t)
            for t in o.weak:
                if t is not None: assert s.h[t].color!=W, ('T2',i,t)
    for t in s.root_s:
        if t is not None:
            assert okS(t), ('root strong',t,s.phase)
            if s.phase=='Mark' and not s.rnt: assert s.h[t].color in (G,B), 'T3'
    for t in s.root_w:
        if t is not None:
            assert okW(t), ('root weak',t)
            if s.phase=='Mark' and not s.rnt: assert s.h[t].color!=W, 'T3w'
    for t in s.regs:
        if t is not None: assert okS(t), ('reg',t,s.phase)
    for t in reach(s): assert t in s.h and s.h[t].live, ('C01',t)
def callback(s, rng, fin=False):
    s.regs=[None]*4; n=rng.randrange(1,8); root_mut = (not fin) and rng.random()<0.5
    if root_mut and s.phase=='Mark': s.rnt=True
    for i in range(4):
        t=s.root_s[rng.randrange(3)]
        for _ in range(rng.randrange(3)):
            if t is not None and s.h[t].nt and s.h[t].strong[rng.randrange(2)] is not None: t=s.h[t].strong[rng.randrange(2)] or t
        if rng.random()<0.7: s.regs[i]=t
    check(s, True)
    for _ in range(n):
        k=rng.choice([0,0,1,2,2,3,3,4,5,6,7,8,9,10,10,11,11,11,12,13,14,14,15,16,16,17]); r=rng.randrange(4); r2=rng.randrange(4); sl=rng.randrange(2); rs=rng.randrange(3)
        a=s.regs[r]; b=s.regs[r2]
        if k==0: s.regs[r]=alloc(s, rng.random()<0.75)
        elif k==1: s.regs[r]=s.root_s[rs]
        elif k==2 and a is not None and s.h[a].nt: s.regs[r2]=s.h[a].strong[sl]
        elif k in (3,4) and a is not None and s.h[a].nt:   # Gc::write path then store (strong or weak or clear)
            bb(s,a,None); m=rng.randrange(3)
            if m==0: s.h[a].strong[sl]=b
            elif m==1: s.h[a].weak[sl]=b
            else: s.h[a].strong[sl]=None
        elif k==5 and a is not None and b is not None and s.h[a].nt: bb(s,a,b); s.h[a].strong[sl]=b
        elif k==6 and a is not None and b is not None and s.h[a].nt: bbw(s,a,b); s.h[a].weak[sl]=b
        elif k==7 and a is not None and b is not None and s.h[a].nt: fb(s,a,b); s.h[a].strong[sl]=b
        elif k==8 and a is not None and b is not None and s.h[a].nt: fbw(s,a,b); s.h[a].weak[sl]=b
        elif k==9 and b is not None:   # child-only forward barrier: any parents may adopt
            fb(s,None,b)
            for _ in range(2):
                p=s.regs[rng.randrange(4)]
                if p is not None and s.h[p].nt: s.h[p].strong[rng.randrange(2)]=b
        elif k==10 and a is not None and s.h[a].nt:   # upgrade weak slot
            t=s.h[a].weak[sl]
            if t is not None and upgrade(s,t): s.regs[r2]=t
        elif k==11 and root_mut:
            m=rng.randrange(3)
            if m==0: s.root_s[rs]=b
            elif m==1: s.root_w[rs]=b
            else: s.root_s[rs]=None
        elif k==12:
            t=s.root_w[rs]
            if t is not None and upgrade(s,t): s.regs[r]=t
        elif k==13 and a is not None: bb(s,a,None)  # barrier on anything incl. leaves (C10)
        elif k==14 and fin:
            t=s.root_w[rs]
            if t is not None and s.h[t].live:   # GcWeak::resurrect
                assert s.phase=='Mark'; resurrect(s,t)
                s.regs[r]=t
        elif k==15 and b is not None: fbw(s,None,b)
        elif k==16 and a is not None and b is not None and s.h[a].nt and s.h[b].nt:   # copy a weak slot a->b via Gc::write / weak barriers
            t=s.h[a].weak[sl]; m=rng.randrange(3)
            if t is not None:
                if m==0: bb(s,b,None)
                elif m==1: bbw(s,b,t)
                else: fbw(s,b,t)
                s.h[b].weak[rng.randrange(2)]=t
        elif k==17 and root_mut and a is not None and s.h[a].nt:
            t=s.h[a].weak[sl]
            if t is not None: s.root_w[rs]=t
        check(s, True)
    s.regs=[None]*4
def run(seed, steps):
    rng=random.Random(seed); s=St(); s.fixed=True
    for _ in range(steps):
        k=rng.random()
        if k<0.5: callback(s,rng)
        else:
            mode=rng.choice([(True,'Full'),(True,'FullyMarked'),(False,'FullyMarked'),(True,'FinishCycle'),(False,'FinishCycle'),('ss',None)])
            if mode[0]=='ss':
                do_collection(s,False,'FullyMarked',0,rng,check)
                if s.phase=='Mark' and not s.gray and not s.gray_again and not s.rnt:
                    if rng.random()<0.5: callback(s,rng,fin=True)
                    else: do_collection(s,False,'AtSweep',0,rng,check); assert s.phase=='Sweep'
            else: do_collection(s,mode[0],mode[1],rng.choice([0,1,1,1,2,2,3,5,50]),rng,check)
        check(s)
    return s
if __name__=='__main__':
    n=int(sys.argv[1]); tot=0
    for seed in range(n):
        s=run(seed,300); tot+=len(s.events)
    print('ok', n, 'runs; events', tot)
