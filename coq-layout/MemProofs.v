(** * MemProofs — byte-map memory, metadata read-back, dealloc and thin/fat theorems (C17). *)

Require Import NArith ZArith List Bool Lia.
Require Import GALayout.ModelLayout GALayout.LayoutProofs.
Import ListNotations.
Open Scope N_scope.

Ltac Zify.zify_post_hook ::= Z.div_mod_to_equations.

Definition blen (bs : list N) : N := N.of_nat (length bs).

(** ** store / load *)

Lemma store_out m a bs x : x < a \/ a + blen bs <= x -> store m a bs x = m x.
Proof.
  revert a. induction bs as [|b r IH]; intros a H; cbn [store]; [reflexivity|].
  unfold upd. unfold blen in *. cbn [length] in H.
  destruct (x =? a) eqn:E; [apply N.eqb_eq in E; lia|].
  apply IH. lia.
Qed.

Lemma load_ext m m' a w :
  (forall x, a <= x < a + N.of_nat w -> m x = m' x) -> load m a w = load m' a w.
Proof.
  revert a. induction w as [|w IH]; intros a H; cbn [load]; [reflexivity|].
  f_equal.
  - apply H. lia.
  - apply IH. intros x Hx. apply H. lia.
Qed.

Lemma load_store_same m a bs : load (store m a bs) a (length bs) = bs.
Proof.
  revert a. induction bs as [|b r IH]; intros a; cbn [store load length]; [reflexivity|].
  f_equal.
  - unfold upd. rewrite N.eqb_refl. reflexivity.
  - transitivity (load (store m (a + 1) r) (a + 1) (length r)); [|apply IH].
    apply load_ext.
    intros x Hx. unfold upd.
    destruct (x =? a) eqn:E; [apply N.eqb_eq in E; lia | reflexivity].
Qed.

Lemma load_store_disjoint m a bs a' w :
  a' + N.of_nat w <= a \/ a + blen bs <= a' ->
  load (store m a bs) a' w = load m a' w.
Proof.
  intros H. apply load_ext. intros x Hx. apply store_out. lia.
Qed.

Lemma load_length m a w : length (load m a w) = w.
Proof. revert a. induction w; intros; cbn; auto. Qed.

(** writes that all stay inside [lo, hi) do not change a load outside of it *)
Definition writes_within (lo hi : N) (ws : list (N * list N)) : Prop :=
  Forall (fun w => lo <= fst w /\ fst w + blen (snd w) <= hi) ws.

Lemma load_apply_writes lo hi ws m a' w :
  writes_within lo hi ws ->
  a' + N.of_nat w <= lo \/ hi <= a' ->
  load (apply_writes ws m) a' w = load m a' w.
Proof.
  unfold apply_writes. revert m. induction ws as [|[a bs] ws IH]; intros m Hw Hd; cbn [fold_left].
  - reflexivity.
  - inversion Hw as [|? ? [H1 H2] Hw']; subst. cbn [fst snd] in *.
    rewrite IH by assumption.
    apply load_store_disjoint. lia.
Qed.

(** ** little-endian encode / decode *)

Lemma le_encode_length w n : length (le_encode w n) = w.
Proof. revert n. induction w; intros; cbn; auto. Qed.

Lemma le_decode_encode w n : n < 256 ^ N.of_nat w -> le_decode (le_encode w n) = n.
Proof.
  revert n. induction w as [|w IH]; intros n H.
  - cbn in *. lia.
  - cbn [le_encode le_decode]. rewrite IH.
    + pose proof (N.div_mod' n 256). lia.
    + rewrite Nnat.Nat2N.inj_succ, N.pow_succ_r' in H.
      apply N.div_lt_upper_bound; lia.
Qed.

Lemma le_encode_bytes w n : Forall (fun b => b < 256) (le_encode w n).
Proof.
  revert n. induction w; intros; cbn; constructor; auto.
  apply N.mod_lt. discriminate.
Qed.

(** [usize] values fit the metadata word *)
Lemma usize_fits P len :
  plat_ok P = true -> len < usize_lim P -> len < 256 ^ N.of_nat (N.to_nat (usize_bytes P)).
Proof.
  intros HP H. rewrite Nnat.N2Nat.id.
  destruct (plat_ok_spec P HP) as (_ & Hm & _).
  unfold usize_lim, usize_bytes in *.
  replace 256 with (2 ^ 8) by reflexivity. rewrite <- N.pow_mul_r.
  replace (8 * (usize_bits P / 8)) with (usize_bits P); [assumption|].
  pose proof (N.div_mod' (usize_bits P) 8). lia.
Qed.

(** ** dealloc recomputes exactly what alloc used *)

Section Dealloc.
  Variable P : Platform.
  Hypothesis HP : plat_ok P = true.
  Variable m : Layout.                              (* Layout::new::<P::PtrMetadata>() *)

  (** memory after [GcPtr::alloc], then any number of writes that stay inside the header and
      value extents (flag updates, initialisation and mutation of the value) *)
  Definition after_alloc_and_writes (ai : AllocInfo) (base : N) (meta hdr : list N)
             (ws : list (N * list N)) (m0 : mem) : mem :=
    apply_writes ws (fst (alloc_write P ai base meta hdr m0)).

  Lemma meta_read_back ai base meta hdr ws m0 v :
    alloc_info P m (Some v) = Ok ai ->
    blen meta = size m ->
    blen hdr = hdr_size P ->
    writes_within (base + a_hdr_off ai) (base + size (a_layout ai)) ws ->
    load (after_alloc_and_writes ai base meta hdr ws m0)
         (base + a_value_off ai - size (a_mh ai)) (N.to_nat (size m)) = meta.
  Proof.
    intros Hai Hml Hhl Hws.
    pose proof (alloc_info_facts P m v ai HP Hai) as F.
    destruct F as [_ _ _ _ _ _ Hhe _ Hme _ Hmb Hve].
    unfold after_alloc_and_writes, alloc_write. cbn [fst].
    replace (base + a_value_off ai - size (a_mh ai)) with (base + a_meta_off ai) by lia.
    replace (base + a_value_off ai - hdr_size P) with (base + a_hdr_off ai) by lia.
    rewrite (load_apply_writes (base + a_hdr_off ai) (base + size (a_layout ai)));
      [|assumption| rewrite Nnat.N2Nat.id; lia].
    rewrite load_store_disjoint by (rewrite Nnat.N2Nat.id; lia).
    unfold blen in Hml. rewrite <- Hml, Nnat.Nat2N.id.
    apply load_store_same.
  Qed.

  Variable layout_of : list N -> option Layout.     (* P::layout(TM::TYPE_METADATA, _) *)

  Theorem dealloc_matches_alloc ai base meta hdr ws m0 v :
    layout_of meta = Some v ->
    alloc_info P m (Some v) = Ok ai ->
    blen meta = size m ->
    blen hdr = hdr_size P ->
    writes_within (base + a_hdr_off ai) (base + size (a_layout ai)) ws ->
    dealloc_info P m layout_of (after_alloc_and_writes ai base meta hdr ws m0)
                 (base + a_value_off ai)
    = Ok (base, a_layout ai).
  Proof.
    intros Hlo Hai Hml Hhl Hws.
    pose proof (meta_read_back ai base meta hdr ws m0 v Hai Hml Hhl Hws) as Hrb.
    unfold dealloc_info. unfold alloc_info in Hai.
    destruct (meta_header_layout P m) as [mh|] eqn:Hmh; [|discriminate].
    destruct (prefix_header_layout P mh v) as [[al off]|r] eqn:Hp; [|discriminate].
    inversion Hai; subst ai; clear Hai. cbn [a_mh a_value_off a_layout] in *.
    rewrite Hrb, Hlo, Hp. f_equal. f_equal. lia.
  Qed.
End Dealloc.

(** ** the concrete kinds *)

Lemma kind_meta_bytes_len P k len :
  plat_ok P = true -> blen (kind_meta_bytes P k len) = size (kind_meta_layout P k).
Proof.
  intros HP. unfold blen. destruct k; cbn; try reflexivity;
    rewrite le_encode_length, Nnat.N2Nat.id; reflexivity.
Qed.

Lemma kind_layout_of_meta P k len :
  plat_ok P = true -> len < usize_lim P ->
  kind_layout_of P k (kind_meta_bytes P k len) = kind_value_layout P k len.
Proof.
  intros HP Hl. unfold kind_layout_of. destruct k; cbn [kind_meta_bytes]; try reflexivity;
    rewrite le_decode_encode by (apply usize_fits; assumption); reflexivity.
Qed.

Theorem dealloc_matches_alloc_kind P k len ai base hdr ws m0 :
  plat_ok P = true ->
  len < usize_lim P ->
  alloc_kind P k len = Ok ai ->
  blen hdr = hdr_size P ->
  writes_within (base + a_hdr_off ai) (base + size (a_layout ai)) ws ->
  dealloc_info P (kind_meta_layout P k) (kind_layout_of P k)
    (after_alloc_and_writes P ai base (kind_meta_bytes P k len) hdr ws m0)
    (base + a_value_off ai)
  = Ok (base, a_layout ai).
Proof.
  intros HP Hl Hai Hh Hws. unfold alloc_kind in Hai.
  destruct (kind_value_layout P k len) as [v|] eqn:Hv.
  2:{ unfold alloc_info in Hai. destruct (meta_header_layout P _); discriminate. }
  apply (dealloc_matches_alloc P HP (kind_meta_layout P k) (kind_layout_of P k) ai base _ hdr ws m0 v);
    try assumption.
  - rewrite kind_layout_of_meta; assumption.
  - apply kind_meta_bytes_len. assumption.
Qed.

(** ** thin -> fat reconstructs the length *)

Theorem thin_fat_roundtrip P k len ai base hdr ws m0 :
  plat_ok P = true ->
  (match k with KSized _ => False | _ => True end) ->
  len < usize_lim P ->
  alloc_kind P k len = Ok ai ->
  blen hdr = hdr_size P ->
  writes_within (base + a_hdr_off ai) (base + size (a_layout ai)) ws ->
  let mm := after_alloc_and_writes P ai base (kind_meta_bytes P k len) hdr ws m0 in
  let p : fat := from_thin (base + a_value_off ai) len in
  fat_of_thin P mm (to_thin p) = Some p.
Proof.
  intros HP Hk Hl Hai Hh Hws mm p. subst mm p. unfold alloc_kind in Hai.
  destruct (kind_value_layout P k len) as [v|] eqn:Hv.
  2:{ unfold alloc_info in Hai. destruct (meta_header_layout P _); discriminate. }
  pose proof (meta_read_back P HP (kind_meta_layout P k) ai base (kind_meta_bytes P k len) hdr ws m0 v
                Hai (kind_meta_bytes_len P k len HP) Hh Hws) as Hrb.
  unfold fat_of_thin, read_len, to_thin, from_thin. cbn [fst].
  assert (Hm : kind_meta_layout P k = usize_layout P) by (destruct k; [contradiction|reflexivity..]).
  rewrite Hm in *.
  unfold alloc_info in Hai.
  destruct (meta_header_layout P (usize_layout P)) as [mh|] eqn:Hmh; [|discriminate].
  destruct (prefix_header_layout P mh v) as [[al off]|r]; [|discriminate].
  inversion Hai; subst ai; clear Hai. cbn [a_mh a_value_off a_layout a_hdr_off] in *.
  cbn [usize_layout size mkL] in Hrb. rewrite Hrb.
  assert (Hb : kind_meta_bytes P k len = le_encode (N.to_nat (usize_bytes P)) len)
    by (destruct k; [contradiction|reflexivity..]).
  rewrite Hb, le_decode_encode by (apply usize_fits; assumption).
  reflexivity.
Qed.
