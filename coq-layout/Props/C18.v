(** * Property C18 — builders: abandoning or completing an allocation is clean at every stage.

    All theorems hold for every platform, every builder kind, every element / header / value
    layout, every length [len], every abandonment point and every element constructor [f].
    [run P k len ops a0] is: [new(len)] followed by the operations [ops], starting from an
    arena whose visible state is [a0].  The event list is the exact, ordered list of
    allocator calls, destructor calls, panics and links. *)

Require Import NArith List Bool.
Require Import GALayout.ModelLayout GALayout.ModelBuilder GALayout.BuilderProofs.
Import ListNotations.
Open Scope N_scope.

(** The layout a builder frees is the one [GcPtr::alloc] requested (C17's [alloc_kind]). *)
Theorem C18_builder_layout :
  forall (P : Platform) (k : bkind) (len : N) (b : builder),
    new_builder P k len = Ok b ->
    binv (b_layout b) b /\ b_kind b = k /\ b_len b = len /\ b_elems b = [] /\ b_init_len b = 0 /\
    b_hdr b = None /\
    b_stage b = match k with BSized _ => StSized | BSWH _ _ => StHeader | _ => StSlice end /\
    exists ai, alloc_kind P (kind_of k) len = Ok ai /\ b_layout b = a_layout ai.
Proof. exact new_builder_inv. Qed.
Print Assumptions C18_builder_layout.

(** Abandon right after [new] (all four kinds): the block is freed with the requested layout,
    nothing is destructed, nothing is linked, the arena is unchanged. *)
Theorem C18_abandon_new :
  forall (P : Platform) (k : bkind) (len : N) (a0 : arena) (b0 : builder),
    new_builder P k len = Ok b0 ->
    run P k len [OpDrop] a0
    = Ok {| st := Gone; evs := [EvAlloc (b_layout b0); EvFree (b_layout b0)]; ar := a0 |}.
Proof. exact abandon_new. Qed.
Print Assumptions C18_abandon_new.

(** Abandon after the header: exactly the header is destructed. *)
Theorem C18_abandon_after_header :
  forall (P : Platform) (k : bkind) (len hv : N) (a0 : arena) (b0 : builder),
    new_builder P k len = Ok b0 -> not_sized k ->
    run P k len (header_ops k hv ++ [OpDrop]) a0
    = Ok {| st := Gone;
            evs := [EvAlloc (b_layout b0)] ++ hdr_events k ++ [EvFree (b_layout b0)];
            ar := a0 |}.
Proof. exact abandon_after_header. Qed.
Print Assumptions C18_abandon_after_header.

(** Abandon after [j] of [len] elements, for every [j < len] (the element constructor panics
    at index [j]): the header and exactly the elements [0 .. j) are destructed, in order. *)
Theorem C18_abandon_at :
  forall (P : Platform) (k : bkind) (len hv : N) (f : N -> N) (j : N) (a0 : arena) (b0 : builder),
    new_builder P k len = Ok b0 -> not_sized k -> j < len ->
    run P k len (header_ops k hv ++ [OpWriteSliceWith f (Some j)]) a0
    = Ok {| st := Gone;
            evs := [EvAlloc (b_layout b0); EvPanic] ++ hdr_events k
                     ++ map EvDropElem (nseq j) ++ [EvFree (b_layout b0)];
            ar := a0 |}.
Proof. exact abandon_panic_at. Qed.
Print Assumptions C18_abandon_at.

(** Completion ([j = len], i.e. no panic below [len]): exactly one link, nothing freed or
    destructed, contents are what was written. *)
Theorem C18_complete :
  forall (P : Platform) (k : bkind) (len hv : N) (f : N -> N) (pa : option N) (a0 : arena)
         (b0 : builder),
    new_builder P k len = Ok b0 -> not_sized k ->
    (forall j, pa = Some j -> len <= j) ->
    let o := {| o_kind := k; o_len := len; o_layout := b_layout b0; o_hdr := hdr_value k hv;
                o_elems := map f (nseq len); o_value := None |} in
    run P k len (header_ops k hv ++ [OpWriteSliceWith f pa]) a0
    = Ok {| st := Linked o; evs := [EvAlloc (b_layout b0); EvLink]; ar := link o a0 |}.
Proof. exact complete_write_slice. Qed.
Print Assumptions C18_complete.

Theorem C18_complete_sized :
  forall (P : Platform) (v : Layout) (x : N) (a0 : arena) (b0 : builder),
    new_builder P (BSized v) 0 = Ok b0 ->
    let o := {| o_kind := BSized v; o_len := 0; o_layout := b_layout b0; o_hdr := None;
                o_elems := []; o_value := Some x |} in
    run P (BSized v) 0 [OpWrite x] a0
    = Ok {| st := Linked o; evs := [EvAlloc (b_layout b0); EvLink]; ar := link o a0 |}.
Proof. exact complete_sized. Qed.
Print Assumptions C18_complete_sized.

(** [copy_slice] / [copy_str] with a source of the wrong length panics before any write and is
    then an abandonment; with the right length it completes with the source as contents. *)
Theorem C18_copy_len :
  forall (P : Platform) (k : bkind) (len hv : N) (src : list N) (a0 : arena) (b0 : builder),
    new_builder P k len = Ok b0 -> not_sized k ->
    N.of_nat (length src) <> len ->
    run P k len (header_ops k hv ++ [OpCopySlice src]) a0
    = Ok {| st := Gone;
            evs := [EvAlloc (b_layout b0); EvPanic] ++ hdr_events k ++ [EvFree (b_layout b0)];
            ar := a0 |}.
Proof. exact copy_wrong_len. Qed.
Print Assumptions C18_copy_len.

Theorem C18_copy_ok :
  forall (P : Platform) (k : bkind) (len hv : N) (src : list N) (a0 : arena) (b0 : builder),
    new_builder P k len = Ok b0 -> not_sized k ->
    N.of_nat (length src) = len ->
    let o := {| o_kind := k; o_len := len; o_layout := b_layout b0; o_hdr := hdr_value k hv;
                o_elems := src; o_value := None |} in
    run P k len (header_ops k hv ++ [OpCopySlice src]) a0
    = Ok {| st := Linked o; evs := [EvAlloc (b_layout b0); EvLink]; ar := link o a0 |}.
Proof. exact copy_right_len. Qed.
Print Assumptions C18_copy_ok.

(** For EVERY sequence of builder operations: a builder that ends dropped or unwound has freed
    its block exactly once with the layout it allocated, linked nothing and left Gc count,
    allocation counter and object chain untouched; a completed one linked exactly once, freed
    nothing, and the arena gained exactly that object.  While a builder is active nothing but
    the allocation has happened. *)
Theorem C18_any_ops :
  forall (P : Platform) (k : bkind) (len : N) (ops : list bop) (a0 : arena) (s : run_state),
    run P k len ops a0 = Ok s ->
    exists L, (exists b0, new_builder P k len = Ok b0 /\ b_layout b0 = L) /\
    match st s with
    | Active _ => evs s = [EvAlloc L] /\ ar s = a0
    | Gone => count is_link (evs s) = O /\ count is_free (evs s) = 1%nat /\
              In (EvFree L) (evs s) /\ ar s = a0
    | Linked o => evs s = [EvAlloc L; EvLink] /\ ar s = link o a0 /\ o_layout o = L /\
                  gc_count (ar s) = gc_count a0 + 1 /\ allocated (ar s) = allocated a0 + 1
    | Stuck => True
    end.
Proof. exact run_trace_shape. Qed.
Print Assumptions C18_any_ops.

(** … and what a dropped / unwound builder destructs is exactly what had been initialised
    (header if written, the element prefix that was written), whatever the operations were. *)
Theorem C18_any_ops_drops :
  forall (P : Platform) (k : bkind) (len : N) (ops : list bop) (a0 : arena) (s : run_state),
    run P k len ops a0 = Ok s ->
    exists b0, new_builder P k len = Ok b0 /\ run_inv (b_layout b0) a0 s.
Proof. exact run_ops_inv. Qed.
Print Assumptions C18_any_ops_drops.

(** A request Rust rejects (layout overflow) panics before anything is allocated. *)
Theorem C18_new_rejected :
  forall (P : Platform) (k : bkind) (len : N) (ops : list bop) (a0 : arena) (r : reject),
    new_builder P k len = Rejected r -> run P k len ops a0 = Rejected r.
Proof. exact new_rejected. Qed.
Print Assumptions C18_new_rejected.

(** ** Non-vacuity *)

Definition a_ex : arena := {| gc_count := 7; allocated := 3; chain := [] |}.

Example abandon_example :
  option_map (fun s => (evs s, ar s))
    (match run x86_64 (BSWH (mkL 8 3) (mkL 24 3)) 10
                 [OpWriteHeader 99; OpWriteSliceWith (fun i => 100 + i) (Some 3)] a_ex with
     | Ok s => Some s | Rejected _ => None end)
  = Some ([EvAlloc (mkL 272 3); EvPanic; EvDropHeader; EvDropElem 0; EvDropElem 1; EvDropElem 2;
           EvFree (mkL 272 3)], a_ex).
Proof. vm_compute. reflexivity. Qed.

Example complete_example :
  option_map (fun s => (evs s, gc_count (ar s), allocated (ar s),
                        match st s with Linked o => o_elems o | _ => [] end))
    (match run x86_64 (BSlice (mkL 4 2)) 3 [OpWriteSliceWith (fun i => 100 + i) None] a_ex with
     | Ok s => Some s | Rejected _ => None end)
  = Some ([EvAlloc (mkL 36 3); EvLink], 8, 4, [100; 101; 102]).
Proof. vm_compute. reflexivity. Qed.

Example copy_example :
  option_map (fun s => (evs s, ar s))
    (match run x86_64 BStr 5 [OpCopySlice [1; 2; 3]] a_ex with
     | Ok s => Some s | Rejected _ => None end)
  = Some ([EvAlloc (mkL 29 3); EvPanic; EvFree (mkL 29 3)], a_ex).
Proof. vm_compute. reflexivity. Qed.
