(** * Property C17 — allocation layout integrity.

    Every theorem quantifies over an arbitrary platform description [P] with [plat_ok P]
    (x86_64 is an instance, its constants are asserted by the Rust harness on every run),
    an arbitrary metadata layout [m], an arbitrary value layout [v] (any size, any alignment
    exponent) and — for the slice kinds — an arbitrary length.  The only guard is that the
    model's [alloc_info] returns [Ok], i.e. that Rust does not reject the request; the
    rejected inputs are characterised by [C17_accepts_iff] / [C17_rejects] /
    [C17_swh_accepts_iff].  Zero sizes and zero lengths are not special-cased anywhere. *)

Require Import NArith List Bool.
Require Import GALayout.ModelLayout GALayout.LayoutProofs GALayout.MemProofs GALayout.TagProofs
        GALayout.C17Proofs.
Import ListNotations.
Open Scope N_scope.

(** The value pointer returned by [GcPtr::alloc] is aligned for the value. *)
Theorem C17_value_aligned :
  forall (P : Platform) (m v : Layout) (ai : AllocInfo) (base : N),
    plat_ok P = true ->
    alloc_info P m (Some v) = Ok ai ->
    (align (a_layout ai) | base) ->
    (align v | value_ptr ai base).
Proof. exact c17_value_aligned. Qed.
Print Assumptions C17_value_aligned.

(** The header pointer ([value_ptr - size_of::<GcHeader>()], no underflow) is aligned. *)
Theorem C17_header_aligned :
  forall (P : Platform) (m v : Layout) (ai : AllocInfo) (base : N),
    plat_ok P = true ->
    alloc_info P m (Some v) = Ok ai ->
    (align (a_layout ai) | base) ->
    hdr_size P <= a_value_off ai /\
    (2 ^ hdr_align_log P | header_ptr P ai base).
Proof. exact c17_header_aligned. Qed.
Print Assumptions C17_header_aligned.

(** The metadata pointer ([value_ptr - META_HEADER_LAYOUT.size()], no underflow) is aligned. *)
Theorem C17_meta_aligned :
  forall (P : Platform) (m v : Layout) (ai : AllocInfo) (base : N),
    plat_ok P = true ->
    alloc_info P m (Some v) = Ok ai ->
    (align (a_layout ai) | base) ->
    size (a_mh ai) <= a_value_off ai /\
    (align m | meta_ptr ai base).
Proof. exact c17_meta_aligned. Qed.
Print Assumptions C17_meta_aligned.

(** Metadata bytes, header bytes, value bytes: in this order, pairwise disjoint, all inside
    the block; the value ends exactly at the end of the block. *)
Theorem C17_disjoint :
  forall (P : Platform) (m v : Layout) (ai : AllocInfo) (base : N),
    plat_ok P = true ->
    alloc_info P m (Some v) = Ok ai ->
    base <= meta_ptr ai base /\
    meta_ptr ai base + size m <= header_ptr P ai base /\
    header_ptr P ai base + hdr_size P = value_ptr ai base /\
    value_ptr ai base + size v = base + size (a_layout ai).
Proof. exact c17_disjoint. Qed.
Print Assumptions C17_disjoint.

(** The block layout is valid, and the [assert!] of [prefix_header_layout] cannot fire. *)
Theorem C17_block_layout_valid :
  forall (P : Platform) (m v : Layout) (ai : AllocInfo),
    plat_ok P = true ->
    alloc_info P m (Some v) = Ok ai ->
    layout_valid P (a_layout ai) = true /\ a_vlayout ai = v.
Proof. exact c17_block_layout_valid. Qed.
Print Assumptions C17_block_layout_valid.

Theorem C17_prefix_assert_holds :
  forall (P : Platform) (m mh : Layout),
    plat_ok P = true -> meta_header_layout P m = Some mh -> size mh mod align mh = 0.
Proof. exact prefix_assert_holds. Qed.
Print Assumptions C17_prefix_assert_holds.

(** Exactly which requests Rust rejects (the two [expect]s of [GcPtr::alloc]). *)
Theorem C17_accepts_iff :
  forall (P : Platform) (m v mh : Layout),
    plat_ok P = true ->
    meta_header_layout P m = Some mh ->
    ((exists ai, alloc_info P m (Some v) = Ok ai) <->
     (N.max (align_log mh) (align_log v) < usize_bits P /\
      round_up (size mh) (align v) + size v + 2 ^ N.max (align_log mh) (align_log v)
        <= isize_lim P)).
Proof. exact alloc_info_ok_iff. Qed.
Print Assumptions C17_accepts_iff.

Theorem C17_rejects :
  forall (P : Platform) (m : Layout) (v : option Layout) (r : reject),
    plat_ok P = true ->
    alloc_info P m v = Rejected r ->
    (r = MetaHeaderUnreachable /\ meta_header_layout P m = None) \/
    (r = NoValueLayout /\ v = None) \/
    (r = NoAllocLayout /\ exists mh v', meta_header_layout P m = Some mh /\ v = Some v' /\
                                        extend P mh v' = None).
Proof. exact alloc_info_rejects. Qed.
Print Assumptions C17_rejects.

Theorem C17_swh_accepts_iff :
  forall (P : Platform) (h e : Layout) (len : N),
    (exists l, swh_layout P h e len = Some l) <->
    ((size e = 0 \/ len <= (isize_lim P - align e) / size e) /\
     N.max (align_log h) (align_log e) < usize_bits P /\
     round_up (size h) (align e) + size e * len + 2 ^ N.max (align_log h) (align_log e)
       <= isize_lim P).
Proof. exact swh_layout_some_iff. Qed.
Print Assumptions C17_swh_accepts_iff.

(** [SliceWithHeader::layout]: room and alignment for header, padding and [len] elements. *)
Theorem C17_swh_extent :
  forall (P : Platform) (h e : Layout) (len : N) (l : Layout),
    layout_valid P e = true ->
    swh_layout P h e len = Some l ->
    align_log l = N.max (align_log h) (align_log e) /\
    (align l | size l) /\
    size h <= swh_slice_offset h e /\
    (align e | swh_slice_offset h e) /\
    swh_slice_offset h e + size e * len <= size l.
Proof. exact c17_swh_extent. Qed.
Print Assumptions C17_swh_extent.

(** [dealloc] hands back exactly the block and layout that [alloc] obtained — for every
    [AllocMeta] implementation [layout_of], after any number of writes that stay inside the
    header and value extents. *)
Theorem C17_dealloc_layout :
  forall (P : Platform), plat_ok P = true ->
  forall (m : Layout) (layout_of : list N -> option Layout)
         (ai : AllocInfo) (base : N) (meta hdr : list N) (ws : list (N * list N)) (m0 : mem)
         (v : Layout),
    layout_of meta = Some v ->
    alloc_info P m (Some v) = Ok ai ->
    blen meta = size m ->
    blen hdr = hdr_size P ->
    writes_within (base + a_hdr_off ai) (base + size (a_layout ai)) ws ->
    dealloc_info P m layout_of (after_alloc_and_writes P ai base meta hdr ws m0)
                 (base + a_value_off ai)
    = Ok (base, a_layout ai).
Proof. exact dealloc_matches_alloc. Qed.
Print Assumptions C17_dealloc_layout.

(** … and for the crate's own kinds (sized, [[E]], [str], [SliceWithHeader<H, E>]) with the
    length stored as a little-endian [usize]. *)
Theorem C17_dealloc_layout_kind :
  forall (P : Platform) (k : kind) (len : N) (ai : AllocInfo) (base : N) (hdr : list N)
         (ws : list (N * list N)) (m0 : mem),
    plat_ok P = true ->
    len < usize_lim P ->
    alloc_kind P k len = Ok ai ->
    blen hdr = hdr_size P ->
    writes_within (base + a_hdr_off ai) (base + size (a_layout ai)) ws ->
    dealloc_info P (kind_meta_layout P k) (kind_layout_of P k)
      (after_alloc_and_writes P ai base (kind_meta_bytes P k len) hdr ws m0)
      (base + a_value_off ai)
    = Ok (base, a_layout ai).
Proof. exact dealloc_matches_alloc_kind. Qed.
Print Assumptions C17_dealloc_layout_kind.

(** thin -> fat reconstructs address and length ([Gc::as_thin] / [as_fat], [as_ptr] /
    [from_ptr] on a thin kind), whatever was written to header and value in between. *)
Theorem C17_thin_fat :
  forall (P : Platform) (k : kind) (len : N) (ai : AllocInfo) (base : N) (hdr : list N)
         (ws : list (N * list N)) (m0 : mem),
    plat_ok P = true ->
    (match k with KSized _ => False | _ => True end) ->
    len < usize_lim P ->
    alloc_kind P k len = Ok ai ->
    blen hdr = hdr_size P ->
    writes_within (base + a_hdr_off ai) (base + size (a_layout ai)) ws ->
    let mm := after_alloc_and_writes P ai base (kind_meta_bytes P k len) hdr ws m0 in
    let p : fat := from_thin (base + a_value_off ai) len in
    fat_of_thin P mm (to_thin p) = Some p.
Proof. exact thin_fat_roundtrip. Qed.
Print Assumptions C17_thin_fat.

(** Flag bits: after any history of [set_color] / [set_needs_trace] / [set_live] on a header
    created from a vtable address that is a multiple of the vtable alignment, [untag] gives
    back the address and the three getters read the last value set for each flag. *)
Theorem C17_tag_bits :
  forall (P : Platform) (M : Masks) (vt : N) (ops : list tagop),
    masks_ok P M = true ->
    vt mod 2 ^ vtable_align_log P = 0 ->
    vt < usize_lim P ->
    untag P (apply_tagops P M ops vt) = vt /\
    read_flags M (apply_tagops P M ops vt) = fold_left flags_step ops flags0.
Proof. exact c17_tag_bits. Qed.
Print Assumptions C17_tag_bits.

(** … and one step at a time from any tagged word. *)
Theorem C17_tag_step :
  forall (P : Platform) (M : Masks) (a : N) (o : tagop),
    masks_ok P M = true ->
    read_flags M (apply_tagop P M a o) = flags_step (read_flags M a) o /\
    untag P (apply_tagop P M a o) = untag P a.
Proof. exact c17_tag_step. Qed.
Print Assumptions C17_tag_step.

(** ** Non-vacuity: the hypotheses are satisfiable by concrete, non-trivial values. *)

Example plat_ok_x86_64 : plat_ok x86_64 = true.
Proof. vm_compute. reflexivity. Qed.

Example masks_ok_std : masks_ok x86_64 std_masks = true.
Proof. vm_compute. reflexivity. Qed.

(** [GcSliceWithHeader<H, E>] with [H]: 3 bytes align 1, [E]: 24 bytes align 8, 5 elements. *)
Example alloc_example :
  alloc_kind x86_64 (KSWH (mkL 3 0) (mkL 24 3)) 5
  = Ok {| a_mh := mkL 24 3; a_vlayout := mkL 128 3; a_layout := mkL 152 3;
          a_value_off := 24; a_meta_off := 0; a_hdr_off := 8 |}.
Proof. vm_compute. reflexivity. Qed.

(** an over-aligned value: padding goes in front of the metadata *)
Example alloc_example_overaligned :
  alloc_kind x86_64 (KSized (mkL 4096 12)) 0
  = Ok {| a_mh := mkL 16 3; a_vlayout := mkL 4096 12; a_layout := mkL 8192 12;
          a_value_off := 4096; a_meta_off := 4080; a_hdr_off := 4080 |}.
Proof. vm_compute. reflexivity. Qed.

(** a rejected request: [[u64]] of [isize::MAX / 8] elements has a value layout but no block *)
Example reject_example :
  alloc_kind x86_64 (KSlice (mkL 8 3)) (2 ^ 60 - 1) = Rejected NoAllocLayout /\
  alloc_kind x86_64 (KSlice (mkL 8 3)) (2 ^ 60) = Rejected NoValueLayout.
Proof. split; vm_compute; reflexivity. Qed.

Example tag_example :
  let a := apply_tagops x86_64 std_masks [SetNeedsTrace true; SetLive true; SetColor Gray;
                                          SetNeedsTrace false; SetColor Black] 0x7f00deadbee0 in
  a = 0x7f00deadbeeb /\ untag x86_64 a = 0x7f00deadbee0.
Proof. vm_compute. split; reflexivity. Qed.
