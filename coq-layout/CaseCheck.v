(** * CaseCheck — executable comparison of the model with observations of the implementation.

    Definitions only.  The generated files [Gen/*.v] contain lists of cases (inputs + what the
    Rust harness observed); every list is checked with [vm_compute] and the indices of
    disagreeing cases are printed, so the Python driver can turn a disagreement into a
    concrete input. *)

Require Import NArith List Bool.
Require Import GALayout.ModelLayout GALayout.ModelBuilder.
Import ListNotations.
Open Scope N_scope.

Fixpoint bad_from {A : Type} (ok : A -> bool) (i : N) (l : list A) : list N :=
  match l with
  | [] => []
  | x :: r => if ok x then bad_from ok (i + 1) r else i :: bad_from ok (i + 1) r
  end.

(** indices of the cases on which [ok] is false *)
Definition bad_indices {A : Type} (ok : A -> bool) (l : list A) : list N := bad_from ok 0 l.

Definition layout_eqb (a b : Layout) : bool := (size a =? size b) && (align_log a =? align_log b).

(** ** differential test of the std [Layout] functions *)

Inductive dcase :=
| DValid (s k : N) (r : bool)                          (* from_size_align(s, 2^k).is_ok() *)
| DExtend (s1 k1 s2 k2 : N) (r : option (N * N * N))   (* extend: Some (size, align_log, offset) *)
| DPad (s k : N) (r : N)                               (* pad_to_align().size() *)
| DArray (es ek n : N) (r : option N).                 (* array::<T>(n): Some size *)

Definition dcase_ok (P : Platform) (c : dcase) : bool :=
  match c with
  | DValid s k r => Bool.eqb (layout_valid P (mkL s k)) r
  | DExtend s1 k1 s2 k2 r =>
    match extend P (mkL s1 k1) (mkL s2 k2), r with
    | Some (l, off), Some (sz, k, o) => (size l =? sz) && (align_log l =? k) && (off =? o)
    | None, None => true
    | _, _ => false
    end
  | DPad s k r => layout_eqb (pad_to_align (mkL s k)) (mkL r k)
  | DArray es ek n r =>
    match array P (mkL es ek) n, r with
    | Some l, Some sz => layout_eqb l (mkL sz ek)
    | None, None => true
    | _, _ => false
    end
  end.

(** ** allocation cases observed through the tracking allocator *)

Inductive lres :=
| LOk (alloc_size alloc_k value_off free_size free_k free_off val_size val_k : N)
| LPanic (code : N).     (* 1 = "no layout for value", 2 = "no layout for GC allocation" *)

(** [m]: observed layout of the per-value metadata type; [custom]: a harness-defined [AllocMeta]
    (then [m] is arbitrary), otherwise [m] must be the crate's metadata layout for the kind. *)
Inductive lcase := LCase (custom : bool) (m : Layout) (k : kind) (len : N) (r : lres).

Definition reject_code (r : reject) : N :=
  match r with
  | NoValueLayout => 1
  | NoAllocLayout => 2
  | HeaderNotMultiple => 3
  | MetaHeaderUnreachable => 4
  end.

Definition lcase_ok (P : Platform) (c : lcase) : bool :=
  match c with
  | LCase custom m k len r =>
    (custom || layout_eqb m (kind_meta_layout P k)) &&
    match alloc_info P m (kind_value_layout P k len), r with
    | Ok ai, LOk asz ak off fsz fk foff vsz vk =>
      layout_eqb (a_layout ai) (mkL asz ak) &&
      (a_value_off ai =? off) &&
      (* dealloc must hand back the same block with the same layout *)
      layout_eqb (a_layout ai) (mkL fsz fk) && (foff =? 0) &&
      (* rustc's size_of_val / align_of_val of the value *)
      layout_eqb (a_vlayout ai) (mkL vsz vk)
    | Rejected rj, LPanic code => reject_code rj =? code
    | _, _ => false
    end
  end.

(** what the model predicts for a case (printed for a failing case) *)
Definition lcase_predict (P : Platform) (c : lcase) : outcome AllocInfo :=
  match c with LCase _ m k len _ => alloc_info P m (kind_value_layout P k len) end.

(** ** tagged pointer cases (twin compiled from the sliced source of gc_ptr.rs) *)

Inductive tcase :=
| TOps (vt : N) (ops : list tagop) (raw : N) (col : N) (nt live : bool)
| TUntag (a r : N)
| TGet (mask a r : N)
| TSet (mask a t r : N)
| TGetB (mask a : N) (r : bool)
| TSetB (mask a : N) (v : bool) (r : N).

Definition tcase_ok (P : Platform) (M : Masks) (c : tcase) : bool :=
  match c with
  | TOps vt ops raw col nt live =>
    let a := apply_tagops P M ops vt in
    (a =? raw) && (untag P a =? vt) &&
    (color_code (hdr_color M a) =? col) &&
    Bool.eqb (hdr_needs_trace M a) nt && Bool.eqb (hdr_is_live M a) live
  | TUntag a r => untag P a =? r
  | TGet mask a r => tag_get mask a =? r
  | TSet mask a t r => tag_set P mask a t =? r
  | TGetB mask a r => Bool.eqb (tag_get_bool mask a) r
  | TSetB mask a v r => tag_set_bool P mask a v =? r
  end.

(** ** builder scenarios *)

Inductive bscen :=
| SAbandonNew               (* new; drop *)
| SAbandonHdr               (* new; write_header; drop *)
| SPanicAt (j : N)          (* new; [write_header]; write_slice_with, create_element j panics *)
| SComplete                 (* new; [write_header]; write_slice_with *)
| SCopy (m : N)             (* new; [write_header]; copy_slice / copy_str of m elements *)
| SWrite                    (* sized: new; write *)
| SAssume.                  (* new; [write_header]; (raw writes); unsafe assume_init *)

Definition elem_val (i : N) : N := 1000 + i.
Definition hdr_val : N := 999.
Definition sized_val : N := 7.

Definition scen_ops (k : bkind) (sc : bscen) : list bop :=
  match sc with
  | SAbandonNew => [OpDrop]
  | SAbandonHdr => header_ops k hdr_val ++ [OpDrop]
  | SPanicAt j => header_ops k hdr_val ++ [OpWriteSliceWith elem_val (Some j)]
  | SComplete => header_ops k hdr_val ++ [OpWriteSliceWith elem_val None]
  | SCopy m => header_ops k hdr_val ++ [OpCopySlice (map elem_val (nseq m))]
  | SWrite => [OpWrite sized_val]
  | SAssume => header_ops k hdr_val ++ [OpAssumeInit]
  end.

(** which destructor events the harness can see for the element / header types it used:
    [hdr_obs]: header type has a destructor; [elem_obs]: element type has a destructor;
    [anon]: element type is zero-sized, its destructor cannot tell which index it is *)
Record bflags := { hdr_obs : bool; elem_obs : bool; anon : bool }.

Definition event_view (fl : bflags) (e : event) : list event :=
  match e with
  | EvDropHeader => if hdr_obs fl then [e] else []
  | EvDropElem i => if elem_obs fl then [if anon fl then EvDropElem 0 else e] else []
  | _ => [e]
  end.

Definition events_view (fl : bflags) (l : list event) : list event := flat_map (event_view fl) l.

(** Comparison of a model event with an observed one.  C18 is about the builder protocol, not
    about layout arithmetic (that is C17): the observed allocation layout [La] is taken as given
    and a free event must carry exactly that layout ("releases the memory it requested").
    Whether [La] is also the layout C17's model predicts is reported separately
    ([bcase_layout_ok]) and does not decide C18. *)
Definition event_eqb (La : option Layout) (m o : event) : bool :=
  match m, o with
  | EvAlloc _, EvAlloc _ => true
  | EvFree _, EvFree y => match La with Some x => layout_eqb x y | None => false end
  | EvPanic, EvPanic | EvDropHeader, EvDropHeader | EvDropValue, EvDropValue | EvLink, EvLink => true
  | EvDropElem i, EvDropElem j => i =? j
  | _, _ => false
  end.

Definition first_alloc (l : list event) : option Layout :=
  match l with EvAlloc x :: _ => Some x | _ => None end.

Fixpoint list_eqb {A : Type} (eqb : A -> A -> bool) (l1 l2 : list A) : bool :=
  match l1, l2 with
  | [], [] => true
  | x :: r1, y :: r2 => eqb x y && list_eqb eqb r1 r2
  | _, _ => false
  end.

(** observed: ordered events; change of total_gc_count and of allocation_debt (in allocations);
    for completed builders the contents read back ([None]: not read, e.g. no identity). *)
Record bobs := {
  ob_events : list event;
  ob_dcount : N;
  ob_ddebt : N;
  ob_linked : bool;
  ob_hdr : option N;
  ob_elems : option (list N)
}.

Inductive bcase := BCase (k : bkind) (len : N) (sc : bscen) (fl : bflags) (o : bobs)
                 | BRejected (k : bkind) (len : N) (code : N).

Definition arena0 : arena := {| gc_count := 0; allocated := 0; chain := [] |}.

Definition opt_eqb {A : Type} (eqb : A -> A -> bool) (a b : option A) : bool :=
  match a, b with
  | Some x, Some y => eqb x y
  | None, None => true
  | _, _ => false
  end.

Definition bcase_ok (P : Platform) (c : bcase) : bool :=
  match c with
  | BCase k len sc fl o =>
    match run P k len (scen_ops k sc) arena0 with
    | Rejected _ => false
    | Ok s =>
      list_eqb (event_eqb (first_alloc (ob_events o))) (events_view fl (evs s)) (ob_events o) &&
      (gc_count (ar s) =? ob_dcount o) && (allocated (ar s) =? ob_ddebt o) &&
      match st s with
      | Linked ob =>
        ob_linked o &&
        (match ob_hdr o with Some h => opt_eqb N.eqb (o_hdr ob) (Some h) | None => true end) &&
        (match ob_elems o with Some l => list_eqb N.eqb (o_elems ob) l | None => true end)
      | Gone => negb (ob_linked o)
      | _ => false
      end
    end
  | BRejected k len code =>
    match new_builder P k len with
    | Rejected r => reject_code r =? code
    | Ok _ => false
    end
  end.

(** informational: the block layout observed is the one C17's model computes *)
Definition bcase_layout_ok (P : Platform) (c : bcase) : bool :=
  match c with
  | BCase k len sc fl o =>
    match new_builder P k len, first_alloc (ob_events o) with
    | Ok b, Some x => layout_eqb (b_layout b) x
    | _, _ => false
    end
  | BRejected _ _ _ => true
  end.

Definition bcase_predict (P : Platform) (c : bcase) : option (list event * N * N) :=
  match c with
  | BCase k len sc fl _ =>
    match run P k len (scen_ops k sc) arena0 with
    | Ok s => Some (events_view fl (evs s), gc_count (ar s), allocated (ar s))
    | Rejected _ => None
    end
  | BRejected _ _ _ => None
  end.
