(** * ModelLayout — executable model of the allocation layout arithmetic (property C17).

    Definitions only (no proofs): the model keeps running when a proof breaks.

    Modelled code (hand-written, tied to the source by the differential test of the
    [core::alloc::Layout] functions and by the allocator-level correspondence run of
    /verif/harness-layout on every check):

    - [core::alloc::Layout]: validity ([from_size_align] / [from_size_alignment]),
      [size_rounded_up_to_custom_alignment], [pad_to_align], [extend], [array].
    - gc-arena [src/gc_ptr.rs]: [PtrProps::META_HEADER_LAYOUT], [prefix_header_layout],
      the address computations of [GcPtr::alloc] ([value_ptr], [meta_ptr], [header_ptr]),
      the recomputation in the vtable's [dealloc], [PtrProps::read_ptr_meta] / [fat_ptr],
      [tagged_ptr::{untag,get,set,get_bool,set_bool}] and [GcHeader]'s flag accessors.
    - gc-arena [src/slice.rs]: [SliceWithHeader::layout] and the [[E]] / [str] instances,
      [ptr_to_thin] / [ptr_from_thin] (pointer = address + length).
    - gc-arena [src/meta.rs]: [UnitPtrMeta] (sized values, [()] metadata).

    All numbers are unbounded [N]; an alignment is [2 ^ align_log].  Rust's error paths
    ([LayoutError], the [expect] panics, the [assert!] in [prefix_header_layout], the
    [unreachable!()] of [META_HEADER_LAYOUT]) are explicit [Rejected] results. *)

Require Import NArith List Bool.
Import ListNotations.
Open Scope N_scope.

(** ** Platform constants (asserted by the Rust harness with size_of / align_of on every run) *)

Record Platform := {
  usize_bits : N;        (* usize::BITS *)
  hdr_size : N;          (* size_of::<GcHeader>() *)
  hdr_align_log : N;     (* log2 align_of::<GcHeader>() *)
  vtable_align_log : N   (* log2 align_of::<GcVtable>()  (#[repr(align(16))]) *)
}.

Definition x86_64 : Platform :=
  {| usize_bits := 64; hdr_size := 16; hdr_align_log := 3; vtable_align_log := 4 |}.

Definition usize_bytes (P : Platform) : N := usize_bits P / 8.
(** [isize::MAX as usize + 1] *)
Definition isize_lim (P : Platform) : N := 2 ^ (usize_bits P - 1).
(** [usize::MAX + 1] *)
Definition usize_lim (P : Platform) : N := 2 ^ usize_bits P.

(** ** core::alloc::Layout *)

Record Layout := { size : N; align_log : N }.
Definition align (l : Layout) : N := 2 ^ align_log l.

Definition mkL (s k : N) : Layout := {| size := s; align_log := k |}.

(** [Layout::is_size_alignment_valid]: [size <= isize::MAX + 1 - align]; an [Alignment] is a
    power of two representable in a [usize]. *)
Definition layout_valid (P : Platform) (l : Layout) : bool :=
  (align_log l <? usize_bits P) && (size l + align l <=? isize_lim P).

Definition from_size_align (P : Platform) (s k : N) : option Layout :=
  if layout_valid P (mkL s k) then Some (mkL s k) else None.

(** [size_rounded_up_to_custom_alignment]: [(size + align - 1) & !(align - 1)] *)
Definition round_up (s a : N) : N := ((s + a - 1) / a) * a.

Definition pad_to_align (l : Layout) : Layout :=
  mkL (round_up (size l) (align l)) (align_log l).

(** [Layout::extend]: returns the combined layout and the offset of [next]. *)
Definition extend (P : Platform) (a next : Layout) : option (Layout * N) :=
  let new_k := N.max (align_log a) (align_log next) in
  let offset := round_up (size a) (align next) in
  let new_size := offset + size next in
  if layout_valid P (mkL new_size new_k) then Some (mkL new_size new_k, offset) else None.

(** [Layout::array::<T>(n)] where [e = Layout::new::<T>()]. *)
Definition array (P : Platform) (e : Layout) (n : N) : option Layout :=
  if negb (size e =? 0) && ((isize_lim P - align e) / size e <? n)
  then None
  else Some (mkL (size e * n) (align_log e)).

(** ** gc-arena: layouts *)

Inductive reject :=
| MetaHeaderUnreachable   (* META_HEADER_LAYOUT: unreachable!() in a const = compile error *)
| NoValueLayout           (* .expect("no layout for value") *)
| HeaderNotMultiple       (* assert!(header size is a multiple of its alignment) *)
| NoAllocLayout.          (* .expect("no layout for GC allocation") *)

Inductive outcome (A : Type) := Ok (a : A) | Rejected (r : reject).
Arguments Ok {A} a.
Arguments Rejected {A} r.

Definition hdr_layout (P : Platform) : Layout := mkL (hdr_size P) (hdr_align_log P).

(** [PtrProps::META_HEADER_LAYOUT] for per-value metadata of layout [m]. *)
Definition meta_header_layout (P : Platform) (m : Layout) : option Layout :=
  match extend P m (hdr_layout P) with
  | Some (l, _) => Some (pad_to_align l)
  | None => None
  end.

(** [prefix_header_layout]; [None] in the inner option is [Err(LayoutError)], the assert is
    reported separately. *)
Definition prefix_header_layout (P : Platform) (h v : Layout) : outcome (Layout * N) :=
  if size h mod align h =? 0
  then match extend P h v with
       | Some r => Ok r
       | None => Rejected NoAllocLayout
       end
  else Rejected HeaderNotMultiple.

(** [SliceWithHeader::<H, E>::layout(len)] with [h = Layout::new::<H>()], [e = Layout::new::<E>()]. *)
Definition swh_layout (P : Platform) (h e : Layout) (len : N) : option Layout :=
  match array P e len with
  | None => None
  | Some arr =>
    match extend P h arr with
    | None => None
    | Some (l, _) => Some (pad_to_align l)
    end
  end.

(** Offset of the slice part inside a [SliceWithHeader] value ([repr(C)]). *)
Definition swh_slice_offset (h e : Layout) : N := round_up (size h) (align e).

Definition unit_layout : Layout := mkL 0 0.
Definition u8_layout : Layout := mkL 1 0.
Definition usize_layout (P : Platform) : Layout := mkL (usize_bytes P) (N.log2 (usize_bytes P)).

(** The kinds of allocation the crate offers ([AllocMeta] impls). *)
Inductive kind :=
| KSized (v : Layout)          (* UnitPtrMeta: PtrMetadata = (), layout = Layout::new::<T>() *)
| KSlice (e : Layout)          (* SlicePtrMeta = SliceWithHeader<(), E> *)
| KStr                         (* StrPtrMeta   = SliceWithHeader<(), u8> *)
| KSWH (h e : Layout).         (* SliceWithHeaderPtrMeta *)

Definition kind_meta_layout (P : Platform) (k : kind) : Layout :=
  match k with KSized _ => unit_layout | _ => usize_layout P end.

(** [P::layout(type_meta, ptr_meta)]; the metadata of the slice kinds is the length. *)
Definition kind_value_layout (P : Platform) (k : kind) (len : N) : option Layout :=
  match k with
  | KSized v => Some v
  | KSlice e => swh_layout P unit_layout e len
  | KStr => swh_layout P unit_layout u8_layout len
  | KSWH h e => swh_layout P h e len
  end.

(** ** GcPtr::alloc — everything computed before and right after [alloc::alloc] *)

Record AllocInfo := {
  a_mh : Layout;          (* META_HEADER_LAYOUT *)
  a_vlayout : Layout;     (* value layout *)
  a_layout : Layout;      (* layout handed to alloc::alloc *)
  a_value_off : N;        (* value_ptr  - block *)
  a_meta_off : N;         (* meta_ptr   - block  = value_off - META_HEADER_LAYOUT.size() *)
  a_hdr_off : N           (* header_ptr - block  = value_off - size_of::<GcHeader>() *)
}.

Definition alloc_info (P : Platform) (m : Layout) (v : option Layout) : outcome AllocInfo :=
  match meta_header_layout P m with
  | None => Rejected MetaHeaderUnreachable
  | Some mh =>
    match v with
    | None => Rejected NoValueLayout
    | Some v =>
      match prefix_header_layout P mh v with
      | Rejected r => Rejected r
      | Ok (al, off) =>
        Ok {| a_mh := mh; a_vlayout := v; a_layout := al; a_value_off := off;
              a_meta_off := off - size mh; a_hdr_off := off - hdr_size P |}
      end
    end
  end.

Definition alloc_kind (P : Platform) (k : kind) (len : N) : outcome AllocInfo :=
  alloc_info P (kind_meta_layout P k) (kind_value_layout P k len).

(** ** Memory: a block is a byte map *)

Definition mem := N -> N.

Definition upd (m : mem) (a b : N) : mem := fun x => if x =? a then b else m x.

Fixpoint store (m : mem) (a : N) (bs : list N) : mem :=
  match bs with
  | [] => m
  | b :: r => upd (store m (a + 1) r) a b
  end.

Fixpoint load (m : mem) (a : N) (w : nat) : list N :=
  match w with
  | O => []
  | S w' => m a :: load m (a + 1) w'
  end.

(** little-endian encoding of an integer in [w] bytes *)
Fixpoint le_encode (w : nat) (n : N) : list N :=
  match w with
  | O => []
  | S w' => (n mod 256) :: le_encode w' (n / 256)
  end.

Fixpoint le_decode (bs : list N) : N :=
  match bs with
  | [] => 0
  | b :: r => b + 256 * le_decode r
  end.

Definition apply_writes (ws : list (N * list N)) (m : mem) : mem :=
  fold_left (fun m w => store m (fst w) (snd w)) ws m.

(** [GcPtr::alloc]: the state right after the header and metadata writes. [meta] are the bytes
    of [ptr_meta]; the header write is modelled as an arbitrary [hdr] byte string of the
    header's size.  Returns the memory and the value pointer. *)
Definition alloc_write (P : Platform) (ai : AllocInfo) (base : N) (meta hdr : list N) (m : mem)
  : mem * N :=
  let value_ptr := base + a_value_off ai in
  let meta_ptr := value_ptr - size (a_mh ai) in
  let header_ptr := value_ptr - hdr_size P in
  (store (store m meta_ptr meta) header_ptr hdr, value_ptr).

(** The vtable's [dealloc]: reads the metadata back from memory and recomputes layout and
    block pointer. [layout_of] is [P::layout(TM::TYPE_METADATA, _)] on the metadata bytes.
    Returns what is passed to [alloc::dealloc]. *)
Definition dealloc_info (P : Platform) (m : Layout) (layout_of : list N -> option Layout)
           (mm : mem) (value_ptr : N) : outcome (N * Layout) :=
  match meta_header_layout P m with
  | None => Rejected MetaHeaderUnreachable
  | Some mh =>
    let ptr_meta := load mm (value_ptr - size mh) (N.to_nat (size m)) in
    match layout_of ptr_meta with
    | None => Rejected NoValueLayout
    | Some v =>
      match prefix_header_layout P mh v with
      | Rejected r => Rejected r
      | Ok (al, off) => Ok (value_ptr - off, al)
      end
    end
  end.

Definition kind_layout_of (P : Platform) (k : kind) (bs : list N) : option Layout :=
  kind_value_layout P k (le_decode bs).

Definition kind_meta_bytes (P : Platform) (k : kind) (len : N) : list N :=
  match k with
  | KSized _ => []
  | _ => le_encode (N.to_nat (usize_bytes P)) len
  end.

(** ** Thin / fat pointers.  A fat pointer to a slice-like value is (address, length). *)

Definition fat := (N * N)%type.
Definition to_thin (p : fat) : N := fst p.
Definition from_thin (addr len : N) : fat := (addr, len).

(** [PtrProps::read_ptr_meta] for a [usize] metadata followed by [fat_ptr]. *)
Definition read_len (P : Platform) (mm : mem) (value_ptr : N) : option N :=
  match meta_header_layout P (usize_layout P) with
  | None => None
  | Some mh => Some (le_decode (load mm (value_ptr - size mh) (N.to_nat (usize_bytes P))))
  end.

Definition fat_of_thin (P : Platform) (mm : mem) (thin : N) : option fat :=
  match read_len P mm thin with
  | None => None
  | Some len => Some (from_thin thin len)
  end.

(** ** tagged_ptr and the GcHeader flag accessors *)

(** Rust's [!m] on a [usize] *)
Definition lnot_usize (P : Platform) (m : N) : N := N.lxor (N.ones (usize_bits P)) m.

Definition untag (P : Platform) (a : N) : N :=
  N.land a (lnot_usize P (2 ^ vtable_align_log P - 1)).
Definition tag_get (mask a : N) : N := N.land a mask.
Definition tag_set (P : Platform) (mask a tag : N) : N :=
  N.lor (N.land a (lnot_usize P mask)) (N.land tag mask).
Definition tag_get_bool (mask a : N) : bool := negb (N.land a mask =? 0).
Definition tag_set_bool (P : Platform) (mask a : N) (v : bool) : N :=
  N.lor (N.land a (lnot_usize P mask)) (if v then mask else 0).

Record Masks := { color_mask : N; trace_mask : N; live_mask : N }.
Definition std_masks : Masks := {| color_mask := 3; trace_mask := 4; live_mask := 8 |}.

Inductive color := White | WhiteWeak | Gray | Black.

Definition color_code (c : color) : N :=
  match c with White => 0 | WhiteWeak => 1 | Gray => 2 | Black => 3 end.
Definition color_decode (n : N) : color :=
  match n with 0 => White | 1 => WhiteWeak | 2 => Gray | _ => Black end.

Definition hdr_color (M : Masks) (a : N) : color := color_decode (tag_get (color_mask M) a).
Definition hdr_set_color (P : Platform) (M : Masks) (a : N) (c : color) : N :=
  tag_set P (color_mask M) a (color_code c).
Definition hdr_needs_trace (M : Masks) (a : N) : bool := tag_get_bool (trace_mask M) a.
Definition hdr_set_needs_trace (P : Platform) (M : Masks) (a : N) (b : bool) : N :=
  tag_set_bool P (trace_mask M) a b.
Definition hdr_is_live (M : Masks) (a : N) : bool := tag_get_bool (live_mask M) a.
Definition hdr_set_live (P : Platform) (M : Masks) (a : N) (b : bool) : N :=
  tag_set_bool P (live_mask M) a b.

(** The compile-time checks of [tagged_ptr] ([check_mask!], [check_bool_mask!]) plus what the
    three users need from each other: masks below the vtable alignment, boolean masks one bit
    wide, the colour mask wide enough for the four colour codes, masks pairwise disjoint. *)
Definition is_pow2 (m : N) : bool := negb (m =? 0) && (m =? 2 ^ N.log2 m).
Definition masks_ok (P : Platform) (M : Masks) : bool :=
  (vtable_align_log P <? usize_bits P) &&
  (color_mask M <? 2 ^ vtable_align_log P) &&
  (trace_mask M <? 2 ^ vtable_align_log P) &&
  (live_mask M <? 2 ^ vtable_align_log P) &&
  is_pow2 (trace_mask M) && is_pow2 (live_mask M) &&
  (N.land 3 (color_mask M) =? 3) &&
  (N.land (color_mask M) (trace_mask M) =? 0) &&
  (N.land (color_mask M) (live_mask M) =? 0) &&
  (N.land (trace_mask M) (live_mask M) =? 0).

Inductive tagop := SetColor (c : color) | SetNeedsTrace (b : bool) | SetLive (b : bool).

Definition apply_tagop (P : Platform) (M : Masks) (a : N) (o : tagop) : N :=
  match o with
  | SetColor c => hdr_set_color P M a c
  | SetNeedsTrace b => hdr_set_needs_trace P M a b
  | SetLive b => hdr_set_live P M a b
  end.

Definition apply_tagops (P : Platform) (M : Masks) (ops : list tagop) (a : N) : N :=
  fold_left (apply_tagop P M) ops a.

(** The abstract flag record the three accessors are supposed to implement. *)
Record Flags := { f_color : color; f_trace : bool; f_live : bool }.
Definition flags0 : Flags := {| f_color := White; f_trace := false; f_live := false |}.
Definition flags_step (f : Flags) (o : tagop) : Flags :=
  match o with
  | SetColor c => {| f_color := c; f_trace := f_trace f; f_live := f_live f |}
  | SetNeedsTrace b => {| f_color := f_color f; f_trace := b; f_live := f_live f |}
  | SetLive b => {| f_color := f_color f; f_trace := f_trace f; f_live := b |}
  end.
Definition read_flags (M : Masks) (a : N) : Flags :=
  {| f_color := hdr_color M a; f_trace := hdr_needs_trace M a; f_live := hdr_is_live M a |}.

(** ** Well-formedness of a platform description *)
Definition plat_ok (P : Platform) : bool :=
  (0 <? usize_bits P) &&
  (usize_bits P mod 8 =? 0) &&
  (usize_bytes P =? 2 ^ N.log2 (usize_bytes P)) &&
  (hdr_size P mod 2 ^ hdr_align_log P =? 0) &&
  layout_valid P (hdr_layout P) &&
  layout_valid P (usize_layout P).
