(** * TagProofs — the flag bits in the low bits of the vtable pointer (C17, tag part).

    Everything is proved for an arbitrary platform and arbitrary masks satisfying the decidable
    side condition [masks_ok]; the crate's constants (16 / 0x3 / 0x4 / 0x8) are an instance. *)

Require Import NArith List Bool Lia.
Require Import GALayout.ModelLayout GALayout.LayoutProofs.
Import ListNotations.
Open Scope N_scope.

(** ** bit-level helpers *)

Lemma bit_lt_pow2 m k i : m < 2 ^ k -> N.testbit m i = true -> i < k.
Proof.
  intros Hm Hb. destruct (N.lt_ge_cases i k) as [H|H]; [assumption|].
  rewrite <- (N.mod_small m (2 ^ k) Hm) in Hb.
  rewrite N.mod_pow2_bits_high in Hb by assumption. discriminate.
Qed.

Lemma lnot_usize_bit P m i :
  N.testbit (lnot_usize P m) i = xorb (N.testbit (N.ones (usize_bits P)) i) (N.testbit m i).
Proof. unfold lnot_usize. apply N.lxor_spec. Qed.

Lemma ones_bit_true n i : i < n -> N.testbit (N.ones n) i = true.
Proof. apply N.ones_spec_low. Qed.

Lemma low_mask_is_ones k : 2 ^ k - 1 = N.ones k.
Proof. rewrite N.ones_equiv, N.sub_1_r. reflexivity. Qed.

Lemma tag_set_bool_as_set P mask a v :
  tag_set_bool P mask a v = tag_set P mask a (if v then mask else 0).
Proof.
  unfold tag_set_bool, tag_set. destruct v.
  - rewrite N.land_diag. reflexivity.
  - rewrite N.land_0_l. reflexivity.
Qed.

Section Tags.
  Variable P : Platform.
  Let bits := usize_bits P.
  Let k := vtable_align_log P.
  Hypothesis Hk : k < bits.

  (** a mask below the vtable alignment only has bits below [k] (hence below [bits]) *)
  Lemma mask_bit mask i : mask < 2 ^ k -> N.testbit mask i = true -> i < k.
  Proof. apply bit_lt_pow2. Qed.

  Lemma get_set_same mask a t :
    mask < 2 ^ k -> tag_get mask (tag_set P mask a t) = N.land t mask.
  Proof.
    intros Hm. unfold tag_get, tag_set. apply N.bits_inj. intro i.
    rewrite !N.land_spec, N.lor_spec, !N.land_spec, lnot_usize_bit.
    destruct (N.testbit mask i) eqn:Em.
    - pose proof (mask_bit mask i Hm Em).
      fold bits. rewrite ones_bit_true by lia.
      destruct (N.testbit a i), (N.testbit t i); reflexivity.
    - rewrite !andb_false_r. reflexivity.
  Qed.

  Lemma get_set_other mask mask' a t :
    mask' < 2 ^ k -> N.land mask mask' = 0 ->
    tag_get mask' (tag_set P mask a t) = tag_get mask' a.
  Proof.
    intros Hm' Hd. unfold tag_get, tag_set. apply N.bits_inj. intro i.
    rewrite !N.land_spec, N.lor_spec, !N.land_spec, lnot_usize_bit.
    destruct (N.testbit mask' i) eqn:Em'.
    - pose proof (mask_bit mask' i Hm' Em').
      assert (Em : N.testbit mask i = false).
      { assert (Hb : N.testbit (N.land mask mask') i = false) by (rewrite Hd; apply N.bits_0).
        rewrite N.land_spec, Em', andb_true_r in Hb. exact Hb. }
      rewrite Em. fold bits. rewrite ones_bit_true by lia.
      destruct (N.testbit a i), (N.testbit t i); reflexivity.
    - rewrite !andb_false_r. reflexivity.
  Qed.

  Lemma untag_set mask a t :
    mask < 2 ^ k -> untag P (tag_set P mask a t) = untag P a.
  Proof.
    intros Hm. unfold untag, tag_set. fold k. rewrite low_mask_is_ones.
    apply N.bits_inj. intro i.
    rewrite !N.land_spec, N.lor_spec, !N.land_spec, !lnot_usize_bit. fold bits.
    destruct (N.testbit mask i) eqn:Em.
    - pose proof (mask_bit mask i Hm Em).
      rewrite !ones_bit_true by lia.
      destruct (N.testbit a i), (N.testbit t i); reflexivity.
    - destruct (N.lt_ge_cases i k) as [Hi|Hi].
      + rewrite !ones_bit_true by lia.
        destruct (N.testbit a i), (N.testbit t i); reflexivity.
      + rewrite (N.ones_spec_high k i Hi).
        destruct (N.testbit (N.ones bits) i), (N.testbit a i), (N.testbit t i); reflexivity.
  Qed.

  Lemma untag_aligned a : a mod 2 ^ k = 0 -> a < 2 ^ bits -> untag P a = a.
  Proof.
    intros Ha Hlt. unfold untag. fold k. rewrite low_mask_is_ones.
    apply N.bits_inj. intro i. rewrite N.land_spec, lnot_usize_bit. fold bits.
    destruct (N.lt_ge_cases i k) as [Hi|Hi].
    - assert (Hz : N.testbit a i = false).
      { rewrite <- (N.mod_pow2_bits_low a k i Hi), Ha. apply N.bits_0. }
      rewrite Hz. reflexivity.
    - rewrite (N.ones_spec_high k i Hi).
      destruct (N.lt_ge_cases i bits) as [Hb|Hb].
      + rewrite ones_bit_true by assumption. rewrite andb_true_r. reflexivity.
      + assert (Hz : N.testbit a i = false).
        { rewrite <- (N.mod_small a (2 ^ bits) Hlt). apply N.mod_pow2_bits_high. assumption. }
        rewrite Hz. reflexivity.
  Qed.

  (** untagging is idempotent and never looks at the flag bits *)
  Lemma untag_low_bits a i : i < k -> N.testbit (untag P a) i = false.
  Proof.
    intros Hi. unfold untag. fold k. rewrite low_mask_is_ones, N.land_spec, lnot_usize_bit.
    fold bits. rewrite !ones_bit_true by lia. apply andb_false_r.
  Qed.

  (** ** the three accessors under [masks_ok] *)

  Variable M : Masks.
  Hypothesis HM : masks_ok P M = true.

  Lemma masks_ok_spec :
    color_mask M < 2 ^ k /\ trace_mask M < 2 ^ k /\ live_mask M < 2 ^ k /\
    trace_mask M <> 0 /\ live_mask M <> 0 /\
    N.land 3 (color_mask M) = 3 /\
    N.land (color_mask M) (trace_mask M) = 0 /\
    N.land (color_mask M) (live_mask M) = 0 /\
    N.land (trace_mask M) (live_mask M) = 0.
  Proof.
    unfold masks_ok, is_pow2 in HM. fold k in HM.
    repeat (apply andb_true_iff in HM; destruct HM as [HM ?]).
    repeat match goal with
           | H : _ && _ = true |- _ => apply andb_true_iff in H; destruct H
           end.
    repeat match goal with
           | H : (_ <? _) = true |- _ => apply N.ltb_lt in H
           | H : (_ =? _) = true |- _ => apply N.eqb_eq in H
           | H : negb _ = true |- _ => apply negb_true_iff, N.eqb_neq in H
           end.
    repeat split; assumption.
  Qed.

  Lemma color_code_fits c : N.land (color_code c) (color_mask M) = color_code c.
  Proof.
    destruct masks_ok_spec as (_ & _ & _ & _ & _ & H3 & _).
    assert (Hc : N.land (color_code c) 3 = color_code c) by (destruct c; reflexivity).
    rewrite <- Hc at 1. rewrite <- N.land_assoc, H3. exact Hc.
  Qed.

  Lemma color_roundtrip c : color_decode (color_code c) = c.
  Proof. destruct c; reflexivity. Qed.

  Lemma get_bool_set_bool_same mask a v :
    mask < 2 ^ k -> mask <> 0 -> tag_get_bool mask (tag_set_bool P mask a v) = v.
  Proof.
    intros Hm Hnz. unfold tag_get_bool. rewrite tag_set_bool_as_set.
    fold (tag_get mask (tag_set P mask a (if v then mask else 0))).
    rewrite get_set_same by assumption.
    destruct v.
    - rewrite N.land_diag. apply negb_true_iff, N.eqb_neq. assumption.
    - rewrite N.land_0_l. reflexivity.
  Qed.

  Lemma get_bool_frame mask mask' a t :
    mask' < 2 ^ k -> N.land mask mask' = 0 ->
    tag_get_bool mask' (tag_set P mask a t) = tag_get_bool mask' a.
  Proof.
    intros Hm' Hd. unfold tag_get_bool.
    fold (tag_get mask' (tag_set P mask a t)). fold (tag_get mask' a).
    rewrite get_set_other by assumption. reflexivity.
  Qed.

  (* read back what was set *)
  Lemma color_set_color a c : hdr_color M (hdr_set_color P M a c) = c.
  Proof.
    destruct masks_ok_spec as (Hc & _).
    unfold hdr_color, hdr_set_color. rewrite get_set_same by assumption.
    rewrite color_code_fits. apply color_roundtrip.
  Qed.

  Lemma trace_set_trace a b : hdr_needs_trace M (hdr_set_needs_trace P M a b) = b.
  Proof.
    destruct masks_ok_spec as (_ & Ht & _ & Htz & _).
    apply get_bool_set_bool_same; assumption.
  Qed.

  Lemma live_set_live a b : hdr_is_live M (hdr_set_live P M a b) = b.
  Proof.
    destruct masks_ok_spec as (_ & _ & Hl & _ & Hlz & _).
    apply get_bool_set_bool_same; assumption.
  Qed.

  (* setting one leaves the others unchanged *)
  Lemma color_set_trace a b : hdr_color M (hdr_set_needs_trace P M a b) = hdr_color M a.
  Proof.
    destruct masks_ok_spec as (Hc & Ht & Hl & _ & _ & _ & Hct & Hcl & Htl).
    unfold hdr_color, hdr_set_needs_trace. rewrite tag_set_bool_as_set.
    rewrite get_set_other; [reflexivity | assumption | rewrite N.land_comm; assumption].
  Qed.

  Lemma color_set_live a b : hdr_color M (hdr_set_live P M a b) = hdr_color M a.
  Proof.
    destruct masks_ok_spec as (Hc & Ht & Hl & _ & _ & _ & Hct & Hcl & Htl).
    unfold hdr_color, hdr_set_live. rewrite tag_set_bool_as_set.
    rewrite get_set_other; [reflexivity | assumption | rewrite N.land_comm; assumption].
  Qed.

  Lemma trace_set_color a c : hdr_needs_trace M (hdr_set_color P M a c) = hdr_needs_trace M a.
  Proof.
    destruct masks_ok_spec as (Hc & Ht & Hl & _ & _ & _ & Hct & Hcl & Htl).
    apply get_bool_frame; assumption.
  Qed.

  Lemma trace_set_live a b : hdr_needs_trace M (hdr_set_live P M a b) = hdr_needs_trace M a.
  Proof.
    destruct masks_ok_spec as (Hc & Ht & Hl & _ & _ & _ & Hct & Hcl & Htl).
    unfold hdr_set_live. rewrite tag_set_bool_as_set.
    apply get_bool_frame; [assumption | rewrite N.land_comm; assumption].
  Qed.

  Lemma live_set_color a c : hdr_is_live M (hdr_set_color P M a c) = hdr_is_live M a.
  Proof.
    destruct masks_ok_spec as (Hc & Ht & Hl & _ & _ & _ & Hct & Hcl & Htl).
    apply get_bool_frame; assumption.
  Qed.

  Lemma live_set_trace a b : hdr_is_live M (hdr_set_needs_trace P M a b) = hdr_is_live M a.
  Proof.
    destruct masks_ok_spec as (Hc & Ht & Hl & _ & _ & _ & Hct & Hcl & Htl).
    unfold hdr_set_needs_trace. rewrite tag_set_bool_as_set.
    apply get_bool_frame; assumption.
  Qed.

  Lemma untag_apply_tagop a o : untag P (apply_tagop P M a o) = untag P a.
  Proof.
    destruct masks_ok_spec as (Hc & Ht & Hl & _).
    destruct o; cbn [apply_tagop]; unfold hdr_set_color, hdr_set_needs_trace, hdr_set_live;
      rewrite ?tag_set_bool_as_set; apply untag_set; assumption.
  Qed.

  Lemma read_flags_step a o : read_flags M (apply_tagop P M a o) = flags_step (read_flags M a) o.
  Proof.
    destruct o; cbn [apply_tagop]; unfold read_flags, flags_step; cbn [f_color f_trace f_live].
    - rewrite color_set_color, trace_set_color, live_set_color. reflexivity.
    - rewrite color_set_trace, trace_set_trace, live_set_trace. reflexivity.
    - rewrite color_set_live, trace_set_live, live_set_live. reflexivity.
  Qed.

  Lemma read_flags_vtable vt : vt mod 2 ^ k = 0 -> read_flags M vt = flags0.
  Proof.
    intros Hv.
    destruct masks_ok_spec as (Hc & Ht & Hl & _).
    assert (Hz : forall mask, mask < 2 ^ k -> N.land vt mask = 0).
    { intros mask Hm. apply N.bits_inj. intro i. rewrite N.land_spec, N.bits_0.
      destruct (N.testbit mask i) eqn:Em; [|apply andb_false_r].
      pose proof (mask_bit mask i Hm Em) as Hi.
      rewrite <- (N.mod_pow2_bits_low vt k i Hi), Hv, N.bits_0. reflexivity. }
    unfold read_flags, flags0, hdr_color, hdr_needs_trace, hdr_is_live, tag_get, tag_get_bool.
    rewrite !Hz by assumption. reflexivity.
  Qed.

  (** Any history of flag updates applied to a freshly written header ([GcHeader::new] stores
      the plain vtable address): the vtable pointer is recovered exactly and the three
      accessors read the last value written to each flag. *)
  Theorem tagops_sound vt ops :
    vt mod 2 ^ k = 0 -> vt < 2 ^ bits ->
    untag P (apply_tagops P M ops vt) = vt /\
    read_flags M (apply_tagops P M ops vt) = fold_left flags_step ops flags0.
  Proof.
    intros Hv Hlt.
    assert (G : forall ops a f, untag P a = vt -> read_flags M a = f ->
                untag P (apply_tagops P M ops a) = vt /\
                read_flags M (apply_tagops P M ops a) = fold_left flags_step ops f).
    { clear ops. induction ops as [|o ops IH]; intros a f Hu Hr; cbn [apply_tagops fold_left].
      - auto.
      - apply IH.
        + rewrite untag_apply_tagop. assumption.
        + rewrite read_flags_step, Hr. reflexivity. }
    apply G.
    - apply untag_aligned; assumption.
    - apply read_flags_vtable. assumption.
  Qed.
End Tags.
