(** * C17Proofs — the property-level lemmas of C17, assembled from the supporting files. *)

Require Import NArith ZArith List Bool Lia.
Require Import GALayout.ModelLayout GALayout.LayoutProofs GALayout.MemProofs GALayout.TagProofs.
Import ListNotations.
Open Scope N_scope.

Ltac Zify.zify_post_hook ::= Z.div_mod_to_equations.

Lemma divide_add_base a base off : (a | base) -> (a | off) -> (a | base + off).
Proof. intros. apply N.divide_add_r; assumption. Qed.

(** The pointers computed by [GcPtr::alloc] from a block at [base] *)
Definition value_ptr (ai : AllocInfo) (base : N) : N := base + a_value_off ai.
Definition meta_ptr (ai : AllocInfo) (base : N) : N := value_ptr ai base - size (a_mh ai).
Definition header_ptr (P : Platform) (ai : AllocInfo) (base : N) : N := value_ptr ai base - hdr_size P.

Lemma c17_value_aligned P m v ai base :
  plat_ok P = true ->
  alloc_info P m (Some v) = Ok ai ->
  (align (a_layout ai) | base) ->
  (align v | value_ptr ai base).
Proof.
  intros HP Hai Hb. pose proof (alloc_info_facts P m v ai HP Hai) as F.
  apply divide_add_base; [exact (N.divide_trans _ _ _ (af_align_v _ _ _ _ F) Hb) | exact (af_value_aligned _ _ _ _ F)].
Qed.

Lemma c17_header_aligned P m v ai base :
  plat_ok P = true ->
  alloc_info P m (Some v) = Ok ai ->
  (align (a_layout ai) | base) ->
  hdr_size P <= a_value_off ai /\
  (2 ^ hdr_align_log P | header_ptr P ai base).
Proof.
  intros HP Hai Hb. pose proof (alloc_info_facts P m v ai HP Hai) as F.
  pose proof (af_hdr_eq _ _ _ _ F).
  split; [lia|]. unfold header_ptr, value_ptr.
  replace (base + a_value_off ai - hdr_size P) with (base + a_hdr_off ai) by lia.
  apply divide_add_base; [exact (N.divide_trans _ _ _ (af_align_h _ _ _ _ F) Hb) | exact (af_hdr_aligned _ _ _ _ F)].
Qed.

Lemma c17_meta_aligned P m v ai base :
  plat_ok P = true ->
  alloc_info P m (Some v) = Ok ai ->
  (align (a_layout ai) | base) ->
  size (a_mh ai) <= a_value_off ai /\
  (align m | meta_ptr ai base).
Proof.
  intros HP Hai Hb. pose proof (alloc_info_facts P m v ai HP Hai) as F.
  pose proof (af_meta_eq _ _ _ _ F).
  split; [lia|]. unfold meta_ptr, value_ptr.
  replace (base + a_value_off ai - size (a_mh ai)) with (base + a_meta_off ai) by lia.
  apply divide_add_base; [exact (N.divide_trans _ _ _ (af_align_m _ _ _ _ F) Hb) | exact (af_meta_aligned _ _ _ _ F)].
Qed.

(** metadata bytes, header bytes and value bytes: in this order, pairwise disjoint, inside the
    block [base, base + size) *)
Lemma c17_disjoint P m v ai base :
  plat_ok P = true ->
  alloc_info P m (Some v) = Ok ai ->
  base <= meta_ptr ai base /\
  meta_ptr ai base + size m <= header_ptr P ai base /\
  header_ptr P ai base + hdr_size P = value_ptr ai base /\
  value_ptr ai base + size v = base + size (a_layout ai).
Proof.
  intros HP Hai. destruct (alloc_info_facts P m v ai HP Hai).
  unfold meta_ptr, header_ptr, value_ptr. lia.
Qed.

(** the block layout itself is one the allocator accepts *)
Lemma c17_block_layout_valid P m v ai :
  plat_ok P = true ->
  alloc_info P m (Some v) = Ok ai ->
  layout_valid P (a_layout ai) = true /\ a_vlayout ai = v.
Proof.
  intros HP Hai. destruct (alloc_info_facts P m v ai HP Hai). auto.
Qed.

(** SliceWithHeader: the requested value layout has room for the header, the padding in front
    of the slice and [len] elements, and has the alignment of both. *)
Lemma c17_swh_extent P h e len l :
  layout_valid P e = true ->
  swh_layout P h e len = Some l ->
  align_log l = N.max (align_log h) (align_log e) /\
  (align l | size l) /\
  size h <= swh_slice_offset h e /\
  (align e | swh_slice_offset h e) /\
  swh_slice_offset h e + size e * len <= size l.
Proof.
  intros He H. destruct (swh_layout_spec P h e len l He H) as (A & B & C & D & E & _). auto.
Qed.

Lemma c17_tag_bits P M vt ops :
  masks_ok P M = true ->
  vt mod 2 ^ vtable_align_log P = 0 ->
  vt < usize_lim P ->
  untag P (apply_tagops P M ops vt) = vt /\
  read_flags M (apply_tagops P M ops vt) = fold_left flags_step ops flags0.
Proof.
  intros HM Hv Hlt.
  assert (Hk : vtable_align_log P < usize_bits P).
  { unfold masks_ok in HM. repeat (apply andb_true_iff in HM; destruct HM as [HM ?]).
    apply N.ltb_lt. assumption. }
  apply (tagops_sound P Hk M HM); assumption.
Qed.

(** single-step form: every accessor reads what was set, every other accessor and the
    untagged address are unchanged — for every tagged word [a], not only fresh ones *)
Lemma c17_tag_step P M a o :
  masks_ok P M = true ->
  read_flags M (apply_tagop P M a o) = flags_step (read_flags M a) o /\
  untag P (apply_tagop P M a o) = untag P a.
Proof.
  intros HM.
  assert (Hk : vtable_align_log P < usize_bits P).
  { pose proof HM as HM'. unfold masks_ok in HM'.
    repeat (apply andb_true_iff in HM'; destruct HM' as [HM' ?]).
    apply N.ltb_lt. assumption. }
  split.
  - apply (read_flags_step P Hk M HM).
  - apply (untag_apply_tagop P Hk M HM).
Qed.
