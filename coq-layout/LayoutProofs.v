(** * LayoutProofs — arithmetic facts about the layout model (supporting lemmas for C17). *)

Require Import NArith ZArith List Bool Lia.
Require Import GALayout.ModelLayout.
Import ListNotations.
Open Scope N_scope.

Ltac Zify.zify_post_hook ::= Z.div_mod_to_equations.

(** ** powers of two, divisibility, rounding *)

Lemma pow2_nz k : 2 ^ k <> 0.
Proof. apply N.pow_nonzero. discriminate. Qed.

Lemma pow2_pos k : 0 < 2 ^ k.
Proof. pose proof (pow2_nz k). lia. Qed.

Lemma pow2_divide k1 k2 : k1 <= k2 -> (2 ^ k1 | 2 ^ k2).
Proof.
  intros H. exists (2 ^ (k2 - k1)).
  rewrite <- N.pow_add_r. f_equal. lia.
Qed.

Lemma pow2_le k1 k2 : k1 <= k2 -> 2 ^ k1 <= 2 ^ k2.
Proof. intros. apply N.pow_le_mono_r; lia. Qed.

Lemma align_nz l : align l <> 0.
Proof. apply pow2_nz. Qed.

Lemma round_up_bounds s a : a <> 0 -> s <= round_up s a < s + a.
Proof. intros. unfold round_up. lia. Qed.

Lemma round_up_divide s a : (a | round_up s a).
Proof. unfold round_up. apply N.divide_factor_r. Qed.

Lemma round_up_id s a : a <> 0 -> (a | s) -> round_up s a = s.
Proof.
  intros Ha [c ->]. unfold round_up.
  replace (c * a + a - 1) with (c * a + (a - 1)) by lia.
  rewrite N.div_add_l by assumption.
  rewrite N.div_small by lia. lia.
Qed.

Lemma divide_mod a x : a <> 0 -> (a | x) -> x mod a = 0.
Proof. intros. apply N.mod_divide; assumption. Qed.

Lemma mod_divide' a x : a <> 0 -> x mod a = 0 -> (a | x).
Proof. intros. apply N.mod_divide; assumption. Qed.

(** [round_up x (2^k)] when [x] is already a multiple of a larger power of two *)
Lemma round_up_pow2_id x k k' : k <= k' -> (2 ^ k' | x) -> round_up x (2 ^ k) = x.
Proof.
  intros Hk Hx. apply round_up_id. apply pow2_nz.
  eapply N.divide_trans; [apply pow2_divide; eassumption | assumption].
Qed.

(** a multiple of [2^k] rounded up to any power of two is still a multiple of [2^k] *)
Lemma round_up_keeps_divide x k j : (2 ^ k | x) -> (2 ^ k | round_up x (2 ^ j)).
Proof.
  intros Hx. destruct (N.le_gt_cases j k) as [Hjk | Hjk].
  - rewrite (round_up_pow2_id x j k); assumption.
  - eapply N.divide_trans; [apply (pow2_divide k j); lia | apply round_up_divide].
Qed.

(** ** Layout: validity *)

Lemma layout_valid_spec P l :
  layout_valid P l = true <-> align_log l < usize_bits P /\ size l + align l <= isize_lim P.
Proof.
  unfold layout_valid. rewrite andb_true_iff, N.ltb_lt, N.leb_le. tauto.
Qed.

Lemma pad_to_align_valid P l : layout_valid P l = true -> layout_valid P (pad_to_align l) = true.
Proof.
  rewrite !layout_valid_spec. intros [Hk Hs]. unfold pad_to_align, align in *. cbn [size align_log mkL].
  split; [assumption|].
  (* round_up s a is a multiple of a, < s + a <= 2^(b-1), and 2^(b-1) is a multiple of a *)
  pose proof (round_up_bounds (size l) (2 ^ align_log l) (pow2_nz _)) as [_ Hb].
  destruct (round_up_divide (size l) (2 ^ align_log l)) as [c Hc].
  assert (Hd : (2 ^ align_log l | isize_lim P)).
  { unfold isize_lim. apply pow2_divide. lia. }
  destruct Hd as [d Hd]. rewrite Hc, Hd in *.
  pose proof (pow2_pos (align_log l)) as Hpos.
  set (a := 2 ^ align_log l) in *.
  assert (Hlt : c * a < d * a) by lia.
  apply N.mul_lt_mono_pos_r in Hlt; [|assumption].
  assert (Hle : (c + 1) * a <= d * a) by (apply N.mul_le_mono_r; lia).
  lia.
Qed.

Lemma pad_to_align_size_ge l : size l <= size (pad_to_align l).
Proof. unfold pad_to_align. cbn. apply round_up_bounds, pow2_nz. Qed.

Lemma pad_to_align_divide l : (align (pad_to_align l) | size (pad_to_align l)).
Proof. unfold pad_to_align, align. cbn. apply round_up_divide. Qed.

(** ** extend *)

Lemma extend_spec P a b l off :
  extend P a b = Some (l, off) ->
  off = round_up (size a) (align b) /\
  size l = off + size b /\
  align_log l = N.max (align_log a) (align_log b) /\
  layout_valid P l = true.
Proof.
  unfold extend. destruct (layout_valid P _) eqn:Hv; [|discriminate].
  intros H. inversion H; subst. cbn. auto.
Qed.

Lemma extend_some_iff P a b :
  (exists r, extend P a b = Some r) <->
  N.max (align_log a) (align_log b) < usize_bits P /\
  round_up (size a) (align b) + size b + 2 ^ N.max (align_log a) (align_log b) <= isize_lim P.
Proof.
  unfold extend. split.
  - intros [r H]. destruct (layout_valid P _) eqn:Hv; [|discriminate].
    apply layout_valid_spec in Hv. unfold align in Hv. cbn in Hv. exact Hv.
  - intros H. assert (Hv : layout_valid P
      (mkL (round_up (size a) (align b) + size b) (N.max (align_log a) (align_log b))) = true).
    { apply layout_valid_spec. unfold align. cbn. exact H. }
    rewrite Hv. eauto.
Qed.

(** ** array *)

Lemma array_spec P e n l :
  array P e n = Some l -> size l = size e * n /\ align_log l = align_log e.
Proof.
  unfold array. destruct (_ && _); [discriminate|]. intros H; inversion H; subst; cbn; auto.
Qed.

Lemma array_valid P e n l :
  layout_valid P e = true -> array P e n = Some l -> layout_valid P l = true.
Proof.
  rewrite !layout_valid_spec. intros [Hk Hs]. unfold array.
  destruct (negb (size e =? 0) && _) eqn:Hc; [discriminate|].
  intros H; inversion H; subst; clear H. unfold align in *. cbn [size align_log mkL].
  split; [assumption|].
  apply andb_false_iff in Hc. destruct Hc as [Hc | Hc].
  - apply negb_false_iff, N.eqb_eq in Hc. rewrite Hc. lia.
  - apply N.ltb_ge in Hc.
    assert (size e <> 0 \/ size e = 0) as [Hz | Hz] by lia; [|rewrite Hz; lia].
    pose proof (N.mul_div_le (isize_lim P - 2 ^ align_log e) (size e) Hz).
    assert (size e * n <= size e * ((isize_lim P - 2 ^ align_log e) / size e))
      by (apply N.mul_le_mono_l; assumption).
    lia.
Qed.

Lemma array_some_iff P e n :
  (exists l, array P e n = Some l) <->
  (size e = 0 \/ n <= (isize_lim P - align e) / size e).
Proof.
  unfold array. split.
  - intros [l H]. destruct (negb (size e =? 0) && _) eqn:Hc; [discriminate|].
    apply andb_false_iff in Hc. destruct Hc as [Hc | Hc].
    + left. apply negb_false_iff, N.eqb_eq in Hc. assumption.
    + right. apply N.ltb_ge in Hc. assumption.
  - intros [H | H].
    + rewrite H. cbn. eauto.
    + assert (Hc : ((isize_lim P - align e) / size e <? n) = false) by (apply N.ltb_ge; assumption).
      rewrite Hc, andb_false_r. eauto.
Qed.

(** ** META_HEADER_LAYOUT *)

Lemma plat_ok_spec P :
  plat_ok P = true ->
  0 < usize_bits P /\ usize_bits P mod 8 = 0 /\
  usize_bytes P = 2 ^ N.log2 (usize_bytes P) /\
  (2 ^ hdr_align_log P | hdr_size P) /\
  layout_valid P (hdr_layout P) = true /\ layout_valid P (usize_layout P) = true.
Proof.
  unfold plat_ok. rewrite !andb_true_iff, N.ltb_lt, !N.eqb_eq.
  intros [[[[[H1 H2] H3] H4] H5] H6]. repeat split; try assumption.
  apply mod_divide'; [apply pow2_nz | assumption].
Qed.

Lemma meta_header_layout_spec P m mh :
  plat_ok P = true ->
  meta_header_layout P m = Some mh ->
  align_log mh = N.max (align_log m) (hdr_align_log P) /\
  (align mh | size mh) /\
  size m + hdr_size P <= size mh /\
  layout_valid P mh = true.
Proof.
  intros HP. unfold meta_header_layout.
  destruct (extend P m (hdr_layout P)) as [[l off]|] eqn:He; [|discriminate].
  intros H; inversion H; subst; clear H.
  apply extend_spec in He. destruct He as (Hoff & Hsz & Hal & Hv).
  repeat split.
  - cbn. rewrite Hal. reflexivity.
  - apply pad_to_align_divide.
  - pose proof (pad_to_align_size_ge l).
    pose proof (round_up_bounds (size m) (align (hdr_layout P)) (align_nz _)).
    cbn [hdr_layout size mkL] in *. lia.
  - apply pad_to_align_valid. assumption.
Qed.

(** The [assert!] of [prefix_header_layout] can never fire for a META_HEADER_LAYOUT. *)
Lemma prefix_assert_holds P m mh :
  plat_ok P = true -> meta_header_layout P m = Some mh -> size mh mod align mh = 0.
Proof.
  intros HP H. destruct (meta_header_layout_spec P m mh HP H) as (_ & Hd & _).
  apply divide_mod; [apply align_nz | assumption].
Qed.

(** ** GcPtr::alloc *)

Record alloc_facts (P : Platform) (m v : Layout) (ai : AllocInfo) : Prop := {
  af_vlayout : a_vlayout ai = v;
  af_layout_valid : layout_valid P (a_layout ai) = true;
  (* alignment of the block covers all three alignments *)
  af_align_v : (align v | align (a_layout ai));
  af_align_h : (2 ^ hdr_align_log P | align (a_layout ai));
  af_align_m : (align m | align (a_layout ai));
  (* offsets *)
  af_value_aligned : (align v | a_value_off ai);
  af_hdr_eq : a_hdr_off ai + hdr_size P = a_value_off ai;
  af_hdr_aligned : (2 ^ hdr_align_log P | a_hdr_off ai);
  af_meta_eq : a_meta_off ai + size (a_mh ai) = a_value_off ai;
  af_meta_aligned : (align m | a_meta_off ai);
  (* ranges:  [meta_off, meta_off+|m|) <= [hdr_off, value_off) <= [value_off, value_off+|v|) = end *)
  af_meta_before_hdr : a_meta_off ai + size m <= a_hdr_off ai;
  af_value_end : a_value_off ai + size v = size (a_layout ai)
}.

Lemma alloc_info_facts P m v ai :
  plat_ok P = true ->
  alloc_info P m (Some v) = Ok ai ->
  alloc_facts P m v ai.
Proof.
  intros HP. unfold alloc_info.
  destruct (meta_header_layout P m) as [mh|] eqn:Hmh; [|discriminate].
  destruct (meta_header_layout_spec P m mh HP Hmh) as (Hmk & Hmd & Hms & Hmv).
  unfold prefix_header_layout.
  destruct (size mh mod align mh =? 0); [|discriminate].
  destruct (extend P mh v) as [[al off]|] eqn:He; [|discriminate].
  intros H; inversion H; subst; clear H.
  apply extend_spec in He. destruct He as (Hoff & Hsz & Hal & Hv).
  destruct (plat_ok_spec P HP) as (_ & _ & _ & Hhd & _ & _).
  unfold align in *.
  set (mk := align_log m) in *. set (hk := hdr_align_log P) in *. set (vk := align_log v) in *.
  (* the value offset is a multiple of 2^vk, of 2^(max mk hk) and at least size mh *)
  assert (Hoff_v : (2 ^ vk | off)) by (subst off; apply round_up_divide).
  assert (Hoff_mh : (2 ^ align_log mh | off)) by (subst off; apply round_up_keeps_divide; assumption).
  assert (Hoff_ge : size mh <= off) by (subst off; apply round_up_bounds, pow2_nz).
  assert (Hm_le : (2 ^ mk | 2 ^ align_log mh)) by (apply pow2_divide; lia).
  assert (Hh_le : (2 ^ hk | 2 ^ align_log mh)) by (apply pow2_divide; lia).
  constructor; cbn [a_vlayout a_layout a_value_off a_meta_off a_hdr_off a_mh]; unfold align;
    fold mk; fold hk; fold vk.
  - reflexivity.
  - assumption.
  - rewrite Hal. apply pow2_divide. lia.
  - rewrite Hal. apply pow2_divide. lia.
  - rewrite Hal. apply pow2_divide. lia.
  - assumption.
  - lia.
  - apply N.divide_sub_r; [|assumption].
    eapply N.divide_trans; eassumption.
  - lia.
  - apply N.divide_sub_r.
    + eapply N.divide_trans; eassumption.
    + eapply N.divide_trans; eassumption.
  - lia.
  - lia.
Qed.

(** Which inputs are rejected: exactly the documented overflow conditions. *)
Lemma alloc_info_ok_iff P m v mh :
  plat_ok P = true ->
  meta_header_layout P m = Some mh ->
  ((exists ai, alloc_info P m (Some v) = Ok ai) <->
   (N.max (align_log mh) (align_log v) < usize_bits P /\
    round_up (size mh) (align v) + size v + 2 ^ N.max (align_log mh) (align_log v) <= isize_lim P)).
Proof.
  intros HP Hmh. unfold alloc_info. rewrite Hmh. unfold prefix_header_layout.
  rewrite (prefix_assert_holds P m mh HP Hmh). cbn.
  rewrite <- extend_some_iff. split.
  - intros [ai H]. destruct (extend P mh v) as [[al off]|]; [eauto | discriminate].
  - intros [[al off] H]. rewrite H. eauto.
Qed.

Lemma alloc_info_rejects P m v r :
  plat_ok P = true ->
  alloc_info P m v = Rejected r ->
  (r = MetaHeaderUnreachable /\ meta_header_layout P m = None) \/
  (r = NoValueLayout /\ v = None) \/
  (r = NoAllocLayout /\ exists mh v', meta_header_layout P m = Some mh /\ v = Some v' /\
                                      extend P mh v' = None).
Proof.
  intros HP. unfold alloc_info.
  destruct (meta_header_layout P m) as [mh|] eqn:Hmh.
  2:{ intros H; inversion H; auto. }
  destruct v as [v|].
  2:{ intros H; inversion H; auto. }
  unfold prefix_header_layout. rewrite (prefix_assert_holds P m mh HP Hmh). cbn.
  destruct (extend P mh v) as [[al off]|] eqn:He; [discriminate|].
  intros H; inversion H. right. right. split; [reflexivity|]. eauto.
Qed.

(** ** SliceWithHeader::layout *)

Lemma swh_layout_spec P h e len l :
  layout_valid P e = true ->
  swh_layout P h e len = Some l ->
  align_log l = N.max (align_log h) (align_log e) /\
  (align l | size l) /\
  swh_slice_offset h e + size e * len <= size l /\
  size h <= swh_slice_offset h e /\
  (align e | swh_slice_offset h e) /\
  layout_valid P l = true.
Proof.
  intros Hve. unfold swh_layout.
  destruct (array P e len) as [arr|] eqn:Ha; [|discriminate].
  destruct (extend P h arr) as [[l0 off]|] eqn:He; [|discriminate].
  intros H; inversion H; subst; clear H.
  apply array_spec in Ha. destruct Ha as (Hasz & Hak).
  apply extend_spec in He. destruct He as (Hoff & Hsz & Hal & Hv).
  unfold swh_slice_offset, align in *. rewrite Hak in *. rewrite Hasz in *.
  repeat split.
  - cbn. assumption.
  - apply pad_to_align_divide.
  - pose proof (pad_to_align_size_ge l0). lia.
  - apply round_up_bounds, pow2_nz.
  - apply round_up_divide.
  - apply pad_to_align_valid. assumption.
Qed.

Lemma swh_layout_some_iff P h e len :
  (exists l, swh_layout P h e len = Some l) <->
  ((size e = 0 \/ len <= (isize_lim P - align e) / size e) /\
   N.max (align_log h) (align_log e) < usize_bits P /\
   round_up (size h) (align e) + size e * len + 2 ^ N.max (align_log h) (align_log e)
     <= isize_lim P).
Proof.
  unfold swh_layout. split.
  - intros [l H].
    destruct (array P e len) as [arr|] eqn:Ha; [|discriminate].
    destruct (extend P h arr) as [[l0 off]|] eqn:He; [|discriminate].
    split; [apply array_some_iff; eauto|].
    pose proof (proj1 (extend_some_iff P h arr) (ex_intro _ _ He)) as Hx.
    apply array_spec in Ha. destruct Ha as (Hasz & Hak).
    unfold align in *. rewrite Hak, Hasz in Hx. exact Hx.
  - intros (Ha & Hk & Hs).
    apply array_some_iff in Ha. destruct Ha as [arr Ha]. rewrite Ha.
    pose proof (array_spec _ _ _ _ Ha) as (Hasz & Hak).
    assert (Hx : exists r, extend P h arr = Some r).
    { apply extend_some_iff. unfold align in *. rewrite Hak, Hasz. auto. }
    destruct Hx as [[l0 off] Hx]. rewrite Hx. eauto.
Qed.
