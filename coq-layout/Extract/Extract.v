(** Extraction of the executable model and the case checkers (ExtrOcamlBasic only; no
    Extract Constant).  Run with the output directory as working directory. *)
Require Extraction.
Require Import ExtrOcamlBasic.
Require Import NArith.
Require Import GALayout.ModelLayout GALayout.ModelBuilder GALayout.CaseCheck.

Extraction Language OCaml.
Extraction "layout_model.ml"
  N.add N.mul N.div_eucl N.eqb N.of_nat
  x86_64 std_masks plat_ok masks_ok
  dcase_ok lcase_ok lcase_predict tcase_ok bcase_ok bcase_predict bcase_layout_ok.
