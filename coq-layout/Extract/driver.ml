(* Driver for the extracted layout / builder model (see CaseCheck.v).

   stdin: one case per line (format documented in /verif/harness-layout/layout_common.py);
   stdout: "BAD <line-number> <prediction>" for every case on which the model's checker returns
   false, then "DONE <cases> <bad>".  Header lines: "PLAT bits hdr_size hdr_k vt_k" and
   "MASKS c t l" set the platform / mask constants used for the following cases.

   Only conversions between text and the extracted datatypes live here; every decision is made
   by the extracted Coq functions dcase_ok / lcase_ok / tcase_ok / bcase_ok. *)

open Layout_model

let rec pos_of_int64 (x : int64) : positive =
  if Int64.equal x 1L then XH
  else
    let r = pos_of_int64 (Int64.shift_right_logical x 1) in
    if Int64.equal (Int64.logand x 1L) 1L then XI r else XO r

let n_of_string (s : string) : n =
  (* unsigned 64-bit decimal *)
  let x = Int64.of_string ("0u" ^ s) in
  if Int64.equal x 0L then N0 else Npos (pos_of_int64 x)

let ten = n_of_string "10"

let rec n_to_string (x : n) : string =
  match x with
  | N0 -> "0"
  | _ ->
    let (q, r) = N.div_eucl x ten in
    let d = match r with
      | N0 -> 0
      | Npos p ->
        let rec to_int p = match p with XH -> 1 | XO q -> 2 * to_int q | XI q -> 2 * to_int q + 1 in
        to_int p in
    (match q with N0 -> "" | _ -> n_to_string q) ^ string_of_int d

let layout_to_string (l : layout) = Printf.sprintf "(%s,2^%s)" (n_to_string l.size0) (n_to_string l.align_log)

exception Parse of string

(* token stream *)
type toks = { mutable rest : string list }
let next t = match t.rest with
  | [] -> raise (Parse "unexpected end of line")
  | x :: r -> t.rest <- r; x
let next_n t = n_of_string (next t)
let next_bool t = match next t with "1" -> true | "0" -> false | s -> raise (Parse ("bool: " ^ s))
let next_int t = int_of_string (next t)
let next_layout t = let s = next_n t in let k = next_n t in { size0 = s; align_log = k }

let parse_kind t : kind =
  match next t with
  | "Z" -> KSized (next_layout t)
  | "S" -> KSlice (next_layout t)
  | "T" -> KStr
  | "W" -> let h = next_layout t in let e = next_layout t in KSWH (h, e)
  | s -> raise (Parse ("kind: " ^ s))

let parse_bkind t : bkind =
  match next t with
  | "Z" -> BSized (next_layout t)
  | "S" -> BSlice (next_layout t)
  | "T" -> BStr
  | "W" -> let h = next_layout t in let e = next_layout t in BSWH (h, e)
  | s -> raise (Parse ("bkind: " ^ s))

let parse_dcase t : dcase =
  match next t with
  | "V" -> let s = next_n t in let k = next_n t in let r = next_bool t in DValid (s, k, r)
  | "E" ->
    let s1 = next_n t in let k1 = next_n t in let s2 = next_n t in let k2 = next_n t in
    (match next t with
     | "N" -> DExtend (s1, k1, s2, k2, None)
     | "S" -> let sz = next_n t in let k = next_n t in let off = next_n t in
       DExtend (s1, k1, s2, k2, Some ((sz, k), off))
     | s -> raise (Parse ("extend result: " ^ s)))
  | "P" -> let s = next_n t in let k = next_n t in let r = next_n t in DPad (s, k, r)
  | "A" ->
    let es = next_n t in let ek = next_n t in let n = next_n t in
    (match next t with
     | "N" -> DArray (es, ek, n, None)
     | "S" -> DArray (es, ek, n, Some (next_n t))
     | s -> raise (Parse ("array result: " ^ s)))
  | s -> raise (Parse ("dcase: " ^ s))

let parse_lcase t : lcase =
  let custom = next_bool t in
  let m = next_layout t in
  let k = parse_kind t in
  let len = next_n t in
  let r = match next t with
    | "O" ->
      let a = next_n t in let b = next_n t in let c = next_n t in let d = next_n t in
      let e = next_n t in let f = next_n t in let g = next_n t in let h = next_n t in
      LOk (a, b, c, d, e, f, g, h)
    | "P" -> LPanic (next_n t)
    | s -> raise (Parse ("lres: " ^ s)) in
  LCase (custom, m, k, len, r)

let parse_color t : color =
  match next t with
  | "0" -> White | "1" -> WhiteWeak | "2" -> Gray | "3" -> Black
  | s -> raise (Parse ("color: " ^ s))

let parse_tcase t : tcase =
  match next t with
  | "O" ->
    let vt = next_n t in
    let nops = next_int t in
    let ops = List.init nops (fun _ ->
        match next t with
        | "C" -> SetColor (parse_color t)
        | "N" -> SetNeedsTrace (next_bool t)
        | "L" -> SetLive (next_bool t)
        | s -> raise (Parse ("tagop: " ^ s))) in
    let raw = next_n t in let col = next_n t in let nt = next_bool t in let live = next_bool t in
    TOps (vt, ops, raw, col, nt, live)
  | "U" -> let a = next_n t in let r = next_n t in TUntag (a, r)
  | "G" -> let m = next_n t in let a = next_n t in let r = next_n t in TGet (m, a, r)
  | "S" -> let m = next_n t in let a = next_n t in let tg = next_n t in let r = next_n t in TSet (m, a, tg, r)
  | "GB" -> let m = next_n t in let a = next_n t in let r = next_bool t in TGetB (m, a, r)
  | "SB" -> let m = next_n t in let a = next_n t in let v = next_bool t in let r = next_n t in TSetB (m, a, v, r)
  | s -> raise (Parse ("tcase: " ^ s))

let parse_event t : event =
  match next t with
  | "A" -> EvAlloc (next_layout t)
  | "P" -> EvPanic
  | "H" -> EvDropHeader
  | "E" -> EvDropElem (next_n t)
  | "V" -> EvDropValue
  | "F" -> EvFree (next_layout t)
  | "K" -> EvLink
  | s -> raise (Parse ("event: " ^ s))

let parse_bcase t : bcase =
  match next t with
  | "R" -> let k = parse_bkind t in let len = next_n t in let code = next_n t in BRejected (k, len, code)
  | "C" ->
    let k = parse_bkind t in
    let len = next_n t in
    let sc = match next t with
      | "AN" -> SAbandonNew | "AH" -> SAbandonHdr | "PA" -> SPanicAt (next_n t)
      | "CO" -> SComplete | "CP" -> SCopy (next_n t) | "WR" -> SWrite | "AS" -> SAssume
      | s -> raise (Parse ("scenario: " ^ s)) in
    let ho = next_bool t in let eo = next_bool t in let an = next_bool t in
    let nev = next_int t in
    let events = List.init nev (fun _ -> parse_event t) in
    let dcount = next_n t in let ddebt = next_n t in let linked = next_bool t in
    let hdr = match next t with "-" -> None | "h" -> Some (next_n t) | s -> raise (Parse ("hdr: " ^ s)) in
    let elems = match next t with
      | "-" -> None
      | "e" -> let c = next_int t in Some (List.init c (fun _ -> next_n t))
      | s -> raise (Parse ("elems: " ^ s)) in
    BCase (k, len, sc, { hdr_obs = ho; elem_obs = eo; anon = an },
           { ob_events = events; ob_dcount = dcount; ob_ddebt = ddebt; ob_linked = linked;
             ob_hdr = hdr; ob_elems = elems })
  | s -> raise (Parse ("bcase: " ^ s))

let event_to_string (e : event) = match e with
  | EvAlloc l -> "Alloc" ^ layout_to_string l
  | EvPanic -> "Panic"
  | EvDropHeader -> "DropHeader"
  | EvDropElem i -> "DropElem(" ^ n_to_string i ^ ")"
  | EvDropValue -> "DropValue"
  | EvFree l -> "Free" ^ layout_to_string l
  | EvLink -> "Link"

let reject_to_string (r : reject) = match r with
  | MetaHeaderUnreachable -> "MetaHeaderUnreachable"
  | NoValueLayout -> "NoValueLayout(panic: no layout for value)"
  | HeaderNotMultiple -> "HeaderNotMultiple"
  | NoAllocLayout -> "NoAllocLayout(panic: no layout for GC allocation)"

let () =
  let plat = ref x86_64 in
  let masks = ref std_masks in
  let lineno = ref 0 and cases = ref 0 and bad = ref 0 and layoutdiff = ref 0 in
  (try
     while true do
       let line = input_line stdin in
       incr lineno;
       let t = { rest = List.filter (fun s -> s <> "") (String.split_on_char ' ' (String.trim line)) } in
       (match t.rest with
        | [] -> ()
        | _ ->
          (try
             match next t with
             | "PLAT" ->
               let b = next_n t in let hs = next_n t in let hk = next_n t in let vk = next_n t in
               plat := { usize_bits = b; hdr_size = hs; hdr_align_log = hk; vtable_align_log = vk };
               Printf.printf "PLATOK %d %b\n" !lineno (plat_ok !plat)
             | "MASKS" ->
               let c = next_n t in let tr = next_n t in let l = next_n t in
               masks := { color_mask = c; trace_mask = tr; live_mask = l };
               Printf.printf "MASKSOK %d %b\n" !lineno (masks_ok !plat !masks)
             | "D" ->
               incr cases;
               let c = parse_dcase t in
               if not (dcase_ok !plat c) then begin
                 incr bad; Printf.printf "BAD %d std-layout model disagrees\n" !lineno end
             | "L" ->
               incr cases;
               let c = parse_lcase t in
               if not (lcase_ok !plat c) then begin
                 incr bad;
                 let p = match lcase_predict !plat c with
                   | Ok ai -> Printf.sprintf "model: alloc=%s value_off=%s value=%s meta_header=%s"
                                (layout_to_string ai.a_layout) (n_to_string ai.a_value_off)
                                (layout_to_string ai.a_vlayout) (layout_to_string ai.a_mh)
                   | Rejected r -> "model: rejected " ^ reject_to_string r in
                 Printf.printf "BAD %d %s\n" !lineno p end
             | "T" ->
               incr cases;
               let c = parse_tcase t in
               if not (tcase_ok !plat !masks c) then begin
                 incr bad; Printf.printf "BAD %d tag model disagrees\n" !lineno end
             | "B" ->
               incr cases;
               let c = parse_bcase t in
               if not (bcase_layout_ok !plat c) then incr layoutdiff;
               if not (bcase_ok !plat c) then begin
                 incr bad;
                 let p = match bcase_predict !plat c with
                   | Some ((evs, dc), dd) ->
                     Printf.sprintf "model: events=[%s] dcount=%s ddebt=%s"
                       (String.concat "; " (List.map event_to_string evs)) (n_to_string dc) (n_to_string dd)
                   | None -> "model: rejected/none" in
                 Printf.printf "BAD %d %s\n" !lineno p end
             | "#" -> ()
             | s -> raise (Parse ("line tag: " ^ s))
           with
           | Parse m -> incr bad; Printf.printf "BAD %d parse error: %s\n" !lineno m
           | Failure m -> incr bad; Printf.printf "BAD %d parse failure: %s\n" !lineno m))
     done
   with End_of_file -> ());
  Printf.printf "DONE %d %d %d\n" !cases !bad !layoutdiff
