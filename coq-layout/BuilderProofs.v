(** * BuilderProofs — proofs about the builder state machine (property C18). *)

Require Import Arith NArith List Bool Lia.
Require Import GALayout.ModelLayout GALayout.ModelBuilder.
Import ListNotations.
Open Scope N_scope.

(** ** the element loop *)

Definition with_elems (b : builder) (xs : list N) (n : N) : builder :=
  {| b_kind := b_kind b; b_len := b_len b; b_layout := b_layout b; b_stage := b_stage b;
     b_hdr := b_hdr b; b_init_len := n; b_elems := xs |}.

Definition idx (s c : nat) : list N := map N.of_nat (seq s c).

Lemma with_elems_id b : with_elems b (b_elems b) (b_init_len b) = b.
Proof. destruct b; reflexivity. Qed.

Lemma write_loop_gen f pa c :
  forall s b,
    length (b_elems b) = s ->
    b_init_len b = N.of_nat s ->
    exists j, (j <= c)%nat /\
      fst (write_loop f pa (idx s c) b)
      = with_elems b (b_elems b ++ map f (idx s j)) (N.of_nat (s + j)) /\
      (snd (write_loop f pa (idx s c) b) = true -> (j < c)%nat /\ pa = Some (N.of_nat (s + j))) /\
      (snd (write_loop f pa (idx s c) b) = false -> j = c) /\
      (forall i, (i < j)%nat -> pa <> Some (N.of_nat (s + i))).
Proof.
  induction c as [|c IH]; intros s b Hl Hi.
  - exists O. cbn [idx seq map write_loop fst snd]. rewrite app_nil_r, Nat.add_0_r.
    replace (with_elems b (b_elems b) (N.of_nat s)) with b
      by (rewrite <- Hi; symmetry; apply with_elems_id).
    repeat split; try lia; try discriminate.
  - unfold idx. cbn [seq map write_loop]. fold (idx (S s) c).
    destruct (match pa with Some k => N.of_nat s =? k | None => false end) eqn:Ep.
    + exists O. cbn [fst snd idx seq map]. rewrite app_nil_r, Nat.add_0_r.
      replace (with_elems b (b_elems b) (N.of_nat s)) with b
        by (rewrite <- Hi; symmetry; apply with_elems_id).
      repeat split; try lia; try discriminate.
      destruct pa as [k|]; [|discriminate]. apply N.eqb_eq in Ep. subst k. reflexivity.
    + set (b1 := write_elem b (N.of_nat s) (f (N.of_nat s))).
      destruct (IH (S s) b1) as (j & Hj & Hf & Ht & Hfa & Hall).
      { subst b1. cbn. rewrite app_length. cbn. lia. }
      { subst b1. cbn. lia. }
      exists (S j). split; [lia|]. split; [|split; [|split]].
      * rewrite Hf. subst b1. unfold with_elems. cbn [write_elem b_kind b_len b_layout b_stage b_hdr b_elems].
        unfold idx. cbn [seq map]. rewrite <- app_assoc. cbn [app].
        replace (S s + j)%nat with (s + S j)%nat by lia. reflexivity.
      * intros H. destruct (Ht H) as [H1 H2]. split; [lia|].
        rewrite H2. f_equal. f_equal. lia.
      * intros H. rewrite (Hfa H). reflexivity.
      * intros i Hi'. destruct i as [|i].
        -- rewrite Nat.add_0_r. destruct pa as [k|]; [|discriminate].
           apply N.eqb_neq in Ep. congruence.
        -- replace (s + S i)%nat with (S s + i)%nat by lia. apply Hall. lia.
Qed.

Lemma nseq_idx n : nseq n = idx 0 (N.to_nat n).
Proof. reflexivity. Qed.

(** the loop run to completion *)
Lemma write_loop_complete f pa b :
  b_elems b = [] -> b_init_len b = 0 ->
  (forall k, pa = Some k -> b_len b <= k) ->
  write_loop f pa (nseq (b_len b)) b
  = (with_elems b (map f (nseq (b_len b))) (b_len b), false).
Proof.
  intros He Hi Hpa. rewrite nseq_idx.
  destruct (write_loop_gen f pa (N.to_nat (b_len b)) O b) as (j & Hj & Hf & Ht & Hfa & Hall).
  { rewrite He. reflexivity. } { rewrite Hi. reflexivity. }
  destruct (write_loop f pa (idx 0 (N.to_nat (b_len b))) b) as [b' pan] eqn:E.
  cbn [fst snd] in *.
  destruct pan.
  - destruct (Ht eq_refl) as [H1 H2]. specialize (Hpa _ H2). lia.
  - rewrite (Hfa eq_refl) in Hf. rewrite Hf, He. cbn [app].
    rewrite Nat.add_0_l, Nnat.N2Nat.id. reflexivity.
Qed.

(** the loop interrupted by a panic of [create_element k], [k < len] *)
Lemma write_loop_panic f k b :
  b_elems b = [] -> b_init_len b = 0 ->
  k < b_len b ->
  write_loop f (Some k) (nseq (b_len b)) b
  = (with_elems b (map f (nseq k)) k, true).
Proof.
  intros He Hi Hk. rewrite nseq_idx.
  destruct (write_loop_gen f (Some k) (N.to_nat (b_len b)) O b) as (j & Hj & Hf & Ht & Hfa & Hall).
  { rewrite He. reflexivity. } { rewrite Hi. reflexivity. }
  destruct (write_loop f (Some k) (idx 0 (N.to_nat (b_len b))) b) as [b' pan] eqn:E.
  cbn [fst snd] in *.
  destruct pan.
  - destruct (Ht eq_refl) as [H1 H2]. injection H2 as H3. rewrite Nat.add_0_l in *. subst k.
    rewrite Hf, He. cbn [app]. rewrite nseq_idx, Nnat.Nat2N.id. reflexivity.
  - exfalso. pose proof (Hfa eq_refl) as Hjc. subst j.
    apply (Hall (N.to_nat k)); [lia|]. rewrite Nat.add_0_l, Nnat.N2Nat.id. reflexivity.
Qed.

Lemma nseq_length n : length (nseq n) = N.to_nat n.
Proof. unfold nseq. rewrite map_length, seq_length. reflexivity. Qed.

(** ** the invariant that makes [Drop] correct *)

Definition binv (L : Layout) (b : builder) : Prop :=
  b_layout b = L /\
  b_init_len b = N.of_nat (length (b_elems b)) /\
  match b_stage b with
  | StSized | StHeader => b_hdr b = None /\ b_elems b = []
  | StSlice => has_header (b_kind b) = true -> b_hdr b <> None
  end.

Lemma drop_builder_expected L b :
  binv L b -> drop_builder b = expected_drops b ++ [EvFree L].
Proof.
  intros (Hl & Hi & Hs). unfold drop_builder, expected_drops. rewrite Hl.
  destruct (b_stage b).
  - destruct Hs as [Hh He]. rewrite Hh, He. reflexivity.
  - destruct Hs as [Hh He]. rewrite Hh, He. reflexivity.
  - rewrite Hi. destruct (has_header (b_kind b)) eqn:Ehh.
    + destruct (b_hdr b); [|exfalso; apply Hs; reflexivity]. rewrite app_assoc. reflexivity.
    + destruct (b_hdr b); reflexivity.
Qed.

Lemma new_builder_inv P k len b :
  new_builder P k len = Ok b ->
  binv (b_layout b) b /\ b_kind b = k /\ b_len b = len /\ b_elems b = [] /\ b_init_len b = 0 /\
  b_hdr b = None /\
  b_stage b = match k with BSized _ => StSized | BSWH _ _ => StHeader | _ => StSlice end /\
  exists ai, alloc_kind P (kind_of k) len = Ok ai /\ b_layout b = a_layout ai.
Proof.
  unfold new_builder. destruct (alloc_kind P (kind_of k) len) as [ai|r] eqn:Ha; [|discriminate].
  intros H; inversion H; subst; clear H. cbn.
  repeat split; eauto.
  destruct k; cbn; auto; intros; discriminate.
Qed.

(** preservation of the invariant by the loop, for every panic point *)
Lemma write_loop_binv L f pa b :
  binv L b -> b_stage b = StSlice -> b_elems b = [] ->
  binv L (fst (write_loop f pa (nseq (b_len b)) b)) /\
  b_stage (fst (write_loop f pa (nseq (b_len b)) b)) = StSlice.
Proof.
  intros (Hl & Hi & Hs) Hst He. rewrite nseq_idx.
  destruct (write_loop_gen f pa (N.to_nat (b_len b)) O b) as (j & Hj & Hf & _).
  { rewrite He. reflexivity. } { rewrite Hi, He. reflexivity. }
  rewrite Hf. unfold binv, with_elems. cbn. rewrite Hst in *. rewrite He. cbn [app].
  repeat split; auto.
  unfold idx. rewrite !map_length, seq_length. reflexivity.
Qed.

(** ** the general statement: any sequence of builder operations *)

Definition run_inv (L : Layout) (a0 : arena) (s : run_state) : Prop :=
  match st s with
  | Active b => binv L b /\ b_elems b = [] /\ evs s = [EvAlloc L] /\ ar s = a0
  | Gone =>
    exists b (panicked : bool),
      binv L b /\
      evs s = [EvAlloc L] ++ (if panicked then [EvPanic] else []) ++ expected_drops b ++ [EvFree L] /\
      ar s = a0
  | Linked o => o_layout o = L /\ evs s = [EvAlloc L; EvLink] /\ ar s = link o a0
  | Stuck => True
  end.

Lemma step_inv L a0 s o : run_inv L a0 s -> run_inv L a0 (step s o).
Proof.
  unfold run_inv, step. destruct (st s) as [b|ob| |] eqn:Es; try (intros; exact I).
  intros (Hb & Hel & He & Ha).
  pose proof Hb as (Hl & Hi & Hs).
  destruct o; destruct (b_stage b) eqn:Est; cbn [st evs ar stuck]; try exact I.
  (* OpWriteHeader / StHeader *)
  - unfold binv. cbn [b_layout b_init_len b_elems b_stage b_kind b_hdr]. rewrite Hel. cbn [length].
    repeat split; auto. intros _. discriminate.
  (* OpWriteSliceWith / StSlice *)
  - pose proof (write_loop_binv L f panic_at b Hb Est Hel) as [Hb' Hst'].
    destruct (write_loop f panic_at (nseq (b_len b)) b) as [b' pan]. cbn [fst] in *.
    destruct pan; cbn [st evs ar unwind finish].
    + exists b', true. rewrite He, Ha, (drop_builder_expected L b' Hb'). auto.
    + rewrite He, Ha. destruct Hb' as (Hl' & _). cbn. auto.
  (* OpCopySlice / StSlice *)
  - destruct (N.of_nat (length src) =? b_len b) eqn:El; cbn [st evs ar unwind finish].
    + rewrite He, Ha. cbn. auto.
    + exists b, true. rewrite He, Ha, (drop_builder_expected L b Hb). auto.
  (* OpWrite / StSized *)
  - unfold finish; cbn [st evs ar]. rewrite He, Ha. cbn. auto.
  (* OpAssumeInit / StSized, StSlice *)
  - unfold finish; cbn [st evs ar]. rewrite He, Ha. cbn. auto.
  - unfold finish; cbn [st evs ar]. rewrite He, Ha. cbn. auto.
  (* OpDrop, three stages *)
  - exists b, false. rewrite He, Ha, (drop_builder_expected L b Hb). auto.
  - exists b, false. rewrite He, Ha, (drop_builder_expected L b Hb). auto.
  - exists b, false. rewrite He, Ha, (drop_builder_expected L b Hb). auto.
Qed.

Lemma run_ops_inv P k len ops a0 s :
  run P k len ops a0 = Ok s ->
  exists b0, new_builder P k len = Ok b0 /\ run_inv (b_layout b0) a0 s.
Proof.
  unfold run. destruct (new_builder P k len) as [b0|r] eqn:Hn; [|discriminate].
  intros H; inversion H; subst; clear H. exists b0. split; [reflexivity|].
  destruct (new_builder_inv P k len b0 Hn) as (Hb & _ & _ & Hel & _).
  assert (H0 : run_inv (b_layout b0) a0
                 {| st := Active b0; evs := [EvAlloc (b_layout b0)]; ar := a0 |}).
  { unfold run_inv. cbn. auto. }
  revert H0. generalize {| st := Active b0; evs := [EvAlloc (b_layout b0)]; ar := a0 |}.
  induction ops as [|o ops IH]; intros s0 H0; cbn [fold_left]; [assumption|].
  apply IH. apply step_inv. assumption.
Qed.

(** counting events of a given sort *)
Definition is_link (e : event) : bool := match e with EvLink => true | _ => false end.
Definition is_free (e : event) : bool := match e with EvFree _ => true | _ => false end.
Definition count (p : event -> bool) (l : list event) : nat := length (filter p l).

Lemma expected_drops_no_link_free b :
  filter is_link (expected_drops b) = [] /\ filter is_free (expected_drops b) = [].
Proof.
  unfold expected_drops.
  assert (H : forall l, filter is_link (map EvDropElem l) = [] /\ filter is_free (map EvDropElem l) = []).
  { induction l as [|x l [IH1 IH2]]; cbn; auto. }
  destruct (H (nseq (N.of_nat (length (b_elems b))))) as [H1 H2].
  rewrite !filter_app, H1, H2.
  destruct (b_hdr b); [destruct (has_header (b_kind b))|]; cbn; auto.
Qed.

(** Trace shape for every operation sequence: a dropped / unwound builder frees its block once
    with the layout it allocated, links nothing and leaves the arena alone; a completed one
    links exactly once, frees nothing, and the arena gains exactly that object. *)
Lemma run_trace_shape P k len ops a0 s :
  run P k len ops a0 = Ok s ->
  exists L, (exists b0, new_builder P k len = Ok b0 /\ b_layout b0 = L) /\
  match st s with
  | Active _ => evs s = [EvAlloc L] /\ ar s = a0
  | Gone => count is_link (evs s) = O /\ count is_free (evs s) = 1%nat /\
            In (EvFree L) (evs s) /\ ar s = a0
  | Linked o => evs s = [EvAlloc L; EvLink] /\ ar s = link o a0 /\ o_layout o = L /\
                gc_count (ar s) = gc_count a0 + 1 /\ allocated (ar s) = allocated a0 + 1
  | Stuck => True
  end.
Proof.
  intros H. destruct (run_ops_inv P k len ops a0 s H) as (b0 & Hn & Hinv).
  exists (b_layout b0). split; [eauto|].
  unfold run_inv in Hinv. destruct (st s) as [b|o| |].
  - destruct Hinv as (_ & _ & He & Ha). auto.
  - destruct Hinv as (Hl & He & Ha). rewrite Ha. cbn. auto.
  - destruct Hinv as (b & pan & Hb & He & Ha).
    destruct (expected_drops_no_link_free b) as [H1 H2].
    rewrite He. unfold count. rewrite !filter_app, H1, H2.
    repeat split; auto.
    + destruct pan; reflexivity.
    + destruct pan; reflexivity.
    + apply in_or_app. right. apply in_or_app. right. apply in_or_app. right. left. reflexivity.
  - exact I.
Qed.

(** ** the scenarios of the property, for every [n] and every [k] *)


(** state after [new] and (for slice-with-header) [write_header] *)
Lemma run_header P k len hv a0 b0 :
  new_builder P k len = Ok b0 -> not_sized k ->
  exists b1,
    fold_left step (header_ops k hv) {| st := Active b0; evs := [EvAlloc (b_layout b0)]; ar := a0 |}
    = {| st := Active b1; evs := [EvAlloc (b_layout b0)]; ar := a0 |} /\
    b_stage b1 = StSlice /\ b_kind b1 = k /\ b_len b1 = len /\ b_layout b1 = b_layout b0 /\
    b_hdr b1 = hdr_value k hv /\ b_init_len b1 = 0 /\ b_elems b1 = [].
Proof.
  intros Hn Hk.
  destruct (new_builder_inv P k len b0 Hn) as (_ & Hkk & Hlen & Hel & Hil & Hh & Hst & _).
  destruct k as [v|e| |h e]; try contradiction; cbn [header_ops fold_left hdr_value].
  - exists b0. repeat split; auto.
  - exists b0. repeat split; auto.
  - unfold step. cbn [st]. rewrite Hst.
    eexists. split; [reflexivity|]. cbn. rewrite Hel. repeat split; auto.
Qed.

Lemma fold_left_app_step ops1 ops2 s :
  fold_left step (ops1 ++ ops2) s = fold_left step ops2 (fold_left step ops1 s).
Proof. apply fold_left_app. Qed.

(** abandon right after [new] *)
Lemma abandon_new P k len a0 b0 :
  new_builder P k len = Ok b0 ->
  run P k len [OpDrop] a0
  = Ok {| st := Gone; evs := [EvAlloc (b_layout b0); EvFree (b_layout b0)]; ar := a0 |}.
Proof.
  intros Hn. unfold run. rewrite Hn. cbn [fold_left]. unfold step. cbn [st evs ar].
  destruct (new_builder_inv P k len b0 Hn) as (_ & Hkk & _ & _ & Hil & _ & Hst & _).
  unfold drop_builder. rewrite Hst, Hkk, Hil.
  destruct k; reflexivity.
Qed.

(** abandon after the header was written *)
Lemma abandon_after_header P k len hv a0 b0 :
  new_builder P k len = Ok b0 -> not_sized k ->
  run P k len (header_ops k hv ++ [OpDrop]) a0
  = Ok {| st := Gone;
          evs := [EvAlloc (b_layout b0)] ++ hdr_events k ++ [EvFree (b_layout b0)];
          ar := a0 |}.
Proof.
  intros Hn Hk. unfold run. rewrite Hn, fold_left_app_step.
  destruct (run_header P k len hv a0 b0 Hn Hk) as (b1 & -> & Hst & Hkk & Hlen & Hl & Hh & Hi & He).
  cbn [fold_left]. unfold step. cbn [st evs ar]. unfold drop_builder.
  rewrite Hst, Hkk, Hi, Hl. unfold hdr_events. destruct (has_header k); reflexivity.
Qed.

(** abandon after [j] of [len] elements: [create_element j] panics *)
Lemma abandon_panic_at P k len hv f j a0 b0 :
  new_builder P k len = Ok b0 -> not_sized k -> j < len ->
  run P k len (header_ops k hv ++ [OpWriteSliceWith f (Some j)]) a0
  = Ok {| st := Gone;
          evs := [EvAlloc (b_layout b0); EvPanic] ++ hdr_events k
                   ++ map EvDropElem (nseq j) ++ [EvFree (b_layout b0)];
          ar := a0 |}.
Proof.
  intros Hn Hk Hj. unfold run. rewrite Hn, fold_left_app_step.
  destruct (run_header P k len hv a0 b0 Hn Hk) as (b1 & -> & Hst & Hkk & Hlen & Hl & Hh & Hi & He).
  cbn [fold_left]. unfold step. cbn [st evs ar]. rewrite Hst.
  rewrite (write_loop_panic f j b1 He Hi) by (rewrite Hlen; assumption).
  unfold unwind, drop_builder, with_elems. cbn [st evs ar b_stage b_kind b_init_len b_layout].
  rewrite Hst, Hkk, Hl. unfold hdr_events. destruct (has_header k); reflexivity.
Qed.

(** completion through [write_slice_with] (no panic below [len]) *)
Lemma complete_write_slice P k len hv f pa a0 b0 :
  new_builder P k len = Ok b0 -> not_sized k ->
  (forall j, pa = Some j -> len <= j) ->
  let o := {| o_kind := k; o_len := len; o_layout := b_layout b0; o_hdr := hdr_value k hv;
              o_elems := map f (nseq len); o_value := None |} in
  run P k len (header_ops k hv ++ [OpWriteSliceWith f pa]) a0
  = Ok {| st := Linked o; evs := [EvAlloc (b_layout b0); EvLink]; ar := link o a0 |}.
Proof.
  intros Hn Hk Hpa o. unfold run. rewrite Hn, fold_left_app_step.
  destruct (run_header P k len hv a0 b0 Hn Hk) as (b1 & -> & Hst & Hkk & Hlen & Hl & Hh & Hi & He).
  cbn [fold_left]. unfold step. cbn [st evs ar]. rewrite Hst.
  rewrite (write_loop_complete f pa b1 He Hi) by (rewrite Hlen; assumption).
  unfold finish, obj_of, with_elems. cbn [st evs ar b_kind b_len b_layout b_hdr b_elems].
  subst o. rewrite Hkk, Hlen, Hl, Hh. reflexivity.
Qed.

(** [copy_slice] / [copy_str] with a source of the wrong length *)
Lemma copy_wrong_len P k len hv src a0 b0 :
  new_builder P k len = Ok b0 -> not_sized k ->
  N.of_nat (length src) <> len ->
  run P k len (header_ops k hv ++ [OpCopySlice src]) a0
  = Ok {| st := Gone;
          evs := [EvAlloc (b_layout b0); EvPanic] ++ hdr_events k ++ [EvFree (b_layout b0)];
          ar := a0 |}.
Proof.
  intros Hn Hk Hne. unfold run. rewrite Hn, fold_left_app_step.
  destruct (run_header P k len hv a0 b0 Hn Hk) as (b1 & -> & Hst & Hkk & Hlen & Hl & Hh & Hi & He).
  cbn [fold_left]. unfold step. cbn [st evs ar]. rewrite Hst.
  replace (N.of_nat (length src) =? b_len b1) with false
    by (symmetry; apply N.eqb_neq; rewrite Hlen; assumption).
  unfold unwind, drop_builder. cbn [st evs ar]. rewrite Hst, Hkk, Hi, Hl.
  unfold hdr_events. destruct (has_header k); reflexivity.
Qed.

Lemma copy_right_len P k len hv src a0 b0 :
  new_builder P k len = Ok b0 -> not_sized k ->
  N.of_nat (length src) = len ->
  let o := {| o_kind := k; o_len := len; o_layout := b_layout b0; o_hdr := hdr_value k hv;
              o_elems := src; o_value := None |} in
  run P k len (header_ops k hv ++ [OpCopySlice src]) a0
  = Ok {| st := Linked o; evs := [EvAlloc (b_layout b0); EvLink]; ar := link o a0 |}.
Proof.
  intros Hn Hk Heq o. unfold run. rewrite Hn, fold_left_app_step.
  destruct (run_header P k len hv a0 b0 Hn Hk) as (b1 & -> & Hst & Hkk & Hlen & Hl & Hh & Hi & He).
  cbn [fold_left]. unfold step. cbn [st evs ar]. rewrite Hst.
  replace (N.of_nat (length src) =? b_len b1) with true
    by (symmetry; apply N.eqb_eq; rewrite Hlen; assumption).
  unfold finish, obj_of. cbn [st evs ar b_kind b_len b_layout b_hdr b_elems].
  subst o. rewrite Hkk, Hlen, Hl, Hh. reflexivity.
Qed.

(** sized [GcBuilder]: [write] completes *)
Lemma complete_sized P v x a0 b0 :
  new_builder P (BSized v) 0 = Ok b0 ->
  let o := {| o_kind := BSized v; o_len := 0; o_layout := b_layout b0; o_hdr := None;
              o_elems := []; o_value := Some x |} in
  run P (BSized v) 0 [OpWrite x] a0
  = Ok {| st := Linked o; evs := [EvAlloc (b_layout b0); EvLink]; ar := link o a0 |}.
Proof.
  intros Hn o. unfold run. rewrite Hn. cbn [fold_left]. unfold step. cbn [st evs ar].
  destruct (new_builder_inv P _ _ b0 Hn) as (_ & Hkk & Hlen & Hel & _ & Hh & Hst & _).
  rewrite Hst. unfold finish, obj_of. cbn [st evs ar]. subst o.
  rewrite Hkk, Hlen, Hel, Hh. reflexivity.
Qed.

(** a rejected [new] (layout overflow) panics before anything is allocated *)
Lemma new_rejected P k len ops a0 r :
  new_builder P k len = Rejected r -> run P k len ops a0 = Rejected r.
Proof. intros H. unfold run. rewrite H. reflexivity. Qed.
