(** * ModelBuilder — state machine of the four builder kinds (property C18).

    Definitions only.  Modelled code:

    - [src/gc.rs]: [GcBuilder::new*] (= [GcPtr::alloc] + [set_needs_trace]), [GcBuilder::write],
      [GcBuilder::assume_init] ([set_live(true)]; [mc.link]), [impl Drop for GcBuilder]
      ([dealloc] only — the value is never dropped by a builder).
    - [src/slice.rs]: [GcSliceWithHeaderBuilder::{new, write_header}],
      [GcSliceWithHeaderSliceBuilder::{write_slice_with, copy_slice, assume_init}] and its [Drop]
      (drop_in_place of header + [init_length] elements, then the inner builder),
      [GcSliceBuilder] (= slice-with-header builder with header [()] already written),
      [GcStrBuilder] (= slice builder of [u8]; [copy_str] = [copy_slice] of the bytes).
    - [src/context.rs] [Context::link] + [Metrics::mark_gc_allocated] as the arena-visible effect.

    Values are opaque tokens ([N]).  Effects are an event list in program order. *)

Require Import NArith List Bool.
Require Import GALayout.ModelLayout.
Import ListNotations.
Open Scope N_scope.

Inductive bkind :=
| BSized (v : Layout)        (* GcBuilder<T> *)
| BSlice (e : Layout)        (* GcSliceBuilder<E> *)
| BStr                       (* GcStrBuilder *)
| BSWH (h e : Layout).       (* GcSliceWithHeaderBuilder<H, E> -> GcSliceWithHeaderSliceBuilder<H, E> *)

Definition kind_of (k : bkind) : kind :=
  match k with
  | BSized v => KSized v
  | BSlice e => KSlice e
  | BStr => KStr
  | BSWH h e => KSWH h e
  end.

(** only [SliceWithHeader<H, E>] has a header whose destructor can be observed; the slice and
    str builders use [H = ()] *)
Definition has_header (k : bkind) : bool := match k with BSWH _ _ => true | _ => false end.

Inductive event :=
| EvAlloc (l : Layout)       (* alloc::alloc(l) *)
| EvPanic                    (* a panic starts unwinding through the builder *)
| EvDropHeader               (* drop_in_place of the header field *)
| EvDropElem (i : N)         (* drop_in_place of slice element i *)
| EvDropValue                (* drop_in_place of a sized value (never emitted by a builder) *)
| EvFree (l : Layout)        (* alloc::dealloc(_, l) *)
| EvLink.                    (* set_live(true); Context::link *)

Inductive stage :=
| StSized      (* GcBuilder<T>: value not written *)
| StHeader     (* GcSliceWithHeaderBuilder: header not written *)
| StSlice.     (* GcSliceWithHeaderSliceBuilder: header written, init_length tracked *)

Record builder := {
  b_kind : bkind;
  b_len : N;                 (* length given to new *)
  b_layout : Layout;         (* block layout obtained from alloc *)
  b_stage : stage;
  b_hdr : option N;          (* header value once written *)
  b_init_len : N;            (* the init_length field *)
  b_elems : list N           (* element values written so far, in index order *)
}.

(** what a completed builder leaves in the arena *)
Record obj := {
  o_kind : bkind; o_len : N; o_layout : Layout; o_hdr : option N; o_elems : list N;
  o_value : option N          (* sized value *)
}.

(** the part of the arena a builder can affect: [Metrics::total_gc_count], the allocation
    counter behind [allocation_debt], and the [all] chain *)
Record arena := { gc_count : N; allocated : N; chain : list obj }.

Definition link (o : obj) (a : arena) : arena :=
  {| gc_count := gc_count a + 1; allocated := allocated a + 1; chain := o :: chain a |}.

Definition nseq (n : N) : list N := map N.of_nat (seq 0 (N.to_nat n)).

(** [GcBuilder::new_with_type_and_ptr_meta] / [GcSliceWithHeaderBuilder::new] /
    [GcSliceBuilder::new] / [GcStrBuilder::new] *)
Definition new_builder (P : Platform) (k : bkind) (len : N) : outcome builder :=
  match alloc_kind P (kind_of k) len with
  | Rejected r => Rejected r
  | Ok ai =>
    Ok {| b_kind := k; b_len := len; b_layout := a_layout ai;
          b_stage := match k with
                     | BSized _ => StSized
                     | BSWH _ _ => StHeader
                     | BSlice _ | BStr => StSlice      (* .write_header(()) *)
                     end;
          b_hdr := None; b_init_len := 0; b_elems := [] |}
  end.

(** The destructors, as written in the source. *)
Definition drop_builder (b : builder) : list event :=
  match b_stage b with
  | StSized | StHeader => [EvFree (b_layout b)]                 (* impl Drop for GcBuilder *)
  | StSlice =>                                                  (* GcSliceWithHeaderSliceBuilder *)
    (if has_header (b_kind b) then [EvDropHeader] else [])
      ++ map EvDropElem (nseq (b_init_len b))
      ++ [EvFree (b_layout b)]
  end.

Definition obj_of (b : builder) (value : option N) : obj :=
  {| o_kind := b_kind b; o_len := b_len b; o_layout := b_layout b; o_hdr := b_hdr b;
     o_elems := b_elems b; o_value := value |}.

(** one iteration of [for (i, element) in ... { element.write(create_element(i));
    self.init_length = i + 1; }] *)
Definition write_elem (b : builder) (i x : N) : builder :=
  {| b_kind := b_kind b; b_len := b_len b; b_layout := b_layout b; b_stage := b_stage b;
     b_hdr := b_hdr b; b_init_len := i + 1; b_elems := b_elems b ++ [x] |}.

(** the loop; [panic_at = Some k]: [create_element k] panics.  Returns the builder at the point
    the loop ended and whether it ended by a panic. *)
Fixpoint write_loop (f : N -> N) (panic_at : option N) (idxs : list N) (b : builder)
  : builder * bool :=
  match idxs with
  | [] => (b, false)
  | i :: rest =>
    if match panic_at with Some k => i =? k | None => false end
    then (b, true)
    else write_loop f panic_at rest (write_elem b i (f i))
  end.

Inductive bop :=
| OpWriteHeader (h : N)                                   (* write_header *)
| OpWriteSliceWith (f : N -> N) (panic_at : option N)     (* write_slice_with *)
| OpCopySlice (src : list N)                              (* copy_slice / copy_str *)
| OpWrite (v : N)                                         (* GcBuilder::write *)
| OpAssumeInit                                            (* unsafe assume_init (final stage) *)
| OpDrop.                                                 (* the builder goes out of scope *)

Inductive status :=
| Active (b : builder)
| Linked (o : obj)
| Gone                       (* dropped, or unwound by a panic *)
| Stuck.                     (* the operation is not offered by the type in this stage *)

Record run_state := { st : status; evs : list event; ar : arena }.

Definition finish (b : builder) (value : option N) (s : run_state) : run_state :=
  let o := obj_of b value in
  {| st := Linked o; evs := evs s ++ [EvLink]; ar := link o (ar s) |}.

Definition unwind (b : builder) (s : run_state) : run_state :=
  {| st := Gone; evs := evs s ++ [EvPanic] ++ drop_builder b; ar := ar s |}.

Definition stuck (s : run_state) : run_state := {| st := Stuck; evs := evs s; ar := ar s |}.

Definition step (s : run_state) (o : bop) : run_state :=
  match st s with
  | Active b =>
    match o, b_stage b with
    | OpDrop, _ => {| st := Gone; evs := evs s ++ drop_builder b; ar := ar s |}
    | OpWriteHeader h, StHeader =>
      {| st := Active {| b_kind := b_kind b; b_len := b_len b; b_layout := b_layout b;
                         b_stage := StSlice; b_hdr := Some h; b_init_len := 0;
                         b_elems := b_elems b |};
         evs := evs s; ar := ar s |}
    | OpWriteSliceWith f pa, StSlice =>
      let (b', panicked) := write_loop f pa (nseq (b_len b)) b in
      if panicked then unwind b' s else finish b' None s
    | OpCopySlice src, StSlice =>
      (* assert!(elements.len() == len) comes first *)
      if N.of_nat (length src) =? b_len b
      then finish {| b_kind := b_kind b; b_len := b_len b; b_layout := b_layout b;
                     b_stage := b_stage b; b_hdr := b_hdr b; b_init_len := b_init_len b;
                     b_elems := src |} None s
      else unwind b s
    | OpWrite v, StSized => finish b (Some v) s
    | OpAssumeInit, StSized => finish b None s
    | OpAssumeInit, StSlice => finish b None s
    | _, _ => stuck s
    end
  | _ => stuck s
  end.

(** [new] followed by a list of operations *)
Definition run (P : Platform) (k : bkind) (len : N) (ops : list bop) (a0 : arena)
  : outcome run_state :=
  match new_builder P k len with
  | Rejected r => Rejected r          (* panics before anything is allocated *)
  | Ok b => Ok (fold_left step ops {| st := Active b; evs := [EvAlloc (b_layout b)]; ar := a0 |})
  end.

(** What has been initialised, stated from what was written (not from [init_length]): the
    destructor events the property demands. *)
Definition expected_drops (b : builder) : list event :=
  (match b_hdr b with Some _ => if has_header (b_kind b) then [EvDropHeader] else [] | None => [] end)
    ++ map EvDropElem (nseq (N.of_nat (length (b_elems b)))).

(** the operations that bring a fresh builder to its slice stage: [write_header] for
    slice-with-header builders, nothing for slice / str builders (header [()] already written) *)
Definition header_ops (k : bkind) (hv : N) : list bop :=
  match k with BSWH _ _ => [OpWriteHeader hv] | _ => [] end.

Definition hdr_events (k : bkind) : list event :=
  if has_header k then [EvDropHeader] else [].

Definition hdr_value (k : bkind) (hv : N) : option N :=
  match k with BSWH _ _ => Some hv | _ => None end.

Definition not_sized (k : bkind) : Prop := match k with BSized _ => False | _ => True end.
