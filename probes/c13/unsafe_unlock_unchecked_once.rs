//@ expect: reject
//@ codes: E0133
//@ run: oracle
//@ twin: unsafe_unlock_unchecked_once_ok
//@ item: unsafe:unlock_unchecked
//@ rule: Unlock::unlock_unchecked on a OnceLock is an unsafe fn (F2-style)
// No barrier, no `unsafe`. If accepted, the store on the black holder is lost (exit 3).
use gc_arena::{Arena, Collect, Gc, Rootable, barrier::Unlock, lock::OnceLock};
#[path = "../../harness-api/src/oracle.rs"]
mod oracle;
use oracle::Payload;

#[derive(Collect)]
#[collect(no_drop)]
struct Root<'gc> {
    holder: Gc<'gc, OnceLock<Gc<'gc, Payload>>>,
}

fn main() {
    let mut arena = Arena::<Rootable![Root<'_>]>::new(|mc| Root {
        holder: Gc::new(mc, OnceLock::new()),
    });
    // Make the holder black: the store below happens in a fully marked arena.
    arena.finish_marking();
    arena.mutate(|mc, root| {
        let cell = root.holder.as_ref().unlock_unchecked();
        cell.set(oracle::payload(mc, 1)).expect("cell was empty");
    });
    // The oracle is consulted after *each* collection step, before anything traces or reads the slot.
    arena.finish_cycle();
    oracle::expect_alive(1);
    arena.finish_cycle();
    oracle::expect_alive(1);
    arena.mutate(|_, root| {
        let p = *root.holder.get().expect("slot was filled");
        oracle::check_read(&p, 1);
    });
    oracle::done("unsafe_unlock_unchecked_once");
}
