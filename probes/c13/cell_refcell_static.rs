//@ expect: accept
//@ run: oracle
//@ twin: cell_refcell_gc
//@ item: cell:RefCell
//@ rule: RefCell<T: 'static> is Collect: plain RefCell may hold pointer-free data only
// A `RefCell<u32>` in the root is mutated through a shared reference in `mutate`, no barrier needed.
use gc_arena::{Arena, Collect, Gc, Rootable};
use std::cell::RefCell;
#[path = "../../harness-api/src/oracle.rs"]
mod oracle;
use oracle::Payload;

#[derive(Collect)]
#[collect(no_drop)]
struct Root<'gc> {
    anchor: Gc<'gc, Payload>,
    slot: RefCell<u32>,
}

fn main() {
    let mut arena = Arena::<Rootable![Root<'_>]>::new(|mc| Root {
        anchor: oracle::payload(mc, 0),
        slot: RefCell::new(0),
    });
    arena.finish_marking();
    arena.mutate(|mc, root| {
        let _ = mc;
        *root.slot.borrow_mut() = 7;
    });
    arena.finish_cycle();
    arena.finish_cycle();
    oracle::expect_alive(0);
    arena.mutate(|_, root| {
        assert_eq!(*root.slot.borrow(), 7);
        oracle::check_read(&root.anchor, 0);
    });
    oracle::done("cell_refcell_static");
}
