//@ expect: reject
//@ codes: E0521
//@ run: oracle
//@ twin: cell_static_static
//@ item: cell:Static
//@ rule: Static<Gc<'gc, _>> is not Collect (T: 'static fails) (F2-style)
// Static never traces: a pointer inside would be invisible to the collector from the start. If accepted: exit 3.
use gc_arena::{Arena, Collect, Gc, Rootable, Static};
#[path = "../../harness-api/src/oracle.rs"]
mod oracle;
use oracle::Payload;

#[derive(Collect)]
#[collect(no_drop)]
struct Root<'gc> {
    anchor: Gc<'gc, Payload>,
    slot: Static<Gc<'gc, Payload>>,
}

fn main() {
    let mut arena = Arena::<Rootable![Root<'_>]>::new(|mc| Root {
        anchor: oracle::payload(mc, 0),
        slot: Static(oracle::payload(mc, 1)),
    });
    // The oracle is consulted after *each* collection step, before anything traces or reads the slot.
    arena.finish_cycle();
    oracle::expect_alive(1);
    arena.finish_cycle();
    oracle::expect_alive(1);
    oracle::expect_alive(0);
    arena.mutate(|_, root| {
        oracle::check_read(&root.slot.0, 1);
    });
    oracle::done("cell_static_gc");
}
