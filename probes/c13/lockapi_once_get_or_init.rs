//@ expect: accept
//@ run: oracle
//@ twin: unsafe_as_once_cell
//@ item: lockapi:once_get_or_init
//@ rule: Gc<OnceLock<T>>::get_or_init(mc, f) barriers inside the initialiser; covered
// The safe helper on Gc<OnceLock<_>>.
use gc_arena::{Arena, Collect, Gc, Rootable, lock::OnceLock};
#[path = "../../harness-api/src/oracle.rs"]
mod oracle;
use oracle::Payload;

#[derive(Collect)]
#[collect(no_drop)]
struct Root<'gc> {
    holder: Gc<'gc, OnceLock<Gc<'gc, Payload>>>,
}

fn main() {
    let mut arena = Arena::<Rootable![Root<'_>]>::new(|mc| Root {
        holder: Gc::new(mc, OnceLock::new()),
    });
    // Make the holder black: the store below happens in a fully marked arena.
    arena.finish_marking();
    arena.mutate(|mc, root| {
        let p: &Gc<'_, Payload> = root.holder.get_or_init(mc, || oracle::payload(mc, 1));
        oracle::check_read(p, 1);
    });
    // The oracle is consulted after *each* collection step, before anything traces or reads the slot.
    arena.finish_cycle();
    oracle::expect_alive(1);
    arena.finish_cycle();
    oracle::expect_alive(1);
    arena.mutate(|_, root| {
        let p = *root.holder.get().expect("slot was filled");
        oracle::check_read(&p, 1);
    });
    oracle::done("lockapi_once_get_or_init");
}
