//@ expect: accept
//@ run: oracle
//@ twin: ctor_from_mut_root_shared
//@ item: ctor:Write::from_mut
//@ rule: origin Exclusive (Write::from_mut on the root inside mutate_root) is derivable and covered
// mutate_root hands out `&mut Root` (after a root barrier); from_mut on a root field, unlock, store.
use gc_arena::{Arena, Collect, Gc, Rootable, barrier::Write, lock::RefLock};
#[path = "../../harness-api/src/oracle.rs"]
mod oracle;
use oracle::Payload;

type Slot<'gc> = RefLock<Option<Gc<'gc, Payload>>>;

#[derive(Collect)]
#[collect(no_drop)]
struct Root<'gc> {
    slot: Slot<'gc>,
}

fn main() {
    let mut arena = Arena::<Rootable![Root<'_>]>::new(|mc| Root {
        slot: RefLock::new(None),
    });
    // Make the holder black: the store below happens in a fully marked arena.
    arena.finish_marking();
    arena.mutate_root(|mc, root| {
        let w: &mut Write<Slot<'_>> = Write::from_mut(&mut root.slot);
        *w.unlock().borrow_mut() = Some(oracle::payload(mc, 1));
    });
    // The oracle is consulted after *each* collection step, before anything traces or reads the slot.
    arena.finish_cycle();
    oracle::expect_alive(1);
    arena.finish_cycle();
    oracle::expect_alive(1);
    arena.mutate(|_, root| {
        let p = root.slot.borrow().expect("slot was filled");
        oracle::check_read(&p, 1);
    });
    oracle::done("ctor_from_mut_root");
}
