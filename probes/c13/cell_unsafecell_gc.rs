//@ expect: reject
//@ codes: E0277
//@ twin: cell_refcell_static
//@ item: cell:UnsafeCell
//@ rule: UnsafeCell has no Collect impl at all
// Only the Collect bound is probed (writing through an UnsafeCell needs `unsafe` anyway).
use gc_arena::{Arena, Collect, Gc, Rootable};
use std::cell::UnsafeCell;
#[path = "../../harness-api/src/oracle.rs"]
mod oracle;
use oracle::Payload;

#[derive(Collect)]
#[collect(no_drop)]
struct Root<'gc> {
    anchor: Gc<'gc, Payload>,
    slot: UnsafeCell<Option<Gc<'gc, Payload>>>,
}

fn main() {
    let mut arena = Arena::<Rootable![Root<'_>]>::new(|mc| Root {
        anchor: oracle::payload(mc, 0),
        slot: UnsafeCell::new(None),
    });
    arena.finish_marking();
    arena.finish_cycle();
    arena.finish_cycle();
    oracle::expect_alive(0);
    arena.mutate(|_, root| {
        oracle::check_read(&root.anchor, 0);
    });
    oracle::done("cell_unsafecell_gc");
}
