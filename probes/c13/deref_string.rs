//@ expect: reject
//@ codes: E0277
//@ twin: deref_vec
//@ item: DerefWrite:String
//@ rule: Deref(String) is not a DerefWrite impl (harmless, but not derivable)
// Twin of deref_vec on a Gc<String>: `as_deref` to `&Write<str>` is not offered.
use gc_arena::{Arena, Collect, Gc, Rootable, barrier::Write};

#[derive(Collect)]
#[collect(no_drop)]
struct Root<'gc> {
    holder: Gc<'gc, String>,
}

fn main() {
    let arena = Arena::<Rootable![Root<'_>]>::new(|mc| Root {
        holder: Gc::new(mc, String::from("abc")),
    });
    arena.mutate(|mc, root| {
        let w: &Write<String> = Gc::write(mc, root.holder);
        let s: &Write<str> = w.as_deref();
        assert_eq!(s.len(), 3);
    });
}
