//@ expect: reject
//@ codes: E0451
//@ twin: field_ok
//@ item: field:private_field
//@ rule: field! respects field privacy
// Twin of field_ok with the struct in a module and the projected field private to it.
use gc_arena::{Arena, Collect, Gc, Rootable, barrier::{Write, field}, lock::RefLock};
#[path = "../../harness-api/src/oracle.rs"]
mod oracle;
use oracle::Payload;

type Slot<'gc> = RefLock<Option<Gc<'gc, Payload>>>;

mod m {
    use super::*;

    #[derive(Collect)]
    #[collect(no_drop)]
    pub struct Holder<'gc> {
        slot: Slot<'gc>,
    }

    impl<'gc> Holder<'gc> {
        pub fn new() -> Self {
            Holder { slot: RefLock::new(None) }
        }
        pub fn get(&self) -> Option<Gc<'gc, Payload>> {
            *self.slot.borrow()
        }
    }
}

#[derive(Collect)]
#[collect(no_drop)]
struct Root<'gc> {
    holder: Gc<'gc, m::Holder<'gc>>,
}

fn main() {
    let mut arena = Arena::<Rootable![Root<'_>]>::new(|mc| Root {
        holder: Gc::new(mc, m::Holder::new()),
    });
    // Make the holder black: the store below happens in a fully marked arena.
    arena.finish_marking();
    arena.mutate(|mc, root| {
        let w: &Write<m::Holder<'_>> = Gc::write(mc, root.holder);
        let slot: &Write<Slot<'_>> = field!(w, m::Holder, slot);
        *slot.unlock().borrow_mut() = Some(oracle::payload(mc, 1));
    });
    // The oracle is consulted after *each* collection step, before anything traces or reads the slot.
    arena.finish_cycle();
    oracle::expect_alive(1);
    arena.finish_cycle();
    oracle::expect_alive(1);
    arena.mutate(|_, root| {
        let p = root.holder.get().expect("slot was filled");
        oracle::check_read(&p, 1);
    });
    oracle::done("field_private_field");
}
