//@ expect: reject
//@ codes: E0308
//@ twin: field_box_ok
//@ item: field:prederef_box
//@ rule: Field does not pass through a Box implicitly: an explicit Deref(Box) step is needed
// `&Write<Box<Holder>>` with field!(w, Holder, slot): sound in principle, but the calculus wants as_deref() first.
use gc_arena::{Arena, Collect, Gc, Rootable, barrier::{Write, field}, lock::RefLock};
#[path = "../../harness-api/src/oracle.rs"]
mod oracle;
use oracle::Payload;

type Slot<'gc> = RefLock<Option<Gc<'gc, Payload>>>;

#[derive(Collect)]
#[collect(no_drop)]
struct Holder<'gc> {
    tag: u32,
    slot: Slot<'gc>,
}

#[derive(Collect)]
#[collect(no_drop)]
struct Root<'gc> {
    holder: Gc<'gc, Box<Holder<'gc>>>,
}

fn main() {
    let mut arena = Arena::<Rootable![Root<'_>]>::new(|mc| Root {
        holder: Gc::new(mc, Box::new(Holder { tag: 5, slot: RefLock::new(None) })),
    });
    // Make the holder black: the store below happens in a fully marked arena.
    arena.finish_marking();
    arena.mutate(|mc, root| {
        let w: &Write<Box<Holder<'_>>> = Gc::write(mc, root.holder);
        let slot: &Write<Slot<'_>> = field!(w, Holder, slot);
        *slot.unlock().borrow_mut() = Some(oracle::payload(mc, 1));
    });
    // The oracle is consulted after *each* collection step, before anything traces or reads the slot.
    arena.finish_cycle();
    oracle::expect_alive(1);
    arena.finish_cycle();
    oracle::expect_alive(1);
    arena.mutate(|_, root| {
        let p = root.holder.slot.borrow().expect("slot was filled");
        oracle::check_read(&p, 1);
    });
    oracle::done("field_prederef_box");
}
