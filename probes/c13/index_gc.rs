//@ expect: reject
//@ codes: E0308
//@ run: oracle
//@ twin: index_vec_usize
//@ item: IndexWrite:Gc
//@ rule: Barriered . Index through Gc [Shared] must not be derivable
// The barrier is on `outer`; indexing through the contained Gc reaches the inner (black) Vec. Only
// auto-deref out of the Write wrapper type-checks, giving a plain `&Slot`. If accepted: exit 3.
use gc_arena::{Arena, Collect, Gc, Rootable, barrier::Write, lock::RefLock};
#[path = "../../harness-api/src/oracle.rs"]
mod oracle;
use oracle::Payload;

type Slot<'gc> = RefLock<Option<Gc<'gc, Payload>>>;

#[derive(Collect)]
#[collect(no_drop)]
struct Root<'gc> {
    outer: Gc<'gc, Gc<'gc, Vec<Slot<'gc>>>>,
}

fn main() {
    let mut arena = Arena::<Rootable![Root<'_>]>::new(|mc| Root {
        outer: Gc::new(mc, Gc::new(mc, vec![RefLock::new(None), RefLock::new(None), RefLock::new(None)])),
    });
    // Make the holder black: the store below happens in a fully marked arena.
    arena.finish_marking();
    arena.mutate(|mc, root| {
        let forged: &Write<Slot<'_>> = &Gc::write(mc, root.outer)[1];
        *forged.unlock().borrow_mut() = Some(oracle::payload(mc, 1));
    });
    // The oracle is consulted after *each* collection step, before anything traces or reads the slot.
    arena.finish_cycle();
    oracle::expect_alive(1);
    arena.finish_cycle();
    oracle::expect_alive(1);
    arena.mutate(|_, root| {
        let p = root.outer[1].borrow().expect("slot was filled");
        oracle::check_read(&p, 1);
    });
    oracle::done("index_gc");
}
