//@ expect: reject
//@ codes: E0308
//@ run: oracle
//@ twin: ctor_gc_write
//@ item: ctor:Write::from_mut
//@ rule: Write::from_mut needs `&mut T`: the `&T` a Gc hands out is not an Exclusive origin (F2-style)
// The shared reference obtained from a black Gc is passed to from_mut. If this were ever accepted the
// store below would be un-barriered and the run would exit with 3.
use gc_arena::{Arena, Collect, Gc, Rootable, barrier::Write, lock::RefLock};
#[path = "../../harness-api/src/oracle.rs"]
mod oracle;
use oracle::Payload;

type Slot<'gc> = RefLock<Option<Gc<'gc, Payload>>>;

#[derive(Collect)]
#[collect(no_drop)]
struct Root<'gc> {
    holder: Gc<'gc, Slot<'gc>>,
}

fn main() {
    let mut arena = Arena::<Rootable![Root<'_>]>::new(|mc| Root {
        holder: Gc::new(mc, RefLock::new(None)),
    });
    // Make the holder black: the store below happens in a fully marked arena.
    arena.finish_marking();
    arena.mutate(|mc, root| {
        let w: &Write<Slot<'_>> = Write::from_mut(root.holder.as_ref());
        *w.unlock().borrow_mut() = Some(oracle::payload(mc, 1));
    });
    // The oracle is consulted after *each* collection step, before anything traces or reads the slot.
    arena.finish_cycle();
    oracle::expect_alive(1);
    arena.finish_cycle();
    oracle::expect_alive(1);
    arena.mutate(|_, root| {
        let p = root.holder.borrow().expect("slot was filled");
        oracle::check_read(&p, 1);
    });
    oracle::done("ctor_from_mut_shared_gc");
}
