//@ expect: reject
//@ codes: E0521
//@ run: oracle
//@ twin: cell_ref_static
//@ item: cell:Ref
//@ rule: &'gc Gc<'gc, _> is not Collect: references are never traced (F2-style)
// Gc::as_ref hands out a `&'gc` reference into the heap; storing it in the root would keep an un-traced
// pointer. If accepted: exit 3 (both the box and the payload are freed by the first cycle).
use gc_arena::{Arena, Collect, Gc, Rootable};
#[path = "../../harness-api/src/oracle.rs"]
mod oracle;
use oracle::Payload;

#[derive(Collect)]
#[collect(no_drop)]
struct Root<'gc> {
    anchor: Gc<'gc, Payload>,
    slot: &'gc Gc<'gc, Payload>,
}

fn main() {
    let mut arena = Arena::<Rootable![Root<'_>]>::new(|mc| Root {
        anchor: oracle::payload(mc, 0),
        slot: Gc::new(mc, oracle::payload(mc, 1)).as_ref(),
    });
    // The oracle is consulted after *each* collection step, before anything traces or reads the slot.
    arena.finish_cycle();
    oracle::expect_alive(1);
    arena.finish_cycle();
    oracle::expect_alive(1);
    oracle::expect_alive(0);
    arena.mutate(|_, root| {
        oracle::check_read(root.slot, 1);
    });
    oracle::done("cell_ref_gc");
}
