//@ expect: reject
//@ codes: E0606
//@ twin: field_fn_ok
//@ item: field:postderef_ref
//@ rule: Field cannot pass through a `&` *after* the projection (field of type &'static u32 as Write<u32>)
// Shape taken from tests/ui/bad_write_field_projections.rs; twin field_fn_ok.
use gc_arena::{
    Gc,
    barrier::{Write, field},
};

struct Foo<'gc> {
    foo: i32,
    bar: f64,
    baz: &'static u32,
    quux: Gc<'gc, u32>,
}

        fn projection<'a, 'gc>(v: &'a Write<Foo<'gc>>) -> &'a Write<u32> {
            field!(v, Foo, baz)
        }

        fn main() {}
