//@ expect: reject
//@ codes: E0599
//@ run: oracle
//@ twin: unlock_oncelock
//@ item: unsafe:as_once_cell
//@ rule: OnceLock has NO as_once_cell accessor at all (make_lock_wrapper! is invoked without its impl sections) (F2-style)
// Unlike Lock::as_cell / RefLock::as_ref_cell the accessor does not exist, with or without `unsafe`; the only
// ways to the OnceCell are Write::unlock and the unsafe Unlock::unlock_unchecked. If accepted: exit 3.
use gc_arena::{Arena, Collect, Gc, Rootable, barrier::Write, lock::OnceLock};
#[path = "../../harness-api/src/oracle.rs"]
mod oracle;
use oracle::Payload;

#[derive(Collect)]
#[collect(no_drop)]
struct Root<'gc> {
    holder: Gc<'gc, OnceLock<Gc<'gc, Payload>>>,
}

fn main() {
    let mut arena = Arena::<Rootable![Root<'_>]>::new(|mc| Root {
        holder: Gc::new(mc, OnceLock::new()),
    });
    // Make the holder black: the store below happens in a fully marked arena.
    arena.finish_marking();
    arena.mutate(|mc, root| {
        let cell = root.holder.as_ref().as_once_cell();
        cell.set(oracle::payload(mc, 1)).expect("cell was empty");
    });
    // The oracle is consulted after *each* collection step, before anything traces or reads the slot.
    arena.finish_cycle();
    oracle::expect_alive(1);
    arena.finish_cycle();
    oracle::expect_alive(1);
    arena.mutate(|_, root| {
        let p = *root.holder.get().expect("slot was filled");
        oracle::check_read(&p, 1);
    });
    oracle::done("unsafe_as_once_cell");
}
