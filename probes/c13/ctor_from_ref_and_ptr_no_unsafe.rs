//@ expect: reject
//@ codes: E0133
//@ run: oracle
//@ twin: ctor_from_ref_and_ptr_unsafe
//@ item: ctor:Write::__from_ref_and_ptr
//@ rule: Write::__from_ref_and_ptr (the hidden helper of field!) is an unsafe fn: not callable from safe code (F2-style)
// No barrier, no `unsafe`. If accepted, the store on the black holder is lost (exit 3).
use gc_arena::{Arena, Collect, Gc, Rootable, barrier::Write, lock::RefLock};
#[path = "../../harness-api/src/oracle.rs"]
mod oracle;
use oracle::Payload;

type Slot<'gc> = RefLock<Option<Gc<'gc, Payload>>>;

#[derive(Collect)]
#[collect(no_drop)]
struct Root<'gc> {
    holder: Gc<'gc, Slot<'gc>>,
}

fn main() {
    let mut arena = Arena::<Rootable![Root<'_>]>::new(|mc| Root {
        holder: Gc::new(mc, RefLock::new(None)),
    });
    // Make the holder black: the store below happens in a fully marked arena.
    arena.finish_marking();
    arena.mutate(|mc, root| {
        let w: &Write<Slot<'_>> = Write::__from_ref_and_ptr(root.holder.as_ref(), Gc::as_ptr(root.holder));
        *w.unlock().borrow_mut() = Some(oracle::payload(mc, 1));
    });
    // The oracle is consulted after *each* collection step, before anything traces or reads the slot.
    arena.finish_cycle();
    oracle::expect_alive(1);
    arena.finish_cycle();
    oracle::expect_alive(1);
    arena.mutate(|_, root| {
        let p = root.holder.borrow().expect("slot was filled");
        oracle::check_read(&p, 1);
    });
    oracle::done("ctor_from_ref_and_ptr_no_unsafe");
}
