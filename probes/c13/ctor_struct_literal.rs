//@ expect: reject
//@ codes: E0639
//@ twin: ctor_from_mut_local
//@ item: ctor:struct_literal
//@ rule: Write is #[non_exhaustive]: no struct-literal construction outside the crate
// Twin of ctor_from_mut_local building an owned `Write { __inner: .. }` by literal instead of from_mut.
use gc_arena::{Arena, Collect, Gc, Rootable, barrier::Write, lock::RefLock};
#[path = "../../harness-api/src/oracle.rs"]
mod oracle;
use oracle::Payload;

type Slot<'gc> = RefLock<Option<Gc<'gc, Payload>>>;

#[derive(Collect)]
#[collect(no_drop)]
struct Root<'gc> {
    cell: Gc<'gc, RefLock<Option<Gc<'gc, Slot<'gc>>>>>,
}

fn main() {
    let mut arena = Arena::<Rootable![Root<'_>]>::new(|mc| Root {
        cell: Gc::new(mc, RefLock::new(None)),
    });
    // Make the holder black: the store below happens in a fully marked arena.
    arena.finish_marking();
    arena.mutate(|mc, root| {
        let local: Slot<'_> = RefLock::new(None);
        let w = Write { __inner: local };
        *w.unlock().borrow_mut() = Some(oracle::payload(mc, 1));
        *root.cell.borrow_mut(mc) = Some(Gc::new(mc, w.__inner));
    });
    // The oracle is consulted after *each* collection step, before anything traces or reads the slot.
    arena.finish_cycle();
    oracle::expect_alive(1);
    arena.finish_cycle();
    oracle::expect_alive(1);
    arena.mutate(|_, root| {
        let holder = root.cell.borrow().expect("holder was linked");
        let p = holder.borrow().expect("slot was filled");
        oracle::check_read(&p, 1);
    });
    oracle::done("ctor_struct_literal");
}
