//@ expect: reject
//@ codes: E0277
//@ run: oracle
//@ twin: index_vec_usize
//@ item: IndexWrite:Vec
//@ rule: Barriered . Index(Vec) with a CLIENT-defined index type must not be derivable
// `IndexWrite<I> for Vec<T>` is generic in the index type `I`; it is sound only because its where-clause
// delegates to `[T]: IndexWrite<I>`, which confines `I` to the index types the crate has vetted. Without the
// delegation a client can implement `Index<Local> for Vec<Gc<..>>` (allowed by the orphan rule) whose
// `index` looks THROUGH a stored Gc, so `Gc::write(mc, table)[Through]` yields a `&Write` into a different,
// un-barriered object. Must be rejected; if it is ever accepted, running it demonstrates the lost pointer.
use core::ops::Index;
use gc_arena::{Arena, Collect, Gc, Rootable, lock::RefLock};
#[path = "../../harness-api/src/oracle.rs"]
mod oracle;
use oracle::Payload;

type Inner<'gc> = RefLock<Option<Gc<'gc, Payload>>>;
type Slot<'gc> = Gc<'gc, Inner<'gc>>;

struct Through;
impl<'gc> Index<Through> for Vec<Slot<'gc>> {
    type Output = Inner<'gc>;
    fn index(&self, _: Through) -> &Self::Output {
        self[0].as_ref()
    }
}

#[derive(Collect)]
#[collect(no_drop)]
struct Root<'gc> {
    table: Gc<'gc, Vec<Slot<'gc>>>,
}

fn main() {
    let mut arena = Arena::<Rootable![Root<'_>]>::new(|mc| Root {
        table: Gc::new(mc, vec![Gc::new(mc, RefLock::new(None))]),
    });
    arena.finish_marking();
    arena.mutate(|mc, root| {
        // the barrier is issued on `table`, the write lands in the (black) slot object behind it
        let w = Gc::write(mc, root.table);
        *w[Through].unlock().borrow_mut() = Some(oracle::payload(mc, 1));
    });
    arena.finish_cycle();
    oracle::expect_alive(1);
    arena.finish_cycle();
    oracle::expect_alive(1);
    arena.mutate(|_, root| {
        let p = root.table[0].borrow().expect("slot was filled");
        oracle::check_read(&p, 1);
    });
    oracle::done("index_user_index_type_vec");
}
