//@ expect: reject
//@ codes: E0277
//@ run: oracle
//@ twin: unlock_oncelock
//@ item: cell:OnceCell
//@ rule: std OnceCell has no Collect impl at all (F2-style)
// A plain OnceCell holding a pointer would be an un-barriered slot. If accepted: exit 3.
use gc_arena::{Arena, Collect, Gc, Rootable};
use std::cell::OnceCell;
#[path = "../../harness-api/src/oracle.rs"]
mod oracle;
use oracle::Payload;

#[derive(Collect)]
#[collect(no_drop)]
struct Root<'gc> {
    anchor: Gc<'gc, Payload>,
    slot: OnceCell<Gc<'gc, Payload>>,
}

fn main() {
    let mut arena = Arena::<Rootable![Root<'_>]>::new(|mc| Root {
        anchor: oracle::payload(mc, 0),
        slot: OnceCell::new(),
    });
    arena.finish_marking();
    arena.mutate(|mc, root| {
        root.slot.set(oracle::payload(mc, 1)).expect("cell was empty");
    });
    // The oracle is consulted after *each* collection step, before anything traces or reads the slot.
    arena.finish_cycle();
    oracle::expect_alive(1);
    arena.finish_cycle();
    oracle::expect_alive(1);
    oracle::expect_alive(0);
    arena.mutate(|_, root| {
        let p = *root.slot.get().expect("slot was filled");
        oracle::check_read(&p, 1);
    });
    oracle::done("cell_oncecell_gc");
}
