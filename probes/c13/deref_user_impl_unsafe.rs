//@ expect: accept
//@ run: oracle
//@ twin: deref_user_impl_no_unsafe
//@ item: DerefWrite:UserType
//@ rule: `unsafe impl DerefWrite` for a uniquely owning user pointer: the documented extension point, covered
// The accept twin: a Box-like user pointer; the `unsafe impl DerefWrite` below is what the probe is about.
use gc_arena::{Arena, Collect, Gc, Rootable, barrier::{DerefWrite, Write}, lock::RefLock};
use std::ops::Deref;
#[path = "../../harness-api/src/oracle.rs"]
mod oracle;
use oracle::Payload;

type Slot<'gc> = RefLock<Option<Gc<'gc, Payload>>>;

struct MyBox<T>(Box<T>);

impl<T> Deref for MyBox<T> {
    type Target = T;
    fn deref(&self) -> &T {
        &self.0
    }
}

// (Collect is an unsafe trait too; this impl is support code, not what the probe is about.)
unsafe impl<'gc, T: Collect<'gc>> Collect<'gc> for MyBox<T> {
    const NEEDS_TRACE: bool = T::NEEDS_TRACE;
    fn trace<C: gc_arena::collect::Trace<'gc>>(&self, cc: &mut C) {
        cc.trace(&*self.0)
    }
}

// SAFETY (probe is about `unsafe` being required): MyBox uniquely owns its target, deref is pure.
unsafe impl<T> DerefWrite for MyBox<T> {}

#[derive(Collect)]
#[collect(no_drop)]
struct Root<'gc> {
    holder: Gc<'gc, MyBox<Slot<'gc>>>,
}

fn main() {
    let mut arena = Arena::<Rootable![Root<'_>]>::new(|mc| Root {
        holder: Gc::new(mc, MyBox(Box::new(RefLock::new(None)))),
    });
    // Make the holder black: the store below happens in a fully marked arena.
    arena.finish_marking();
    arena.mutate(|mc, root| {
        let inner: &Write<Slot<'_>> = Gc::write(mc, root.holder).as_deref();
        *inner.unlock().borrow_mut() = Some(oracle::payload(mc, 1));
    });
    // The oracle is consulted after *each* collection step, before anything traces or reads the slot.
    arena.finish_cycle();
    oracle::expect_alive(1);
    arena.finish_cycle();
    oracle::expect_alive(1);
    arena.mutate(|_, root| {
        let p = root.holder.borrow().expect("slot was filled");
        oracle::check_read(&p, 1);
    });
    oracle::done("deref_user_impl_unsafe");
}
