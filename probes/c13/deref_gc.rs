//@ expect: reject
//@ codes: E0277
//@ run: oracle
//@ twin: deref_box
//@ item: DerefWrite:Gc
//@ rule: Barriered . Deref(Gc) [Shared] must not be derivable
// The barrier is applied to `outer`; as_deref through the Gc it contains would reach the *inner*
// allocation (black as well) without a barrier on it. If accepted, the run exits with 3.
use gc_arena::{Arena, Collect, Gc, Rootable, barrier::Write, lock::RefLock};
#[path = "../../harness-api/src/oracle.rs"]
mod oracle;
use oracle::Payload;

type Slot<'gc> = RefLock<Option<Gc<'gc, Payload>>>;

#[derive(Collect)]
#[collect(no_drop)]
struct Root<'gc> {
    outer: Gc<'gc, Gc<'gc, Slot<'gc>>>,
}

fn main() {
    let mut arena = Arena::<Rootable![Root<'_>]>::new(|mc| Root {
        outer: Gc::new(mc, Gc::new(mc, RefLock::new(None))),
    });
    // Make the holder black: the store below happens in a fully marked arena.
    arena.finish_marking();
    arena.mutate(|mc, root| {
        let w: &Write<Gc<'_, Slot<'_>>> = Gc::write(mc, root.outer);
        let forged: &Write<Slot<'_>> = w.as_deref();
        *forged.unlock().borrow_mut() = Some(oracle::payload(mc, 1));
    });
    // The oracle is consulted after *each* collection step, before anything traces or reads the slot.
    arena.finish_cycle();
    oracle::expect_alive(1);
    arena.finish_cycle();
    oracle::expect_alive(1);
    arena.mutate(|_, root| {
        let p = root.outer.borrow().expect("slot was filled");
        oracle::check_read(&p, 1);
    });
    oracle::done("deref_gc");
}
