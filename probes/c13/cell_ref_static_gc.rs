//@ expect: reject
//@ codes: none
//@ run: oracle
//@ twin: cell_ref_static
//@ item: cell:Ref
//@ rule: &'static Gc<'gc, _> is not Collect: the extra `T: 'static` bound on the impl (F2-style)
// The shape from the comment in collect_impl.rs: a leaked box holding a Gc as the root. Without the
// `T: 'static` bound this compiled; the Gc is reachable but never traced. If accepted: exit 3.
use gc_arena::{Arena, Gc, Rootable};
#[path = "../../harness-api/src/oracle.rs"]
mod oracle;
use oracle::Payload;

fn main() {
    let mut arena = Arena::<Rootable![&'static Gc<'_, Payload>]>::new(|mc| {
        let leaked: &'static Gc<'_, Payload> = Box::leak(Box::new(oracle::payload(mc, 1)));
        leaked
    });
    // The oracle is consulted after *each* collection step, before anything reads the pointer.
    arena.finish_cycle();
    oracle::expect_alive(1);
    arena.finish_cycle();
    oracle::expect_alive(1);
    arena.mutate(|_, root| {
        oracle::check_read(&***root, 1);
    });
    oracle::done("cell_ref_static_gc");
}
