//@ expect: accept
//@ run: oracle
//@ twin: ctor_from_static_gc
//@ item: ctor:Write::from_static
//@ rule: origin Static (Write::from_static, T: 'static) is derivable; such data can hold no pointer
// from_static on the `Lock<u32>` field of a black Gc'd struct, no barrier; the value survives collections.
use gc_arena::{Arena, Collect, Gc, Rootable, barrier::Write, lock::{Lock, RefLock}};
#[path = "../../harness-api/src/oracle.rs"]
mod oracle;
use oracle::Payload;

type Slot<'gc> = RefLock<Option<Gc<'gc, Payload>>>;

#[derive(Collect)]
#[collect(no_drop)]
struct Holder<'gc> {
    counter: Lock<u32>,
    slot: Slot<'gc>,
}

#[derive(Collect)]
#[collect(no_drop)]
struct Root<'gc> {
    holder: Gc<'gc, Holder<'gc>>,
}

fn main() {
    let mut arena = Arena::<Rootable![Root<'_>]>::new(|mc| Root {
        holder: Gc::new(mc, Holder { counter: Lock::new(0), slot: RefLock::new(None) }),
    });
    // Make the holder black: the store below happens in a fully marked arena.
    arena.finish_marking();
    arena.mutate(|mc, root| {
        let w: &Write<Lock<u32>> = Write::from_static(&root.holder.counter);
        w.unlock().set(7);
    });
    arena.finish_cycle();
    arena.finish_cycle();
    arena.mutate(|_, root| {
        assert_eq!(root.holder.counter.get(), 7);
        assert!(root.holder.slot.borrow().is_none());
    });
    oracle::done("ctor_from_static");
}
