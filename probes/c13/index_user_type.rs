//@ expect: reject
//@ codes: E0308
//@ run: oracle
//@ twin: index_vec_usize
//@ item: IndexWrite:UserType
//@ rule: Index impl of a user-defined container is not an IndexWrite (F2-style)
// A safe user `Index` impl may return a reference into *another* allocation (here: through a Gc). The
// barrier is on `holder`, the slot lives in the black `inner`. Indexing `&Write<My>` only type-checks by
// auto-deref out of the wrapper (plain `&Slot`). If accepted, the run exits with 3.
use gc_arena::{Arena, Collect, Gc, Rootable, barrier::Write, lock::RefLock};
use std::ops::Index;
#[path = "../../harness-api/src/oracle.rs"]
mod oracle;
use oracle::Payload;

type Slot<'gc> = RefLock<Option<Gc<'gc, Payload>>>;

#[derive(Collect)]
#[collect(no_drop)]
struct My<'gc> {
    inner: Gc<'gc, Vec<Slot<'gc>>>,
}

impl<'gc> Index<usize> for My<'gc> {
    type Output = Slot<'gc>;
    fn index(&self, i: usize) -> &Slot<'gc> {
        &self.inner.as_ref()[i]
    }
}

#[derive(Collect)]
#[collect(no_drop)]
struct Root<'gc> {
    holder: Gc<'gc, My<'gc>>,
}

fn main() {
    let mut arena = Arena::<Rootable![Root<'_>]>::new(|mc| Root {
        holder: Gc::new(mc, My { inner: Gc::new(mc, vec![RefLock::new(None), RefLock::new(None)]) }),
    });
    // Make the holder black: the store below happens in a fully marked arena.
    arena.finish_marking();
    arena.mutate(|mc, root| {
        let forged: &Write<Slot<'_>> = &Gc::write(mc, root.holder)[1];
        *forged.unlock().borrow_mut() = Some(oracle::payload(mc, 1));
    });
    // The oracle is consulted after *each* collection step, before anything traces or reads the slot.
    arena.finish_cycle();
    oracle::expect_alive(1);
    arena.finish_cycle();
    oracle::expect_alive(1);
    arena.mutate(|_, root| {
        let p = root.holder[1].borrow().expect("slot was filled");
        oracle::check_read(&p, 1);
    });
    oracle::done("index_user_type");
}
