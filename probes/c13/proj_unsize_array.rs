//@ expect: accept
//@ run: oracle
//@ twin: index_ref
//@ item: proj:unsize
//@ rule: Barriered . Unsize([T; N] -> [T]) [Unique]: built-in struct unsizing coercion of `&Write<_>`; covered
// `&Write<[Slot; 3]>` coerces to `&Write<[Slot]>` (Write's only field is its last field). Same storage, so
// sound; not a library item but a language rule the calculus has to admit (identity on the path).
use gc_arena::{Arena, Collect, Gc, Rootable, barrier::Write, lock::RefLock};
#[path = "../../harness-api/src/oracle.rs"]
mod oracle;
use oracle::Payload;

type Slot<'gc> = RefLock<Option<Gc<'gc, Payload>>>;

#[derive(Collect)]
#[collect(no_drop)]
struct Root<'gc> {
    holder: Gc<'gc, [Slot<'gc>; 3]>,
}

fn main() {
    let mut arena = Arena::<Rootable![Root<'_>]>::new(|mc| Root {
        holder: Gc::new(mc, [RefLock::new(None), RefLock::new(None), RefLock::new(None)]),
    });
    // Make the holder black: the store below happens in a fully marked arena.
    arena.finish_marking();
    arena.mutate(|mc, root| {
        let w: &Write<[Slot<'_>; 3]> = Gc::write(mc, root.holder);
        let slice: &Write<[Slot<'_>]> = w;
        *slice[2].unlock().borrow_mut() = Some(oracle::payload(mc, 1));
    });
    // The oracle is consulted after *each* collection step, before anything traces or reads the slot.
    arena.finish_cycle();
    oracle::expect_alive(1);
    arena.finish_cycle();
    oracle::expect_alive(1);
    arena.mutate(|_, root| {
        let p = root.holder[2].borrow().expect("slot was filled");
        oracle::check_read(&p, 1);
    });
    oracle::done("proj_unsize_array");
}
