//@ expect: reject
//@ codes: E0200
//@ twin: index_user_impl_unsafe
//@ item: IndexWrite:UserType
//@ rule: IndexWrite is an unsafe trait: a user container cannot join the impl list from safe code
// A user container with `impl IndexWrite<usize>` (no `unsafe`).
use gc_arena::{Arena, Collect, Gc, Rootable, barrier::{IndexWrite, Write}, lock::RefLock};
use std::ops::Index;
#[path = "../../harness-api/src/oracle.rs"]
mod oracle;
use oracle::Payload;

type Slot<'gc> = RefLock<Option<Gc<'gc, Payload>>>;

#[derive(Collect)]
#[collect(no_drop)]
struct MyVec<'gc>(Vec<Slot<'gc>>);

impl<'gc> Index<usize> for MyVec<'gc> {
    type Output = Slot<'gc>;
    fn index(&self, i: usize) -> &Slot<'gc> {
        &self.0[i]
    }
}

// SAFETY (probe is about `unsafe` being required): the index impl returns a reference into self.
impl<'gc> IndexWrite<usize> for MyVec<'gc> {}

#[derive(Collect)]
#[collect(no_drop)]
struct Root<'gc> {
    holder: Gc<'gc, MyVec<'gc>>,
}

fn main() {
    let mut arena = Arena::<Rootable![Root<'_>]>::new(|mc| Root {
        holder: Gc::new(mc, MyVec(vec![RefLock::new(None), RefLock::new(None)])),
    });
    // Make the holder black: the store below happens in a fully marked arena.
    arena.finish_marking();
    arena.mutate(|mc, root| {
        let slot: &Write<Slot<'_>> = &Gc::write(mc, root.holder)[1];
        *slot.unlock().borrow_mut() = Some(oracle::payload(mc, 1));
    });
    // The oracle is consulted after *each* collection step, before anything traces or reads the slot.
    arena.finish_cycle();
    oracle::expect_alive(1);
    arena.finish_cycle();
    oracle::expect_alive(1);
    arena.mutate(|_, root| {
        let p = root.holder[1].borrow().expect("slot was filled");
        oracle::check_read(&p, 1);
    });
    oracle::done("index_user_impl_no_unsafe");
}
