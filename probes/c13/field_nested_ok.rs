//@ expect: accept
//@ run: oracle
//@ twin: field_postderef_gc
//@ item: field:nested_ok
//@ rule: Barriered . Field . Field [Unique] is derivable and covered
// Two nested field! projections through inline structs.
use gc_arena::{Arena, Collect, Gc, Rootable, barrier::{Write, field}, lock::RefLock};
#[path = "../../harness-api/src/oracle.rs"]
mod oracle;
use oracle::Payload;

type Slot<'gc> = RefLock<Option<Gc<'gc, Payload>>>;

#[derive(Collect)]
#[collect(no_drop)]
struct Inner<'gc> {
    slot: Slot<'gc>,
}

#[derive(Collect)]
#[collect(no_drop)]
struct Outer<'gc> {
    inner: Inner<'gc>,
}

#[derive(Collect)]
#[collect(no_drop)]
struct Root<'gc> {
    holder: Gc<'gc, Outer<'gc>>,
}

fn main() {
    let mut arena = Arena::<Rootable![Root<'_>]>::new(|mc| Root {
        holder: Gc::new(mc, Outer { inner: Inner { slot: RefLock::new(None) } }),
    });
    // Make the holder black: the store below happens in a fully marked arena.
    arena.finish_marking();
    arena.mutate(|mc, root| {
        let w: &Write<Outer<'_>> = Gc::write(mc, root.holder);
        let slot: &Write<Slot<'_>> = field!(field!(w, Outer, inner), Inner, slot);
        *slot.unlock().borrow_mut() = Some(oracle::payload(mc, 1));
    });
    // The oracle is consulted after *each* collection step, before anything traces or reads the slot.
    arena.finish_cycle();
    oracle::expect_alive(1);
    arena.finish_cycle();
    oracle::expect_alive(1);
    arena.mutate(|_, root| {
        let p = root.holder.inner.slot.borrow().expect("slot was filled");
        oracle::check_read(&p, 1);
    });
    oracle::done("field_nested_ok");
}
