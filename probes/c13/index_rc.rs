//@ expect: reject
//@ codes: E0308
//@ run: oracle
//@ twin: index_vec_usize
//@ item: IndexWrite:Rc
//@ rule: Exclusive . Index through Rc [Shared] must not be derivable (F2-style)
// Indexing a `Write<Rc<Vec<_>>>` only works by auto-deref *out of* the Write wrapper, which yields a
// plain `&Slot`, never a `&Write<Slot>`. If accepted, the run exits with 3.
use gc_arena::{Arena, Collect, Gc, Rootable, barrier::Write, lock::RefLock};
use std::rc::Rc;
#[path = "../../harness-api/src/oracle.rs"]
mod oracle;
use oracle::Payload;

type Slot<'gc> = RefLock<Option<Gc<'gc, Payload>>>;

#[derive(Collect)]
#[collect(no_drop)]
struct Root<'gc> {
    holder: Gc<'gc, Rc<Vec<Slot<'gc>>>>,
}

fn main() {
    let mut arena = Arena::<Rootable![Root<'_>]>::new(|mc| Root {
        holder: Gc::new(mc, Rc::new(vec![RefLock::new(None), RefLock::new(None), RefLock::new(None)])),
    });
    // Make the holder black: the store below happens in a fully marked arena.
    arena.finish_marking();
    arena.mutate(|mc, root| {
        let mut alias: Rc<Vec<Slot<'_>>> = Rc::clone(&*root.holder);
        let forged: &Write<Slot<'_>> = &Write::from_mut(&mut alias)[1];
        *forged.unlock().borrow_mut() = Some(oracle::payload(mc, 1));
    });
    // The oracle is consulted after *each* collection step, before anything traces or reads the slot.
    arena.finish_cycle();
    oracle::expect_alive(1);
    arena.finish_cycle();
    oracle::expect_alive(1);
    arena.mutate(|_, root| {
        let p = root.holder[1].borrow().expect("slot was filled");
        oracle::check_read(&p, 1);
    });
    oracle::done("index_rc");
}
