//@ expect: accept
//@ run: oracle
//@ twin: index_user_impl_no_unsafe
//@ item: IndexWrite:UserType
//@ rule: `unsafe impl IndexWrite` for a user container storing its elements inline: the documented extension point, covered
// The accept twin: a Vec newtype; the `unsafe impl` below is what the probe is about.
use gc_arena::{Arena, Collect, Gc, Rootable, barrier::{IndexWrite, Write}, lock::RefLock};
use std::ops::Index;
#[path = "../../harness-api/src/oracle.rs"]
mod oracle;
use oracle::Payload;

type Slot<'gc> = RefLock<Option<Gc<'gc, Payload>>>;

#[derive(Collect)]
#[collect(no_drop)]
struct MyVec<'gc>(Vec<Slot<'gc>>);

impl<'gc> Index<usize> for MyVec<'gc> {
    type Output = Slot<'gc>;
    fn index(&self, i: usize) -> &Slot<'gc> {
        &self.0[i]
    }
}

// SAFETY (probe is about `unsafe` being required): the index impl returns a reference into self.
unsafe impl<'gc> IndexWrite<usize> for MyVec<'gc> {}

#[derive(Collect)]
#[collect(no_drop)]
struct Root<'gc> {
    holder: Gc<'gc, MyVec<'gc>>,
}

fn main() {
    let mut arena = Arena::<Rootable![Root<'_>]>::new(|mc| Root {
        holder: Gc::new(mc, MyVec(vec![RefLock::new(None), RefLock::new(None)])),
    });
    // Make the holder black: the store below happens in a fully marked arena.
    arena.finish_marking();
    arena.mutate(|mc, root| {
        let slot: &Write<Slot<'_>> = &Gc::write(mc, root.holder)[1];
        *slot.unlock().borrow_mut() = Some(oracle::payload(mc, 1));
    });
    // The oracle is consulted after *each* collection step, before anything traces or reads the slot.
    arena.finish_cycle();
    oracle::expect_alive(1);
    arena.finish_cycle();
    oracle::expect_alive(1);
    arena.mutate(|_, root| {
        let p = root.holder[1].borrow().expect("slot was filled");
        oracle::check_read(&p, 1);
    });
    oracle::done("index_user_impl_unsafe");
}
