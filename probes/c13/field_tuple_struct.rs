//@ expect: reject
//@ codes: none
//@ twin: field_ok
//@ item: field:tuple_struct
//@ rule: field! supports named fields only: tuple structs are out of the calculus
// Twin of field_ok with a tuple struct and a positional field.
use gc_arena::{Arena, Collect, Gc, Rootable, barrier::{Write, field}, lock::RefLock};
#[path = "../../harness-api/src/oracle.rs"]
mod oracle;
use oracle::Payload;

type Slot<'gc> = RefLock<Option<Gc<'gc, Payload>>>;

#[derive(Collect)]
#[collect(no_drop)]
struct Tup<'gc>(u32, Slot<'gc>);

#[derive(Collect)]
#[collect(no_drop)]
struct Root<'gc> {
    holder: Gc<'gc, Tup<'gc>>,
}

fn main() {
    let mut arena = Arena::<Rootable![Root<'_>]>::new(|mc| Root {
        holder: Gc::new(mc, Tup(5, RefLock::new(None))),
    });
    // Make the holder black: the store below happens in a fully marked arena.
    arena.finish_marking();
    arena.mutate(|mc, root| {
        let w: &Write<Tup<'_>> = Gc::write(mc, root.holder);
        let slot: &Write<Slot<'_>> = field!(w, Tup, 1);
        *slot.unlock().borrow_mut() = Some(oracle::payload(mc, 1));
    });
    // The oracle is consulted after *each* collection step, before anything traces or reads the slot.
    arena.finish_cycle();
    oracle::expect_alive(1);
    arena.finish_cycle();
    oracle::expect_alive(1);
    arena.mutate(|_, root| {
        let p = root.holder.1.borrow().expect("slot was filled");
        oracle::check_read(&p, 1);
    });
    oracle::done("field_tuple_struct");
}
