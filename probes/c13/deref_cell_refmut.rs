//@ expect: reject
//@ codes: E0277
//@ twin: deref_box
//@ item: DerefWrite:RefMut
//@ rule: Deref(cell::RefMut) is not a DerefWrite impl
// A RefMut guard of a Gc'd RefLock can only be had through `borrow_mut(mc)` (which barriers), so this
// would be harmless; it is simply not in the impl list.
use gc_arena::{Arena, Collect, Gc, Rootable, barrier::Write, lock::RefLock};
use std::cell::RefMut;
#[path = "../../harness-api/src/oracle.rs"]
mod oracle;
use oracle::Payload;

type Slot<'gc> = RefLock<Option<Gc<'gc, Payload>>>;

#[derive(Collect)]
#[collect(no_drop)]
struct Root<'gc> {
    holder: Gc<'gc, RefLock<Slot<'gc>>>,
}

fn main() {
    let mut arena = Arena::<Rootable![Root<'_>]>::new(|mc| Root {
        holder: Gc::new(mc, RefLock::new(RefLock::new(None))),
    });
    // Make the holder black: the store below happens in a fully marked arena.
    arena.finish_marking();
    arena.mutate(|mc, root| {
        let mut guard: RefMut<'_, Slot<'_>> = root.holder.borrow_mut(mc);
        let inner: &Write<Slot<'_>> = Write::from_mut(&mut guard).as_deref();
        *inner.unlock().borrow_mut() = Some(oracle::payload(mc, 1));
    });
    // The oracle is consulted after *each* collection step, before anything traces or reads the slot.
    arena.finish_cycle();
    oracle::expect_alive(1);
    arena.finish_cycle();
    oracle::expect_alive(1);
    arena.mutate(|_, root| {
        let p = root.holder.borrow().borrow().expect("slot was filled");
        oracle::check_read(&p, 1);
    });
    oracle::done("deref_cell_refmut");
}
