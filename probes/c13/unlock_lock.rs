//@ expect: accept
//@ run: oracle
//@ twin: unsafe_as_cell
//@ item: Unlock:Lock
//@ rule: Barriered . Unlock(Lock) gives the Cell; covered
// Gc::write(..).unlock() on a Gc<Lock<_>> yields the inner Cell; set a fresh pointer.
use gc_arena::{Arena, Collect, Gc, Rootable, barrier::Write, lock::Lock};
#[path = "../../harness-api/src/oracle.rs"]
mod oracle;
use oracle::Payload;

type LSlot<'gc> = Lock<Option<Gc<'gc, Payload>>>;

#[derive(Collect)]
#[collect(no_drop)]
struct Root<'gc> {
    holder: Gc<'gc, LSlot<'gc>>,
}

fn main() {
    let mut arena = Arena::<Rootable![Root<'_>]>::new(|mc| Root {
        holder: Gc::new(mc, Lock::new(None)),
    });
    // Make the holder black: the store below happens in a fully marked arena.
    arena.finish_marking();
    arena.mutate(|mc, root| {
        let w: &Write<LSlot<'_>> = Gc::write(mc, root.holder);
        w.unlock().set(Some(oracle::payload(mc, 1)));
    });
    // The oracle is consulted after *each* collection step, before anything traces or reads the slot.
    arena.finish_cycle();
    oracle::expect_alive(1);
    arena.finish_cycle();
    oracle::expect_alive(1);
    arena.mutate(|_, root| {
        let p = root.holder.get().expect("slot was filled");
        oracle::check_read(&p, 1);
    });
    oracle::done("unlock_lock");
}
