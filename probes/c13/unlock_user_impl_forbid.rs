//@ expect: reject
//@ codes: unsafe_code
//@ run: oracle
//@ twin: unlock_user_impl
//@ item: Unlock:UserType
//@ rule: a forging user `impl Unlock` is stopped only by #![forbid(unsafe_code)]: 'free of unsafe code' = no `unsafe` token (F2-style)
// `Unlock` is a safe trait with an unsafe method. Without the forbid attribute this compiles with NO `unsafe {}`
// block (edition 2024 only warns about unsafe ops inside an `unsafe fn`) and its run exits with 3: the barrier
// is on `holder`, the returned cell belongs to the black `inner` allocation.
#![forbid(unsafe_code)]
use gc_arena::{Arena, Collect, Gc, Rootable, barrier::{Unlock, Write}, lock::RefLock};
use std::cell::RefCell;
#[path = "../../harness-api/src/oracle.rs"]
mod oracle;
use oracle::Payload;

type Slot<'gc> = RefLock<Option<Gc<'gc, Payload>>>;

#[derive(Collect)]
#[collect(no_drop)]
struct MyLock<'gc> {
    inner: Gc<'gc, Slot<'gc>>,
}

impl<'gc> Unlock for MyLock<'gc> {
    type Unlocked = RefCell<Option<Gc<'gc, Payload>>>;
    unsafe fn unlock_unchecked(&self) -> &Self::Unlocked {
        self.inner.as_ref().unlock_unchecked()
    }
}

#[derive(Collect)]
#[collect(no_drop)]
struct Root<'gc> {
    holder: Gc<'gc, MyLock<'gc>>,
}

fn main() {
    let mut arena = Arena::<Rootable![Root<'_>]>::new(|mc| Root {
        holder: Gc::new(mc, MyLock { inner: Gc::new(mc, RefLock::new(None)) }),
    });
    // Make the holder black: the store below happens in a fully marked arena.
    arena.finish_marking();
    arena.mutate(|mc, root| {
        let w: &Write<MyLock<'_>> = Gc::write(mc, root.holder);
        *w.unlock().borrow_mut() = Some(oracle::payload(mc, 1));
    });
    // The oracle is consulted after *each* collection step, before anything traces or reads the slot.
    arena.finish_cycle();
    oracle::expect_alive(1);
    arena.finish_cycle();
    oracle::expect_alive(1);
    arena.mutate(|_, root| {
        let p = root.holder.inner.borrow().expect("slot was filled");
        oracle::check_read(&p, 1);
    });
    oracle::done("unlock_user_impl_forbid");
}
