//@ expect: reject
//@ codes: E0599
//@ run: oracle
//@ twin: proj_as_write_option
//@ item: proj:as_write_option
//@ rule: as_write needs a `&Write<Option<_>>` origin: no such method on a plain `&Option<_>` (F2-style)
// Twin of proj_as_write_option with the plain reference of Gc::as_ref. If accepted: exit 3.
use gc_arena::{Arena, Collect, Gc, Rootable, barrier::Write, lock::RefLock};
#[path = "../../harness-api/src/oracle.rs"]
mod oracle;
use oracle::Payload;

type Slot<'gc> = RefLock<Option<Gc<'gc, Payload>>>;

#[derive(Collect)]
#[collect(no_drop)]
struct Root<'gc> {
    holder: Gc<'gc, Option<Slot<'gc>>>,
}

fn main() {
    let mut arena = Arena::<Rootable![Root<'_>]>::new(|mc| Root {
        holder: Gc::new(mc, Some(RefLock::new(None))),
    });
    // Make the holder black: the store below happens in a fully marked arena.
    arena.finish_marking();
    arena.mutate(|mc, root| {
        let w: &Option<Slot<'_>> = root.holder.as_ref();
        let slot: &Write<Slot<'_>> = w.as_write().expect("is Some");
        *slot.unlock().borrow_mut() = Some(oracle::payload(mc, 1));
    });
    // The oracle is consulted after *each* collection step, before anything traces or reads the slot.
    arena.finish_cycle();
    oracle::expect_alive(1);
    arena.finish_cycle();
    oracle::expect_alive(1);
    arena.mutate(|_, root| {
        let p = root.holder.as_ref().as_ref().unwrap().borrow().expect("slot was filled");
        oracle::check_read(&p, 1);
    });
    oracle::done("proj_as_write_plain");
}
