//@ expect: accept
//@ run: oracle
//@ twin: unlock_user_impl_forbid
//@ item: Unlock:UserType
//@ rule: a user `impl Unlock` forwarding to an *inline* lock: needs the `unsafe` keyword (no `unsafe impl`); covered
// Accept twin of unlock_user_impl_forbid. The wrapper stores its lock inline, so the barrier on the holder covers it.
use gc_arena::{Arena, Collect, Gc, Rootable, barrier::{Unlock, Write}, lock::RefLock};
use std::cell::RefCell;
#[path = "../../harness-api/src/oracle.rs"]
mod oracle;
use oracle::Payload;

type Slot<'gc> = RefLock<Option<Gc<'gc, Payload>>>;

#[derive(Collect)]
#[collect(no_drop)]
struct MyLock<'gc> {
    slot: Slot<'gc>,
}

impl<'gc> Unlock for MyLock<'gc> {
    type Unlocked = RefCell<Option<Gc<'gc, Payload>>>;
    // The `unsafe` keyword here is what the probe is about (an unsafe method of a safe trait).
    unsafe fn unlock_unchecked(&self) -> &Self::Unlocked {
        // SAFETY: forwards to the lock stored inline in `self`; same contract.
        unsafe { self.slot.unlock_unchecked() }
    }
}

#[derive(Collect)]
#[collect(no_drop)]
struct Root<'gc> {
    holder: Gc<'gc, MyLock<'gc>>,
}

fn main() {
    let mut arena = Arena::<Rootable![Root<'_>]>::new(|mc| Root {
        holder: Gc::new(mc, MyLock { slot: RefLock::new(None) }),
    });
    // Make the holder black: the store below happens in a fully marked arena.
    arena.finish_marking();
    arena.mutate(|mc, root| {
        let w: &Write<MyLock<'_>> = Gc::write(mc, root.holder);
        *w.unlock().borrow_mut() = Some(oracle::payload(mc, 1));
    });
    // The oracle is consulted after *each* collection step, before anything traces or reads the slot.
    arena.finish_cycle();
    oracle::expect_alive(1);
    arena.finish_cycle();
    oracle::expect_alive(1);
    arena.mutate(|_, root| {
        let p = root.holder.slot.borrow().expect("slot was filled");
        oracle::check_read(&p, 1);
    });
    oracle::done("unlock_user_impl");
}
