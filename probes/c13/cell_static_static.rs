//@ expect: accept
//@ run: oracle
//@ twin: cell_static_gc
//@ item: cell:Static
//@ rule: Static<T: 'static> is Collect (never traced): pointer-free data only
// A `Static<String>` in the root survives collections untouched.
use gc_arena::{Arena, Collect, Gc, Rootable, Static};
#[path = "../../harness-api/src/oracle.rs"]
mod oracle;
use oracle::Payload;

#[derive(Collect)]
#[collect(no_drop)]
struct Root<'gc> {
    anchor: Gc<'gc, Payload>,
    slot: Static<String>,
}

fn main() {
    let mut arena = Arena::<Rootable![Root<'_>]>::new(|mc| Root {
        anchor: oracle::payload(mc, 0),
        slot: Static(String::from("abc")),
    });
    arena.finish_marking();
    arena.finish_cycle();
    arena.finish_cycle();
    oracle::expect_alive(0);
    arena.mutate(|_, root| {
        assert_eq!(root.slot.0, "abc");
        oracle::check_read(&root.anchor, 0);
    });
    oracle::done("cell_static_static");
}
