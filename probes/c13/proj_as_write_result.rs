//@ expect: accept
//@ run: oracle
//@ twin: proj_as_write_plain
//@ item: proj:as_write_result
//@ rule: Barriered . as_write(Result) [Unique] is derivable and covered (both arms)
// `&Write<Result<Slot, Slot>>` destructured to `Result<&Write<Slot>, &Write<Slot>>`; one holder per arm.
use gc_arena::{Arena, Collect, Gc, Rootable, barrier::Write, lock::RefLock};
#[path = "../../harness-api/src/oracle.rs"]
mod oracle;
use oracle::Payload;

type Slot<'gc> = RefLock<Option<Gc<'gc, Payload>>>;

#[derive(Collect)]
#[collect(no_drop)]
struct Root<'gc> {
    holder: Gc<'gc, Result<Slot<'gc>, Slot<'gc>>>,
    holder_err: Gc<'gc, Result<Slot<'gc>, Slot<'gc>>>,
}

fn main() {
    let mut arena = Arena::<Rootable![Root<'_>]>::new(|mc| Root {
        holder: Gc::new(mc, Ok(RefLock::new(None))),
        holder_err: Gc::new(mc, Err(RefLock::new(None))),
    });
    // Make the holder black: the store below happens in a fully marked arena.
    arena.finish_marking();
    arena.mutate(|mc, root| {
        let ok: &Write<Slot<'_>> = Gc::write(mc, root.holder).as_write().ok().expect("is Ok");
        *ok.unlock().borrow_mut() = Some(oracle::payload(mc, 1));
        let err: &Write<Slot<'_>> = Gc::write(mc, root.holder_err).as_write().err().expect("is Err");
        *err.unlock().borrow_mut() = Some(oracle::payload(mc, 2));
    });
    // The oracle is consulted after *each* collection step, before anything traces or reads the slot.
    arena.finish_cycle();
    oracle::expect_alive(1);
    oracle::expect_alive(2);
    arena.finish_cycle();
    oracle::expect_alive(1);
    oracle::expect_alive(2);
    arena.mutate(|_, root| {
        let p = root.holder.as_ref().as_ref().ok().unwrap().borrow().expect("slot was filled");
        oracle::check_read(&p, 1);
        let q = root.holder_err.as_ref().as_ref().err().unwrap().borrow().expect("slot was filled");
        oracle::check_read(&q, 2);
    });
    oracle::done("proj_as_write_result");
}
