//@ expect: reject
//@ codes: E0606
//@ run: oracle
//@ twin: field_nested_ok
//@ item: field:postderef_gc
//@ rule: Field cannot pass through a Gc *after* the projection (field of type Gc<Slot> as Write<Slot>)
// The barrier is on `holder`; its field `inner` is a Gc to another (black) allocation. A deref coercion
// of the projected reference is stopped by the raw-pointer cast in field!. If accepted: exit 3.
use gc_arena::{Arena, Collect, Gc, Rootable, barrier::{Write, field}, lock::RefLock};
#[path = "../../harness-api/src/oracle.rs"]
mod oracle;
use oracle::Payload;

type Slot<'gc> = RefLock<Option<Gc<'gc, Payload>>>;

#[derive(Collect)]
#[collect(no_drop)]
struct Indirect<'gc> {
    inner: Gc<'gc, Slot<'gc>>,
}

#[derive(Collect)]
#[collect(no_drop)]
struct Root<'gc> {
    holder: Gc<'gc, Indirect<'gc>>,
}

fn main() {
    let mut arena = Arena::<Rootable![Root<'_>]>::new(|mc| Root {
        holder: Gc::new(mc, Indirect { inner: Gc::new(mc, RefLock::new(None)) }),
    });
    // Make the holder black: the store below happens in a fully marked arena.
    arena.finish_marking();
    arena.mutate(|mc, root| {
        let w: &Write<Indirect<'_>> = Gc::write(mc, root.holder);
        let slot: &Write<Slot<'_>> = field!(w, Indirect, inner);
        *slot.unlock().borrow_mut() = Some(oracle::payload(mc, 1));
    });
    // The oracle is consulted after *each* collection step, before anything traces or reads the slot.
    arena.finish_cycle();
    oracle::expect_alive(1);
    arena.finish_cycle();
    oracle::expect_alive(1);
    arena.mutate(|_, root| {
        let p = root.holder.inner.borrow().expect("slot was filled");
        oracle::check_read(&p, 1);
    });
    oracle::done("field_postderef_gc");
}
