//@ expect: accept
//@ run: oracle
//@ twin: field_on_plain_ref
//@ item: unlock_macro:ok
//@ rule: unlock!(w, T, f) = field!(w, T, f).unlock(); covered
// The shorthand macro on Gc::write.
use gc_arena::{Arena, Collect, Gc, Rootable, barrier::unlock, lock::RefLock};
#[path = "../../harness-api/src/oracle.rs"]
mod oracle;
use oracle::Payload;

type Slot<'gc> = RefLock<Option<Gc<'gc, Payload>>>;

#[derive(Collect)]
#[collect(no_drop)]
struct Holder<'gc> {
    tag: u32,
    slot: Slot<'gc>,
}

#[derive(Collect)]
#[collect(no_drop)]
struct Root<'gc> {
    holder: Gc<'gc, Holder<'gc>>,
}

fn main() {
    let mut arena = Arena::<Rootable![Root<'_>]>::new(|mc| Root {
        holder: Gc::new(mc, Holder { tag: 5, slot: RefLock::new(None) }),
    });
    // Make the holder black: the store below happens in a fully marked arena.
    arena.finish_marking();
    arena.mutate(|mc, root| {
        *unlock!(Gc::write(mc, root.holder), Holder, slot).borrow_mut() = Some(oracle::payload(mc, 1));
    });
    // The oracle is consulted after *each* collection step, before anything traces or reads the slot.
    arena.finish_cycle();
    oracle::expect_alive(1);
    arena.finish_cycle();
    oracle::expect_alive(1);
    arena.mutate(|_, root| {
        let p = root.holder.slot.borrow().expect("slot was filled");
        oracle::check_read(&p, 1);
    });
    oracle::done("unlock_macro_ok");
}
