//@ expect: reject
//@ codes: E0521
//@ run: oracle
//@ twin: ctor_from_static
//@ item: ctor:Write::from_static
//@ rule: origin Static is not available for a type mentioning 'gc (T: 'static fails) (F2-style)
// Twin of ctor_from_static on the pointer-holding sibling field. If accepted, the store is un-barriered
// on a black object and the run exits with 3.
use gc_arena::{Arena, Collect, Gc, Rootable, barrier::Write, lock::{Lock, RefLock}};
#[path = "../../harness-api/src/oracle.rs"]
mod oracle;
use oracle::Payload;

type Slot<'gc> = RefLock<Option<Gc<'gc, Payload>>>;

#[derive(Collect)]
#[collect(no_drop)]
struct Holder<'gc> {
    counter: Lock<u32>,
    slot: Slot<'gc>,
}

#[derive(Collect)]
#[collect(no_drop)]
struct Root<'gc> {
    holder: Gc<'gc, Holder<'gc>>,
}

fn main() {
    let mut arena = Arena::<Rootable![Root<'_>]>::new(|mc| Root {
        holder: Gc::new(mc, Holder { counter: Lock::new(0), slot: RefLock::new(None) }),
    });
    // Make the holder black: the store below happens in a fully marked arena.
    arena.finish_marking();
    arena.mutate(|mc, root| {
        let w: &Write<Slot<'_>> = Write::from_static(&root.holder.slot);
        *w.unlock().borrow_mut() = Some(oracle::payload(mc, 1));
    });
    // The oracle is consulted after *each* collection step, before anything traces or reads the slot.
    arena.finish_cycle();
    oracle::expect_alive(1);
    arena.finish_cycle();
    oracle::expect_alive(1);
    arena.mutate(|_, root| {
        let p = root.holder.slot.borrow().expect("slot was filled");
        oracle::check_read(&p, 1);
    });
    oracle::done("ctor_from_static_gc");
}
