//@ expect: reject
//@ codes: E0308
//@ run: oracle
//@ twin: field_box_ok
//@ item: field:prederef_rc
//@ rule: Field cannot pass through an Rc *before* the struct (`&Write<Rc<Holder>>`) (F2-style)
// from_mut on a second Rc handle of the black holder's struct, then field!. If accepted: exit 3.
use gc_arena::{Arena, Collect, Gc, Rootable, barrier::{Write, field}, lock::RefLock};
use std::rc::Rc;
#[path = "../../harness-api/src/oracle.rs"]
mod oracle;
use oracle::Payload;

type Slot<'gc> = RefLock<Option<Gc<'gc, Payload>>>;

#[derive(Collect)]
#[collect(no_drop)]
struct Holder<'gc> {
    tag: u32,
    slot: Slot<'gc>,
}

#[derive(Collect)]
#[collect(no_drop)]
struct Root<'gc> {
    holder: Gc<'gc, Rc<Holder<'gc>>>,
}

fn main() {
    let mut arena = Arena::<Rootable![Root<'_>]>::new(|mc| Root {
        holder: Gc::new(mc, Rc::new(Holder { tag: 5, slot: RefLock::new(None) })),
    });
    // Make the holder black: the store below happens in a fully marked arena.
    arena.finish_marking();
    arena.mutate(|mc, root| {
        let mut alias: Rc<Holder<'_>> = Rc::clone(&*root.holder);
        let w: &Write<Rc<Holder<'_>>> = Write::from_mut(&mut alias);
        let slot: &Write<Slot<'_>> = field!(w, Holder, slot);
        *slot.unlock().borrow_mut() = Some(oracle::payload(mc, 1));
    });
    // The oracle is consulted after *each* collection step, before anything traces or reads the slot.
    arena.finish_cycle();
    oracle::expect_alive(1);
    arena.finish_cycle();
    oracle::expect_alive(1);
    arena.mutate(|_, root| {
        let p = root.holder.slot.borrow().expect("slot was filled");
        oracle::check_read(&p, 1);
    });
    oracle::done("field_prederef_rc");
}
