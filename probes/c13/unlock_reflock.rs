//@ expect: accept
//@ run: oracle
//@ twin: private_cell
//@ item: Unlock:RefLock
//@ rule: Gc::unlock = Gc::write + Write::unlock (RefLock); covered
// The shorthand Gc::unlock(mc) on a Gc<RefLock<_>> yields the inner RefCell; store a fresh pointer.
use gc_arena::{Arena, Collect, Gc, Rootable, barrier::Write, lock::RefLock};
#[path = "../../harness-api/src/oracle.rs"]
mod oracle;
use oracle::Payload;

type Slot<'gc> = RefLock<Option<Gc<'gc, Payload>>>;

#[derive(Collect)]
#[collect(no_drop)]
struct Root<'gc> {
    holder: Gc<'gc, Slot<'gc>>,
}

fn main() {
    let mut arena = Arena::<Rootable![Root<'_>]>::new(|mc| Root {
        holder: Gc::new(mc, RefLock::new(None)),
    });
    // Make the holder black: the store below happens in a fully marked arena.
    arena.finish_marking();
    arena.mutate(|mc, root| {
        *root.holder.unlock(mc).borrow_mut() = Some(oracle::payload(mc, 1));
    });
    // The oracle is consulted after *each* collection step, before anything traces or reads the slot.
    arena.finish_cycle();
    oracle::expect_alive(1);
    arena.finish_cycle();
    oracle::expect_alive(1);
    arena.mutate(|_, root| {
        let p = root.holder.borrow().expect("slot was filled");
        oracle::check_read(&p, 1);
    });
    oracle::done("unlock_reflock");
}
