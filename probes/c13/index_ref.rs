//@ expect: reject
//@ codes: E0308
//@ run: oracle
//@ twin: index_slice_usize
//@ item: IndexWrite:Ref
//@ rule: Exclusive . Index through &[T] [Shared] must not be derivable (F2-style)
// from_mut on a copy of a slice reference into the black holder, then index: only auto-deref out of
// the Write wrapper type-checks, giving a plain `&Slot`. If accepted, the run exits with 3.
use gc_arena::{Arena, Collect, Gc, Rootable, barrier::Write, lock::RefLock};
#[path = "../../harness-api/src/oracle.rs"]
mod oracle;
use oracle::Payload;

type Slot<'gc> = RefLock<Option<Gc<'gc, Payload>>>;

#[derive(Collect)]
#[collect(no_drop)]
struct Root<'gc> {
    holder: Gc<'gc, Box<[Slot<'gc>]>>,
}

fn main() {
    let mut arena = Arena::<Rootable![Root<'_>]>::new(|mc| Root {
        holder: Gc::new(mc, vec![RefLock::new(None), RefLock::new(None), RefLock::new(None)].into_boxed_slice()),
    });
    // Make the holder black: the store below happens in a fully marked arena.
    arena.finish_marking();
    arena.mutate(|mc, root| {
        let mut alias: &[Slot<'_>] = &root.holder[..];
        let forged: &Write<Slot<'_>> = &Write::from_mut(&mut alias)[2];
        *forged.unlock().borrow_mut() = Some(oracle::payload(mc, 1));
    });
    // The oracle is consulted after *each* collection step, before anything traces or reads the slot.
    arena.finish_cycle();
    oracle::expect_alive(1);
    arena.finish_cycle();
    oracle::expect_alive(1);
    arena.mutate(|_, root| {
        let p = root.holder[2].borrow().expect("slot was filled");
        oracle::check_read(&p, 1);
    });
    oracle::done("index_ref");
}
