//@ expect: reject
//@ codes: E0004
//@ twin: field_enum_single
//@ item: field:enum
//@ rule: field! on an enum with several variants: the variant pattern is refutable
// Twin of field_ok with an enum variant path as the `$type`.
use gc_arena::{Arena, Collect, Gc, Rootable, barrier::{Write, field}, lock::RefLock};
#[path = "../../harness-api/src/oracle.rs"]
mod oracle;
use oracle::Payload;

type Slot<'gc> = RefLock<Option<Gc<'gc, Payload>>>;

#[derive(Collect)]
#[collect(no_drop)]
enum Shape<'gc> {
    Full { tag: u32, slot: Slot<'gc> },
    Empty,
}

#[derive(Collect)]
#[collect(no_drop)]
struct Root<'gc> {
    holder: Gc<'gc, Shape<'gc>>,
}

fn main() {
    let mut arena = Arena::<Rootable![Root<'_>]>::new(|mc| Root {
        holder: Gc::new(mc, Shape::Full { tag: 5, slot: RefLock::new(None) }),
    });
    // Make the holder black: the store below happens in a fully marked arena.
    arena.finish_marking();
    arena.mutate(|mc, root| {
        let w: &Write<Shape<'_>> = Gc::write(mc, root.holder);
        let slot: &Write<Slot<'_>> = field!(w, Shape::Full, slot);
        *slot.unlock().borrow_mut() = Some(oracle::payload(mc, 1));
    });
    // The oracle is consulted after *each* collection step, before anything traces or reads the slot.
    arena.finish_cycle();
    oracle::expect_alive(1);
    arena.finish_cycle();
    oracle::expect_alive(1);
    arena.mutate(|_, root| {
        let Shape::Full { slot, .. } = root.holder.as_ref() else { unreachable!() };
        let p = slot.borrow().expect("slot was filled");
        oracle::check_read(&p, 1);
    });
    oracle::done("field_enum");
}
