//@ expect: accept
//@ run: oracle
//@ twin: index_rc
//@ item: IndexWrite:Vec:usize
//@ rule: Barriered . Index(Vec, usize) [Unique] is derivable and covered
// Gc::write on the container, index the `&Write<_>` directly, unlock, store.
use gc_arena::{Arena, Collect, Gc, Rootable, barrier::Write, lock::RefLock};
#[path = "../../harness-api/src/oracle.rs"]
mod oracle;
use oracle::Payload;

type Slot<'gc> = RefLock<Option<Gc<'gc, Payload>>>;

#[derive(Collect)]
#[collect(no_drop)]
struct Root<'gc> {
    holder: Gc<'gc, Vec<Slot<'gc>>>,
}

fn main() {
    let mut arena = Arena::<Rootable![Root<'_>]>::new(|mc| Root {
        holder: Gc::new(mc, vec![RefLock::new(None), RefLock::new(None), RefLock::new(None)]),
    });
    // Make the holder black: the store below happens in a fully marked arena.
    arena.finish_marking();
    arena.mutate(|mc, root| {
        let slot: &Write<Slot<'_>> = &Gc::write(mc, root.holder)[1];
        *slot.unlock().borrow_mut() = Some(oracle::payload(mc, 1));
    });
    // The oracle is consulted after *each* collection step, before anything traces or reads the slot.
    arena.finish_cycle();
    oracle::expect_alive(1);
    arena.finish_cycle();
    oracle::expect_alive(1);
    arena.mutate(|_, root| {
        let p = root.holder[1].borrow().expect("slot was filled");
        oracle::check_read(&p, 1);
    });
    oracle::done("index_vec_usize");
}
