//@ expect: reject
//@ codes: E0308,E0606
//@ twin: field_fn_ok
//@ item: field:wrong_type
//@ rule: Field yields exactly the field's type (f64 is not i64)
// Shape taken from tests/ui/bad_write_field_projections.rs; twin field_fn_ok.
use gc_arena::{
    Gc,
    barrier::{Write, field},
};

struct Foo<'gc> {
    foo: i32,
    bar: f64,
    baz: &'static u32,
    quux: Gc<'gc, u32>,
}

        fn projection<'a, 'gc>(v: &'a Write<Foo<'gc>>) -> &'a Write<i64> {
            field!(v, Foo, bar)
        }

        fn main() {}
