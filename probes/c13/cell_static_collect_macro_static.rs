//@ expect: accept
//@ run: oracle
//@ twin: cell_static_collect_macro_gc
//@ item: cell:Cell:static_collect
//@ rule: static_collect!(<P..> Type) with a 'static type: accepted, and a plain Cell in it can only hold 'static data
use gc_arena::{static_collect, Arena, Gc, Rootable};
use std::cell::Cell;
#[path = "../../harness-api/src/oracle.rs"]
mod oracle;

struct Slot<T>(Cell<Option<T>>);

static_collect!(<T> Slot<T>);

fn main() {
    let mut arena = Arena::<Rootable![Gc<'_, Slot<u32>>]>::new(|mc| Gc::new(mc, Slot(Cell::new(None))));
    arena.finish_marking();
    arena.mutate(|_, root| {
        root.0.set(Some(7));
    });
    arena.finish_cycle();
    arena.mutate(|_, root| assert_eq!(root.0.get(), Some(7)));
    oracle::done("cell_static_collect_macro_static");
}
