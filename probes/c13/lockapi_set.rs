//@ expect: accept
//@ run: oracle
//@ twin: lockapi_set_plain
//@ item: lockapi:set
//@ rule: Gc<Lock<T>>::set(mc, v) barriers, then sets; covered
// The safe helper on Gc<Lock<_>>.
use gc_arena::{Arena, Collect, Gc, Rootable, lock::Lock};
#[path = "../../harness-api/src/oracle.rs"]
mod oracle;
use oracle::Payload;

type LSlot<'gc> = Lock<Option<Gc<'gc, Payload>>>;

#[derive(Collect)]
#[collect(no_drop)]
struct Root<'gc> {
    holder: Gc<'gc, LSlot<'gc>>,
}

fn main() {
    let mut arena = Arena::<Rootable![Root<'_>]>::new(|mc| Root {
        holder: Gc::new(mc, Lock::new(None)),
    });
    // Make the holder black: the store below happens in a fully marked arena.
    arena.finish_marking();
    arena.mutate(|mc, root| {
        root.holder.set(mc, Some(oracle::payload(mc, 1)));
    });
    // The oracle is consulted after *each* collection step, before anything traces or reads the slot.
    arena.finish_cycle();
    oracle::expect_alive(1);
    arena.finish_cycle();
    oracle::expect_alive(1);
    arena.mutate(|_, root| {
        let p = root.holder.get().expect("slot was filled");
        oracle::check_read(&p, 1);
    });
    oracle::done("lockapi_set");
}
