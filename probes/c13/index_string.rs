//@ expect: reject
//@ codes: E0308
//@ twin: index_vec_range
//@ item: IndexWrite:String
//@ rule: Index(String, Range) is not an IndexWrite impl (harmless, but not derivable)
// Twin of index_vec_range on a Gc<String>: indexing leaves the Write wrapper and yields a plain `&str`.
use gc_arena::{Arena, Collect, Gc, Rootable, barrier::Write};

#[derive(Collect)]
#[collect(no_drop)]
struct Root<'gc> {
    holder: Gc<'gc, String>,
}

fn main() {
    let arena = Arena::<Rootable![Root<'_>]>::new(|mc| Root {
        holder: Gc::new(mc, String::from("abc")),
    });
    arena.mutate(|mc, root| {
        let s: &Write<str> = &Gc::write(mc, root.holder)[1..];
        assert_eq!(s.len(), 2);
    });
}
