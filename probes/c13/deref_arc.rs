//@ expect: reject
//@ codes: E0277
//@ run: oracle
//@ twin: deref_box
//@ item: DerefWrite:Arc
//@ rule: Exclusive . Deref(Arc) [Shared] must not be derivable (F2)
// F2 with Arc in place of Rc (see deref_rc). If accepted, the run exits with 3.
use gc_arena::{Arena, Collect, Gc, Rootable, barrier::Write, lock::RefLock};
use std::sync::Arc;
#[path = "../../harness-api/src/oracle.rs"]
mod oracle;
use oracle::Payload;

type Slot<'gc> = RefLock<Option<Gc<'gc, Payload>>>;

#[derive(Collect)]
#[collect(no_drop)]
struct Root<'gc> {
    holder: Gc<'gc, Arc<Slot<'gc>>>,
}

fn main() {
    let mut arena = Arena::<Rootable![Root<'_>]>::new(|mc| Root {
        holder: Gc::new(mc, Arc::new(RefLock::new(None))),
    });
    // Make the holder black: the store below happens in a fully marked arena.
    arena.finish_marking();
    arena.mutate(|mc, root| {
        // A second owner of the same allocation, held on the stack: exclusive access to the *handle*.
        let mut alias: Arc<Slot<'_>> = Arc::clone(&*root.holder);
        let forged: &Write<Slot<'_>> = Write::from_mut(&mut alias).as_deref();
        *forged.unlock().borrow_mut() = Some(oracle::payload(mc, 1));
    });
    // The oracle is consulted after *each* collection step, before anything traces or reads the slot.
    arena.finish_cycle();
    oracle::expect_alive(1);
    arena.finish_cycle();
    oracle::expect_alive(1);
    arena.mutate(|_, root| {
        let p = root.holder.borrow().expect("slot was filled");
        oracle::check_read(&p, 1);
    });
    oracle::done("deref_arc");
}
