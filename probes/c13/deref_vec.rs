//@ expect: accept
//@ run: oracle
//@ twin: deref_string
//@ item: DerefWrite:Vec
//@ rule: Barriered . Deref(Vec) [Unique] . Index(Slice:usize) is derivable and covered
// Gc::write on the holder, as_deref through the uniquely owning Vec to its slice, index, unlock, store.
use gc_arena::{Arena, Collect, Gc, Rootable, barrier::Write, lock::RefLock};
#[path = "../../harness-api/src/oracle.rs"]
mod oracle;
use oracle::Payload;

type Slot<'gc> = RefLock<Option<Gc<'gc, Payload>>>;

#[derive(Collect)]
#[collect(no_drop)]
struct Root<'gc> {
    holder: Gc<'gc, Vec<Slot<'gc>>>,
}

fn main() {
    let mut arena = Arena::<Rootable![Root<'_>]>::new(|mc| Root {
        holder: Gc::new(mc, vec![RefLock::new(None), RefLock::new(None), RefLock::new(None)]),
    });
    // Make the holder black: the store below happens in a fully marked arena.
    arena.finish_marking();
    arena.mutate(|mc, root| {
        let w: &Write<Vec<Slot<'_>>> = Gc::write(mc, root.holder);
        let slice: &Write<[Slot<'_>]> = w.as_deref();
        *slice[0].unlock().borrow_mut() = Some(oracle::payload(mc, 1));
    });
    // The oracle is consulted after *each* collection step, before anything traces or reads the slot.
    arena.finish_cycle();
    oracle::expect_alive(1);
    arena.finish_cycle();
    oracle::expect_alive(1);
    arena.mutate(|_, root| {
        let p = root.holder[0].borrow().expect("slot was filled");
        oracle::check_read(&p, 1);
    });
    oracle::done("deref_vec");
}
