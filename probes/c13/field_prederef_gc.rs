//@ expect: reject
//@ codes: E0308
//@ run: oracle
//@ twin: field_ok
//@ item: field:prederef_gc
//@ rule: Field cannot pass through a Gc *before* the struct (`&Write<Gc<Holder>>`)
// The barrier is on `outer`; projecting a field of the struct behind the contained Gc would reach the
// inner (black) allocation. The struct pattern does not auto-deref. If accepted: exit 3.
use gc_arena::{Arena, Collect, Gc, Rootable, barrier::{Write, field}, lock::RefLock};
#[path = "../../harness-api/src/oracle.rs"]
mod oracle;
use oracle::Payload;

type Slot<'gc> = RefLock<Option<Gc<'gc, Payload>>>;

#[derive(Collect)]
#[collect(no_drop)]
struct Holder<'gc> {
    tag: u32,
    slot: Slot<'gc>,
}

#[derive(Collect)]
#[collect(no_drop)]
struct Root<'gc> {
    outer: Gc<'gc, Gc<'gc, Holder<'gc>>>,
}

fn main() {
    let mut arena = Arena::<Rootable![Root<'_>]>::new(|mc| Root {
        outer: Gc::new(mc, Gc::new(mc, Holder { tag: 5, slot: RefLock::new(None) })),
    });
    // Make the holder black: the store below happens in a fully marked arena.
    arena.finish_marking();
    arena.mutate(|mc, root| {
        let w: &Write<Gc<'_, Holder<'_>>> = Gc::write(mc, root.outer);
        let slot: &Write<Slot<'_>> = field!(w, Holder, slot);
        *slot.unlock().borrow_mut() = Some(oracle::payload(mc, 1));
    });
    // The oracle is consulted after *each* collection step, before anything traces or reads the slot.
    arena.finish_cycle();
    oracle::expect_alive(1);
    arena.finish_cycle();
    oracle::expect_alive(1);
    arena.mutate(|_, root| {
        let p = root.outer.slot.borrow().expect("slot was filled");
        oracle::check_read(&p, 1);
    });
    oracle::done("field_prederef_gc");
}
