//@ expect: accept
//@ run: oracle
//@ twin: unsafe_as_once_cell
//@ item: Unlock:OnceLock
//@ rule: Barriered . Unlock(OnceLock) gives the OnceCell; covered
// Gc::write(..).unlock() on a Gc<OnceLock<_>> yields the inner OnceCell; initialise it with a fresh pointer.
use gc_arena::{Arena, Collect, Gc, Rootable, barrier::Write, lock::OnceLock};
#[path = "../../harness-api/src/oracle.rs"]
mod oracle;
use oracle::Payload;

#[derive(Collect)]
#[collect(no_drop)]
struct Root<'gc> {
    holder: Gc<'gc, OnceLock<Gc<'gc, Payload>>>,
}

fn main() {
    let mut arena = Arena::<Rootable![Root<'_>]>::new(|mc| Root {
        holder: Gc::new(mc, OnceLock::new()),
    });
    // Make the holder black: the store below happens in a fully marked arena.
    arena.finish_marking();
    arena.mutate(|mc, root| {
        let w: &Write<OnceLock<Gc<'_, Payload>>> = Gc::write(mc, root.holder);
        w.unlock().set(oracle::payload(mc, 1)).expect("cell was empty");
    });
    // The oracle is consulted after *each* collection step, before anything traces or reads the slot.
    arena.finish_cycle();
    oracle::expect_alive(1);
    arena.finish_cycle();
    oracle::expect_alive(1);
    arena.mutate(|_, root| {
        let p = *root.holder.get().expect("slot was filled");
        oracle::check_read(&p, 1);
    });
    oracle::done("unlock_oncelock");
}
