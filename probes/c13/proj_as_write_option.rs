//@ expect: accept
//@ run: oracle
//@ twin: proj_as_write_plain
//@ item: proj:as_write_option
//@ rule: Barriered . as_write(Option) [Unique] is derivable and covered
// `&Write<Option<Slot>>` destructured to `Option<&Write<Slot>>`; unlock and store.
use gc_arena::{Arena, Collect, Gc, Rootable, barrier::Write, lock::RefLock};
#[path = "../../harness-api/src/oracle.rs"]
mod oracle;
use oracle::Payload;

type Slot<'gc> = RefLock<Option<Gc<'gc, Payload>>>;

#[derive(Collect)]
#[collect(no_drop)]
struct Root<'gc> {
    holder: Gc<'gc, Option<Slot<'gc>>>,
}

fn main() {
    let mut arena = Arena::<Rootable![Root<'_>]>::new(|mc| Root {
        holder: Gc::new(mc, Some(RefLock::new(None))),
    });
    // Make the holder black: the store below happens in a fully marked arena.
    arena.finish_marking();
    arena.mutate(|mc, root| {
        let w: &Write<Option<Slot<'_>>> = Gc::write(mc, root.holder);
        let slot: &Write<Slot<'_>> = w.as_write().expect("is Some");
        *slot.unlock().borrow_mut() = Some(oracle::payload(mc, 1));
    });
    // The oracle is consulted after *each* collection step, before anything traces or reads the slot.
    arena.finish_cycle();
    oracle::expect_alive(1);
    arena.finish_cycle();
    oracle::expect_alive(1);
    arena.mutate(|_, root| {
        let p = root.holder.as_ref().as_ref().unwrap().borrow().expect("slot was filled");
        oracle::check_read(&p, 1);
    });
    oracle::done("proj_as_write_option");
}
