//@ expect: accept
//@ run: oracle
//@ twin: lockapi_borrow_mut_plain
//@ item: lockapi:borrow_mut
//@ rule: Gc<RefLock<T>>::borrow_mut(mc) barriers, then borrows; covered
// The safe helper on Gc<RefLock<_>>.
use gc_arena::{Arena, Collect, Gc, Rootable, lock::RefLock};
#[path = "../../harness-api/src/oracle.rs"]
mod oracle;
use oracle::Payload;

type Slot<'gc> = RefLock<Option<Gc<'gc, Payload>>>;

#[derive(Collect)]
#[collect(no_drop)]
struct Root<'gc> {
    holder: Gc<'gc, Slot<'gc>>,
}

fn main() {
    let mut arena = Arena::<Rootable![Root<'_>]>::new(|mc| Root {
        holder: Gc::new(mc, RefLock::new(None)),
    });
    // Make the holder black: the store below happens in a fully marked arena.
    arena.finish_marking();
    arena.mutate(|mc, root| {
        *root.holder.borrow_mut(mc) = Some(oracle::payload(mc, 1));
    });
    // The oracle is consulted after *each* collection step, before anything traces or reads the slot.
    arena.finish_cycle();
    oracle::expect_alive(1);
    arena.finish_cycle();
    oracle::expect_alive(1);
    arena.mutate(|_, root| {
        let p = root.holder.borrow().expect("slot was filled");
        oracle::check_read(&p, 1);
    });
    oracle::done("lockapi_borrow_mut");
}
