//@ expect: accept
//@ run: oracle
//@ twin: lockapi_borrow_mut_plain
//@ item: lockapi:take
//@ rule: RefLock::take needs no Write: it can only remove pointers (Default holds none)
// `take` on a plain `&RefLock` of a black holder replaces the content by None without a barrier. The
// removed pointer is dropped from the graph and collected; an unrelated sibling pointer survives.
use gc_arena::{Arena, Collect, Gc, Rootable, barrier::Write, lock::RefLock};
#[path = "../../harness-api/src/oracle.rs"]
mod oracle;
use oracle::Payload;

type Slot<'gc> = RefLock<Option<Gc<'gc, Payload>>>;

#[derive(Collect)]
#[collect(no_drop)]
struct Root<'gc> {
    holder: Gc<'gc, Slot<'gc>>,
    other: Gc<'gc, Slot<'gc>>,
}

fn main() {
    let mut arena = Arena::<Rootable![Root<'_>]>::new(|mc| Root {
        holder: Gc::new(mc, RefLock::new(Some(oracle::payload(mc, 1)))),
        other: Gc::new(mc, RefLock::new(Some(oracle::payload(mc, 2)))),
    });
    // Make the holder black: the store below happens in a fully marked arena.
    arena.finish_marking();
    arena.mutate(|mc, root| {
        let _ = mc;
        let old: Option<Gc<'_, Payload>> = root.holder.as_ref().take();
        oracle::check_read(&old.expect("was filled"), 1);
    });
    // The old pointer left the graph: two full cycles later its payload was destructed exactly once.
    arena.finish_cycle();
    oracle::expect_alive(2);
    arena.finish_cycle();
    oracle::expect_alive(2);
    oracle::expect_dropped_once(1);
    arena.mutate(|_, root| {
        assert!(root.holder.borrow().is_none());
        let p = root.other.borrow().expect("sibling untouched");
        oracle::check_read(&p, 2);
    });
    oracle::done("lockapi_take_reflock");
}
