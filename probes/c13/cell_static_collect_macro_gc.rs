//@ expect: reject
//@ codes: E0521
//@ run: oracle
//@ twin: cell_static_collect_macro_static
//@ item: cell:Cell:static_collect
//@ rule: static_collect!(<P..> Type) emits `where Type: 'static`: a type that mentions the brand 'gc (the lifetime the macro itself introduces) never gets the empty, untraced Collect impl, so a plain Cell in it cannot hold a pointer
// `static_collect!(<T> Slot<'gc, T>)` on a struct holding Cell<Option<Gc<'gc, T>>>: an un-barriered, un-traced slot. If accepted: exit 3.
use gc_arena::{static_collect, Arena, Gc, Rootable};
use std::cell::Cell;
#[path = "../../harness-api/src/oracle.rs"]
mod oracle;
use oracle::Payload;

struct Slot<'gc, T>(Cell<Option<Gc<'gc, T>>>);

static_collect!(<T> Slot<'gc, T>);

fn main() {
    let mut arena = Arena::<Rootable![Gc<'_, Slot<'_, Payload>>]>::new(|mc| Gc::new(mc, Slot(Cell::new(None))));
    arena.finish_marking();
    arena.mutate(|mc, root| {
        root.0.set(Some(oracle::payload(mc, 1)));
    });
    arena.finish_cycle();
    oracle::expect_alive(1);
    arena.finish_cycle();
    oracle::expect_alive(1);
    arena.mutate(|_, root| {
        let p = root.0.get().expect("slot was filled");
        oracle::check_read(&p, 1);
    });
    oracle::done("cell_static_collect_macro_gc");
}
