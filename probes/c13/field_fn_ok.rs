//@ expect: accept
//@ twin: field_wrong_type
//@ item: field:ok
//@ rule: Field on `&Write<Foo>` with the field's own type is derivable (function shape of the ui test)
// Accept twin of the function-shaped rejects taken from tests/ui/bad_write_field_projections.rs.
use gc_arena::{
    Gc,
    barrier::{Write, field},
};

struct Foo<'gc> {
    foo: i32,
    bar: f64,
    baz: &'static u32,
    quux: Gc<'gc, u32>,
}

    fn projection_ok<'a, 'gc>(v: &'a Write<Foo<'gc>>) -> &'a Write<i32> {
        field!(v, Foo, foo)
    }

    fn main() {}
