//@ expect: accept
//@ run: oracle
//@ twin: index_ref
//@ item: IndexWrite:Slice:RangeFrom
//@ rule: Barriered . Deref(Box) . Index([T], RangeFrom<usize>) [Unique] is derivable and covered
// Gc::write on a boxed slice, as_deref to `&Write<[Slot]>`, index by RangeFrom<usize> (then by usize), unlock, store.
use gc_arena::{Arena, Collect, Gc, Rootable, barrier::Write, lock::RefLock};
#[path = "../../harness-api/src/oracle.rs"]
mod oracle;
use oracle::Payload;

type Slot<'gc> = RefLock<Option<Gc<'gc, Payload>>>;

#[derive(Collect)]
#[collect(no_drop)]
struct Root<'gc> {
    holder: Gc<'gc, Box<[Slot<'gc>]>>,
}

fn main() {
    let mut arena = Arena::<Rootable![Root<'_>]>::new(|mc| Root {
        holder: Gc::new(mc, vec![RefLock::new(None), RefLock::new(None), RefLock::new(None)].into_boxed_slice()),
    });
    // Make the holder black: the store below happens in a fully marked arena.
    arena.finish_marking();
    arena.mutate(|mc, root| {
        let slice: &Write<[Slot<'_>]> = Gc::write(mc, root.holder).as_deref();
        let slot: &Write<Slot<'_>> = &slice[1..][1];
        *slot.unlock().borrow_mut() = Some(oracle::payload(mc, 1));
    });
    // The oracle is consulted after *each* collection step, before anything traces or reads the slot.
    arena.finish_cycle();
    oracle::expect_alive(1);
    arena.finish_cycle();
    oracle::expect_alive(1);
    arena.mutate(|_, root| {
        let p = root.holder[2].borrow().expect("slot was filled");
        oracle::check_read(&p, 1);
    });
    oracle::done("index_slice_range_from");
}
