//@ expect: accept
//@ run: oracle
//@ twin: ctor_assume_no_unsafe
//@ item: ctor:Write::assume
//@ rule: Write::assume inside `unsafe` after a manual barrier: the documented contract, covered
// The accept twin: the caller applies the barrier by hand and takes responsibility with `unsafe`.
use gc_arena::{Arena, Collect, Gc, Rootable, barrier::Write, lock::RefLock};
#[path = "../../harness-api/src/oracle.rs"]
mod oracle;
use oracle::Payload;

type Slot<'gc> = RefLock<Option<Gc<'gc, Payload>>>;

#[derive(Collect)]
#[collect(no_drop)]
struct Root<'gc> {
    holder: Gc<'gc, Slot<'gc>>,
}

fn main() {
    let mut arena = Arena::<Rootable![Root<'_>]>::new(|mc| Root {
        holder: Gc::new(mc, RefLock::new(None)),
    });
    // Make the holder black: the store below happens in a fully marked arena.
    arena.finish_marking();
    arena.mutate(|mc, root| {
        mc.backward_barrier(Gc::erase(root.holder), None);
        // SAFETY (probe is about `unsafe` being required): the barrier on the holder was applied just above.
        let w: &Write<Slot<'_>> = unsafe { Write::assume(root.holder.as_ref()) };
        *w.unlock().borrow_mut() = Some(oracle::payload(mc, 1));
    });
    // The oracle is consulted after *each* collection step, before anything traces or reads the slot.
    arena.finish_cycle();
    oracle::expect_alive(1);
    arena.finish_cycle();
    oracle::expect_alive(1);
    arena.mutate(|_, root| {
        let p = root.holder.borrow().expect("slot was filled");
        oracle::check_read(&p, 1);
    });
    oracle::done("ctor_assume_unsafe");
}
