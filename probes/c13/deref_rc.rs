//@ expect: reject
//@ codes: E0277
//@ run: oracle
//@ twin: deref_box
//@ item: DerefWrite:Rc
//@ rule: Exclusive . Deref(Rc) [Shared] must not be derivable (F2)
// F2: `Write::from_mut(&mut rc).as_deref()` forges an un-barriered `&Write<T>` for data that is shared
// with an already allocated (black) object. Must be rejected since `Rc<T>: DerefWrite` was removed. If
// it is ever accepted again, running it demonstrates the lost pointer (exit code 3).
use gc_arena::{Arena, Collect, Gc, Rootable, barrier::Write, lock::RefLock};
use std::rc::Rc;
#[path = "../../harness-api/src/oracle.rs"]
mod oracle;
use oracle::Payload;

type Slot<'gc> = RefLock<Option<Gc<'gc, Payload>>>;

#[derive(Collect)]
#[collect(no_drop)]
struct Root<'gc> {
    holder: Gc<'gc, Rc<Slot<'gc>>>,
}

fn main() {
    let mut arena = Arena::<Rootable![Root<'_>]>::new(|mc| Root {
        holder: Gc::new(mc, Rc::new(RefLock::new(None))),
    });
    arena.finish_marking();
    arena.mutate(|mc, root| {
        // A second owner of the same allocation, held on the stack: exclusive access to the *handle*.
        let mut alias: Rc<Slot<'_>> = Rc::clone(&*root.holder);
        let forged: &Write<Slot<'_>> = Write::from_mut(&mut alias).as_deref();
        *forged.unlock().borrow_mut() = Some(oracle::payload(mc, 1));
    });
    // The oracle is consulted after *each* collection step, before anything traces or reads the slot.
    arena.finish_cycle();
    oracle::expect_alive(1);
    arena.finish_cycle();
    oracle::expect_alive(1);
    arena.mutate(|_, root| {
        let p = root.holder.borrow().expect("slot was filled");
        oracle::check_read(&p, 1);
    });
    oracle::done("deref_rc");
}
