//@ expect: accept
//@ run: oracle
//@ twin: cell_cell_gc
//@ item: cell:Cell
//@ rule: Cell<T: 'static> is Collect: plain Cell may hold pointer-free data only
// A `Cell<u32>` in the root is mutated through a shared reference in `mutate`, no barrier needed.
use gc_arena::{Arena, Collect, Gc, Rootable};
use std::cell::Cell;
#[path = "../../harness-api/src/oracle.rs"]
mod oracle;
use oracle::Payload;

#[derive(Collect)]
#[collect(no_drop)]
struct Root<'gc> {
    anchor: Gc<'gc, Payload>,
    slot: Cell<u32>,
}

fn main() {
    let mut arena = Arena::<Rootable![Root<'_>]>::new(|mc| Root {
        anchor: oracle::payload(mc, 0),
        slot: Cell::new(0),
    });
    arena.finish_marking();
    arena.mutate(|mc, root| {
        let _ = mc;
        root.slot.set(7);
    });
    arena.finish_cycle();
    arena.finish_cycle();
    oracle::expect_alive(0);
    arena.mutate(|_, root| {
        assert_eq!(root.slot.get(), 7);
        oracle::check_read(&root.anchor, 0);
    });
    oracle::done("cell_cell_static");
}
