//@ expect: reject
//@ codes: E0277
//@ run: oracle
//@ twin: cell_refcell_static
//@ item: cell:Mutex
//@ rule: std Mutex has no Collect impl at all (F2-style)
// A Mutex holding a pointer would be an un-barriered slot. If accepted: exit 3.
use gc_arena::{Arena, Collect, Gc, Rootable};
use std::sync::Mutex;
#[path = "../../harness-api/src/oracle.rs"]
mod oracle;
use oracle::Payload;

#[derive(Collect)]
#[collect(no_drop)]
struct Root<'gc> {
    anchor: Gc<'gc, Payload>,
    slot: Mutex<Option<Gc<'gc, Payload>>>,
}

fn main() {
    let mut arena = Arena::<Rootable![Root<'_>]>::new(|mc| Root {
        anchor: oracle::payload(mc, 0),
        slot: Mutex::new(None),
    });
    arena.finish_marking();
    arena.mutate(|mc, root| {
        *root.slot.lock().unwrap() = Some(oracle::payload(mc, 1));
    });
    // The oracle is consulted after *each* collection step, before anything traces or reads the slot.
    arena.finish_cycle();
    oracle::expect_alive(1);
    arena.finish_cycle();
    oracle::expect_alive(1);
    oracle::expect_alive(0);
    arena.mutate(|_, root| {
        let p = root.slot.lock().unwrap().expect("slot was filled");
        oracle::check_read(&p, 1);
    });
    oracle::done("cell_mutex_gc");
}
