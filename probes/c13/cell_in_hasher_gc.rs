//@ expect: reject
//@ codes: E0521
//@ run: oracle
//@ twin: cell_cell_static
//@ item: cell:Cell:hasher
//@ rule: HashMap<K, V, S> / HashSet<T, S> are Collect only for S: 'static: the hasher state is never traced, so a plain Cell in it must not be able to hold a pointer
// A BuildHasher whose state is a Cell<Option<Gc>>: an un-barriered, un-traced slot inside a Gc-allocated map. If accepted: exit 3.
use gc_arena::{Arena, Collect, Gc, Rootable};
use std::cell::Cell;
use std::collections::HashMap;
use std::collections::hash_map::DefaultHasher;
use std::hash::BuildHasher;
#[path = "../../harness-api/src/oracle.rs"]
mod oracle;
use oracle::Payload;

struct Spy<'gc> {
    last: Cell<Option<Gc<'gc, Payload>>>,
}
impl<'gc> BuildHasher for Spy<'gc> {
    type Hasher = DefaultHasher;
    fn build_hasher(&self) -> DefaultHasher {
        DefaultHasher::new()
    }
}

#[derive(Collect)]
#[collect(no_drop)]
struct Root<'gc> {
    anchor: Gc<'gc, Payload>,
    table: Gc<'gc, HashMap<u32, u32, Spy<'gc>>>,
}

fn main() {
    let mut arena = Arena::<Rootable![Root<'_>]>::new(|mc| Root {
        anchor: oracle::payload(mc, 0),
        table: Gc::new(mc, HashMap::with_hasher(Spy { last: Cell::new(None) })),
    });
    arena.finish_marking();
    arena.mutate(|mc, root| {
        root.table.hasher().last.set(Some(oracle::payload(mc, 1)));
    });
    arena.finish_cycle();
    oracle::expect_alive(1);
    arena.finish_cycle();
    oracle::expect_alive(1);
    oracle::expect_alive(0);
    arena.mutate(|_, root| {
        let p = root.table.hasher().last.get().expect("slot was filled");
        oracle::check_read(&p, 1);
    });
    oracle::done("cell_in_hasher_gc");
}
