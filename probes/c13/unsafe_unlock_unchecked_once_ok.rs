//@ expect: accept
//@ run: oracle
//@ twin: unsafe_unlock_unchecked_once
//@ item: unsafe:unlock_unchecked
//@ rule: Unlock::unlock_unchecked on a OnceLock inside `unsafe` after a manual barrier: the documented contract, covered
// The accept twin: the caller applies the barrier by hand and takes responsibility with `unsafe`.
use gc_arena::{Arena, Collect, Gc, Rootable, barrier::Unlock, lock::OnceLock};
#[path = "../../harness-api/src/oracle.rs"]
mod oracle;
use oracle::Payload;

#[derive(Collect)]
#[collect(no_drop)]
struct Root<'gc> {
    holder: Gc<'gc, OnceLock<Gc<'gc, Payload>>>,
}

fn main() {
    let mut arena = Arena::<Rootable![Root<'_>]>::new(|mc| Root {
        holder: Gc::new(mc, OnceLock::new()),
    });
    // Make the holder black: the store below happens in a fully marked arena.
    arena.finish_marking();
    arena.mutate(|mc, root| {
        mc.backward_barrier(Gc::erase(root.holder), None);
        // SAFETY (probe is about `unsafe` being required): the barrier on the holder was applied just above.
        let cell = unsafe { root.holder.as_ref().unlock_unchecked() };
        cell.set(oracle::payload(mc, 1)).expect("cell was empty");
    });
    // The oracle is consulted after *each* collection step, before anything traces or reads the slot.
    arena.finish_cycle();
    oracle::expect_alive(1);
    arena.finish_cycle();
    oracle::expect_alive(1);
    arena.mutate(|_, root| {
        let p = *root.holder.get().expect("slot was filled");
        oracle::check_read(&p, 1);
    });
    oracle::done("unsafe_unlock_unchecked_once_ok");
}
