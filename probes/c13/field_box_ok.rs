//@ expect: accept
//@ run: oracle
//@ twin: field_prederef_box
//@ item: field:ok
//@ rule: Barriered . Deref(Box) . Field [Unique] is derivable and covered
// Twin of field_prederef_box / field_prederef_rc with the explicit `as_deref()` step through the Box.
use gc_arena::{Arena, Collect, Gc, Rootable, barrier::{Write, field}, lock::RefLock};
#[path = "../../harness-api/src/oracle.rs"]
mod oracle;
use oracle::Payload;

type Slot<'gc> = RefLock<Option<Gc<'gc, Payload>>>;

#[derive(Collect)]
#[collect(no_drop)]
struct Holder<'gc> {
    tag: u32,
    slot: Slot<'gc>,
}

#[derive(Collect)]
#[collect(no_drop)]
struct Root<'gc> {
    holder: Gc<'gc, Box<Holder<'gc>>>,
}

fn main() {
    let mut arena = Arena::<Rootable![Root<'_>]>::new(|mc| Root {
        holder: Gc::new(mc, Box::new(Holder { tag: 5, slot: RefLock::new(None) })),
    });
    // Make the holder black: the store below happens in a fully marked arena.
    arena.finish_marking();
    arena.mutate(|mc, root| {
        let w: &Write<Box<Holder<'_>>> = Gc::write(mc, root.holder);
        let slot: &Write<Slot<'_>> = field!(w.as_deref(), Holder, slot);
        *slot.unlock().borrow_mut() = Some(oracle::payload(mc, 1));
    });
    // The oracle is consulted after *each* collection step, before anything traces or reads the slot.
    arena.finish_cycle();
    oracle::expect_alive(1);
    arena.finish_cycle();
    oracle::expect_alive(1);
    arena.mutate(|_, root| {
        let p = root.holder.slot.borrow().expect("slot was filled");
        oracle::check_read(&p, 1);
    });
    oracle::done("field_box_ok");
}
