//@ expect: accept
//@ run: oracle
//@ twin: index_user_type
//@ item: IndexWrite:HashMap:RefQ
//@ rule: Barriered . Index(HashMap, &Q) [Unique] is derivable and covered
// Gc::write on the map, index the `&Write<_>` by a borrowed key (`&str` for `String` keys), unlock, store.
use gc_arena::{Arena, Collect, Gc, Rootable, barrier::Write, lock::RefLock};
use std::collections::HashMap;
#[path = "../../harness-api/src/oracle.rs"]
mod oracle;
use oracle::Payload;

type Slot<'gc> = RefLock<Option<Gc<'gc, Payload>>>;

#[derive(Collect)]
#[collect(no_drop)]
struct Root<'gc> {
    holder: Gc<'gc, HashMap<String, Slot<'gc>>>,
}

fn main() {
    let mut arena = Arena::<Rootable![Root<'_>]>::new(|mc| Root {
        holder: Gc::new(mc, HashMap::from([(String::from("a"), RefLock::new(None)), (String::from("b"), RefLock::new(None))])),
    });
    // Make the holder black: the store below happens in a fully marked arena.
    arena.finish_marking();
    arena.mutate(|mc, root| {
        let slot: &Write<Slot<'_>> = &Gc::write(mc, root.holder)["b"];
        *slot.unlock().borrow_mut() = Some(oracle::payload(mc, 1));
    });
    // The oracle is consulted after *each* collection step, before anything traces or reads the slot.
    arena.finish_cycle();
    oracle::expect_alive(1);
    arena.finish_cycle();
    oracle::expect_alive(1);
    arena.mutate(|_, root| {
        let p = root.holder["b"].borrow().expect("slot was filled");
        oracle::check_read(&p, 1);
    });
    oracle::done("index_hashmap");
}
