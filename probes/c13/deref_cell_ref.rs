//@ expect: reject
//@ codes: E0277
//@ run: oracle
//@ twin: deref_box
//@ item: DerefWrite:Ref_cell
//@ rule: Exclusive . Deref(cell::Ref) [Shared] must not be derivable
// RefLock::borrow needs no barrier and returns a `Ref` guard pointing into the black holder; from_mut on
// the guard plus as_deref would forge a Write for the nested lock. If accepted, the run exits with 3.
use gc_arena::{Arena, Collect, Gc, Rootable, barrier::Write, lock::RefLock};
use std::cell::Ref;
#[path = "../../harness-api/src/oracle.rs"]
mod oracle;
use oracle::Payload;

type Slot<'gc> = RefLock<Option<Gc<'gc, Payload>>>;

#[derive(Collect)]
#[collect(no_drop)]
struct Root<'gc> {
    holder: Gc<'gc, RefLock<Slot<'gc>>>,
}

fn main() {
    let mut arena = Arena::<Rootable![Root<'_>]>::new(|mc| Root {
        holder: Gc::new(mc, RefLock::new(RefLock::new(None))),
    });
    // Make the holder black: the store below happens in a fully marked arena.
    arena.finish_marking();
    arena.mutate(|mc, root| {
        let mut guard: Ref<'_, Slot<'_>> = root.holder.borrow();
        let forged: &Write<Slot<'_>> = Write::from_mut(&mut guard).as_deref();
        *forged.unlock().borrow_mut() = Some(oracle::payload(mc, 1));
    });
    // The oracle is consulted after *each* collection step, before anything traces or reads the slot.
    arena.finish_cycle();
    oracle::expect_alive(1);
    arena.finish_cycle();
    oracle::expect_alive(1);
    arena.mutate(|_, root| {
        let p = root.holder.borrow().borrow().expect("slot was filled");
        oracle::check_read(&p, 1);
    });
    oracle::done("deref_cell_ref");
}
