//@ expect: accept
//@ run: oracle
//@ twin: cell_ref_gc
//@ item: cell:Ref
//@ rule: &'static T with T: 'static is Collect (never traced)
// A `&'static str` in the root survives collections untouched.
use gc_arena::{Arena, Collect, Gc, Rootable};
#[path = "../../harness-api/src/oracle.rs"]
mod oracle;
use oracle::Payload;

#[derive(Collect)]
#[collect(no_drop)]
struct Root<'gc> {
    anchor: Gc<'gc, Payload>,
    slot: &'static str,
}

fn main() {
    let mut arena = Arena::<Rootable![Root<'_>]>::new(|mc| Root {
        anchor: oracle::payload(mc, 0),
        slot: "abc",
    });
    arena.finish_marking();
    arena.finish_cycle();
    arena.finish_cycle();
    oracle::expect_alive(0);
    arena.mutate(|_, root| {
        assert_eq!(root.slot, "abc");
        oracle::check_read(&root.anchor, 0);
    });
    oracle::done("cell_ref_static");
}
