//@ expect: reject
//@ codes: E0521
//@ run: oracle
//@ twin: cell_cell_static
//@ item: cell:Cell:require_static_bound
//@ rule: a plain Cell<.. Gc ..> field cannot be smuggled in with #[collect(require_static)] under an explicit `bound`: the derive keeps the `FieldTy: 'static` predicate
// A plain Cell holding a pointer would be an un-barriered, un-traced slot. If accepted: exit 3.
use gc_arena::{Arena, Collect, Gc, Rootable};
use std::cell::Cell;
#[path = "../../harness-api/src/oracle.rs"]
mod oracle;
use oracle::Payload;

#[derive(Collect)]
#[collect(no_drop, bound = "")]
struct Root<'gc> {
    anchor: Gc<'gc, Payload>,
    #[collect(require_static)]
    slot: Cell<Option<Gc<'gc, Payload>>>,
}

fn main() {
    let mut arena = Arena::<Rootable![Root<'_>]>::new(|mc| Root {
        anchor: oracle::payload(mc, 0),
        slot: Cell::new(None),
    });
    arena.finish_marking();
    arena.mutate(|mc, root| {
        root.slot.set(Some(oracle::payload(mc, 1)));
    });
    // The oracle is consulted after *each* collection step, before anything traces or reads the slot.
    arena.finish_cycle();
    oracle::expect_alive(1);
    arena.finish_cycle();
    oracle::expect_alive(1);
    oracle::expect_alive(0);
    arena.mutate(|_, root| {
        let p = root.slot.get().expect("slot was filled");
        oracle::check_read(&p, 1);
    });
    oracle::done("cell_require_static_bound_gc");
}
