//@ expect: reject
//@ codes: E0133
//@ twin: ptr_safe_ops
//@ item: conjure:cast_no_unsafe
//@ rule: `Gc::cast` is an `unsafe fn`: calling it outside an `unsafe` block is rejected (E0133)
// Calls Gc::cast in safe code on a freshly allocated Gc<u32>.
use gc_arena::{Gc, GcWeak, arena::rootless_mutate};

fn main() {
    rootless_mutate(|mc| {
        let p: Gc<'_, u32> = Gc::new(mc, 0xdead_beef);
        let q: Gc<'_, [u64; 4]> = Gc::cast::<[u64; 4]>(p);
        let _ = q;
    });
}
