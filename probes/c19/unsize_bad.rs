//@ expect: reject
//@ codes: E0277
//@ twin: unsize_ok
//@ item: conjure:unsize_bad
//@ rule: unsize! to a trait the pointee does not implement is rejected (the coercion closure `|p: *const _| -> *const U { p }` does not type-check)
// Option<char> does not implement std::error::Error.
use gc_arena::{Gc, GcWeak, arena::rootless_mutate, unsize};
use std::error::Error;

fn main() {
    rootless_mutate(|mc| {
        let bad: Gc<'_, dyn Error> = unsize!(Gc::new(mc, Some('x')) => dyn Error);
        let _ = bad;
    });
}
