//@ expect: reject
//@ codes: E0133
//@ twin: slice_builder_write_ok
//@ item: conjure:str_builder_assume_init_no_unsafe
//@ rule: `GcStrBuilder::assume_init` is an `unsafe fn`: calling it outside an `unsafe` block is rejected (E0133)
// Finishes a GcStrBuilder of length 2 without writing (would conjure a `str` of arbitrary bytes), in safe code.
use gc_arena::{Gc, GcSlice, GcSliceBuilder, GcSliceWithHeader, GcSliceWithHeaderBuilder, GcStr, GcStrBuilder, arena::rootless_mutate};

fn main() {
    rootless_mutate(|mc| {
        let c: GcStr<'_> = GcStrBuilder::new(2).assume_init(mc);
        let _ = c;
    });
}
