//@ expect: reject
//@ codes: E0133
//@ twin: slice_builder_write_ok
//@ item: conjure:slice_builder_assume_init_no_unsafe
//@ rule: `GcSliceBuilder::assume_init` is an `unsafe fn`: calling it outside an `unsafe` block is rejected (E0133)
// Finishes a GcSliceBuilder<String> of length 3 without writing any element, in safe code.
use gc_arena::{Gc, GcSlice, GcSliceBuilder, GcSliceWithHeader, GcSliceWithHeaderBuilder, GcStr, GcStrBuilder, arena::rootless_mutate};

fn main() {
    rootless_mutate(|mc| {
        let a: GcSlice<'_, String> = GcSliceBuilder::new(3).assume_init(mc);
        let _ = a;
    });
}
