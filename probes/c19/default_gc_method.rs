//@ expect: reject
//@ codes: E0599
//@ twin: lock_take_default
//@ item: conjure:default_gc:method
//@ rule: there is no `Default` impl for Gc: a pointer cannot be produced from nothing
// `Gc::<u32>::default()`.
use gc_arena::{Gc, GcLock, GcRefLock, Lock, RefLock, arena::rootless_mutate};

fn main() {
    rootless_mutate(|mc| {
        let inner: Gc<'_, u32> = Gc::new(mc, 5);
        let conjured = Gc::<u32>::default();
        let _ = (inner, conjured);
    });
}
