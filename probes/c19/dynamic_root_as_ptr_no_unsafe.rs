//@ expect: reject
//@ codes: E0133
//@ twin: ptr_safe_ops
//@ item: conjure:dynamic_root_as_ptr
//@ rule: DynamicRoot::as_ptr is safe but yields a raw pointer with an unbound brand; turning it back into a Gc needs `unsafe` Gc::from_ptr
// Outside any callback of the owning arena, rebuilds a Gc from DynamicRoot::as_ptr without unsafe (inside another arena's callback).
use gc_arena::{Arena, DynamicRootSet, Gc, Rootable, arena::rootless_mutate};

fn main() {
    let a = Arena::<Rootable![DynamicRootSet<'_>]>::new(|mc| DynamicRootSet::new(mc));
    let handle = a.mutate(|mc, set| set.stash::<Rootable![u32]>(mc, Gc::new(mc, 5)));
    rootless_mutate(|_mc| {
        let q: Gc<'_, u32> = Gc::from_ptr(handle.as_ptr());
        let _ = q;
    });
}
