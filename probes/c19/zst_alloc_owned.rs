//@ expect: accept
//@ run: plain
//@ twin: zst_alloc_zst_void
//@ item: conjure:alloc_owned
//@ rule: the safe ZstCache entry points take ownership of a T the caller constructed (alloc: T: Collect, alloc_static: T: 'static)
// Safe counterparts of alloc_zst: the program builds inhabited ZSTs itself and passes them in; both land on the cached
// pointer. A Token can go in too, but only from code that can construct one. A non-ZST gets a real allocation.
use gc_arena::{Collect, Gc, arena::rootless_mutate, zst_cache::ZstCache};

#[derive(Collect)]
#[collect(require_static)]
struct Unit;

struct StaticUnit;

mod m {
    pub struct Token(());
    impl Token {
        pub(super) fn issue() -> Token {
            Token(())
        }
    }
}

fn main() {
    let (a, b, c, d) = rootless_mutate(|mc| {
        let cache = ZstCache::<1>::new(mc);
        let a: Gc<'_, Unit> = cache.alloc(mc, Unit);
        let b: Gc<'_, StaticUnit> = cache.alloc_static(mc, StaticUnit);
        let c: Gc<'_, m::Token> = cache.alloc_static(mc, m::Token::issue());
        let d: Gc<'_, u8> = cache.alloc(mc, 9u8);
        (cache.is_cached(a), cache.is_cached(b), cache.is_cached(c), !cache.is_cached(d) && *d == 9)
    });
    assert!(a && b && c && d);
}
