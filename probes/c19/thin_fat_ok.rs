//@ expect: accept
//@ run: plain
//@ twin: from_thin_ptr_with_kind_no_unsafe
//@ item: conjure:thin_fat_ok
//@ rule: as_thin / as_fat / as_thin_ref are the safe conversions between pointer representations; metadata comes from the header
// Safe counterpart of from_thin_ptr_with_kind: slice and str go thin and back, contents and lengths intact.
use gc_arena::{Gc, GcSlice, GcStr, GcThinSlice, GcThinStr, arena::rootless_mutate};

fn main() {
    rootless_mutate(|mc| {
        let s: GcSlice<'_, u16> = GcSlice::new_slice(mc, &[1, 2, 3]);
        let thin: GcThinSlice<'_, u16> = Gc::as_thin(s);
        assert_eq!(std::mem::size_of_val(&thin), std::mem::size_of::<usize>());
        assert_eq!(&*thin, &[1, 2, 3]);
        let fat: GcSlice<'_, u16> = Gc::as_fat(thin);
        assert!(Gc::ptr_eq(fat, s) && fat.len() == 3);
        let raw: *const () = Gc::as_thin_ptr(thin);
        assert_eq!(raw as usize, Gc::as_ptr(s) as *const u16 as usize);
        let t: GcStr<'_> = GcStr::new_str(mc, "héllo");
        let tt: GcThinStr<'_> = Gc::as_thin(t);
        assert_eq!(&*tt, "héllo");
        assert_eq!(&*Gc::as_fat(tt), "héllo");
    });
}
