//@ expect: accept
//@ run: plain
//@ twin: slice_builder_assume_init_no_unsafe
//@ item: conjure:slice_builder_write_ok
//@ rule: slice/str builders are finished safely only by providing every element: write_slice_with, copy_slice, copy_str, write_header
// Safe counterparts of the slice-builder assume_init family.
use gc_arena::{Gc, GcSlice, GcSliceBuilder, GcSliceWithHeader, GcSliceWithHeaderBuilder, GcStr, GcStrBuilder, arena::rootless_mutate};

fn main() {
    rootless_mutate(|mc| {
        let a: GcSlice<'_, String> = GcSliceBuilder::new(3).write_slice_with(mc, |i| format!("e{i}"));
        let b: GcSlice<'_, u8> = GcSliceBuilder::new(2).copy_slice(mc, &[8, 9]);
        let c: GcStr<'_> = GcStrBuilder::new(2).copy_str(mc, "ok");
        let d: GcSliceWithHeader<'_, u32, u8> =
            GcSliceWithHeaderBuilder::new(2).write_header(77).write_slice_with(mc, |i| i as u8 + 1);
        let empty: GcSlice<'_, String> = GcSliceBuilder::new(0).write_slice_with(mc, |_| unreachable!());
        assert_eq!(a.join(","), "e0,e1,e2");
        assert_eq!((&*b, &*c), (&[8u8, 9][..], "ok"));
        assert_eq!((d.header, &d.slice), (77, &[1u8, 2][..]));
        assert!(empty.is_empty());
    });
}
