//@ expect: reject
//@ codes: E0308
//@ twin: unsize_ok
//@ item: conjure:unsize_bad:array_len
//@ rule: unsize! cannot change one sized type into another (no `[u8; 2]` -> `[u8; 4]`, which would over-read)
// Array to a longer array is not an unsizing coercion.
use gc_arena::{Gc, GcWeak, arena::rootless_mutate, unsize};

fn main() {
    rootless_mutate(|mc| {
        let bad: Gc<'_, [u8; 4]> = unsize!(Gc::new(mc, [1u8, 2]) => [u8; 4]);
        let _ = bad;
    });
}
