//@ expect: reject
//@ codes: E0133
//@ run: plain
//@ twin: zst_alloc_zst_unsafe_unit
//@ item: conjure:alloc_zst_void
//@ rule: ZstCache::alloc_zst hands out a Gc<T> without receiving a T, so it must be `unsafe` (finding F3, fixed on this tree)
// Asks a ZstCache for a Gc to the uninhabited type `Void` in safe code. If this is ever accepted, the run prints
// C19-VIOLATION and exits 3 when the Option is Some (the pointer is never dereferenced).
use gc_arena::{Gc, arena::rootless_mutate, zst_cache::ZstCache};

enum Void {}

fn main() {
    let conjured = rootless_mutate(|mc| {
        let cache = ZstCache::<1>::new(mc);
        let p: Option<Gc<'_, Void>> = cache.alloc_zst::<Void>();
        p.is_some()
    });
    if conjured {
        println!("C19-VIOLATION obtained a Gc<Void> without unsafe");
        std::process::exit(3);
    }
}
