//@ expect: accept
//@ run: plain
//@ twin: assume_init_no_unsafe
//@ item: conjure:builder_write_ok
//@ rule: the safe ways to finish a GcBuilder take the value: new().write(mc, v), new_with_type_meta, unwrap_static
// Safe counterparts of assume_init / from_raw / new_with_type_and_ptr_meta; an unfinished builder is simply deallocated.
use gc_arena::{Gc, GcBuilder, Static, arena::rootless_mutate, meta::UnitTypeMeta};

fn main() {
    rootless_mutate(|mc| {
        let a: Gc<'_, u32> = GcBuilder::new().write(mc, 5);
        let b: Gc<'_, u32> = GcBuilder::<u32>::new_with_type_meta::<UnitTypeMeta>().write(mc, 6);
        let c: Gc<'_, String> = GcBuilder::<Static<String>>::new().unwrap_static().write(mc, String::from("seven"));
        let mut unfinished = GcBuilder::<u32>::new();
        let scratch: *mut u32 = unfinished.as_ptr();
        assert!(!scratch.is_null());
        drop(unfinished);
        assert_eq!((*a, *b, c.as_str()), (5, 6, "seven"));
        assert_eq!(mc.metrics().total_gc_count(), 3);
    });
}
