//@ expect: reject
//@ codes: E0133
//@ twin: slice_builder_write_ok
//@ item: conjure:slice_header_slice_assume_init_no_unsafe
//@ rule: `GcSliceWithHeaderSliceBuilder::assume_init` is an `unsafe fn`: calling it outside an `unsafe` block is rejected (E0133)
// Writes the header but skips the elements (element type String) of a slice-with-header builder, in safe code.
use gc_arena::{Gc, GcSlice, GcSliceBuilder, GcSliceWithHeader, GcSliceWithHeaderBuilder, GcStr, GcStrBuilder, arena::rootless_mutate};

fn main() {
    rootless_mutate(|mc| {
        let d: GcSliceWithHeader<'_, u32, String> = GcSliceWithHeaderBuilder::new(2).write_header(77).assume_init(mc);
        let _ = d;
    });
}
