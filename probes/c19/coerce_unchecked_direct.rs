//@ expect: reject
//@ codes: E0133
//@ twin: unsize_ok
//@ item: conjure:coerce_unchecked_direct
//@ rule: `__CoercePtrInternal::__coerce_unchecked` is an `unsafe fn`: calling it outside an `unsafe` block is rejected (E0133)
// Calls the hidden trait method behind unsize! directly, in safe code, with a pointer cast that is not a coercion.
use gc_arena::{Gc, GcWeak, __CoercePtrInternal, arena::rootless_mutate, unsize};

fn main() {
    rootless_mutate(|mc| {
        let p: Gc<'_, [u8; 2]> = Gc::new(mc, [1u8, 2]);
        let bad: Gc<'_, [u8; 4]> = p.__coerce_unchecked(|q: *const [u8; 2]| -> *const [u8; 4] { q.cast() });
        let _ = bad;
    });
}
