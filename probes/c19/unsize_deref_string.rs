//@ expect: reject
//@ codes: E0308
//@ twin: unsize_ok
//@ item: conjure:unsize_deref_string
//@ rule: unsize! accepts only unsizing coercions: String -> str is a DEREF coercion (the str lives in another heap block), not an unsizing one
use gc_arena::{Gc, GcWeak, arena::rootless_mutate, unsize};

fn main() {
    rootless_mutate(|mc| {
        let s: Gc<'_, String> = Gc::new(mc, String::from("hello"));
        let bad: Gc<'_, str> = unsize!(s => str);
        let _ = bad;
    });
}
