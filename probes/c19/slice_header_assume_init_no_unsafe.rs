//@ expect: reject
//@ codes: E0133
//@ twin: slice_builder_write_ok
//@ item: conjure:slice_header_assume_init_no_unsafe
//@ rule: `GcSliceWithHeaderBuilder::assume_init` is an `unsafe fn`: calling it outside an `unsafe` block is rejected (E0133)
// Skips writing the header of a slice-with-header builder (header type String), in safe code.
use gc_arena::{Gc, GcSlice, GcSliceBuilder, GcSliceWithHeader, GcSliceWithHeaderBuilder, GcStr, GcStrBuilder, arena::rootless_mutate};

fn main() {
    rootless_mutate(|mc| {
        let d: GcSliceWithHeader<'_, String, u8> =
            GcSliceWithHeaderBuilder::new(2).assume_init().write_slice_with(mc, |i| i as u8 + 1);
        let _ = d;
    });
}
