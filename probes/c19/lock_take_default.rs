//@ expect: accept
//@ run: plain
//@ twin: default_gc
//@ item: conjure:lock_take_default
//@ rule: Lock::take / RefLock::take only ever leave and yield `Default::default()` values, which cannot contain a Gc (no Default impl exists for Gc)
// Takes the content of a Gc<Lock<Option<Gc<u32>>>> twice: first the stored pointer, then the default `None`; same for RefLock<Vec<Gc>>.
use gc_arena::{Gc, GcLock, GcRefLock, Lock, RefLock, arena::rootless_mutate};

fn main() {
    rootless_mutate(|mc| {
        let inner: Gc<'_, u32> = Gc::new(mc, 5);
        let cell: GcLock<'_, Option<Gc<'_, u32>>> = Gc::new(mc, Lock::new(Some(inner)));
        let first: Option<Gc<'_, u32>> = cell.take();
        let second: Option<Gc<'_, u32>> = cell.take();
        assert!(first.is_some_and(|p| Gc::ptr_eq(p, inner)));
        assert!(second.is_none() && cell.get().is_none());
        let list: GcRefLock<'_, Vec<Gc<'_, u32>>> = Gc::new(mc, RefLock::new(vec![inner]));
        assert_eq!(list.take().len(), 1);
        assert!(list.take().is_empty() && list.borrow().is_empty());
        let fresh: Lock<Option<Gc<'_, u32>>> = Default::default();
        assert!(fresh.get().is_none());
    });
}
