//@ expect: reject
//@ codes: E0277
//@ twin: lock_take_default
//@ item: conjure:lock_take_non_default
//@ rule: Lock::take requires `T: Default`; a Lock<Gc<u32>> cannot be taken (nothing could be left behind)
// Calls take() on a Gc<Lock<Gc<u32>>>.
use gc_arena::{Gc, GcLock, GcRefLock, Lock, RefLock, arena::rootless_mutate};

fn main() {
    rootless_mutate(|mc| {
        let inner: Gc<'_, u32> = Gc::new(mc, 5);
        let cell: GcLock<'_, Gc<'_, u32>> = Gc::new(mc, Lock::new(inner));
        let taken: Gc<'_, u32> = cell.take();
        let _ = taken;
    });
}
