//@ expect: reject
//@ codes: E0277
//@ twin: lock_take_default
//@ item: conjure:default_gc
//@ rule: there is no `Default` impl for Gc: a pointer cannot be produced from nothing
// `Default::default()` at type Gc<u32>.
use gc_arena::{Gc, GcLock, GcRefLock, Lock, RefLock, arena::rootless_mutate};

fn main() {
    rootless_mutate(|mc| {
        let inner: Gc<'_, u32> = Gc::new(mc, 5);
        let conjured: Gc<'_, u32> = Default::default();
        let _ = (inner, conjured);
    });
}
