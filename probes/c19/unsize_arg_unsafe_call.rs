//@ expect: reject
//@ codes: E0133
//@ twin: unsize_ok
//@ item: conjure:unsize_arg_unsafe_call
//@ rule: the caller's expression handed to unsize! is evaluated OUTSIDE the macro's `unsafe` block: an unsafe call written there, in safe code, is rejected (E0133)
// `unsafe` blocks are not hygienic: if the macro pasted `$gc` inside its own `unsafe { .. }`, this safe program could call
// Gc::from_ptr on a forged address and obtain a Gc to a value nobody allocated.
use gc_arena::{Gc, GcWeak, arena::rootless_mutate, unsize};

static FORGED: [u8; 2] = [7, 7];

fn main() {
    rootless_mutate(|_mc| {
        let bad: Gc<'_, [u8]> = unsize!(Gc::<[u8; 2]>::from_ptr(&FORGED as *const [u8; 2]) => [u8]);
        let _ = bad;
    });
}
