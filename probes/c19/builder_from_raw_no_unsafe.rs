//@ expect: reject
//@ codes: E0133
//@ twin: builder_write_ok
//@ item: conjure:builder_from_raw_no_unsafe
//@ rule: `GcBuilder::from_raw` is an `unsafe fn`: calling it outside an `unsafe` block is rejected (E0133)
// Rebuilds a GcBuilder of a different pointee type from the raw pointer of another builder, in safe code.
use gc_arena::{Gc, GcBuilder, Static, arena::rootless_mutate, meta::{UnitPtrMeta, UnitTypeMeta}};

fn main() {
    rootless_mutate(|mc| {
        let raw: *mut u32 = GcBuilder::<u32>::new().into_raw();
        let b: GcBuilder<'_, [u64; 4]> = GcBuilder::from_raw(raw as *mut [u64; 4]);
        let _ = b;
    });
}
