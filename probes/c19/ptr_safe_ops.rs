//@ expect: accept
//@ run: plain
//@ twin: cast_no_unsafe
//@ item: conjure:ptr_safe_ops
//@ rule: the safe pointer-level API (erase, erase_kind, as_ptr, ptr_eq, downgrade/upgrade, GcWeak::erase/as_ptr) never changes what can be read
// Safe counterparts of cast/from_ptr: erasing to Gc<()>, taking raw pointers (never turned back), weak round trip.
use gc_arena::{Gc, GcWeak, arena::rootless_mutate};

fn main() {
    rootless_mutate(|mc| {
        let p: Gc<'_, u32> = Gc::new(mc, 0xdead_beef);
        let unit: Gc<'_, ()> = Gc::erase(p);
        let same: Gc<'_, u32> = Gc::erase_kind(p);
        let raw: *const u32 = Gc::as_ptr(p);
        let w: GcWeak<'_, u32> = Gc::downgrade(p);
        let wunit: GcWeak<'_, ()> = GcWeak::erase(w);
        let wraw: *const u32 = GcWeak::as_ptr(w);
        assert!(Gc::ptr_eq(unit, Gc::erase(same)));
        assert!(std::ptr::eq(raw, &*p) && std::ptr::eq(raw, wraw));
        assert_eq!(*unit, ());
        assert_eq!(w.upgrade(mc).map(|q| *q), Some(0xdead_beef));
        assert!(GcWeak::ptr_eq(wunit, GcWeak::erase(Gc::downgrade(same))));
    });
}
