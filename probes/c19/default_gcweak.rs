//@ expect: reject
//@ codes: E0277
//@ twin: lock_take_default
//@ item: conjure:default_gcweak
//@ rule: there is no `Default` impl for GcWeak either (no dangling-by-construction weak pointers)
// `Default::default()` at type GcWeak<u32>.
use gc_arena::{Gc, GcWeak, arena::rootless_mutate};

fn main() {
    rootless_mutate(|mc| {
        let inner: Gc<'_, u32> = Gc::new(mc, 5);
        let conjured: GcWeak<'_, u32> = Default::default();
        let _ = (inner, conjured);
    });
}
