//@ expect: reject
//@ codes: E0308
//@ twin: unsize_ok
//@ item: conjure:unsize_deref_vec
//@ rule: unsize! accepts only unsizing coercions: Vec<u8> -> [u8] is a DEREF coercion, the slice is not the Gc allocation
use gc_arena::{Gc, GcWeak, arena::rootless_mutate, unsize};

fn main() {
    rootless_mutate(|mc| {
        let v: Gc<'_, Vec<u8>> = Gc::new(mc, vec![1u8, 2, 3]);
        let bad: Gc<'_, [u8]> = unsize!(v => [u8]);
        let _ = bad;
    });
}
