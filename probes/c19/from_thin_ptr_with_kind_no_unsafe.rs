//@ expect: reject
//@ codes: E0133
//@ twin: thin_fat_ok
//@ item: conjure:from_thin_ptr_with_kind_no_unsafe
//@ rule: `Gc::from_thin_ptr_with_kind` is an `unsafe fn`: calling it outside an `unsafe` block is rejected (E0133)
// Rebuilds a thin slice pointer from its raw thin pointer in safe code.
use gc_arena::{Gc, GcSlice, GcStr, GcThinSlice, GcThinStr, arena::rootless_mutate};

fn main() {
    rootless_mutate(|mc| {
        let s: GcSlice<'_, u16> = GcSlice::new_slice(mc, &[1, 2, 3]);
        let thin: GcThinSlice<'_, u16> = Gc::as_thin(s);
        let raw: *const () = Gc::as_thin_ptr(thin);
        let again: GcThinSlice<'_, u16> = Gc::from_thin_ptr_with_kind(raw);
        let _ = again;
    });
}
