//@ expect: reject
//@ codes: E0133
//@ run: plain
//@ twin: zst_alloc_zst_unsafe_unit
//@ item: conjure:alloc_zst_token
//@ rule: ZstCache::alloc_zst would forge a capability token (ZST with a private constructor), so it must be `unsafe`
// Asks a ZstCache for a Gc to `m::Token`, a zero-sized type whose only constructor is private to `m`. If this is
// ever accepted, the run prints C19-VIOLATION and exits 3 when the Option is Some.
use gc_arena::{Gc, arena::rootless_mutate, zst_cache::ZstCache};

mod m {
    pub struct Token(());
}

fn main() {
    let conjured = rootless_mutate(|mc| {
        let cache = ZstCache::<1>::new(mc);
        let p: Option<Gc<'_, m::Token>> = cache.alloc_zst::<m::Token>();
        p.is_some()
    });
    if conjured {
        println!("C19-VIOLATION obtained a Gc<m::Token> without unsafe (no Token was ever constructed)");
        std::process::exit(3);
    }
}
