//@ expect: reject
//@ codes: E0308
//@ twin: unsize_ok
//@ item: conjure:unsize_deref_box
//@ rule: unsize! accepts only unsizing coercions: Box<u32> -> u32 and Gc<Gc<u32>> -> u32 are DEREF coercions (another allocation)
use gc_arena::{Gc, GcWeak, arena::rootless_mutate, unsize};

fn main() {
    rootless_mutate(|mc| {
        let b: Gc<'_, Box<u32>> = Gc::new(mc, Box::new(7u32));
        let bad: Gc<'_, u32> = unsize!(b => u32);
        let inner: Gc<'_, u32> = Gc::new(mc, 9u32);
        let outer: Gc<'_, Gc<'_, u32>> = Gc::new(mc, inner);
        let bad2: Gc<'_, u32> = unsize!(outer => u32);
        let w: GcWeak<'_, u32> = unsize!(Gc::downgrade(b) => u32);
        let _ = (bad, bad2, w);
    });
}
