//@ expect: reject
//@ codes: E0133
//@ twin: ptr_safe_ops
//@ item: conjure:from_ptr_no_unsafe:forged
//@ rule: `Gc::from_ptr` is an `unsafe fn`: calling it outside an `unsafe` block is rejected (E0133)
// Calls Gc::from_ptr in safe code on a freshly allocated Gc<u32>.
use gc_arena::{Gc, GcWeak, arena::rootless_mutate};

fn main() {
    rootless_mutate(|mc| {
        let p: Gc<'_, u32> = Gc::new(mc, 0xdead_beef);
        let q: Gc<'_, u32> = Gc::from_ptr(&7u32 as *const u32);
        let _ = q;
    });
}
