//@ expect: reject
//@ codes: E0133
//@ twin: builder_write_ok
//@ item: conjure:new_with_type_and_ptr_meta_no_unsafe
//@ rule: `GcBuilder::new_with_type_and_ptr_meta` is an `unsafe fn`: calling it outside an `unsafe` block is rejected (E0133)
// Creates a builder with caller-chosen pointer metadata implementation in safe code.
use gc_arena::{Gc, GcBuilder, Static, arena::rootless_mutate, meta::{UnitPtrMeta, UnitTypeMeta}};

fn main() {
    rootless_mutate(|mc| {
        let b = GcBuilder::<u32, (), UnitPtrMeta>::new_with_type_and_ptr_meta::<UnitTypeMeta>(());
        let a: Gc<'_, u32> = b.write(mc, 5);
        let _ = a;
    });
}
