//@ expect: reject
//@ codes: E0133
//@ twin: unsize_ok
//@ item: conjure:unsize_arg_unsafe_deref
//@ rule: the caller's expression handed to unsize! is evaluated OUTSIDE the macro's `unsafe` block: a raw-pointer dereference written there is rejected (E0133)
use gc_arena::{Gc, GcWeak, arena::rootless_mutate, unsize};

fn main() {
    rootless_mutate(|mc| {
        let p: *const [u8; 2] = 8 as *const [u8; 2];
        let bad: Gc<'_, [u8]> = unsize!(Gc::new(mc, *p) => [u8]);
        let _ = bad;
    });
}
