//@ expect: accept
//@ run: plain
//@ twin: zst_alloc_zst_void
//@ item: conjure:alloc_zst_unsafe_unit
//@ rule: with `unsafe` (the caller vouches that a T may be conjured) alloc_zst compiles and returns the cached pointer
// Same call shape as zst_alloc_zst_void/token inside `unsafe`, at the type `()`; also None for a non-ZST and for a too-aligned ZST.
use gc_arena::{Gc, arena::rootless_mutate, zst_cache::ZstCache};

#[repr(align(8))]
struct Aligned8;

fn main() {
    let (unit, cached, non_zst, over_aligned) = rootless_mutate(|mc| {
        let cache = ZstCache::<1>::new(mc);
        let p: Option<Gc<'_, ()>> = unsafe { cache.alloc_zst::<()>() };
        let q: Option<Gc<'_, u8>> = unsafe { cache.alloc_zst::<u8>() };
        let r: Option<Gc<'_, Aligned8>> = unsafe { cache.alloc_zst::<Aligned8>() };
        (p.is_some(), p.map(|p| cache.is_cached(p)), q.is_some(), r.is_some())
    });
    assert!(unit);
    assert_eq!(cached, Some(true));
    assert!(!non_zst && !over_aligned);
}
