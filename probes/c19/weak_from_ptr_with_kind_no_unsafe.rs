//@ expect: reject
//@ codes: E0133
//@ twin: ptr_safe_ops
//@ item: conjure:weak_from_ptr_with_kind_no_unsafe
//@ rule: `GcWeak::from_ptr_with_kind` is an `unsafe fn`: calling it outside an `unsafe` block is rejected (E0133)
// Calls GcWeak::from_ptr_with_kind in safe code on a freshly allocated Gc<u32>.
use gc_arena::{Gc, GcWeak, arena::rootless_mutate};

fn main() {
    rootless_mutate(|mc| {
        let p: Gc<'_, u32> = Gc::new(mc, 0xdead_beef);
        let q: GcWeak<'_, u32> = GcWeak::from_ptr_with_kind(GcWeak::as_ptr(Gc::downgrade(p)));
        let _ = q;
    });
}
