//@ expect: reject
//@ codes: E0133
//@ twin: builder_write_ok
//@ item: conjure:assume_init_no_unsafe
//@ rule: `GcBuilder::assume_init` is an `unsafe fn`: calling it outside an `unsafe` block is rejected (E0133)
// Finishes a GcBuilder<String> whose memory was never written, in safe code.
use gc_arena::{Gc, GcBuilder, Static, arena::rootless_mutate, meta::{UnitPtrMeta, UnitTypeMeta}};

fn main() {
    rootless_mutate(|mc| {
        let a: Gc<'_, String> = GcBuilder::<Static<String>>::new().unwrap_static().assume_init(mc);
        let _ = a;
    });
}
