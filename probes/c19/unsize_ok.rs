//@ expect: accept
//@ run: plain
//@ twin: unsize_bad
//@ item: conjure:unsize_ok
//@ rule: unsize! performs exactly the coercions `*const T -> *const U` that rustc itself allows
// Safe counterparts: array -> slice, value -> dyn Display, also for GcWeak; contents readable through the new type.
use gc_arena::{Gc, GcWeak, arena::rootless_mutate, unsize};
use std::fmt::Display;

fn main() {
    rootless_mutate(|mc| {
        let slice: Gc<'_, [u8]> = unsize!(Gc::new(mc, [1u8, 2]) => [u8]);
        let disp: Gc<'_, dyn Display> = unsize!(Gc::new(mc, Some('x').unwrap()) => dyn Display);
        let weak: GcWeak<'_, dyn Display> = unsize!(Gc::downgrade(Gc::new(mc, 42u8)) => dyn Display);
        assert_eq!(&*slice, &[1, 2]);
        assert_eq!(disp.to_string(), "x");
        assert_eq!(weak.upgrade(mc).unwrap().to_string(), "42");
    });
}
