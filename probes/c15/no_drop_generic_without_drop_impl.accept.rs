//@ expect: accept
//@ decided-by: rustc
//@ clause: positive twin of no_drop_generic_with_drop_impl
use gc_arena::Collect;

#[derive(Collect)]
#[collect(no_drop)]
pub enum E<'gc, T: Clone> where T: 'gc {
    A(gc_arena::Gc<'gc, u8>, T),
    B,
}
