//@ expect: accept
//@ decided-by: rustc
//@ clause: positive twin of field_not_collect (the field type implements Collect)
use gc_arena::Collect;

#[derive(Collect)]
#[collect(require_static)]
pub struct NowCollect;

#[derive(Collect)]
#[collect(no_drop)]
pub struct MyStruct {
    pub a: u8,
    pub field: NowCollect,
}
