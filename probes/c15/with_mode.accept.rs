//@ expect: accept
//@ decided-by: macro
//@ clause: positive twin of missing_mode / two_modes / two_collect_attrs
use gc_arena::Collect;

#[derive(Collect)]
#[collect(no_drop, bound = "")]
pub struct S {
    pub a: u8,
}
