//@ expect: reject
//@ decided-by: macro ("Cannot specify multiple #[collect] attributes")
//@ clause: duplicated mode (two attributes)
//@ twins: with_mode.accept.rs
use gc_arena::Collect;

#[derive(Collect)]
#[collect(no_drop)]
#[collect(unsafe_drop)]
pub struct S {
    pub a: u8,
}
