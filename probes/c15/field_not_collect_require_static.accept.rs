//@ expect: accept
//@ decided-by: rustc
//@ clause: positive twin of field_not_collect (the field is 'static and marked require_static)
use gc_arena::Collect;

pub struct NotCollect;

#[derive(Collect)]
#[collect(no_drop)]
pub struct MyStruct {
    pub a: u8,
    #[collect(require_static)]
    pub field: NotCollect,
}
