//@ expect: reject
//@ decided-by: macro ("Only #[collect(require_static)] is supported on a field")
//@ clause: a field attribute other than require_static
//@ model: Props/C15.v ex_field_attr_rejected
//@ twins: field_not_collect_require_static.accept.rs
use gc_arena::Collect;

#[derive(Collect)]
#[collect(no_drop)]
pub struct MyStruct {
    pub a: u8,
    #[collect(no_drop)]
    pub field: u8,
}
