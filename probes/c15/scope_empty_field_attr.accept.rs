//@ expect: accept
//@ decided-by: macro
//@ clause: BOUNDARY (not a rejection): `#[collect()]` on a field parses as an empty list; the field is traced.
//@ model: Props/C15.v C15_rejects_field_attr_unconditional_refuted
use gc_arena::{Collect, Gc};

#[derive(Collect)]
#[collect(no_drop)]
pub struct S<'gc> {
    #[collect()]
    pub p: Gc<'gc, u8>,
}
