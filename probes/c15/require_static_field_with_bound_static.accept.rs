//@ expect: accept
//@ decided-by: rustc
//@ clause: require_static on a 'static field of a type with an explicit `bound`
//@ twins: require_static_field_with_bound_not_static.reject.rs
use gc_arena::{Collect, Gc};

pub struct NoCollectImpl(pub u32);

#[derive(Collect)]
#[collect(no_drop, bound = "")]
pub struct Holder<'a> {
    pub ptr: Gc<'a, u8>,
    #[collect(require_static)]
    pub plain: NoCollectImpl,
}

pub fn use_it<'a>() -> bool {
    <Holder<'a> as Collect<'a>>::NEEDS_TRACE
}
const _: () = assert!(<Holder<'static> as Collect<'static>>::NEEDS_TRACE);
