//@ expect: reject
//@ decided-by: macro
//@ clause: duplicated mode (the same one twice)
//@ twins: with_mode.accept.rs
use gc_arena::Collect;

#[derive(Collect)]
#[collect(no_drop, no_drop)]
pub struct S {
    pub a: u8,
}
