//@ expect: reject
//@ decided-by: rustc (guard impl carries the type's generics and where clause)
//@ clause: no_drop on a generic enum that implements Drop
//@ twins: no_drop_generic_without_drop_impl.accept.rs
use gc_arena::Collect;

#[derive(Collect)]
#[collect(no_drop)]
pub enum E<'gc, T: Clone> where T: 'gc {
    A(gc_arena::Gc<'gc, u8>, T),
    B,
}

impl<'gc, T: Clone> Drop for E<'gc, T> where T: 'gc {
    fn drop(&mut self) {}
}
