//@ expect: reject
//@ decided-by: rustc (`Self: 'static` emitted by the derive)
//@ clause: require_static (mode) on a non-'static type
//@ twins: require_static_mode_static.accept.rs
use gc_arena::Collect;

#[derive(Collect)]
#[collect(require_static)]
pub struct S<'a>(pub &'a u8);

pub fn use_it<'a>() -> bool {
    <S<'a> as Collect<'a>>::NEEDS_TRACE
}
