//@ expect: accept
//@ decided-by: macro
//@ clause: BOUNDARY (not a rejection): with `require_static` as the MODE the macro never looks at
//@ clause: variant/field attributes; the whole type is 'static, nothing is traced, so this is sound.
//@ model: Props/C15.v C15_rejects_variant_attr_unconditional_refuted
use gc_arena::Collect;

#[derive(Collect)]
#[collect(require_static)]
pub enum MyEnum {
    #[collect(require_static)]
    First { field: u8 },
    #[collect(anything_at_all)]
    Second(#[collect(no_drop)] u8),
}
