//@ expect: accept
//@ decided-by: rustc
//@ clause: positive twin of no_drop_with_drop_impl (mode unsafe_drop: no guard emitted)
use gc_arena::Collect;

#[derive(Collect)]
#[collect(unsafe_drop)]
pub struct Foo<'gc> {
    pub p: gc_arena::Gc<'gc, u8>,
}

impl<'gc> Drop for Foo<'gc> {
    fn drop(&mut self) {}
}
