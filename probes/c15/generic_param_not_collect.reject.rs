//@ expect: reject
//@ decided-by: rustc (`T: Collect<'gc>` bound added by the derive)
//@ clause: a generic field instantiated with a non-Collect type
//@ twins: generic_param_collect.accept.rs
use gc_arena::Collect;

pub struct NotCollect;

#[derive(Collect)]
#[collect(no_drop)]
pub struct W<T>(pub T);

pub fn use_it<'gc>() -> bool {
    <W<NotCollect> as Collect<'gc>>::NEEDS_TRACE
}
