//@ expect: accept
//@ decided-by: rustc
//@ clause: positive twin of require_static_mode_not_static
use gc_arena::Collect;

#[derive(Collect)]
#[collect(require_static)]
pub struct S<'a>(pub &'a u8);

pub fn use_it<'gc>() -> bool {
    <S<'static> as Collect<'gc>>::NEEDS_TRACE
}
