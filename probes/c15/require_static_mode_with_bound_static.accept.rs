//@ expect: accept
//@ decided-by: rustc
//@ clause: positive twin of require_static_mode_with_bound_not_static
use gc_arena::Collect;

#[derive(Collect)]
#[collect(require_static, bound = "")]
pub struct Holder<T: 'static>(pub T);

pub fn use_it<'gc>() -> bool {
    <Holder<u8> as Collect<'gc>>::NEEDS_TRACE
}
