//@ expect: reject
//@ decided-by: rustc (the derive emits `FieldTy: 'static` for every require_static field, whatever the spelling of the type)
//@ clause: require_static cannot be used to hide a Gc pointer from the tracer, even when the field's type names it only through `Self`
//@ twins: require_static_field_static.accept.rs
use gc_arena::{Collect, Gc};

#[derive(Collect)]
#[collect(no_drop)]
pub struct Node<'gc> {
    pub value: Gc<'gc, u8>,
    #[collect(require_static)]
    pub next: Option<Box<Self>>,
}

pub fn use_it() {
    gc_arena::arena::rootless_mutate(|mc| {
        let tail = Node { value: Gc::new(mc, 1u8), next: None };
        let head = Node { value: Gc::new(mc, 0u8), next: Some(Box::new(tail)) };
        let _outer = Gc::new(mc, head);
    });
}
