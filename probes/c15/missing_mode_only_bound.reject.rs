//@ expect: reject
//@ decided-by: macro
//@ clause: missing mode (attribute present, but only `bound`)
//@ twins: with_mode.accept.rs
use gc_arena::Collect;

#[derive(Collect)]
#[collect(bound = "")]
pub struct S {
    pub a: u8,
}
