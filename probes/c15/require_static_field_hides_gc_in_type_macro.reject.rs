//@ expect: reject
//@ decided-by: rustc (the derive emits `FieldTy: 'static` for every require_static field, whatever the spelling of the type)
//@ clause: require_static cannot be used to hide a Gc pointer from the tracer, even when the field's type does not visibly name a lifetime (type-position macro)
//@ twins: require_static_field_static.accept.rs
use gc_arena::{Collect, Gc};

macro_rules! Ptr {
    ($l:lifetime, $t:ty) => { Gc<$l, $t> };
}

#[derive(Collect)]
#[collect(no_drop)]
pub struct Hider<'gc> {
    pub anchor: Gc<'gc, u8>,
    #[collect(require_static)]
    pub hidden: Ptr!['gc, u8],
}

pub fn use_it() {
    gc_arena::arena::rootless_mutate(|mc| {
        let h = Hider { anchor: Gc::new(mc, 0u8), hidden: Gc::new(mc, 1u8) };
        let _outer = Gc::new(mc, h);
    });
}
