//@ expect: reject
//@ decided-by: macro ("multiple modes specified")
//@ clause: duplicated mode
//@ model: Props/C15.v ex_two_modes
//@ twins: with_mode.accept.rs
use gc_arena::Collect;

#[derive(Collect)]
#[collect(no_drop, unsafe_drop)]
pub struct S {
    pub a: u8,
}
