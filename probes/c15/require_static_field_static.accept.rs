//@ expect: accept
//@ decided-by: rustc
//@ clause: positive twin of require_static_field_not_static (instantiated at 'static)
use gc_arena::Collect;

pub struct NoCollectImpl<'a>(pub &'a bool);

#[derive(Collect)]
#[collect(no_drop)]
pub struct MyStruct<'a> {
    #[collect(require_static)]
    pub field: NoCollectImpl<'a>,
}

pub fn use_it() -> bool {
    <MyStruct<'static> as Collect<'static>>::NEEDS_TRACE
}
