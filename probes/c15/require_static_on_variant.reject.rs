//@ expect: reject
//@ decided-by: macro ("#[collect] is not supported on enum variants")
//@ clause: require_static on an enum variant
//@ model: Props/C15.v ex_variant_attr_rejected
//@ twins: require_static_on_variant_field.accept.rs
use gc_arena::Collect;

#[derive(Collect)]
#[collect(no_drop)]
pub enum MyEnum {
    #[collect(require_static)]
    First { field: u8 },
    Second(u8),
}
