//@ expect: reject
//@ decided-by: rustc (`FieldTy: 'static` where-predicate emitted by the derive even when `bound = "..."` is given)
//@ clause: require_static on a non-'static field of a type with an explicit `bound`
//@ twins: require_static_field_with_bound_static.accept.rs
// An explicit `bound` replaces the derive's `FieldTy: Collect` predicates, never the `FieldTy: 'static` predicate of a
// `#[collect(require_static)]` field: that field is skipped by `trace` and by NEEDS_TRACE, so without the predicate
// a `Gc<'gc, _>` hidden in it is never traced and its pointee is freed while reachable.
use gc_arena::{Collect, Gc};

#[derive(Collect)]
#[collect(no_drop, bound = "")]
pub struct Holder<'a> {
    #[collect(require_static)]
    pub ptr: Gc<'a, u8>,
}

pub fn use_it<'a>() -> bool {
    <Holder<'a> as Collect<'a>>::NEEDS_TRACE
}
