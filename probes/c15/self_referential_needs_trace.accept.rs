//@ expect: accept
//@ decided-by: rustc (a const assertion on the derived NEEDS_TRACE)
//@ clause: NEEDS_TRACE is the disjunction over ALL traced fields, including fields whose type mentions the derived type itself
// Recursive data (list cells, trees): `next: Option<Gc<'gc, Node<'gc>>>` mentions the type being derived. The
// field is traced and must count in NEEDS_TRACE; if it did not, `Trace::trace` would skip the whole value and
// reachable cells would be freed.
use gc_arena::{Collect, Gc};

#[derive(Collect)]
#[collect(no_drop)]
pub struct Node<'gc> {
    pub payload: u32,
    pub next: Option<Gc<'gc, Node<'gc>>>,
}

#[derive(Collect)]
#[collect(no_drop)]
pub enum Tree<'gc> {
    Leaf(u8),
    Branch(Gc<'gc, Tree<'gc>>, Gc<'gc, Self>),
}

const _: () = assert!(<Node<'static> as Collect<'static>>::NEEDS_TRACE);
const _: () = assert!(<Tree<'static> as Collect<'static>>::NEEDS_TRACE);
