//@ expect: reject
//@ decided-by: rustc (`FieldTy: 'static` where-predicate emitted by the derive)
//@ clause: require_static on a non-'static field type
//@ twins: require_static_field_static.accept.rs
use gc_arena::Collect;

pub struct NoCollectImpl<'a>(pub &'a bool);

#[derive(Collect)]
#[collect(no_drop)]
pub struct MyStruct<'a> {
    #[collect(require_static)]
    pub field: NoCollectImpl<'a>,
}

pub fn use_it<'a>() -> bool {
    <MyStruct<'a> as Collect<'a>>::NEEDS_TRACE
}
