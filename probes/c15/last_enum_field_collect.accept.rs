//@ expect: accept
//@ decided-by: rustc
//@ clause: positive twin of last_enum_field_not_collect
use gc_arena::{Collect, Gc};

#[derive(Collect)]
#[collect(no_drop)]
pub enum E<'gc> {
    A(Gc<'gc, u8>),
    B { x: u8, y: Gc<'gc, u8>, z: String },
}
