//@ expect: accept
//@ decided-by: rustc
//@ clause: positive twin of no_drop_with_drop_impl (no Drop impl)
use gc_arena::Collect;

#[derive(Collect)]
#[collect(no_drop)]
pub struct Foo<'gc> {
    pub p: gc_arena::Gc<'gc, u8>,
}
