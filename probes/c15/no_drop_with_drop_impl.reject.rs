//@ expect: reject
//@ decided-by: rustc (conflicting impl of __MustNotImplDrop emitted by the derive)
//@ clause: no_drop on a type that implements Drop
//@ twins: no_drop_without_drop_impl.accept.rs unsafe_drop_with_drop_impl.accept.rs
use gc_arena::Collect;

#[derive(Collect)]
#[collect(no_drop)]
pub struct Foo<'gc> {
    pub p: gc_arena::Gc<'gc, u8>,
}

impl<'gc> Drop for Foo<'gc> {
    fn drop(&mut self) {}
}
