//@ expect: reject
//@ decided-by: rustc (the field is passed to Trace::trace, which needs FieldTy: Collect)
//@ clause: a field whose type is not Collect
//@ twins: field_not_collect_require_static.accept.rs field_collect.accept.rs
use gc_arena::Collect;

pub struct NotCollect;

#[derive(Collect)]
#[collect(no_drop)]
pub struct MyStruct {
    pub a: u8,
    pub field: NotCollect,
}
