//@ expect: reject
//@ decided-by: macro (panic "requires a #[collect(...)] attribute")
//@ clause: missing mode
//@ model: Props/C15.v ex_missing_mode
//@ twins: with_mode.accept.rs
use gc_arena::Collect;

#[derive(Collect)]
pub struct S {
    pub a: u8,
}
