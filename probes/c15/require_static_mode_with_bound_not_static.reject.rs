//@ expect: reject
//@ decided-by: rustc (`Self: 'static` emitted by the derive even when `bound = "..."` is given)
//@ clause: require_static (mode) together with an explicit `bound` on a non-'static type holding a Gc
//@ twins: require_static_mode_with_bound_static.accept.rs
// An explicit `bound` must not replace the `Self: 'static` predicate of the require_static mode: otherwise a
// type holding a `Gc<'gc, _>` gets `NEEDS_TRACE = false` and an empty trace, and its pointee is freed while
// reachable.
use gc_arena::{Collect, Gc};

#[derive(Collect)]
#[collect(require_static, bound = "")]
pub struct Holder<'a>(pub Gc<'a, u8>);

pub fn use_it<'a>() -> bool {
    <Holder<'a> as Collect<'a>>::NEEDS_TRACE
}
