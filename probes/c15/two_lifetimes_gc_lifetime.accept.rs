//@ expect: accept
//@ decided-by: macro
//@ clause: positive twin of two_lifetimes_no_gc_lifetime
//@ model: Props/C15.v ex_two_lifetimes_explicit_accepted
use gc_arena::{Collect, Gc};

#[derive(Collect)]
#[collect(no_drop, gc_lifetime = 'gc)]
pub struct S<'gc, 'a>(pub Gc<'gc, &'a u8>);
