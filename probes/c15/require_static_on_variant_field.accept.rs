//@ expect: accept
//@ decided-by: macro
//@ clause: positive twin of require_static_on_variant (attribute moved onto the field)
use gc_arena::Collect;

#[derive(Collect)]
#[collect(no_drop)]
pub enum MyEnum {
    First {
        #[collect(require_static)]
        field: u8,
    },
    Second(u8),
}
