//@ expect: reject
//@ decided-by: rustc (`Gc<'gc, u8>: 'static` cannot hold inside an arena callback)
//@ clause: require_static cannot be used to hide a Gc pointer from the tracer
//@ twins: traced_gc_field.accept.rs
use gc_arena::{Collect, Gc};

#[derive(Collect)]
#[collect(no_drop)]
pub struct Hider<'gc> {
    #[collect(require_static)]
    pub hidden: Gc<'gc, u8>,
}

pub fn use_it() {
    gc_arena::arena::rootless_mutate(|mc| {
        let h = Hider { hidden: Gc::new(mc, 1u8) };
        let _outer = Gc::new(mc, h);
    });
}
