//@ expect: accept
//@ decided-by: rustc
//@ clause: positive twin of generic_param_not_collect
use gc_arena::Collect;

#[derive(Collect)]
#[collect(no_drop)]
pub struct W<T>(pub T);

pub fn use_it<'gc>() -> bool {
    <W<u8> as Collect<'gc>>::NEEDS_TRACE
}
