//@ expect: reject
//@ decided-by: rustc
//@ clause: a non-Collect field in the LAST position of the LAST variant of an enum
//@ twins: last_enum_field_collect.accept.rs
use gc_arena::{Collect, Gc};

pub struct NotCollect;

#[derive(Collect)]
#[collect(no_drop)]
pub enum E<'gc> {
    A(Gc<'gc, u8>),
    B { x: u8, y: Gc<'gc, u8>, z: NotCollect },
}
