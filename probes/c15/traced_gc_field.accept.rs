//@ expect: accept
//@ decided-by: rustc
//@ clause: positive twin of require_static_field_hides_gc (field traced instead)
use gc_arena::{Collect, Gc};

#[derive(Collect)]
#[collect(no_drop)]
pub struct Hider<'gc> {
    pub hidden: Gc<'gc, u8>,
}

pub fn use_it() {
    gc_arena::arena::rootless_mutate(|mc| {
        let h = Hider { hidden: Gc::new(mc, 1u8) };
        let _outer = Gc::new(mc, h);
    });
}
