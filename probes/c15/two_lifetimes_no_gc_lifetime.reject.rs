//@ expect: reject
//@ decided-by: macro (panic "multiple lifetime parameters requires gc_lifetime")
//@ clause: several lifetime parameters without an explicit gc_lifetime
//@ model: Props/C15.v ex_two_lifetimes_rejected
//@ twins: two_lifetimes_gc_lifetime.accept.rs
use gc_arena::{Collect, Gc};

#[derive(Collect)]
#[collect(no_drop)]
pub struct S<'gc, 'a>(pub Gc<'gc, &'a u8>);
