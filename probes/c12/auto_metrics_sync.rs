//@ expect: reject
//@ codes: E0277
//@ twin: auto_ctl_sync
//@ item: auto:Metrics:Sync
//@ rule: Metrics is not Sync (model: auto-trait computation over the declared fields)
// Asserts `Metrics: Sync`; compiles iff the auto trait is implemented.
use gc_arena::metrics::Metrics;

fn is_sync<T: ?Sized + Sync>() {}

fn check() {
    is_sync::<Metrics>();
}

fn main() {}
