//@ expect: reject
//@ codes:
//@ twin: variance_finalization_id
//@ item: variance:Finalization:co
//@ rule: Finalization is not covariant in its brand lifetime (model: invariant)
// Shortening the brand ('long -> 'short) by a plain move; compiles iff Finalization is covariant (or bivariant) in 'gc.
use gc_arena::Finalization;

fn co<'short, 'long: 'short, 'r>(x: &'r Finalization<'long>) -> &'r Finalization<'short> {
    x
}

fn main() {}
