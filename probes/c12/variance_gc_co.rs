//@ expect: reject
//@ codes:
//@ twin: variance_gc_id
//@ item: variance:Gc:co
//@ rule: Gc is not covariant in its brand lifetime (model: invariant)
// Shortening the brand ('long -> 'short) by a plain move; compiles iff Gc is covariant (or bivariant) in 'gc.
use gc_arena::Gc;

fn co<'short, 'long: 'short>(x: Gc<'long, i32>) -> Gc<'short, i32> {
    x
}

fn main() {}
