//@ expect: reject
//@ codes: E0521
//@ twin: dynamic_root_same_arena
//@ item: escape:implied_static:stash
//@ rule: outside a callback signature nothing is implied: naming the ill-formed root type at a call site (DynamicRootSet::stash::<R>) is rejected
// In a normal arena, stashes a Gc<PhantomData<&'static Gc<'gc, ()>>> under R = Rootable![PhantomData<&'static Gc<'_, ()>>]:
// the pointee type is only well-formed if 'gc: 'static, which an ordinary callback cannot prove.
use gc_arena::{Arena, DynamicRoot, DynamicRootSet, Gc, Rootable};
use std::marker::PhantomData;

type SetArena = Arena<Rootable![DynamicRootSet<'_>]>;
type Bad = Rootable![PhantomData<&'static Gc<'_, ()>>];

fn main() {
    let a: SetArena = Arena::new(|mc| DynamicRootSet::new(mc));
    let handle: DynamicRoot<Bad> = a.mutate(|mc, set| set.stash::<Bad>(mc, Gc::new(mc, PhantomData)));
    let _ = handle;
}
