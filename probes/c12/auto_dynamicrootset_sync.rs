//@ expect: reject
//@ codes: E0277
//@ twin: auto_ctl_sync
//@ item: auto:DynamicRootSet:Sync
//@ rule: DynamicRootSet is not Sync (model: auto-trait computation over the declared fields)
// Asserts `DynamicRootSet<'gc>: Sync`; compiles iff the auto trait is implemented.
use gc_arena::DynamicRootSet;

fn is_sync<T: ?Sized + Sync>() {}

fn check<'gc>() {
    is_sync::<DynamicRootSet<'gc>>();
}

fn main() {}
