//@ expect: accept
//@ run: plain
//@ twin: esc_send_thread_spawn
//@ item: escape:send_thread:ok
//@ rule: 'static Send data computed from a Gc may be moved to other threads
// Sanctioned twin of esc_send_thread_{spawn,scope}: the threads receive the pointee (i32).
use gc_arena::{Arena, Collect, Gc, GcRefLock, Mutation, RefLock, Rootable};

#[derive(Collect)]
#[collect(no_drop)]
struct Root<'gc> {
    ptr: Gc<'gc, i32>,
    slot: GcRefLock<'gc, Option<Gc<'gc, i32>>>,
}

fn new_arena() -> Arena<Rootable![Root<'_>]> {
    Arena::new(|mc| Root {
        ptr: Gc::new(mc, 7),
        slot: Gc::new(mc, RefLock::new(None)),
    })
}

fn main() {
    let arena = new_arena();
    let (a, b) = arena.mutate(|_mc, root| {
        let v = *root.ptr;
        let a = std::thread::spawn(move || v + 1).join().unwrap();
        let b = std::thread::scope(|s| s.spawn(move || v + 2).join().unwrap());
        (a, b)
    });
    assert_eq!((a, b), (8, 9));
}
