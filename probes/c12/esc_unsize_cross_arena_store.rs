//@ expect: reject
//@ codes:
//@ twin: esc_unsize_ok
//@ item: escape:unsize_cross_arena_store
//@ rule: unsize! cannot turn arena A's pointer into one branded for arena B
// Nested a.mutate / b.mutate: stores unsize!(ra.ptr => dyn Display) into arena B's slot.
use gc_arena::{Arena, Collect, Gc, GcRefLock, GcWeak, RefLock, Rootable, unsize};
use std::fmt::Display;

#[derive(Collect)]
#[collect(no_drop)]
struct Root<'gc> {
    ptr: Gc<'gc, i32>,
    slot: GcRefLock<'gc, Option<Gc<'gc, dyn Display>>>,
    wslot: GcRefLock<'gc, Option<GcWeak<'gc, dyn Display>>>,
}

fn new_arena(v: i32) -> Arena<Rootable![Root<'_>]> {
    Arena::new(|mc| Root {
        ptr: Gc::new(mc, v),
        slot: Gc::new(mc, RefLock::new(None)),
        wslot: Gc::new(mc, RefLock::new(None)),
    })
}

fn main() {
    let a = new_arena(10);
    let b = new_arena(20);
    a.mutate(|_mca, ra| {
        b.mutate(|mcb, rb| {
            *rb.slot.borrow_mut(mcb) = Some(unsize!(ra.ptr => dyn Display));
        })
    });
}
