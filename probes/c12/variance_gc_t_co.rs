//@ expect: reject
//@ codes:
//@ twin: variance_gc_t_id
//@ item: variance:Gc:T:co
//@ rule: Gc is not covariant in T (model: invariant, the pointee type occurs under the projection K::Store)
// Shortening a lifetime inside the pointee type; compiles iff Gc<'gc, T> is covariant in T.
use gc_arena::Gc;

fn co_t<'gc, 'a, 'b: 'a>(x: Gc<'gc, &'b i32>) -> Gc<'gc, &'a i32> {
    x
}

fn main() {}
