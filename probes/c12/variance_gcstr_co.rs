//@ expect: reject
//@ codes:
//@ twin: variance_gcstr_id
//@ item: variance:GcStr:co
//@ rule: GcStr is not covariant in its brand lifetime (model: invariant)
// Shortening the brand ('long -> 'short) by a plain move; compiles iff GcStr is covariant (or bivariant) in 'gc.
use gc_arena::GcStr;

fn co<'short, 'long: 'short>(x: GcStr<'long>) -> GcStr<'short> {
    x
}

fn main() {}
