//@ expect: accept
//@ run: plain
//@ twin: esc_store_static_mut
//@ item: escape:store_static_mut:ok
//@ rule: a static mut may hold 'static data computed from a Gc
// Sanctioned twin: the same `static mut` access (which needs `unsafe` by itself) storing the pointee by value.
use gc_arena::{Arena, Collect, Gc, GcRefLock, Mutation, RefLock, Rootable};

#[derive(Collect)]
#[collect(no_drop)]
struct Root<'gc> {
    ptr: Gc<'gc, i32>,
    slot: GcRefLock<'gc, Option<Gc<'gc, i32>>>,
}

fn new_arena() -> Arena<Rootable![Root<'_>]> {
    Arena::new(|mc| Root {
        ptr: Gc::new(mc, 7),
        slot: Gc::new(mc, RefLock::new(None)),
    })
}

static mut SLOT: Option<i32> = None;

fn main() {
    let arena = new_arena();
    arena.mutate(|_mc, root| {
        // `unsafe` is inherent to `static mut`; it is not what the twin pair is about.
        unsafe {
            SLOT = Some(*root.ptr);
        }
    });
    let got = unsafe { SLOT };
    assert_eq!(got, Some(7));
}
