//@ expect: reject
//@ codes: E0277
//@ twin: auto_ctl_sync
//@ item: auto:Arena:Sync
//@ rule: Arena is not Sync (model: auto-trait computation over the declared fields)
// Asserts `Arena<Rootable![Gc<'_, i32>]>: Sync`; compiles iff the auto trait is implemented.
use gc_arena::{Arena, Gc, Rootable};

fn is_sync<T: ?Sized + Sync>() {}

fn check() {
    is_sync::<Arena<Rootable![Gc<'_, i32>]>>();
}

fn main() {}
