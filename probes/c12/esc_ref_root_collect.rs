//@ expect: reject
//@ codes: E0599
//@ twin: esc_ref_root_uncollectable_ok
//@ item: escape:root_without_collect
//@ rule: every collection entry point requires `for<'a> Root<'a>: Collect<'a>`; `&'a i32` is not Collect<'a> for all 'a
// Same arena as the twin; the one offending expression is the attempt to collect it (which would free the referent).
use gc_arena::{Arena, Gc, Rootable};

fn main() {
    let mut arena = Arena::<Rootable!['a => &'a i32]>::new(|mc| Gc::as_ref(Gc::new(mc, 5)));
    arena.finish_cycle();
    assert_eq!(arena.mutate(|_mc, root| **root), 5);
}
