//@ expect: reject
//@ codes: E0521
//@ twin: esc_cross_arena_ok
//@ item: escape:cross_arena_backward_barrier_child
//@ rule: the explicit barrier / upgrade methods of Mutation take the context and every pointer at the same brand
// Arena B's context is handed a pointer of arena A: B's collector would colour / queue / judge A's object.
use gc_arena::{Arena, Collect, Gc, GcWeak, Rootable};

#[derive(Collect)]
#[collect(no_drop)]
struct Root<'gc> {
    ptr: Gc<'gc, i32>,
    weak: GcWeak<'gc, i32>,
}

fn new_arena(v: i32) -> Arena<Rootable![Root<'_>]> {
    Arena::new(|mc| {
        let ptr = Gc::new(mc, v);
        Root { ptr, weak: Gc::downgrade(ptr) }
    })
}

fn main() {
    let a = new_arena(10);
    let b = new_arena(20);
    a.mutate(|_mca, ra| {
        b.mutate(|mcb, rb| {
            let _ = rb;
            mcb.backward_barrier(Gc::erase(rb.ptr), Some(Gc::erase(ra.ptr)));
        })
    });
}
