//@ expect: accept
//@ run: plain
//@ twin: esc_cross_arena_store
//@ item: escape:cross_arena:ok
//@ rule: inside nested callbacks of two arenas, every operation that stays within one brand is accepted
// Sanctioned twin of the esc_cross_arena_* probes: the same nested a.mutate/b.mutate shape, each operation
// using pointer, context and root of arena B only; plain data (i32) crosses from A to B.
use gc_arena::{Arena, Collect, DynamicRootSet, Gc, GcRefLock, GcWeak, RefLock, Rootable};

#[derive(Collect)]
#[collect(no_drop)]
struct Root<'gc> {
    ptr: Gc<'gc, i32>,
    other: Gc<'gc, i32>,
    weak: GcWeak<'gc, i32>,
    slot: GcRefLock<'gc, Option<Gc<'gc, i32>>>,
    set: DynamicRootSet<'gc>,
}

fn new_arena(v: i32) -> Arena<Rootable![Root<'_>]> {
    Arena::new(|mc| {
        let ptr = Gc::new(mc, v);
        Root {
            ptr,
            other: Gc::new(mc, v + 1),
            weak: Gc::downgrade(ptr),
            slot: Gc::new(mc, RefLock::new(None)),
            set: DynamicRootSet::new(mc),
        }
    })
}

fn main() {
    let a = new_arena(10);
    let mut b = new_arena(20);
    let handle = a.mutate(|_mca, ra| {
        b.mutate(|mcb, rb| {
            *rb.slot.borrow_mut(mcb) = Some(rb.ptr);
            *rb.slot.borrow_mut(mcb) = Some(Gc::new(mcb, *ra.ptr));
            let _ = Gc::write(mcb, rb.ptr);
            assert_eq!(rb.weak.upgrade(mcb).map(|p| *p), Some(20));
            assert!(Gc::ptr_eq(rb.ptr, rb.weak.upgrade(mcb).unwrap()));
            rb.set.stash::<Rootable![i32]>(mcb, rb.ptr)
        })
    });
    b.mutate_root(|_mcb, rb| std::mem::swap(&mut rb.ptr, &mut rb.other));
    b.finish_cycle();
    b.finish_cycle();
    let (slot, fetched, ptr) = b.mutate(|_mcb, rb| (rb.slot.borrow().map(|p| *p), *rb.set.fetch(&handle), *rb.ptr));
    assert_eq!((slot, fetched, ptr), (Some(10), 20, 21));
}
