//@ expect: reject
//@ codes:
//@ twin: esc_leak_box_ok
//@ item: escape:leak_box_to_static
//@ rule: the return type T of a `for<'gc>` callback cannot mention the brand 'gc
// Leaks a box of the root's Gc and returns the reference: its type `&mut Gc<'gc, i32>` still names the brand.
use gc_arena::{Arena, Collect, Gc, GcRefLock, Mutation, RefLock, Rootable};

#[derive(Collect)]
#[collect(no_drop)]
struct Root<'gc> {
    ptr: Gc<'gc, i32>,
    slot: GcRefLock<'gc, Option<Gc<'gc, i32>>>,
}

fn new_arena() -> Arena<Rootable![Root<'_>]> {
    Arena::new(|mc| Root {
        ptr: Gc::new(mc, 7),
        slot: Gc::new(mc, RefLock::new(None)),
    })
}

fn main() {
    let arena = new_arena();
    let leaked = arena.mutate(|_mc, root| Box::leak(Box::new(root.ptr)));
    drop(arena);
    let _ = **leaked;
}
