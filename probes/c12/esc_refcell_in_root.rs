//@ expect: reject
//@ codes: E0521
//@ twin: esc_ref_in_root_ok
//@ item: escape:refcell_in_root
//@ rule: RefCell<T>: Collect<'gc> requires T: 'static: a std RefCell (no write barrier) cannot hold Gc pointers in the root
// Derived Collect root with a field `RefCell<Option<Gc<'gc, i32>>>` instead of RefLock.
use gc_arena::{Arena, Collect, Gc, RefLock, Rootable};
use std::cell::RefCell;

#[derive(Collect)]
#[collect(no_drop)]
struct Root<'gc> {
    r: &'static i32,
    cell: RefCell<Option<Gc<'gc, i32>>>,
    ptr: Gc<'gc, i32>,
}

fn main() {}
