//@ expect: accept
//@ run: plain
//@ twin: esc_arena_to_thread
//@ item: escape:arena_to_thread:ok
//@ rule: an arena may be created and used entirely inside another thread; results come back as 'static Send data
// Sanctioned twin of esc_arena_to_thread / esc_arena_ref_to_thread: the arena is built inside the thread.
use gc_arena::{Arena, Collect, Gc, GcRefLock, Mutation, RefLock, Rootable};

#[derive(Collect)]
#[collect(no_drop)]
struct Root<'gc> {
    ptr: Gc<'gc, i32>,
    slot: GcRefLock<'gc, Option<Gc<'gc, i32>>>,
}

fn new_arena() -> Arena<Rootable![Root<'_>]> {
    Arena::new(|mc| Root {
        ptr: Gc::new(mc, 7),
        slot: Gc::new(mc, RefLock::new(None)),
    })
}

fn main() {
    let v = std::thread::spawn(move || {
        let arena = new_arena();
        arena.mutate(|_mc, root| *root.ptr)
    })
    .join()
    .unwrap();
    assert_eq!(v, 7);
}
