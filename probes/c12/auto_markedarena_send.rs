//@ expect: reject
//@ codes: E0277
//@ twin: auto_ctl_send
//@ item: auto:MarkedArena:Send
//@ rule: MarkedArena is not Send (model: auto-trait computation over the declared fields)
// Asserts `MarkedArena<'static, Rootable![Gc<'_, i32>]>: Send`; compiles iff the auto trait is implemented.
use gc_arena::{Gc, Rootable, arena::MarkedArena};

fn is_send<T: ?Sized + Send>() {}

fn check() {
    is_send::<MarkedArena<'static, Rootable![Gc<'_, i32>]>>();
}

fn main() {}
