//@ expect: accept
//@ run: plain
//@ twin: esc_return_gc_from_mutate
//@ item: escape:return_from_mutate:ok
//@ rule: a callback may return any 'static value computed from branded values
// Sanctioned twin of the esc_return_*_from_mutate probes: every callback has the same shape as in the
// reject probes but returns plain data (i32 / bool / usize / a closure over an i32) computed from the branded value.
use gc_arena::{Arena, Collect, Gc, GcRefLock, Mutation, RefLock, Rootable};

#[derive(Collect)]
#[collect(no_drop)]
struct Root<'gc> {
    ptr: Gc<'gc, i32>,
    slot: GcRefLock<'gc, Option<Gc<'gc, i32>>>,
}

fn new_arena() -> Arena<Rootable![Root<'_>]> {
    Arena::new(|mc| Root {
        ptr: Gc::new(mc, 7),
        slot: Gc::new(mc, RefLock::new(None)),
    })
}

fn main() {
    let arena = new_arena();
    let by_gc: i32 = arena.mutate(|_mc, root| *root.ptr);
    let by_ref: i32 = arena.mutate(|_mc, root| *Gc::as_ref(root.ptr));
    let by_weak: Option<i32> = arena.mutate(|mc, root| Gc::downgrade(root.ptr).upgrade(mc).map(|p| *p));
    let by_mc: usize = arena.mutate(|mc, _root| mc.metrics().total_gc_count());
    let by_write: i32 = arena.mutate(|mc, root| **Gc::write(mc, root.ptr));
    let by_root: i32 = arena.mutate(|_mc, root| *root.ptr + 1);
    let by_borrow: bool = arena.mutate(|_mc, root| root.slot.borrow().is_some());
    let by_closure = arena.mutate(|_mc, root| {
        let v = *root.ptr;
        move || v
    });
    let by_boxed: Box<dyn Fn() -> i32> = arena.mutate(|_mc, root| {
        let v = *root.ptr;
        Box::new(move || v) as Box<dyn Fn() -> i32>
    });
    let by_future = arena.mutate(|_mc, root| {
        let v = *root.ptr;
        async move { v }
    });
    let by_impl_trait = arena.mutate(|_mc, root| thunk(*root.ptr));
    let by_fn_item: i32 = arena.mutate(callback);
    std::panic::set_hook(Box::new(|_| {}));
    let by_panic = std::panic::catch_unwind(std::panic::AssertUnwindSafe(|| {
        arena.mutate(|_mc, root| -> () { std::panic::panic_any(*root.ptr) })
    }));
    let _ = std::panic::take_hook();
    assert_eq!((by_gc, by_ref, by_weak, by_write, by_root, by_borrow), (7, 7, Some(7), 7, 8, false));
    assert!(by_mc >= 2);
    assert_eq!(by_closure() + by_boxed() + by_impl_trait() + by_fn_item, 28);
    assert_eq!(by_panic.unwrap_err().downcast_ref::<i32>(), Some(&7));
    drop(by_future);
}

fn thunk(v: i32) -> impl Fn() -> i32 {
    move || v
}

fn callback<'a>(_mc: &'a Mutation<'a>, root: &'a Root<'a>) -> i32 {
    *root.ptr
}
