//@ expect: reject
//@ codes: E0277
//@ twin: auto_ctl_sync
//@ item: auto:Mutation:Sync
//@ rule: Mutation is not Sync (model: auto-trait computation over the declared fields)
// Asserts `Mutation<'gc>: Sync`; compiles iff the auto trait is implemented.
use gc_arena::Mutation;

fn is_sync<T: ?Sized + Sync>() {}

fn check<'gc>() {
    is_sync::<Mutation<'gc>>();
}

fn main() {}
