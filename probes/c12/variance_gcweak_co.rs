//@ expect: reject
//@ codes:
//@ twin: variance_gcweak_id
//@ item: variance:GcWeak:co
//@ rule: GcWeak is not covariant in its brand lifetime (model: invariant)
// Shortening the brand ('long -> 'short) by a plain move; compiles iff GcWeak is covariant (or bivariant) in 'gc.
use gc_arena::GcWeak;

fn co<'short, 'long: 'short>(x: GcWeak<'long, i32>) -> GcWeak<'short, i32> {
    x
}

fn main() {}
