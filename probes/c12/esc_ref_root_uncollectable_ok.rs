//@ expect: accept
//@ run: plain
//@ twin: esc_ref_root_collect
//@ item: escape:root_without_collect:ok
//@ rule: Arena::new / mutate / mutate_root / map_root carry no Collect bound: a root holding `&'gc T` is accepted, and harmless because such an arena can never run a collection
// Documents an accepted shape: root type `&'gc i32` obtained from Gc::as_ref (its doc comment says such a reference
// "cannot be stored inside the GC root"; it can, but only in an arena that has no collect methods). Value stays readable.
use gc_arena::{Arena, Gc, Rootable};

fn main() {
    let arena = Arena::<Rootable!['a => &'a i32]>::new(|mc| Gc::as_ref(Gc::new(mc, 5)));
    assert_eq!(arena.metrics().total_gc_count(), 1);
    assert_eq!(arena.mutate(|_mc, root| **root), 5);
}
