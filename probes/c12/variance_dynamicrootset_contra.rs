//@ expect: reject
//@ codes:
//@ twin: variance_dynamicrootset_id
//@ item: variance:DynamicRootSet:contra
//@ rule: DynamicRootSet is not contravariant in its brand lifetime (model: invariant)
// Lengthening the brand ('short -> 'long) by a plain move; compiles iff DynamicRootSet is contravariant (or bivariant) in 'gc.
use gc_arena::DynamicRootSet;

fn contra<'short, 'long: 'short>(x: DynamicRootSet<'short>) -> DynamicRootSet<'long> {
    x
}

fn main() {}
