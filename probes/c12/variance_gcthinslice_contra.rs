//@ expect: reject
//@ codes:
//@ twin: variance_gcthinslice_id
//@ item: variance:GcThinSlice:contra
//@ rule: GcThinSlice is not contravariant in its brand lifetime (model: invariant)
// Lengthening the brand ('short -> 'long) by a plain move; compiles iff GcThinSlice is contravariant (or bivariant) in 'gc.
use gc_arena::GcThinSlice;

fn contra<'short, 'long: 'short>(x: GcThinSlice<'short, i32>) -> GcThinSlice<'long, i32> {
    x
}

fn main() {}
