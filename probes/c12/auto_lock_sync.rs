//@ expect: reject
//@ codes: E0277
//@ twin: auto_ctl_sync
//@ item: auto:Lock:Sync
//@ rule: Lock<u32> (a Cell) is Send but not Sync
// Asserts `Lock<u32>: Sync`; the Send half is asserted (and accepted) in auto_ctl_send.
use gc_arena::Lock;

fn is_sync<T: ?Sized + Sync>() {}

fn check() {
    is_sync::<Lock<u32>>();
}

fn main() {}
