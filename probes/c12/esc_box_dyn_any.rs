//@ expect: reject
//@ codes:
//@ twin: esc_box_dyn_any_ok
//@ item: escape:box_dyn_any
//@ rule: `dyn Any` requires 'static; Gc<'gc, _> is not 'static, so the brand cannot be erased
// Boxes the root's Gc as dyn Any inside mutate and returns the box.
use gc_arena::{Arena, Collect, Gc, GcRefLock, Mutation, RefLock, Rootable};

#[derive(Collect)]
#[collect(no_drop)]
struct Root<'gc> {
    ptr: Gc<'gc, i32>,
    slot: GcRefLock<'gc, Option<Gc<'gc, i32>>>,
}

fn new_arena() -> Arena<Rootable![Root<'_>]> {
    Arena::new(|mc| Root {
        ptr: Gc::new(mc, 7),
        slot: Gc::new(mc, RefLock::new(None)),
    })
}

use std::any::Any;

fn main() {
    let arena = new_arena();
    let boxed: Box<dyn Any> = arena.mutate(|_mc, root| Box::new(root.ptr) as Box<dyn Any>);
    drop(arena);
    let _ = boxed;
}
