//@ expect: reject
//@ codes: E0277
//@ twin: auto_ctl_send
//@ item: auto:Write:Send
//@ rule: Write is not Send (model: auto-trait computation over the declared fields)
// Asserts `Write<Gc<'gc, i32>>: Send`; compiles iff the auto trait is implemented.
use gc_arena::{Gc, barrier::Write};

fn is_send<T: ?Sized + Send>() {}

fn check<'gc>() {
    is_send::<Write<Gc<'gc, i32>>>();
}

fn main() {}
