//@ expect: reject
//@ codes: E0308
//@ twin: esc_mutate_ok
//@ item: escape:return_via_fn_item
//@ rule: a callback must be `for<'gc> FnOnce(..) -> T` with one T: a fn item whose return type depends on its lifetime parameter is not
// Passes a named generic function `fn callback<'a>(..) -> Gc<'a, i32>` instead of a closure.
use gc_arena::{Arena, Collect, Gc, GcRefLock, Mutation, RefLock, Rootable};

#[derive(Collect)]
#[collect(no_drop)]
struct Root<'gc> {
    ptr: Gc<'gc, i32>,
    slot: GcRefLock<'gc, Option<Gc<'gc, i32>>>,
}

fn new_arena() -> Arena<Rootable![Root<'_>]> {
    Arena::new(|mc| Root {
        ptr: Gc::new(mc, 7),
        slot: Gc::new(mc, RefLock::new(None)),
    })
}

fn main() {
    let arena = new_arena();
    let escaped = arena.mutate(callback);
    drop(arena);
    let _ = escaped;
}

fn callback<'a>(_mc: &'a Mutation<'a>, root: &'a Root<'a>) -> Gc<'a, i32> {
    root.ptr
}
