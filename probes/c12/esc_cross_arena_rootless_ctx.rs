//@ expect: reject
//@ codes: E0521
//@ twin: esc_cross_arena_rootless_ok
//@ item: escape:cross_arena_rootless_ctx
//@ rule: the Mutation context of a rootless arena cannot be used for another arena's barriers
// Writes into arena A's lock through the rootless arena's &Mutation: the write barrier would consult the wrong collector.
use gc_arena::{Arena, Collect, Gc, GcRefLock, RefLock, Rootable, arena::rootless_mutate};

#[derive(Collect)]
#[collect(no_drop)]
struct Root<'gc> {
    ptr: Gc<'gc, i32>,
    slot: GcRefLock<'gc, Option<Gc<'gc, i32>>>,
}

fn new_arena(v: i32) -> Arena<Rootable![Root<'_>]> {
    Arena::new(|mc| Root { ptr: Gc::new(mc, v), slot: Gc::new(mc, RefLock::new(None)) })
}

fn main() {
    let a = new_arena(10);
    a.mutate(|mca, ra| {
        rootless_mutate(|mcb| {
            *ra.slot.borrow_mut(mcb) = Some(Gc::new(mca, 5));
        })
    });
}
