//@ expect: reject
//@ codes:
//@ twin: esc_unsize_ok
//@ item: escape:unsize_rebrand_weak_return
//@ rule: unsize! on a GcWeak cannot change the brand either
// Arena::mutate callback returns unsize!(Gc::downgrade(root.ptr) => dyn Display) typed GcWeak<'static, dyn Display>.
use gc_arena::{Arena, Collect, Gc, GcRefLock, GcWeak, RefLock, Rootable, unsize};
use std::fmt::Display;

#[derive(Collect)]
#[collect(no_drop)]
struct Root<'gc> {
    ptr: Gc<'gc, i32>,
    slot: GcRefLock<'gc, Option<Gc<'gc, dyn Display>>>,
    wslot: GcRefLock<'gc, Option<GcWeak<'gc, dyn Display>>>,
}

fn new_arena(v: i32) -> Arena<Rootable![Root<'_>]> {
    Arena::new(|mc| Root {
        ptr: Gc::new(mc, v),
        slot: Gc::new(mc, RefLock::new(None)),
        wslot: Gc::new(mc, RefLock::new(None)),
    })
}

fn main() {
    let a = new_arena(10);
    let escaped: GcWeak<'static, dyn Display> = a.mutate(|_mc, r| unsize!(Gc::downgrade(r.ptr) => dyn Display));
    drop(a);
    let _ = escaped;
}
