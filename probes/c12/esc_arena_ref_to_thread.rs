//@ expect: reject
//@ codes: E0277
//@ twin: esc_arena_thread_ok
//@ item: escape:arena_to_thread:ref
//@ rule: Arena is !Sync: `&Arena` cannot be shared with a scoped thread
// Builds the arena on the main thread and calls mutate on it from a std::thread::scope thread.
use gc_arena::{Arena, Collect, Gc, GcRefLock, Mutation, RefLock, Rootable};

#[derive(Collect)]
#[collect(no_drop)]
struct Root<'gc> {
    ptr: Gc<'gc, i32>,
    slot: GcRefLock<'gc, Option<Gc<'gc, i32>>>,
}

fn new_arena() -> Arena<Rootable![Root<'_>]> {
    Arena::new(|mc| Root {
        ptr: Gc::new(mc, 7),
        slot: Gc::new(mc, RefLock::new(None)),
    })
}

fn main() {
    let arena = new_arena();
    let v = std::thread::scope(|s| s.spawn(|| arena.mutate(|_mc, root| *root.ptr)).join().unwrap());
    let _ = v;
}
