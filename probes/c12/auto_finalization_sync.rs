//@ expect: reject
//@ codes: E0277
//@ twin: auto_ctl_sync
//@ item: auto:Finalization:Sync
//@ rule: Finalization is not Sync (model: auto-trait computation over the declared fields)
// Asserts `Finalization<'gc>: Sync`; compiles iff the auto trait is implemented.
use gc_arena::Finalization;

fn is_sync<T: ?Sized + Sync>() {}

fn check<'gc>() {
    is_sync::<Finalization<'gc>>();
}

fn main() {}
