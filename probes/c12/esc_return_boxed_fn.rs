//@ expect: reject
//@ codes:
//@ twin: esc_mutate_ok
//@ item: escape:return_boxed_fn
//@ rule: `Box<dyn Fn() -> i32>` is `+ 'static`; a closure capturing a Gc<'gc, _> is not 'static
// Arena::mutate callback returns a type-erased boxed closure that captured the root's Gc.
use gc_arena::{Arena, Collect, Gc, GcRefLock, Mutation, RefLock, Rootable};

#[derive(Collect)]
#[collect(no_drop)]
struct Root<'gc> {
    ptr: Gc<'gc, i32>,
    slot: GcRefLock<'gc, Option<Gc<'gc, i32>>>,
}

fn new_arena() -> Arena<Rootable![Root<'_>]> {
    Arena::new(|mc| Root {
        ptr: Gc::new(mc, 7),
        slot: Gc::new(mc, RefLock::new(None)),
    })
}

fn main() {
    let arena = new_arena();
    let escaped: Box<dyn Fn() -> i32> = arena.mutate(|_mc, root| {
        let p = root.ptr;
        Box::new(move || *p) as Box<dyn Fn() -> i32>
    });
    drop(arena);
    let _ = escaped();
}
