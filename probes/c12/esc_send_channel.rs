//@ expect: reject
//@ codes: E0521
//@ twin: esc_send_channel_ok
//@ item: escape:send_channel
//@ rule: a channel created outside the callback has an element type fixed outside the `for<'gc>` binder
// Sends the root's Gc through an mpsc channel whose receiver lives outside the mutate call.
use gc_arena::{Arena, Collect, Gc, GcRefLock, Mutation, RefLock, Rootable};

#[derive(Collect)]
#[collect(no_drop)]
struct Root<'gc> {
    ptr: Gc<'gc, i32>,
    slot: GcRefLock<'gc, Option<Gc<'gc, i32>>>,
}

fn new_arena() -> Arena<Rootable![Root<'_>]> {
    Arena::new(|mc| Root {
        ptr: Gc::new(mc, 7),
        slot: Gc::new(mc, RefLock::new(None)),
    })
}

use std::sync::mpsc;

fn main() {
    let arena = new_arena();
    let (tx, rx) = mpsc::channel();
    arena.mutate(|_mc, root| tx.send(root.ptr).unwrap());
    drop(arena);
    let _ = rx.recv().unwrap();
}
