//@ expect: reject
//@ codes: E0277
//@ twin: auto_ctl_send
//@ item: auto:GcWeak:Send
//@ rule: GcWeak is not Send (model: auto-trait computation over the declared fields)
// Asserts `GcWeak<'gc, i32>: Send`; compiles iff the auto trait is implemented.
use gc_arena::GcWeak;

fn is_send<T: ?Sized + Send>() {}

fn check<'gc>() {
    is_send::<GcWeak<'gc, i32>>();
}

fn main() {}
