//@ expect: reject
//@ codes:
//@ twin: esc_mutate_ok
//@ item: escape:return_closure
//@ rule: the return type T of a `for<'gc>` callback cannot mention the brand 'gc
// Arena::mutate callback returns a closure that captured the root's Gc (the closure type mentions 'gc).
use gc_arena::{Arena, Collect, Gc, GcRefLock, Mutation, RefLock, Rootable};

#[derive(Collect)]
#[collect(no_drop)]
struct Root<'gc> {
    ptr: Gc<'gc, i32>,
    slot: GcRefLock<'gc, Option<Gc<'gc, i32>>>,
}

fn new_arena() -> Arena<Rootable![Root<'_>]> {
    Arena::new(|mc| Root {
        ptr: Gc::new(mc, 7),
        slot: Gc::new(mc, RefLock::new(None)),
    })
}

fn main() {
    let arena = new_arena();
    let escaped = arena.mutate(|_mc, root| {
        let p = root.ptr;
        move || *p
    });
    drop(arena);
    let _ = escaped();
}
