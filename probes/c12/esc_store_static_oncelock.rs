//@ expect: reject
//@ codes: E0277
//@ twin: esc_store_static_ok
//@ item: escape:store_static_oncelock
//@ rule: a `static` must be Sync: no static can have a type containing Gc (OnceLock<T>: Sync needs T: Send + Sync, Gc is neither)
// The only offending item is the declaration of a static able to hold a Gc<'static, i32>; main never even
// tries to put a branded pointer into it (that second barrier is probed by esc_store_static_mut / esc_store_thread_local).
use gc_arena::{Arena, Collect, Gc, GcRefLock, Mutation, RefLock, Rootable};

#[derive(Collect)]
#[collect(no_drop)]
struct Root<'gc> {
    ptr: Gc<'gc, i32>,
    slot: GcRefLock<'gc, Option<Gc<'gc, i32>>>,
}

fn new_arena() -> Arena<Rootable![Root<'_>]> {
    Arena::new(|mc| Root {
        ptr: Gc::new(mc, 7),
        slot: Gc::new(mc, RefLock::new(None)),
    })
}

use std::cell::RefCell;
use std::sync::{Mutex, OnceLock};

static SLOT: OnceLock<Gc<'static, i32>> = OnceLock::new();

fn main() {
    let arena = new_arena();
    arena.mutate(|_mc, _root| {
        let _ = SLOT.get().is_some();
    });
}
