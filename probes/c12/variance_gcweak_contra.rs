//@ expect: reject
//@ codes:
//@ twin: variance_gcweak_id
//@ item: variance:GcWeak:contra
//@ rule: GcWeak is not contravariant in its brand lifetime (model: invariant)
// Lengthening the brand ('short -> 'long) by a plain move; compiles iff GcWeak is contravariant (or bivariant) in 'gc.
use gc_arena::GcWeak;

fn contra<'short, 'long: 'short>(x: GcWeak<'short, i32>) -> GcWeak<'long, i32> {
    x
}

fn main() {}
