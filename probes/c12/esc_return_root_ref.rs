//@ expect: reject
//@ codes:
//@ twin: esc_mutate_ok
//@ item: escape:return_root_ref
//@ rule: the return type T of a `for<'gc>` callback cannot mention the brand 'gc
// Arena::mutate callback returns the `&'gc Root<'gc>`.
use gc_arena::{Arena, Collect, Gc, GcRefLock, Mutation, RefLock, Rootable};

#[derive(Collect)]
#[collect(no_drop)]
struct Root<'gc> {
    ptr: Gc<'gc, i32>,
    slot: GcRefLock<'gc, Option<Gc<'gc, i32>>>,
}

fn new_arena() -> Arena<Rootable![Root<'_>]> {
    Arena::new(|mc| Root {
        ptr: Gc::new(mc, 7),
        slot: Gc::new(mc, RefLock::new(None)),
    })
}

fn main() {
    let arena = new_arena();
    let escaped = arena.mutate(|_mc, root| root);
    drop(arena);
    let _ = escaped;
}
