//@ expect: reject
//@ codes:
//@ twin: variance_gcreflock_id
//@ item: variance:GcRefLock:contra
//@ rule: GcRefLock is not contravariant in its brand lifetime (model: invariant)
// Lengthening the brand ('short -> 'long) by a plain move; compiles iff GcRefLock is contravariant (or bivariant) in 'gc.
use gc_arena::GcRefLock;

fn contra<'short, 'long: 'short>(x: GcRefLock<'short, i32>) -> GcRefLock<'long, i32> {
    x
}

fn main() {}
