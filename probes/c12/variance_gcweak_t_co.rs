//@ expect: reject
//@ codes:
//@ twin: variance_gcweak_t_id
//@ item: variance:GcWeak:T:co
//@ rule: GcWeak is not covariant in T (model: invariant, the pointee type occurs under the projection K::Store)
// Shortening a lifetime inside the pointee type; compiles iff GcWeak<'gc, T> is covariant in T.
use gc_arena::GcWeak;

fn co_t<'gc, 'a, 'b: 'a>(x: GcWeak<'gc, &'b i32>) -> GcWeak<'gc, &'a i32> {
    x
}

fn main() {}
