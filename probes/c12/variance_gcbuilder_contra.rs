//@ expect: reject
//@ codes:
//@ twin: variance_gcbuilder_id
//@ item: variance:GcBuilder:contra
//@ rule: GcBuilder is not contravariant in its brand lifetime (model: invariant)
// Lengthening the brand ('short -> 'long) by a plain move; compiles iff GcBuilder is contravariant (or bivariant) in 'gc.
use gc_arena::GcBuilder;

fn contra<'short, 'long: 'short>(x: GcBuilder<'short, i32>) -> GcBuilder<'long, i32> {
    x
}

fn main() {}
