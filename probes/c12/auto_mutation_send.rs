//@ expect: reject
//@ codes: E0277
//@ twin: auto_ctl_send
//@ item: auto:Mutation:Send
//@ rule: Mutation is not Send (model: auto-trait computation over the declared fields)
// Asserts `Mutation<'gc>: Send`; compiles iff the auto trait is implemented.
use gc_arena::Mutation;

fn is_send<T: ?Sized + Send>() {}

fn check<'gc>() {
    is_send::<Mutation<'gc>>();
}

fn main() {}
