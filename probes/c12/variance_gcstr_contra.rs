//@ expect: reject
//@ codes:
//@ twin: variance_gcstr_id
//@ item: variance:GcStr:contra
//@ rule: GcStr is not contravariant in its brand lifetime (model: invariant)
// Lengthening the brand ('short -> 'long) by a plain move; compiles iff GcStr is contravariant (or bivariant) in 'gc.
use gc_arena::GcStr;

fn contra<'short, 'long: 'short>(x: GcStr<'short>) -> GcStr<'long> {
    x
}

fn main() {}
