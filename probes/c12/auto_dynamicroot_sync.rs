//@ expect: reject
//@ codes: E0277
//@ twin: auto_ctl_sync
//@ item: auto:DynamicRoot:Sync
//@ rule: DynamicRoot is not Sync (model: auto-trait computation over the declared fields)
// Asserts `DynamicRoot<Rootable![i32]>: Sync`; compiles iff the auto trait is implemented.
use gc_arena::{DynamicRoot, Rootable};

fn is_sync<T: ?Sized + Sync>() {}

fn check() {
    is_sync::<DynamicRoot<Rootable![i32]>>();
}

fn main() {}
