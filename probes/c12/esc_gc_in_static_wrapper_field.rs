//@ expect: reject
//@ codes: E0521
//@ twin: esc_static_wrapper_ok
//@ item: escape:gc_in_static_wrapper:field
//@ rule: Static<T>: Collect<'gc> requires T: 'static; Gc<'gc, _> is not, so a Gc cannot hide from tracing inside Static
// Derived Collect root with a field `Static<Gc<'gc, i32>>` (would be reachable but never traced).
use gc_arena::{Arena, Collect, Gc, Rootable, Static};

#[derive(Collect)]
#[collect(no_drop)]
struct Root<'gc> {
    wrapped: Static<Gc<'gc, i32>>,
    ptr: Gc<'gc, i32>,
}

fn main() {}
