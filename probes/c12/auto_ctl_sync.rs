//@ expect: accept
//@ twin: auto_gc_sync
//@ item: auto:ctl:Sync
//@ rule: plain-data types of the crate are Sync (Pacing, CollectionPhase, Static<u32>); same assertion shape as auto_*_sync
// Control for every auto_*_sync probe: the `is_sync::<T>()` shape compiles for types the model computes as Sync.
// Recorded facts (rustc today): Pacing, CollectionPhase, Static<u32> are Sync; Lock<u32> is NOT (see auto_lock_sync).
use gc_arena::{Static, arena::CollectionPhase, metrics::Pacing};

fn is_sync<T: ?Sized + Sync>() {}

fn check<'gc>() {
    is_sync::<Pacing>();
    is_sync::<CollectionPhase>();
    is_sync::<Static<u32>>();
}

fn main() {
    check();
}
