//@ expect: reject
//@ codes: E0521
//@ twin: esc_side_channel_ok
//@ item: escape:return_gc_from_new_via_side_channel:finalize
//@ rule: a branded value cannot be assigned to a variable captured from outside the `for<'gc>` callback
// MarkedArena::finalize callback assigns the root's Gc to a captured `let mut out = None`.
use gc_arena::{Arena, Collect, Gc, GcRefLock, Mutation, RefLock, Rootable};

#[derive(Collect)]
#[collect(no_drop)]
struct Root<'gc> {
    ptr: Gc<'gc, i32>,
    slot: GcRefLock<'gc, Option<Gc<'gc, i32>>>,
}

fn new_arena() -> Arena<Rootable![Root<'_>]> {
    Arena::new(|mc| Root {
        ptr: Gc::new(mc, 7),
        slot: Gc::new(mc, RefLock::new(None)),
    })
}

fn main() {
    let mut arena = new_arena();
    let mut out = None;
    arena.finish_marking().unwrap().finalize(|_fc, root| {
        out = Some(root.ptr);
    });
    drop(arena);
    let _ = out;
}
