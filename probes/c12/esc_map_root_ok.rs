//@ expect: accept
//@ run: plain
//@ twin: esc_try_map_root_error
//@ item: escape:map_root_escape:ok
//@ rule: map_root/try_map_root move branded values between root types of the same brand; errors are 'static
// Sanctioned twin: try_map_root fails with the pointee by value; map_root re-roots the same pointer.
use gc_arena::{Arena, Collect, Gc, GcRefLock, Mutation, RefLock, Rootable};

#[derive(Collect)]
#[collect(no_drop)]
struct Root<'gc> {
    ptr: Gc<'gc, i32>,
    slot: GcRefLock<'gc, Option<Gc<'gc, i32>>>,
}

fn new_arena() -> Arena<Rootable![Root<'_>]> {
    Arena::new(|mc| Root {
        ptr: Gc::new(mc, 7),
        slot: Gc::new(mc, RefLock::new(None)),
    })
}

fn main() {
    let r = new_arena().try_map_root::<Rootable![Gc<'_, i32>], i32>(|_mc, root| Err(*root.ptr));
    assert_eq!(r.err(), Some(7));
    let arena = new_arena().map_root::<Rootable![Gc<'_, i32>]>(|_mc, root| root.ptr);
    assert_eq!(arena.mutate(|_mc, root| **root), 7);
}
