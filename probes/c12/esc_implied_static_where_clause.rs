//@ expect: reject
//@ codes:
//@ run: plain
//@ known: C12-implied-static-bound-via-Rootable-dyn-projection
//@ twin: esc_implied_static_ok
//@ item: escape:implied_static:where_clause
//@ rule: no root type may make the callbacks' brand equal to 'static (or to any outer lifetime); Gc<'gc, T> never coerces to Gc<'static, T>
// User root struct declared `where 'gc: 'static`, used through `Rootable!`; a helper fn with that implied bound
// converts the pointer (the call is the offending expression).
use gc_arena::{Arena, Gc, Rootable};
use std::sync::atomic::{AtomicUsize, Ordering};

static DROPS: AtomicUsize = AtomicUsize::new(0);

struct Payload(u64);
impl Drop for Payload {
    fn drop(&mut self) {
        DROPS.fetch_add(1, Ordering::SeqCst);
    }
}

struct W<'gc>
where
    'gc: 'static,
{
    p: Gc<'gc, Payload>,
}

fn launder<'gc>(w: &W<'gc>) -> Gc<'static, Payload> {
    w.p
}

fn main() {
    let arena = Arena::<Rootable![W<'_>]>::new(|mc| W { p: Gc::new_static(mc, Payload(4)) });
    let escaped: Gc<'static, Payload> = arena.mutate(|_mc, root| launder(root));
    assert_eq!(DROPS.load(Ordering::SeqCst), 0);
    drop(arena);
    // Nothing is dereferenced: the drop counter alone shows that the pointee was destroyed while we hold the pointer.
    if DROPS.load(Ordering::SeqCst) == 1 {
        println!(
            "C12-VIOLATION holding Gc<'static, Payload> {:p} after its arena was dropped and the payload destructor ran",
            Gc::as_ptr(escaped)
        );
        std::process::exit(3);
    }
}
