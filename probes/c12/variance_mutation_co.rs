//@ expect: reject
//@ codes:
//@ twin: variance_mutation_id
//@ item: variance:Mutation:co
//@ rule: Mutation is not covariant in its brand lifetime (model: invariant)
// Shortening the brand ('long -> 'short) by a plain move; compiles iff Mutation is covariant (or bivariant) in 'gc.
use gc_arena::Mutation;

fn co<'short, 'long: 'short, 'r>(x: &'r Mutation<'long>) -> &'r Mutation<'short> {
    x
}

fn main() {}
