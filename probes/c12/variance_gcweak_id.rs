//@ expect: accept
//@ twin: variance_gcweak_co
//@ item: variance:GcWeak:id
//@ rule: identity at one brand is well-typed; the co/contra coercion shapes compile for co-/contravariant std types
// Control for variance_gcweak_co / variance_gcweak_contra: same function shapes, brand kept fixed, plus the two
// coercion shapes instantiated at a covariant (&'a i32) and a contravariant (fn(&'a i32)) type.
use gc_arena::GcWeak;

fn id<'a>(x: GcWeak<'a, i32>) -> GcWeak<'a, i32> {
    x
}

fn co_ctl<'short, 'long: 'short>(x: &'long i32) -> &'short i32 {
    x
}

fn contra_ctl<'short, 'long: 'short>(x: fn(&'short i32)) -> fn(&'long i32) {
    x
}

fn main() {}
