//@ expect: accept
//@ twin: variance_gcweak_t_co
//@ item: variance:GcWeak:T:id
//@ rule: identity at one pointee type is well-typed; the same coercion shape compiles for Box<T> (covariant in T)
// Control for variance_gcweak_t_co / _t_contra.
use gc_arena::GcWeak;

fn id_t<'gc, 'a>(x: GcWeak<'gc, &'a i32>) -> GcWeak<'gc, &'a i32> {
    x
}

fn co_t_ctl<'a, 'b: 'a>(x: Box<&'b i32>) -> Box<&'a i32> {
    x
}

fn contra_t_ctl<'a, 'b: 'a>(x: fn(&'a i32)) -> fn(&'b i32) {
    x
}

fn main() {}
