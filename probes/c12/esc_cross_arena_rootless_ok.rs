//@ expect: accept
//@ run: plain
//@ twin: esc_cross_arena_rootless_store
//@ item: escape:cross_arena_rootless_ok
//@ rule: a rootless arena nested inside another arena's callback is fine as long as no pointer crosses
// Positive twin: rootless_mutate inside a.mutate, each side allocating and reading only its own pointers; plain data crosses.
use gc_arena::{Arena, Collect, Gc, GcRefLock, RefLock, Rootable, arena::rootless_mutate};

#[derive(Collect)]
#[collect(no_drop)]
struct Root<'gc> {
    ptr: Gc<'gc, i32>,
    slot: GcRefLock<'gc, Option<Gc<'gc, i32>>>,
}

fn new_arena(v: i32) -> Arena<Rootable![Root<'_>]> {
    Arena::new(|mc| Root { ptr: Gc::new(mc, v), slot: Gc::new(mc, RefLock::new(None)) })
}

fn main() {
    let mut a = new_arena(10);
    let n = a.mutate(|mca, ra| {
        let inner = rootless_mutate(|mcb| *Gc::new(mcb, 5) + *ra.ptr);
        *ra.slot.borrow_mut(mca) = Some(Gc::new(mca, inner));
        inner
    });
    assert_eq!(n, 15);
    a.finish_cycle();
    a.mutate(|_, ra| assert_eq!(**ra.slot.borrow().as_ref().unwrap(), 15));
}
