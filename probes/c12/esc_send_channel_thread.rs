//@ expect: reject
//@ codes: E0277
//@ twin: esc_send_channel_ok
//@ item: escape:send_channel:thread
//@ rule: Receiver<Gc<..>> is !Send because Gc is !Send
// Inside mutate, a channel of Gc is created and its receiver is moved into a scoped thread.
use gc_arena::{Arena, Collect, Gc, GcRefLock, Mutation, RefLock, Rootable};

#[derive(Collect)]
#[collect(no_drop)]
struct Root<'gc> {
    ptr: Gc<'gc, i32>,
    slot: GcRefLock<'gc, Option<Gc<'gc, i32>>>,
}

fn new_arena() -> Arena<Rootable![Root<'_>]> {
    Arena::new(|mc| Root {
        ptr: Gc::new(mc, 7),
        slot: Gc::new(mc, RefLock::new(None)),
    })
}

use std::sync::mpsc;

fn main() {
    let arena = new_arena();
    let got = arena.mutate(|_mc, root| {
        let (tx, rx) = mpsc::channel();
        tx.send(root.ptr).unwrap();
        std::thread::scope(|s| s.spawn(move || *rx.recv().unwrap()).join().unwrap())
    });
    let _ = got;
}
