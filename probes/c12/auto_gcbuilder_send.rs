//@ expect: reject
//@ codes: E0277
//@ twin: auto_ctl_send
//@ item: auto:GcBuilder:Send
//@ rule: GcBuilder is not Send (model: auto-trait computation over the declared fields)
// Asserts `GcBuilder<'gc, i32>: Send`; compiles iff the auto trait is implemented.
use gc_arena::GcBuilder;

fn is_send<T: ?Sized + Send>() {}

fn check<'gc>() {
    is_send::<GcBuilder<'gc, i32>>();
}

fn main() {}
