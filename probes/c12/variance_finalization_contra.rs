//@ expect: reject
//@ codes:
//@ twin: variance_finalization_id
//@ item: variance:Finalization:contra
//@ rule: Finalization is not contravariant in its brand lifetime (model: invariant)
// Lengthening the brand ('short -> 'long) by a plain move; compiles iff Finalization is contravariant (or bivariant) in 'gc.
use gc_arena::Finalization;

fn contra<'short, 'long: 'short, 'r>(x: &'r Finalization<'short>) -> &'r Finalization<'long> {
    x
}

fn main() {}
