//@ expect: reject
//@ codes:
//@ run: plain
//@ known: C12-implied-static-bound-via-Rootable-dyn-projection
//@ twin: esc_implied_static_ok
//@ item: escape:implied_static:cross_arena
//@ rule: no root type may make the callbacks' brand equal to 'static (or to any outer lifetime); Gc<'gc, T> never coerces to Gc<'static, T>
// Two arenas whose root type forces 'gc: 'static: inside nested callbacks both brands equal 'static, so arena A's
// pointer is stored into arena B's slot (the one offending expression); A is then dropped while B still holds the pointer.
use gc_arena::{Arena, Gc, GcRefLock, RefLock, Rootable, Static};
use std::marker::PhantomData;
use std::sync::atomic::{AtomicUsize, Ordering};

static DROPS: AtomicUsize = AtomicUsize::new(0);

struct Payload(u64);
impl Drop for Payload {
    fn drop(&mut self) {
        DROPS.fetch_add(1, Ordering::SeqCst);
    }
}

type P<'gc> = Gc<'gc, Static<Payload>>;
type R = Rootable![(PhantomData<&'static Gc<'_, ()>>, P<'_>, GcRefLock<'_, Option<P<'_>>>)];

fn new_arena(v: u64) -> Arena<R> {
    Arena::new(|mc| (PhantomData, Gc::new(mc, Static(Payload(v))), Gc::new(mc, RefLock::new(None))))
}

fn main() {
    let a = new_arena(1);
    let b = new_arena(2);
    a.mutate(|_mca, ra| {
        b.mutate(|mcb, rb| {
            *rb.2.borrow_mut(mcb) = Some(ra.1);
        })
    });
    assert_eq!(DROPS.load(Ordering::SeqCst), 0);
    drop(a);
    // Nothing is dereferenced or traced: the drop counter shows arena A's payload is gone while B's root points to it.
    let filled = b.mutate(|_mcb, rb| rb.2.borrow().is_some());
    if filled && DROPS.load(Ordering::SeqCst) == 1 {
        println!("C12-VIOLATION arena B's root holds a pointer into arena A after A was dropped and the payload destructor ran");
        std::process::exit(3);
    }
}
