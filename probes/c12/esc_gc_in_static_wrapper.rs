//@ expect: reject
//@ codes:
//@ twin: esc_static_wrapper_ok
//@ item: escape:gc_in_static_wrapper
//@ rule: an arena whose root is Static<Gc<'gc, _>> can be created (Arena::new has no Collect bound) but never collected
// Root type Static<Gc<'_, i32>>: Arena::new and mutate compile (they do not need Collect); the one offending
// expression is `finish_cycle`, which needs `for<'a> Root<'a>: Collect<'a>`.
use gc_arena::{Arena, Collect, Gc, Rootable, Static};

fn main() {
    let mut plain = Arena::<Rootable![Static<Gc<'_, i32>>]>::new(|mc| Static(Gc::new(mc, 3)));
    plain.finish_cycle();
    let _ = plain.mutate(|_mc, root| *root.0);
}
