//@ expect: reject
//@ codes: E0521
//@ twin: esc_unify_two_mutates_ok
//@ item: escape:unify_two_mutates:out
//@ rule: two mutate calls of one arena have distinct brands: a Gc cannot leave the first one
// First mutate call moves the root's Gc into a captured Option; the second call only reads the pointee.
use gc_arena::{Arena, Collect, Gc, GcRefLock, Mutation, RefLock, Rootable};

#[derive(Collect)]
#[collect(no_drop)]
struct Root<'gc> {
    ptr: Gc<'gc, i32>,
    slot: GcRefLock<'gc, Option<Gc<'gc, i32>>>,
}

fn new_arena() -> Arena<Rootable![Root<'_>]> {
    Arena::new(|mc| Root {
        ptr: Gc::new(mc, 7),
        slot: Gc::new(mc, RefLock::new(None)),
    })
}

fn main() {
    let arena = new_arena();
    let mut keep = None;
    arena.mutate(|_mc, root| {
        keep = Some(root.ptr);
    });
    let v: Option<i32> = arena.mutate(|_mc, _root| keep.map(|p| *p));
    let _ = v;
}
