//@ expect: reject
//@ codes: E0277
//@ twin: esc_send_thread_ok
//@ item: escape:send_thread:mutation
//@ rule: Mutation is !Sync: `&Mutation` cannot be shared with a scoped thread (no allocation from another thread)
// Inside mutate, a std::thread::scope thread uses the callback's `mc` to allocate.
use gc_arena::{Arena, Collect, Gc, GcRefLock, Mutation, RefLock, Rootable};

#[derive(Collect)]
#[collect(no_drop)]
struct Root<'gc> {
    ptr: Gc<'gc, i32>,
    slot: GcRefLock<'gc, Option<Gc<'gc, i32>>>,
}

fn new_arena() -> Arena<Rootable![Root<'_>]> {
    Arena::new(|mc| Root {
        ptr: Gc::new(mc, 7),
        slot: Gc::new(mc, RefLock::new(None)),
    })
}

fn main() {
    let arena = new_arena();
    let b = arena.mutate(|mc, _root| std::thread::scope(|s| s.spawn(|| *Gc::new(mc, 2)).join().unwrap()));
    let _ = b;
}
