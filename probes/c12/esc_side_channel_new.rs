//@ expect: reject
//@ codes: E0521
//@ twin: esc_side_channel_ok
//@ item: escape:return_gc_from_new_via_side_channel:new
//@ rule: a branded value cannot be assigned to a variable captured from outside the `for<'gc>` callback
// Arena::new callback assigns the freshly allocated Gc to a captured `let mut out = None`.
use gc_arena::{Arena, Collect, Gc, GcRefLock, Mutation, RefLock, Rootable};

#[derive(Collect)]
#[collect(no_drop)]
struct Root<'gc> {
    ptr: Gc<'gc, i32>,
    slot: GcRefLock<'gc, Option<Gc<'gc, i32>>>,
}

fn new_arena() -> Arena<Rootable![Root<'_>]> {
    Arena::new(|mc| Root {
        ptr: Gc::new(mc, 7),
        slot: Gc::new(mc, RefLock::new(None)),
    })
}

fn main() {
    let mut out = None;
    let arena: Arena<Rootable![Root<'_>]> = Arena::new(|mc| {
        let p = Gc::new(mc, 7);
        out = Some(p);
        Root { ptr: p, slot: Gc::new(mc, RefLock::new(None)) }
    });
    drop(arena);
    let _ = out;
}
