//@ expect: reject
//@ codes:
//@ twin: variance_gclock_id
//@ item: variance:GcLock:co
//@ rule: GcLock is not covariant in its brand lifetime (model: invariant)
// Shortening the brand ('long -> 'short) by a plain move; compiles iff GcLock is covariant (or bivariant) in 'gc.
use gc_arena::GcLock;

fn co<'short, 'long: 'short>(x: GcLock<'long, i32>) -> GcLock<'short, i32> {
    x
}

fn main() {}
