//@ expect: reject
//@ codes:
//@ twin: variance_zstcache_id
//@ item: variance:ZstCache:contra
//@ rule: ZstCache is not contravariant in its brand lifetime (model: invariant)
// Lengthening the brand ('short -> 'long) by a plain move; compiles iff ZstCache is contravariant (or bivariant) in 'gc.
use gc_arena::zst_cache::ZstCache;

fn contra<'short, 'long: 'short>(x: ZstCache<'short, 1>) -> ZstCache<'long, 1> {
    x
}

fn main() {}
