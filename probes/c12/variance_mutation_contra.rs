//@ expect: reject
//@ codes:
//@ twin: variance_mutation_id
//@ item: variance:Mutation:contra
//@ rule: Mutation is not contravariant in its brand lifetime (model: invariant)
// Lengthening the brand ('short -> 'long) by a plain move; compiles iff Mutation is contravariant (or bivariant) in 'gc.
use gc_arena::Mutation;

fn contra<'short, 'long: 'short, 'r>(x: &'r Mutation<'short>) -> &'r Mutation<'long> {
    x
}

fn main() {}
