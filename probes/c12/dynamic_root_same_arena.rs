//@ expect: accept
//@ run: plain
//@ twin: esc_fetch_escape
//@ item: escape:dynamic_root_same_arena
//@ rule: a DynamicRoot handle is 'static, may leave the callback, keeps its object alive and is fetched back under a new brand
// Sanctioned way to keep a pointer across callbacks: stash, leave, two full collections, fetch in a later mutate.
use gc_arena::{Arena, DynamicRoot, DynamicRootSet, Gc, Rootable};

type SetArena = Arena<Rootable![DynamicRootSet<'_>]>;

fn main() {
    let mut a: SetArena = Arena::new(|mc| DynamicRootSet::new(mc));
    let handle: DynamicRoot<Rootable![String]> =
        a.mutate(|mc, set| set.stash::<Rootable![String]>(mc, Gc::new(mc, String::from("kept alive"))));
    a.finish_cycle();
    a.finish_cycle();
    let (contains, ok, text) = a.mutate(|_mc, set| {
        let p: Gc<'_, String> = set.fetch(&handle);
        (set.contains(&handle), set.try_fetch(&handle).is_ok(), String::clone(&p))
    });
    assert!(contains && ok);
    assert_eq!(text, "kept alive");
}
