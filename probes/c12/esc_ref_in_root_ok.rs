//@ expect: accept
//@ run: plain
//@ twin: esc_gc_ref_in_root
//@ item: escape:gc_ref_in_root:ok
//@ rule: &'static T with T: 'static is Collect; RefLock<Option<Gc>> is Collect
// Sanctioned twin of esc_gc_ref_in_root{,_static} and esc_refcell_in_root: `&'static i32` and a RefLock slot in a derived root.
use gc_arena::{Arena, Collect, Gc, RefLock, Rootable};

#[derive(Collect)]
#[collect(no_drop)]
struct Root<'gc> {
    r: &'static i32,
    cell: RefLock<Option<Gc<'gc, i32>>>,
    ptr: Gc<'gc, i32>,
}

fn main() {
    let mut arena = Arena::<Rootable![Root<'_>]>::new(|mc| Root { r: &5, cell: RefLock::new(None), ptr: Gc::new(mc, 2) });
    arena.mutate_root(|_mc, root| *root.cell.get_mut() = Some(root.ptr));
    arena.finish_cycle();
    assert_eq!(arena.mutate(|_mc, root| *root.r + *root.ptr + root.cell.borrow().map(|p| *p).unwrap()), 9);
}
