//@ expect: accept
//@ run: plain
//@ twin: dynamic_root_same_arena
//@ item: escape:dynamic_root_wrong_arena_runtime
//@ rule: using a DynamicRoot with another arena's DynamicRootSet type-checks (the handle is unbranded) and is refused at run time
// Stashes in arena A, then uses the handle with arena B's set: contains = false, try_fetch = Err, fetch panics with
// "mismatched root set". Exit 0 iff all three hold (3 = a pointer of A was handed out under B's brand).
use gc_arena::{Arena, DynamicRoot, DynamicRootSet, Gc, Rootable};
use std::panic::{AssertUnwindSafe, catch_unwind};

type SetArena = Arena<Rootable![DynamicRootSet<'_>]>;

fn main() {
    let a: SetArena = Arena::new(|mc| DynamicRootSet::new(mc));
    let b: SetArena = Arena::new(|mc| DynamicRootSet::new(mc));
    let handle: DynamicRoot<Rootable![i32]> = a.mutate(|mc, set| set.stash::<Rootable![i32]>(mc, Gc::new(mc, 44)));

    let (contains, try_is_err) = b.mutate(|_mc, set| (set.contains(&handle), set.try_fetch(&handle).is_err()));
    if contains || !try_is_err {
        println!("C12-VIOLATION wrong-arena handle accepted: contains={contains} try_fetch_is_err={try_is_err}");
        std::process::exit(3);
    }

    std::panic::set_hook(Box::new(|_| {}));
    let fetched = catch_unwind(AssertUnwindSafe(|| b.mutate(|_mc, set| *set.fetch(&handle))));
    let _ = std::panic::take_hook();
    match fetched {
        Ok(v) => {
            println!("C12-VIOLATION fetch of a wrong-arena handle returned {v}");
            std::process::exit(3);
        }
        Err(payload) => {
            let msg = payload
                .downcast_ref::<&str>()
                .map(|s| s.to_string())
                .or_else(|| payload.downcast_ref::<String>().cloned())
                .unwrap_or_default();
            assert!(msg.contains("mismatched root set"), "unexpected panic message: {msg:?}");
        }
    }
    // the owning arena still serves the handle
    assert_eq!(a.mutate(|_mc, set| *set.fetch(&handle)), 44);
}
