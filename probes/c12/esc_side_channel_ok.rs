//@ expect: accept
//@ run: plain
//@ twin: esc_side_channel_mutate
//@ item: escape:side_channel:ok
//@ rule: captured outer variables may receive 'static data from inside callbacks
// Sanctioned twin of the esc_side_channel_* probes: same captures, storing the pointee (i32) instead of the Gc.
use gc_arena::{Arena, Collect, Gc, GcRefLock, Mutation, RefLock, Rootable};

#[derive(Collect)]
#[collect(no_drop)]
struct Root<'gc> {
    ptr: Gc<'gc, i32>,
    slot: GcRefLock<'gc, Option<Gc<'gc, i32>>>,
}

fn new_arena() -> Arena<Rootable![Root<'_>]> {
    Arena::new(|mc| Root {
        ptr: Gc::new(mc, 7),
        slot: Gc::new(mc, RefLock::new(None)),
    })
}

fn main() {
    let mut from_new = None;
    let mut arena: Arena<Rootable![Root<'_>]> = Arena::new(|mc| {
        let p = Gc::new(mc, 7);
        from_new = Some(*p);
        Root { ptr: p, slot: Gc::new(mc, RefLock::new(None)) }
    });
    let mut from_mutate = None;
    arena.mutate(|_mc, root| {
        from_mutate = Some(*root.ptr);
    });
    let from_cell = std::cell::RefCell::new(None);
    arena.mutate(|_mc, root| {
        *from_cell.borrow_mut() = Some(*root.ptr);
    });
    let mut from_finalize = None;
    arena.finish_marking().unwrap().finalize(|_fc, root| {
        from_finalize = Some(*root.ptr);
    });
    assert_eq!((from_new, from_mutate, from_cell.into_inner(), from_finalize), (Some(7), Some(7), Some(7), Some(7)));
}
