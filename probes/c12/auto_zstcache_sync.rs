//@ expect: reject
//@ codes: E0277
//@ twin: auto_ctl_sync
//@ item: auto:ZstCache:Sync
//@ rule: ZstCache is not Sync (model: auto-trait computation over the declared fields)
// Asserts `ZstCache<'gc, 1>: Sync`; compiles iff the auto trait is implemented.
use gc_arena::zst_cache::ZstCache;

fn is_sync<T: ?Sized + Sync>() {}

fn check<'gc>() {
    is_sync::<ZstCache<'gc, 1>>();
}

fn main() {}
