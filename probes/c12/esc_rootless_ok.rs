//@ expect: accept
//@ run: plain
//@ twin: esc_return_from_rootless_mutate
//@ item: escape:return_from_rootless_mutate:ok
//@ rule: rootless_mutate may return 'static data
// Sanctioned twin: returns the pointee by value.
use gc_arena::{Gc, arena::rootless_mutate};

fn main() {
    let v: i32 = rootless_mutate(|mc| *Gc::new(mc, 1));
    assert_eq!(v, 1);
}
