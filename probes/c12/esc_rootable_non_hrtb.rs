//@ expect: reject
//@ codes: E0599
//@ twin: esc_root_type_ok
//@ item: escape:rootable_non_hrtb
//@ rule: Arena<R> requires `R: for<'a> Rootable<'a>`; an impl for one lifetime only is not enough
// Rootable implemented by hand for 'static only, then used as the arena's root description.
use gc_arena::{Arena, Gc, Rootable};

struct ByHand;
impl Rootable<'static> for ByHand {
    type Root = Gc<'static, i32>;
}

fn main() {
    let b = Arena::<ByHand>::new(|mc| Gc::new(mc, 2));
    let _ = b;
}
