//@ expect: reject
//@ codes: E0277
//@ twin: esc_mutate_ok
//@ item: escape:panic_payload
//@ rule: a panic payload must be `Any + Send` (hence 'static): a Gc cannot ride an unwind out of the callback
// Inside mutate, panics with the root's Gc as payload (to be caught by catch_unwind outside).
use gc_arena::{Arena, Collect, Gc, GcRefLock, Mutation, RefLock, Rootable};

#[derive(Collect)]
#[collect(no_drop)]
struct Root<'gc> {
    ptr: Gc<'gc, i32>,
    slot: GcRefLock<'gc, Option<Gc<'gc, i32>>>,
}

fn new_arena() -> Arena<Rootable![Root<'_>]> {
    Arena::new(|mc| Root {
        ptr: Gc::new(mc, 7),
        slot: Gc::new(mc, RefLock::new(None)),
    })
}

fn main() {
    let arena = new_arena();
    let by_panic = std::panic::catch_unwind(std::panic::AssertUnwindSafe(|| {
        arena.mutate(|_mc, root| -> () { std::panic::panic_any(root.ptr) })
    }));
    drop(arena);
    let _ = by_panic;
}
