//@ expect: reject
//@ codes:
//@ twin: variance_gcreflock_id
//@ item: variance:GcRefLock:co
//@ rule: GcRefLock is not covariant in its brand lifetime (model: invariant)
// Shortening the brand ('long -> 'short) by a plain move; compiles iff GcRefLock is covariant (or bivariant) in 'gc.
use gc_arena::GcRefLock;

fn co<'short, 'long: 'short>(x: GcRefLock<'long, i32>) -> GcRefLock<'short, i32> {
    x
}

fn main() {}
