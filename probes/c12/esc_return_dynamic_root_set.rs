//@ expect: reject
//@ codes:
//@ twin: dynamic_root_same_arena
//@ item: escape:return_dynamic_root_set
//@ rule: the return type T of a `for<'gc>` callback cannot mention the brand 'gc
// The DynamicRootSet<'gc> itself (a branded Gc inside) cannot be returned from mutate; only DynamicRoot handles can.
use gc_arena::{Arena, DynamicRoot, DynamicRootSet, Gc, Rootable};

type SetArena = Arena<Rootable![DynamicRootSet<'_>]>;

fn main() {
    let a: SetArena = Arena::new(|mc| DynamicRootSet::new(mc));
    let escaped = a.mutate(|_mc, set| *set);
    drop(a);
    let _ = escaped;
}
