//@ expect: accept
//@ run: plain
//@ twin: esc_store_thread_local
//@ item: escape:store_thread_local:ok
//@ rule: thread-locals may hold 'static data computed from a Gc
// Sanctioned twin: thread_local RefCell<Option<i32>> filled from inside mutate.
use gc_arena::{Arena, Collect, Gc, GcRefLock, Mutation, RefLock, Rootable};

#[derive(Collect)]
#[collect(no_drop)]
struct Root<'gc> {
    ptr: Gc<'gc, i32>,
    slot: GcRefLock<'gc, Option<Gc<'gc, i32>>>,
}

fn new_arena() -> Arena<Rootable![Root<'_>]> {
    Arena::new(|mc| Root {
        ptr: Gc::new(mc, 7),
        slot: Gc::new(mc, RefLock::new(None)),
    })
}

use std::cell::RefCell;

thread_local! {
    static SLOT: RefCell<Option<i32>> = RefCell::new(None);
}

fn main() {
    let arena = new_arena();
    arena.mutate(|_mc, root| {
        SLOT.with(|s| *s.borrow_mut() = Some(*root.ptr));
    });
    assert_eq!(SLOT.with(|s| *s.borrow()), Some(7));
}
