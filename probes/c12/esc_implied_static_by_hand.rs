//@ expect: reject
//@ codes: E0491
//@ twin: esc_root_type_ok
//@ item: escape:implied_static:by_hand
//@ rule: a hand-written `impl<'a> Rootable<'a>` must have a well-formed Root for every 'a
// The same ill-formed root type given through an ordinary impl instead of `Rootable!` (rustc checks this one: E0491).
use gc_arena::{Arena, Gc, Rootable};

struct ByHand;
impl<'a> Rootable<'a> for ByHand {
    type Root = &'static Gc<'a, i32>;
}

fn main() {}
