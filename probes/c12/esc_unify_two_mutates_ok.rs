//@ expect: accept
//@ run: plain
//@ twin: esc_unify_two_mutates_out
//@ item: escape:unify_two_mutates:ok
//@ rule: 'static data may be carried from one mutate call to the next
// Sanctioned twin: carries the pointee (i32) from the first mutate call into the second, which re-allocates it.
use gc_arena::{Arena, Collect, Gc, GcRefLock, Mutation, RefLock, Rootable};

#[derive(Collect)]
#[collect(no_drop)]
struct Root<'gc> {
    ptr: Gc<'gc, i32>,
    slot: GcRefLock<'gc, Option<Gc<'gc, i32>>>,
}

fn new_arena() -> Arena<Rootable![Root<'_>]> {
    Arena::new(|mc| Root {
        ptr: Gc::new(mc, 7),
        slot: Gc::new(mc, RefLock::new(None)),
    })
}

fn main() {
    let arena = new_arena();
    let mut keep: Option<i32> = None;
    arena.mutate(|_mc, root| {
        keep = Some(*root.ptr);
    });
    arena.mutate(|mc, root| {
        *root.slot.borrow_mut(mc) = keep.map(|v| Gc::new(mc, v));
    });
    assert_eq!(arena.mutate(|_mc, root| root.slot.borrow().map(|p| *p)), Some(7));
}
