//@ expect: reject
//@ codes: E0521
//@ twin: esc_store_static_mut_ok
//@ item: escape:store_static_mut
//@ rule: Gc<'gc, _> is not Gc<'static, _>: even a `static mut` (no Sync needed, access already `unsafe`) cannot receive it
// `static mut SLOT: Option<Gc<'static, i32>>` assigned from inside mutate. The `unsafe` block is inherent to
// `static mut` access (see the twin) and does not license the brand mismatch, which is what gets rejected.
use gc_arena::{Arena, Collect, Gc, GcRefLock, Mutation, RefLock, Rootable};

#[derive(Collect)]
#[collect(no_drop)]
struct Root<'gc> {
    ptr: Gc<'gc, i32>,
    slot: GcRefLock<'gc, Option<Gc<'gc, i32>>>,
}

fn new_arena() -> Arena<Rootable![Root<'_>]> {
    Arena::new(|mc| Root {
        ptr: Gc::new(mc, 7),
        slot: Gc::new(mc, RefLock::new(None)),
    })
}

static mut SLOT: Option<Gc<'static, i32>> = None;

fn main() {
    let arena = new_arena();
    arena.mutate(|_mc, root| {
        // `unsafe` is inherent to `static mut`; it is not what the twin pair is about.
        unsafe {
            SLOT = Some(root.ptr);
        }
    });
}
