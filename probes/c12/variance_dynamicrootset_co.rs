//@ expect: reject
//@ codes:
//@ twin: variance_dynamicrootset_id
//@ item: variance:DynamicRootSet:co
//@ rule: DynamicRootSet is not covariant in its brand lifetime (model: invariant)
// Shortening the brand ('long -> 'short) by a plain move; compiles iff DynamicRootSet is covariant (or bivariant) in 'gc.
use gc_arena::DynamicRootSet;

fn co<'short, 'long: 'short>(x: DynamicRootSet<'long>) -> DynamicRootSet<'short> {
    x
}

fn main() {}
