//@ expect: reject
//@ codes:
//@ twin: variance_gcslice_id
//@ item: variance:GcSlice:co
//@ rule: GcSlice is not covariant in its brand lifetime (model: invariant)
// Shortening the brand ('long -> 'short) by a plain move; compiles iff GcSlice is covariant (or bivariant) in 'gc.
use gc_arena::GcSlice;

fn co<'short, 'long: 'short>(x: GcSlice<'long, i32>) -> GcSlice<'short, i32> {
    x
}

fn main() {}
