//@ expect: reject
//@ codes:
//@ twin: variance_gcthinslice_id
//@ item: variance:GcThinSlice:co
//@ rule: GcThinSlice is not covariant in its brand lifetime (model: invariant)
// Shortening the brand ('long -> 'short) by a plain move; compiles iff GcThinSlice is covariant (or bivariant) in 'gc.
use gc_arena::GcThinSlice;

fn co<'short, 'long: 'short>(x: GcThinSlice<'long, i32>) -> GcThinSlice<'short, i32> {
    x
}

fn main() {}
