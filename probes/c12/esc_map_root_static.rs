//@ expect: reject
//@ codes:
//@ twin: esc_map_root_ok
//@ item: escape:map_root_static
//@ rule: a new root type naming Gc<'static, _> cannot be built from Gc<'gc, _>
// Arena::map_root into a root type that hard-codes the 'static brand.
use gc_arena::{Arena, Collect, Gc, GcRefLock, Mutation, RefLock, Rootable};

#[derive(Collect)]
#[collect(no_drop)]
struct Root<'gc> {
    ptr: Gc<'gc, i32>,
    slot: GcRefLock<'gc, Option<Gc<'gc, i32>>>,
}

fn new_arena() -> Arena<Rootable![Root<'_>]> {
    Arena::new(|mc| Root {
        ptr: Gc::new(mc, 7),
        slot: Gc::new(mc, RefLock::new(None)),
    })
}

fn main() {
    let arena = new_arena().map_root::<Rootable!['a => Gc<'static, i32>]>(|_mc, root| root.ptr);
    let _ = arena;
}
