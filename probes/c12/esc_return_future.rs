//@ expect: reject
//@ codes:
//@ twin: esc_mutate_ok
//@ item: escape:return_future
//@ rule: the return type T of a `for<'gc>` callback cannot mention the brand 'gc
// Arena::mutate callback returns an `async move` block that captured the root's Gc (the future's type mentions 'gc).
use gc_arena::{Arena, Collect, Gc, GcRefLock, Mutation, RefLock, Rootable};

#[derive(Collect)]
#[collect(no_drop)]
struct Root<'gc> {
    ptr: Gc<'gc, i32>,
    slot: GcRefLock<'gc, Option<Gc<'gc, i32>>>,
}

fn new_arena() -> Arena<Rootable![Root<'_>]> {
    Arena::new(|mc| Root {
        ptr: Gc::new(mc, 7),
        slot: Gc::new(mc, RefLock::new(None)),
    })
}

fn main() {
    let arena = new_arena();
    let escaped = arena.mutate(|_mc, root| {
        let p = root.ptr;
        async move { *p }
    });
    drop(arena);
    drop(escaped);
}
