//@ expect: accept
//@ run: plain
//@ twin: esc_box_dyn_any
//@ item: escape:box_dyn_any:ok
//@ rule: Box<dyn Any> can carry 'static data out of a callback
// Sanctioned twin: boxes the pointee (i32) as dyn Any, returns it, downcasts outside.
use gc_arena::{Arena, Collect, Gc, GcRefLock, Mutation, RefLock, Rootable};

#[derive(Collect)]
#[collect(no_drop)]
struct Root<'gc> {
    ptr: Gc<'gc, i32>,
    slot: GcRefLock<'gc, Option<Gc<'gc, i32>>>,
}

fn new_arena() -> Arena<Rootable![Root<'_>]> {
    Arena::new(|mc| Root {
        ptr: Gc::new(mc, 7),
        slot: Gc::new(mc, RefLock::new(None)),
    })
}

use std::any::Any;

fn main() {
    let arena = new_arena();
    let boxed: Box<dyn Any> = arena.mutate(|_mc, root| Box::new(*root.ptr) as Box<dyn Any>);
    assert_eq!(boxed.downcast_ref::<i32>(), Some(&7));
}
