//@ expect: reject
//@ codes: E0277
//@ twin: esc_send_thread_ok
//@ item: escape:send_thread:scope
//@ rule: Gc is !Send: it cannot be moved into a scoped thread either (no 'static needed there)
// Inside mutate, moves the root's Gc into a std::thread::scope thread that dereferences it.
use gc_arena::{Arena, Collect, Gc, GcRefLock, Mutation, RefLock, Rootable};

#[derive(Collect)]
#[collect(no_drop)]
struct Root<'gc> {
    ptr: Gc<'gc, i32>,
    slot: GcRefLock<'gc, Option<Gc<'gc, i32>>>,
}

fn new_arena() -> Arena<Rootable![Root<'_>]> {
    Arena::new(|mc| Root {
        ptr: Gc::new(mc, 7),
        slot: Gc::new(mc, RefLock::new(None)),
    })
}

fn main() {
    let arena = new_arena();
    let b = arena.mutate(|_mc, root| {
        let p = root.ptr;
        std::thread::scope(|s| s.spawn(move || *p + 2).join().unwrap())
    });
    let _ = b;
}
