//@ expect: reject
//@ codes:
//@ twin: esc_mutate_ok
//@ item: escape:return_mutation
//@ rule: the return type T of a `for<'gc>` callback cannot mention the brand 'gc
// Arena::mutate callback returns the `&'gc Mutation<'gc>` itself.
use gc_arena::{Arena, Collect, Gc, GcRefLock, Mutation, RefLock, Rootable};

#[derive(Collect)]
#[collect(no_drop)]
struct Root<'gc> {
    ptr: Gc<'gc, i32>,
    slot: GcRefLock<'gc, Option<Gc<'gc, i32>>>,
}

fn new_arena() -> Arena<Rootable![Root<'_>]> {
    Arena::new(|mc| Root {
        ptr: Gc::new(mc, 7),
        slot: Gc::new(mc, RefLock::new(None)),
    })
}

fn main() {
    let arena = new_arena();
    let escaped = arena.mutate(|mc, _root| mc);
    drop(arena);
    let _ = escaped;
}
