//@ expect: accept
//@ run: plain
//@ twin: esc_try_new_error
//@ item: escape:try_new_error_escape:ok
//@ rule: the error type E of try_new may be any type not mentioning 'gc
// Sanctioned twin: Err carries a String rendered from the Gc.
use gc_arena::{Arena, Collect, Gc, GcRefLock, Mutation, RefLock, Rootable};

#[derive(Collect)]
#[collect(no_drop)]
struct Root<'gc> {
    ptr: Gc<'gc, i32>,
    slot: GcRefLock<'gc, Option<Gc<'gc, i32>>>,
}

fn new_arena() -> Arena<Rootable![Root<'_>]> {
    Arena::new(|mc| Root {
        ptr: Gc::new(mc, 7),
        slot: Gc::new(mc, RefLock::new(None)),
    })
}

fn main() {
    let r = Arena::<Rootable![Root<'_>]>::try_new(|mc| Err(format!("{}", *Gc::new(mc, 1))));
    assert_eq!(r.err().as_deref(), Some("1"));
}
