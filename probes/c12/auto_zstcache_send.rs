//@ expect: reject
//@ codes: E0277
//@ twin: auto_ctl_send
//@ item: auto:ZstCache:Send
//@ rule: ZstCache is not Send (model: auto-trait computation over the declared fields)
// Asserts `ZstCache<'gc, 1>: Send`; compiles iff the auto trait is implemented.
use gc_arena::zst_cache::ZstCache;

fn is_send<T: ?Sized + Send>() {}

fn check<'gc>() {
    is_send::<ZstCache<'gc, 1>>();
}

fn main() {}
