//@ expect: reject
//@ codes: E0277
//@ twin: auto_ctl_sync
//@ item: auto:Gc:Sync
//@ rule: Gc is not Sync (model: auto-trait computation over the declared fields)
// Asserts `Gc<'gc, i32>: Sync`; compiles iff the auto trait is implemented.
use gc_arena::Gc;

fn is_sync<T: ?Sized + Sync>() {}

fn check<'gc>() {
    is_sync::<Gc<'gc, i32>>();
}

fn main() {}
