//@ expect: reject
//@ codes:
//@ twin: dynamic_root_same_arena
//@ item: escape:fetch_escape
//@ rule: the return type T of a `for<'gc>` callback cannot mention the brand 'gc
// The Gc obtained from DynamicRootSet::fetch is branded by the fetching callback and cannot be returned from it.
use gc_arena::{Arena, DynamicRoot, DynamicRootSet, Gc, Rootable};

type SetArena = Arena<Rootable![DynamicRootSet<'_>]>;

fn main() {
    let a: SetArena = Arena::new(|mc| DynamicRootSet::new(mc));
    let handle: DynamicRoot<Rootable![String]> =
        a.mutate(|mc, set| set.stash::<Rootable![String]>(mc, Gc::new(mc, String::from("kept alive"))));
    let escaped = a.mutate(|_mc, set| set.fetch(&handle));
    drop(a);
    let _ = escaped;
}
