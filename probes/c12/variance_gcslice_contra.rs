//@ expect: reject
//@ codes:
//@ twin: variance_gcslice_id
//@ item: variance:GcSlice:contra
//@ rule: GcSlice is not contravariant in its brand lifetime (model: invariant)
// Lengthening the brand ('short -> 'long) by a plain move; compiles iff GcSlice is contravariant (or bivariant) in 'gc.
use gc_arena::GcSlice;

fn contra<'short, 'long: 'short>(x: GcSlice<'short, i32>) -> GcSlice<'long, i32> {
    x
}

fn main() {}
