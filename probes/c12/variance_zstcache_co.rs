//@ expect: reject
//@ codes:
//@ twin: variance_zstcache_id
//@ item: variance:ZstCache:co
//@ rule: ZstCache is not covariant in its brand lifetime (model: invariant)
// Shortening the brand ('long -> 'short) by a plain move; compiles iff ZstCache is covariant (or bivariant) in 'gc.
use gc_arena::zst_cache::ZstCache;

fn co<'short, 'long: 'short>(x: ZstCache<'long, 1>) -> ZstCache<'short, 1> {
    x
}

fn main() {}
