//@ expect: reject
//@ codes: E0521
//@ twin: esc_ref_in_root_ok
//@ item: escape:gc_ref_in_root
//@ rule: the only Collect impl for references is `&'static T where T: 'static`: `&'gc Gc<'gc, _>` is not Collect
// Derived Collect root with a field `&'gc Gc<'gc, i32>` (e.g. from Gc::as_ref of a Gc<Gc<i32>>): untraced edge.
use gc_arena::{Arena, Collect, Gc, RefLock, Rootable};

#[derive(Collect)]
#[collect(no_drop)]
struct Root<'gc> {
    r: &'gc Gc<'gc, i32>,
    cell: RefLock<Option<Gc<'gc, i32>>>,
    ptr: Gc<'gc, i32>,
}

fn main() {}
