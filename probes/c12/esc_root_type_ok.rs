//@ expect: accept
//@ run: plain
//@ twin: esc_root_type_static_gc
//@ item: escape:root_type:ok
//@ rule: a root type built with the elided/named brand accepts pointers allocated in Arena::new; a for-all Rootable impl is usable
// Sanctioned twin of esc_root_type_static_gc and esc_rootable_non_hrtb.
use gc_arena::{Arena, Gc, Rootable};

struct ByHand;
impl<'a> Rootable<'a> for ByHand {
    type Root = Gc<'a, i32>;
}

fn main() {
    let a = Arena::<Rootable!['a => Gc<'a, i32>]>::new(|mc| Gc::new(mc, 1));
    let b = Arena::<ByHand>::new(|mc| Gc::new(mc, 2));
    assert_eq!(a.mutate(|_mc, root| **root) + b.mutate(|_mc, root| **root), 3);
}
