//@ expect: accept
//@ run: plain
//@ twin: esc_gc_in_static_wrapper
//@ item: escape:gc_in_static_wrapper:ok
//@ rule: Static<T> is Collect for 'static T; a root made of it can be collected
// Sanctioned twin of esc_gc_in_static_wrapper{,_field}: Static<i32> next to a Gc in a derived root; full cycle runs.
use gc_arena::{Arena, Collect, Gc, Rootable, Static};

#[derive(Collect)]
#[collect(no_drop)]
struct Root<'gc> {
    wrapped: Static<i32>,
    ptr: Gc<'gc, i32>,
}

fn main() {
    let mut arena = Arena::<Rootable![Root<'_>]>::new(|mc| Root { wrapped: Static(1), ptr: Gc::new(mc, 2) });
    arena.finish_cycle();
    let mut plain = Arena::<Rootable![Static<i32>]>::new(|_mc| Static(3));
    plain.finish_cycle();
    assert_eq!(arena.mutate(|_mc, root| root.wrapped.0 + *root.ptr) + plain.mutate(|_mc, root| root.0), 6);
}
