//@ expect: reject
//@ codes:
//@ twin: esc_root_type_ok
//@ item: escape:root_type_static_gc
//@ rule: a root type hard-coding Gc<'static, _> cannot be constructed from Gc::new(mc, ..) in Arena::new
// Root type `Gc<'static, i32>` (ignoring the binder's lifetime), constructor returns a freshly allocated Gc<'gc, i32>.
use gc_arena::{Arena, Gc, Rootable};

fn main() {
    let a = Arena::<Rootable!['a => Gc<'static, i32>]>::new(|mc| Gc::new(mc, 1));
    let _ = a;
}
