//@ expect: accept
//@ run: plain
//@ twin: esc_send_channel
//@ item: escape:send_channel:ok
//@ rule: channels of 'static Send data work across callbacks and threads
// Sanctioned twin of esc_send_channel / esc_send_channel_thread: the channel carries the pointee (i32).
use gc_arena::{Arena, Collect, Gc, GcRefLock, Mutation, RefLock, Rootable};

#[derive(Collect)]
#[collect(no_drop)]
struct Root<'gc> {
    ptr: Gc<'gc, i32>,
    slot: GcRefLock<'gc, Option<Gc<'gc, i32>>>,
}

fn new_arena() -> Arena<Rootable![Root<'_>]> {
    Arena::new(|mc| Root {
        ptr: Gc::new(mc, 7),
        slot: Gc::new(mc, RefLock::new(None)),
    })
}

use std::sync::mpsc;

fn main() {
    let arena = new_arena();
    let (tx, rx) = mpsc::channel();
    arena.mutate(|_mc, root| tx.send(*root.ptr).unwrap());
    assert_eq!(rx.recv().unwrap(), 7);
    let got = arena.mutate(|_mc, root| {
        let (tx, rx) = mpsc::channel();
        tx.send(*root.ptr).unwrap();
        std::thread::scope(|s| s.spawn(move || rx.recv().unwrap()).join().unwrap())
    });
    assert_eq!(got, 7);
}
