//@ expect: reject
//@ codes:
//@ twin: esc_map_root_ok
//@ item: escape:map_root_escape
//@ rule: the error type E of Arena::try_map_root cannot mention 'gc
// Arena::try_map_root callback returns Err(root.ptr): the arena is consumed and dropped, the Gc would survive it.
use gc_arena::{Arena, Collect, Gc, GcRefLock, Mutation, RefLock, Rootable};

#[derive(Collect)]
#[collect(no_drop)]
struct Root<'gc> {
    ptr: Gc<'gc, i32>,
    slot: GcRefLock<'gc, Option<Gc<'gc, i32>>>,
}

fn new_arena() -> Arena<Rootable![Root<'_>]> {
    Arena::new(|mc| Root {
        ptr: Gc::new(mc, 7),
        slot: Gc::new(mc, RefLock::new(None)),
    })
}

fn main() {
    let r = new_arena().try_map_root::<Rootable![Gc<'_, i32>], _>(|_mc, root| Err(root.ptr));
    let _ = r.err();
}
