//@ expect: reject
//@ codes: E0277
//@ twin: auto_ctl_send
//@ item: auto:GcLock:Send
//@ rule: GcLock is not Send (model: auto-trait computation over the declared fields)
// Asserts `GcLock<'gc, i32>: Send`; compiles iff the auto trait is implemented.
use gc_arena::GcLock;

fn is_send<T: ?Sized + Send>() {}

fn check<'gc>() {
    is_send::<GcLock<'gc, i32>>();
}

fn main() {}
