//@ expect: reject
//@ codes:
//@ twin: variance_gc_t_id
//@ item: variance:Gc:T:contra
//@ rule: Gc is not contravariant in T (model: invariant)
// Lengthening a lifetime inside the pointee type; compiles iff Gc<'gc, T> is contravariant in T.
use gc_arena::Gc;

fn contra_t<'gc, 'a, 'b: 'a>(x: Gc<'gc, &'a i32>) -> Gc<'gc, &'b i32> {
    x
}

fn main() {}
