//@ expect: reject
//@ codes: E0277
//@ twin: auto_ctl_send
//@ item: auto:Metrics:Send
//@ rule: Metrics is not Send (model: auto-trait computation over the declared fields)
// Asserts `Metrics: Send`; compiles iff the auto trait is implemented.
use gc_arena::metrics::Metrics;

fn is_send<T: ?Sized + Send>() {}

fn check() {
    is_send::<Metrics>();
}

fn main() {}
