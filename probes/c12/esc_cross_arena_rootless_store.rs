//@ expect: reject
//@ codes: E0521
//@ twin: esc_cross_arena_rootless_ok
//@ item: escape:cross_arena_rootless_store
//@ rule: the brand of a rootless arena (its own `for<'gc>` callback) never unifies with another arena's brand
// Stores a pointer allocated in the temporary rootless arena under arena A's root: it dangles when rootless_mutate returns.
use gc_arena::{Arena, Collect, Gc, GcRefLock, RefLock, Rootable, arena::rootless_mutate};

#[derive(Collect)]
#[collect(no_drop)]
struct Root<'gc> {
    ptr: Gc<'gc, i32>,
    slot: GcRefLock<'gc, Option<Gc<'gc, i32>>>,
}

fn new_arena(v: i32) -> Arena<Rootable![Root<'_>]> {
    Arena::new(|mc| Root { ptr: Gc::new(mc, v), slot: Gc::new(mc, RefLock::new(None)) })
}

fn main() {
    let a = new_arena(10);
    a.mutate(|mca, ra| {
        rootless_mutate(|mcb| {
            *ra.slot.borrow_mut(mca) = Some(Gc::new(mcb, 5));
        })
    });
}
