//@ expect: accept
//@ twin: auto_gc_send
//@ item: auto:ctl:Send
//@ rule: plain-data types of the crate are Send (Pacing, CollectionPhase, Static<u32>, Lock<u32>); same assertion shape as auto_*_send
// Control for every auto_*_send probe: the `is_send::<T>()` shape compiles for types the model computes as Send.
// Recorded facts (rustc today): Pacing, CollectionPhase, Static<u32>, Lock<u32>, RefLock<u32> are all Send.
use gc_arena::{Lock, RefLock, Static, arena::CollectionPhase, metrics::Pacing};

fn is_send<T: ?Sized + Send>() {}

fn check<'gc>() {
    is_send::<Pacing>();
    is_send::<CollectionPhase>();
    is_send::<Static<u32>>();
    is_send::<Lock<u32>>();
    is_send::<RefLock<u32>>();
}

fn main() {
    check();
}
