//@ expect: reject
//@ codes: E0277
//@ twin: auto_ctl_send
//@ item: auto:Gc:Send
//@ rule: Gc is not Send (model: auto-trait computation over the declared fields)
// Asserts `Gc<'gc, i32>: Send`; compiles iff the auto trait is implemented.
use gc_arena::Gc;

fn is_send<T: ?Sized + Send>() {}

fn check<'gc>() {
    is_send::<Gc<'gc, i32>>();
}

fn main() {}
