//@ expect: reject
//@ codes: E0277
//@ twin: auto_ctl_send
//@ item: auto:Finalization:Send
//@ rule: Finalization is not Send (model: auto-trait computation over the declared fields)
// Asserts `Finalization<'gc>: Send`; compiles iff the auto trait is implemented.
use gc_arena::Finalization;

fn is_send<T: ?Sized + Send>() {}

fn check<'gc>() {
    is_send::<Finalization<'gc>>();
}

fn main() {}
