//@ expect: accept
//@ run: plain
//@ twin: esc_return_from_mutate_root
//@ item: escape:return_from_mutate_root:ok
//@ rule: mutate_root may replace parts of the root and return 'static data
// Sanctioned twin: swaps a new pointer into the root, returns the old pointee by value.
use gc_arena::{Arena, Collect, Gc, GcRefLock, Mutation, RefLock, Rootable};

#[derive(Collect)]
#[collect(no_drop)]
struct Root<'gc> {
    ptr: Gc<'gc, i32>,
    slot: GcRefLock<'gc, Option<Gc<'gc, i32>>>,
}

fn new_arena() -> Arena<Rootable![Root<'_>]> {
    Arena::new(|mc| Root {
        ptr: Gc::new(mc, 7),
        slot: Gc::new(mc, RefLock::new(None)),
    })
}

fn main() {
    let mut arena = new_arena();
    let old: i32 = arena.mutate_root(|mc, root| {
        let old = std::mem::replace(&mut root.ptr, Gc::new(mc, 8));
        *old
    });
    assert_eq!(old, 7);
    assert_eq!(arena.mutate(|_mc, root| *root.ptr), 8);
}
