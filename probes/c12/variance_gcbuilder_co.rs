//@ expect: reject
//@ codes:
//@ twin: variance_gcbuilder_id
//@ item: variance:GcBuilder:co
//@ rule: GcBuilder is not covariant in its brand lifetime (model: invariant)
// Shortening the brand ('long -> 'short) by a plain move; compiles iff GcBuilder is covariant (or bivariant) in 'gc.
use gc_arena::GcBuilder;

fn co<'short, 'long: 'short>(x: GcBuilder<'long, i32>) -> GcBuilder<'short, i32> {
    x
}

fn main() {}
