//@ expect: reject
//@ codes:
//@ run: plain
//@ known: C12-implied-static-bound-via-Rootable-dyn-projection
//@ twin: esc_implied_static_ok
//@ item: escape:implied_static:phantom_root
//@ rule: no root type may make the callbacks' brand equal to 'static (or to any outer lifetime); Gc<'gc, T> never coerces to Gc<'static, T>
// Root type (PhantomData<&'static Gc<'gc, Payload>>, Gc<'gc, Payload>) given through `Rootable!`. The type is only
// well-formed if 'gc: 'static; rustc does not check that under the macro's `dyn for<'a> Rootable<'a, Root = ..>`, and then
// assumes it inside every callback, so `Gc<'gc, _>` coerces to `Gc<'static, _>` (the one offending expression) and leaves.
use gc_arena::{Arena, Gc, Rootable};
use std::marker::PhantomData;
use std::sync::atomic::{AtomicUsize, Ordering};

static DROPS: AtomicUsize = AtomicUsize::new(0);

struct Payload(u64);
impl Drop for Payload {
    fn drop(&mut self) {
        DROPS.fetch_add(1, Ordering::SeqCst);
    }
}

type R = Rootable![(PhantomData<&'static Gc<'_, Payload>>, Gc<'_, Payload>)];

fn main() {
    let mut arena = Arena::<R>::new(|mc| (PhantomData, Gc::new_static(mc, Payload(4))));
    arena.finish_cycle();
    let escaped: Gc<'static, Payload> = arena.mutate(|_mc, root| {
        let g: Gc<'static, Payload> = root.1;
        g
    });
    assert_eq!(DROPS.load(Ordering::SeqCst), 0);
    drop(arena);
    // Nothing is dereferenced: the drop counter alone shows that the pointee was destroyed while we hold the pointer.
    if DROPS.load(Ordering::SeqCst) == 1 {
        println!(
            "C12-VIOLATION holding Gc<'static, Payload> {:p} after its arena was dropped and the payload destructor ran",
            Gc::as_ptr(escaped)
        );
        std::process::exit(3);
    }
}
