//@ expect: reject
//@ codes:
//@ twin: variance_gc_id
//@ item: variance:Gc:contra
//@ rule: Gc is not contravariant in its brand lifetime (model: invariant)
// Lengthening the brand ('short -> 'long) by a plain move; compiles iff Gc is contravariant (or bivariant) in 'gc.
use gc_arena::Gc;

fn contra<'short, 'long: 'short>(x: Gc<'short, i32>) -> Gc<'long, i32> {
    x
}

fn main() {}
