//@ expect: reject
//@ codes: E0277
//@ twin: auto_ctl_send
//@ item: auto:DynamicRootSet:Send
//@ rule: DynamicRootSet is not Send (model: auto-trait computation over the declared fields)
// Asserts `DynamicRootSet<'gc>: Send`; compiles iff the auto trait is implemented.
use gc_arena::DynamicRootSet;

fn is_send<T: ?Sized + Send>() {}

fn check<'gc>() {
    is_send::<DynamicRootSet<'gc>>();
}

fn main() {}
