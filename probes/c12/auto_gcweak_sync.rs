//@ expect: reject
//@ codes: E0277
//@ twin: auto_ctl_sync
//@ item: auto:GcWeak:Sync
//@ rule: GcWeak is not Sync (model: auto-trait computation over the declared fields)
// Asserts `GcWeak<'gc, i32>: Sync`; compiles iff the auto trait is implemented.
use gc_arena::GcWeak;

fn is_sync<T: ?Sized + Sync>() {}

fn check<'gc>() {
    is_sync::<GcWeak<'gc, i32>>();
}

fn main() {}
