//@ expect: reject
//@ codes:
//@ twin: variance_gcweak_t_id
//@ item: variance:GcWeak:T:contra
//@ rule: GcWeak is not contravariant in T (model: invariant)
// Lengthening a lifetime inside the pointee type; compiles iff GcWeak<'gc, T> is contravariant in T.
use gc_arena::GcWeak;

fn contra_t<'gc, 'a, 'b: 'a>(x: GcWeak<'gc, &'a i32>) -> GcWeak<'gc, &'b i32> {
    x
}

fn main() {}
