//@ expect: reject
//@ codes: E0521
//@ twin: esc_cross_arena_ok
//@ item: escape:cross_arena_write_barrier
//@ rule: the brands of two arenas (two `for<'gc>` callbacks) never unify
// Nested a.mutate(|mca, ra| b.mutate(|mcb, rb| ..)): runs Gc::write on arena B's pointer with arena A's `mc`.
use gc_arena::{Arena, Collect, DynamicRootSet, Gc, GcRefLock, GcWeak, RefLock, Rootable};

#[derive(Collect)]
#[collect(no_drop)]
struct Root<'gc> {
    ptr: Gc<'gc, i32>,
    other: Gc<'gc, i32>,
    weak: GcWeak<'gc, i32>,
    slot: GcRefLock<'gc, Option<Gc<'gc, i32>>>,
    set: DynamicRootSet<'gc>,
}

fn new_arena(v: i32) -> Arena<Rootable![Root<'_>]> {
    Arena::new(|mc| {
        let ptr = Gc::new(mc, v);
        Root {
            ptr,
            other: Gc::new(mc, v + 1),
            weak: Gc::downgrade(ptr),
            slot: Gc::new(mc, RefLock::new(None)),
            set: DynamicRootSet::new(mc),
        }
    })
}

fn main() {
    let a = new_arena(10);
    let b = new_arena(20);
    a.mutate(|mca, ra| {
        b.mutate(|mcb, rb| {
            let _ = Gc::write(mca, rb.ptr);
        })
    });
}
