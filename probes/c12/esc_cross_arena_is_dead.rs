//@ expect: reject
//@ codes: E0521
//@ twin: esc_cross_arena_finalize_ok
//@ item: escape:cross_arena_is_dead
//@ rule: Gc::is_dead / GcWeak::is_dead take the context and the pointer at the same brand
// A finalizer of arena B asks whether a pointer of arena A is dead (it would read A's colours with B's phase).
use gc_arena::{Arena, Collect, Gc, GcWeak, Rootable};

#[derive(Collect)]
#[collect(no_drop)]
struct Root<'gc> {
    ptr: Gc<'gc, i32>,
    weak: GcWeak<'gc, i32>,
}

fn new_arena(v: i32) -> Arena<Rootable![Root<'_>]> {
    Arena::new(|mc| {
        let ptr = Gc::new(mc, v);
        Root { ptr, weak: Gc::downgrade(ptr) }
    })
}

fn main() {
    let mut a = new_arena(10);
    let mut b = new_arena(20);
    a.finish_marking().unwrap().finalize(|_fca, ra| {
        b.finish_marking().unwrap().finalize(|fcb, _rb| Gc::is_dead(fcb, ra.ptr) || ra.weak.is_dead(fcb))
    });
}
