//@ expect: reject
//@ codes: E0277
//@ twin: auto_ctl_send
//@ item: auto:DynamicRoot:Send
//@ rule: DynamicRoot is not Send (model: auto-trait computation over the declared fields)
// Asserts `DynamicRoot<Rootable![i32]>: Send`; compiles iff the auto trait is implemented.
use gc_arena::{DynamicRoot, Rootable};

fn is_send<T: ?Sized + Send>() {}

fn check() {
    is_send::<DynamicRoot<Rootable![i32]>>();
}

fn main() {}
