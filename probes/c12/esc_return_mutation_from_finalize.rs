//@ expect: reject
//@ codes:
//@ twin: esc_finalize_ok
//@ item: escape:return_from_finalize:mutation
//@ rule: the return type T of a `for<'gc>` callback cannot mention the brand 'gc
// MarkedArena::finalize callback returns the `&Mutation<'gc>` it derefs to.
use gc_arena::{Arena, Collect, Gc, GcRefLock, Mutation, RefLock, Rootable};

#[derive(Collect)]
#[collect(no_drop)]
struct Root<'gc> {
    ptr: Gc<'gc, i32>,
    slot: GcRefLock<'gc, Option<Gc<'gc, i32>>>,
}

fn new_arena() -> Arena<Rootable![Root<'_>]> {
    Arena::new(|mc| Root {
        ptr: Gc::new(mc, 7),
        slot: Gc::new(mc, RefLock::new(None)),
    })
}

fn main() {
    let mut arena = new_arena();
    let escaped = arena
        .finish_marking()
        .unwrap()
        .finalize(|fc, _root| {
            let mc: &Mutation<'_> = fc;
            mc
        });
    drop(arena);
    let _ = escaped;
}
