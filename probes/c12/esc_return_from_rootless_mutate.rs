//@ expect: reject
//@ codes:
//@ twin: esc_rootless_ok
//@ item: escape:return_from_rootless_mutate
//@ rule: the return type T of a `for<'gc>` callback cannot mention the brand 'gc
// rootless_mutate callback returns the freshly allocated Gc (the arena is gone when it returns).
use gc_arena::{Gc, arena::rootless_mutate};

fn main() {
    let escaped = rootless_mutate(|mc| Gc::new(mc, 1));
    let _ = escaped;
}
