//@ expect: reject
//@ codes: E0277
//@ twin: auto_ctl_send
//@ item: auto:Arena:Send
//@ rule: Arena is not Send (model: auto-trait computation over the declared fields)
// Asserts `Arena<Rootable![Gc<'_, i32>]>: Send`; compiles iff the auto trait is implemented.
use gc_arena::{Arena, Gc, Rootable};

fn is_send<T: ?Sized + Send>() {}

fn check() {
    is_send::<Arena<Rootable![Gc<'_, i32>]>>();
}

fn main() {}
