//@ expect: reject
//@ codes: E0521
//@ twin: esc_cross_arena_finalize_ok
//@ item: escape:cross_arena_weak_resurrect
//@ rule: GcWeak::resurrect / is_dead take the context and the pointer at the same brand
// A finalizer of arena B resurrects / queries a weak pointer of arena A.
use gc_arena::{Arena, Collect, Gc, GcWeak, Rootable};

#[derive(Collect)]
#[collect(no_drop)]
struct Root<'gc> {
    ptr: Gc<'gc, i32>,
    weak: GcWeak<'gc, i32>,
}

fn new_arena(v: i32) -> Arena<Rootable![Root<'_>]> {
    Arena::new(|mc| {
        let ptr = Gc::new(mc, v);
        Root { ptr, weak: Gc::downgrade(ptr) }
    })
}

fn main() {
    let mut a = new_arena(10);
    let mut b = new_arena(20);
    a.finish_marking().unwrap().finalize(|_fca, ra| {
        b.finish_marking().unwrap().finalize(|fcb, _rb| {
            let _ = ra.weak.resurrect(fcb);
        })
    });
}
