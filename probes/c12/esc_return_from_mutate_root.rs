//@ expect: reject
//@ codes:
//@ twin: esc_mutate_root_ok
//@ item: escape:return_from_mutate_root
//@ rule: the return type T of a `for<'gc>` callback cannot mention the brand 'gc
// Arena::mutate_root callback swaps a new pointer into the root and returns the old Gc itself.
use gc_arena::{Arena, Collect, Gc, GcRefLock, Mutation, RefLock, Rootable};

#[derive(Collect)]
#[collect(no_drop)]
struct Root<'gc> {
    ptr: Gc<'gc, i32>,
    slot: GcRefLock<'gc, Option<Gc<'gc, i32>>>,
}

fn new_arena() -> Arena<Rootable![Root<'_>]> {
    Arena::new(|mc| Root {
        ptr: Gc::new(mc, 7),
        slot: Gc::new(mc, RefLock::new(None)),
    })
}

fn main() {
    let mut arena = new_arena();
    let old = arena.mutate_root(|mc, root| {
        let old = std::mem::replace(&mut root.ptr, Gc::new(mc, 8));
        old
    });
    drop(arena);
    let _ = old;
}
