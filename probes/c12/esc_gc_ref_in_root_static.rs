//@ expect: reject
//@ codes: E0491,E0521
//@ twin: esc_ref_in_root_ok
//@ item: escape:gc_ref_in_root:static
//@ rule: `&'static Gc<'gc, _>` is not even well-formed for a generic 'gc, and its Collect impl needs Gc<'gc, _>: 'static
// Derived Collect root with a field `&'static Gc<'gc, i32>` (the Box::leak trick described in collect_impl.rs).
use gc_arena::{Arena, Collect, Gc, RefLock, Rootable};

#[derive(Collect)]
#[collect(no_drop)]
struct Root<'gc> {
    r: &'static Gc<'gc, i32>,
    cell: RefLock<Option<Gc<'gc, i32>>>,
    ptr: Gc<'gc, i32>,
}

fn main() {}
