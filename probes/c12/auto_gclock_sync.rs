//@ expect: reject
//@ codes: E0277
//@ twin: auto_ctl_sync
//@ item: auto:GcLock:Sync
//@ rule: GcLock is not Sync (model: auto-trait computation over the declared fields)
// Asserts `GcLock<'gc, i32>: Sync`; compiles iff the auto trait is implemented.
use gc_arena::GcLock;

fn is_sync<T: ?Sized + Sync>() {}

fn check<'gc>() {
    is_sync::<GcLock<'gc, i32>>();
}

fn main() {}
