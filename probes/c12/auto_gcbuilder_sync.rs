//@ expect: reject
//@ codes: E0277
//@ twin: auto_ctl_sync
//@ item: auto:GcBuilder:Sync
//@ rule: GcBuilder is not Sync (model: auto-trait computation over the declared fields)
// Asserts `GcBuilder<'gc, i32>: Sync`; compiles iff the auto trait is implemented.
use gc_arena::GcBuilder;

fn is_sync<T: ?Sized + Sync>() {}

fn check<'gc>() {
    is_sync::<GcBuilder<'gc, i32>>();
}

fn main() {}
