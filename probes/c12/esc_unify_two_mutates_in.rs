//@ expect: reject
//@ codes: E0521
//@ twin: esc_unify_two_mutates_ok
//@ item: escape:unify_two_mutates:in
//@ rule: two mutate calls of one arena have distinct brands: an outer Option<Gc<'x, _>> cannot be stored by a later call
// An Option<Gc<'_, i32>> living outside (never filled) is stored into the root's slot inside a mutate call.
use gc_arena::{Arena, Collect, Gc, GcRefLock, Mutation, RefLock, Rootable};

#[derive(Collect)]
#[collect(no_drop)]
struct Root<'gc> {
    ptr: Gc<'gc, i32>,
    slot: GcRefLock<'gc, Option<Gc<'gc, i32>>>,
}

fn new_arena() -> Arena<Rootable![Root<'_>]> {
    Arena::new(|mc| Root {
        ptr: Gc::new(mc, 7),
        slot: Gc::new(mc, RefLock::new(None)),
    })
}

fn main() {
    let arena = new_arena();
    let keep: Option<Gc<'_, i32>> = None;
    arena.mutate(|mc, root| {
        *root.slot.borrow_mut(mc) = keep;
    });
}
