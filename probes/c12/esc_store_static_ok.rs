//@ expect: accept
//@ run: plain
//@ twin: esc_store_static_mutex
//@ item: escape:store_static:ok
//@ rule: statics may hold 'static Send data computed from a Gc
// Sanctioned twin of the esc_store_static_{refcell,oncelock,mutex} probes: same statics with i32 payloads.
use gc_arena::{Arena, Collect, Gc, GcRefLock, Mutation, RefLock, Rootable};

#[derive(Collect)]
#[collect(no_drop)]
struct Root<'gc> {
    ptr: Gc<'gc, i32>,
    slot: GcRefLock<'gc, Option<Gc<'gc, i32>>>,
}

fn new_arena() -> Arena<Rootable![Root<'_>]> {
    Arena::new(|mc| Root {
        ptr: Gc::new(mc, 7),
        slot: Gc::new(mc, RefLock::new(None)),
    })
}

use std::sync::{Mutex, OnceLock};

static SLOT_M: Mutex<Option<i32>> = Mutex::new(None);
static SLOT_O: OnceLock<i32> = OnceLock::new();

fn main() {
    let arena = new_arena();
    arena.mutate(|_mc, root| {
        *SLOT_M.lock().unwrap() = Some(*root.ptr);
        SLOT_O.set(*root.ptr).unwrap();
    });
    assert_eq!((*SLOT_M.lock().unwrap(), SLOT_O.get().copied()), (Some(7), Some(7)));
}
