//@ expect: accept
//@ run: plain
//@ twin: esc_return_gc_from_finalize
//@ item: escape:return_from_finalize:ok
//@ rule: a finalize callback may return 'static data
// Sanctioned twin of the esc_return_*_from_finalize probes: returns (is_dead, value).
use gc_arena::{Arena, Collect, Gc, GcRefLock, Mutation, RefLock, Rootable};

#[derive(Collect)]
#[collect(no_drop)]
struct Root<'gc> {
    ptr: Gc<'gc, i32>,
    slot: GcRefLock<'gc, Option<Gc<'gc, i32>>>,
}

fn new_arena() -> Arena<Rootable![Root<'_>]> {
    Arena::new(|mc| Root {
        ptr: Gc::new(mc, 7),
        slot: Gc::new(mc, RefLock::new(None)),
    })
}

fn main() {
    let mut arena = new_arena();
    let (dead, v): (bool, i32) = arena
        .finish_marking()
        .unwrap()
        .finalize(|fc, root| (Gc::is_dead(fc, root.ptr), *root.ptr));
    assert_eq!((dead, v), (false, 7));
}
