//@ expect: reject
//@ codes:
//@ twin: esc_try_new_ok
//@ item: escape:try_new_error_escape
//@ rule: the error type E of Arena::try_new is chosen outside the `for<'gc>` binder and cannot mention 'gc
// Arena::try_new callback returns Err(gc): the failed arena is dropped, the Gc would survive it.
use gc_arena::{Arena, Collect, Gc, GcRefLock, Mutation, RefLock, Rootable};

#[derive(Collect)]
#[collect(no_drop)]
struct Root<'gc> {
    ptr: Gc<'gc, i32>,
    slot: GcRefLock<'gc, Option<Gc<'gc, i32>>>,
}

fn new_arena() -> Arena<Rootable![Root<'_>]> {
    Arena::new(|mc| Root {
        ptr: Gc::new(mc, 7),
        slot: Gc::new(mc, RefLock::new(None)),
    })
}

fn main() {
    let r = Arena::<Rootable![Root<'_>]>::try_new(|mc| Err(Gc::new(mc, 1)));
    let _ = r.err();
}
