//@ expect: reject
//@ codes: E0277
//@ twin: auto_ctl_sync
//@ item: auto:MarkedArena:Sync
//@ rule: MarkedArena is not Sync (model: auto-trait computation over the declared fields)
// Asserts `MarkedArena<'static, Rootable![Gc<'_, i32>]>: Sync`; compiles iff the auto trait is implemented.
use gc_arena::{Gc, Rootable, arena::MarkedArena};

fn is_sync<T: ?Sized + Sync>() {}

fn check() {
    is_sync::<MarkedArena<'static, Rootable![Gc<'_, i32>]>>();
}

fn main() {}
