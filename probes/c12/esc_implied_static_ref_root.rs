//@ expect: reject
//@ codes:
//@ run: plain
//@ known: C12-implied-static-bound-via-Rootable-dyn-projection
//@ twin: esc_implied_static_ok
//@ item: escape:implied_static:ref_root
//@ rule: no root type may make the callbacks' brand equal to 'static (or to any outer lifetime); Gc<'gc, T> never coerces to Gc<'static, T>
// Root type `&'static Gc<'gc, Payload>` (Box::leak) through `Rootable!`: exactly the example of collect_impl.rs, whose
// `T: 'static` guard on `&'static T: Collect` is never consulted because Arena::new / mutate need no Collect.
use gc_arena::{Arena, Gc, Rootable};
use std::sync::atomic::{AtomicUsize, Ordering};

static DROPS: AtomicUsize = AtomicUsize::new(0);

struct Payload(u64);
impl Drop for Payload {
    fn drop(&mut self) {
        DROPS.fetch_add(1, Ordering::SeqCst);
    }
}

type R = Rootable![&'static Gc<'_, Payload>];

fn main() {
    let arena = Arena::<R>::new(|mc| Box::leak(Box::new(Gc::new_static(mc, Payload(4)))));
    let escaped: Gc<'static, Payload> = arena.mutate(|_mc, root| {
        let g: Gc<'static, Payload> = **root;
        g
    });
    assert_eq!(DROPS.load(Ordering::SeqCst), 0);
    drop(arena);
    // Nothing is dereferenced: the drop counter alone shows that the pointee was destroyed while we hold the pointer.
    if DROPS.load(Ordering::SeqCst) == 1 {
        println!(
            "C12-VIOLATION holding Gc<'static, Payload> {:p} after its arena was dropped and the payload destructor ran",
            Gc::as_ptr(escaped)
        );
        std::process::exit(3);
    }
}
