//@ expect: reject
//@ codes:
//@ twin: variance_gclock_id
//@ item: variance:GcLock:contra
//@ rule: GcLock is not contravariant in its brand lifetime (model: invariant)
// Lengthening the brand ('short -> 'long) by a plain move; compiles iff GcLock is contravariant (or bivariant) in 'gc.
use gc_arena::GcLock;

fn contra<'short, 'long: 'short>(x: GcLock<'short, i32>) -> GcLock<'long, i32> {
    x
}

fn main() {}
