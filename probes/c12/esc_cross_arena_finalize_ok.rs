//@ expect: accept
//@ run: plain
//@ twin: esc_cross_arena_resurrect
//@ item: escape:cross_arena_finalize_ok
//@ rule: finalizers of two arenas may be nested as long as each context is used with its own arena's pointers
// Positive twin: nested finalize callbacks, each resurrecting / querying only its own pointers.
use gc_arena::{Arena, Collect, Gc, GcWeak, Rootable};

#[derive(Collect)]
#[collect(no_drop)]
struct Root<'gc> {
    ptr: Gc<'gc, i32>,
    weak: GcWeak<'gc, i32>,
}

fn new_arena(v: i32) -> Arena<Rootable![Root<'_>]> {
    Arena::new(|mc| {
        let ptr = Gc::new(mc, v);
        Root { ptr, weak: Gc::downgrade(ptr) }
    })
}

fn main() {
    let mut a = new_arena(10);
    let mut b = new_arena(20);
    let (da, db) = a.finish_marking().unwrap().finalize(|fca, ra| {
        Gc::resurrect(fca, ra.ptr);
        let db = b.finish_marking().unwrap().finalize(|fcb, rb| {
            Gc::resurrect(fcb, rb.ptr);
            let _ = rb.weak.resurrect(fcb);
            Gc::is_dead(fcb, rb.ptr) || rb.weak.is_dead(fcb)
        });
        (Gc::is_dead(fca, ra.ptr), db)
    });
    assert!(!da && !db);
    a.finish_cycle();
    b.finish_cycle();
    a.mutate(|_, r| assert_eq!(*r.ptr, 10));
    b.mutate(|_, r| assert_eq!(*r.ptr, 20));
}
