//@ expect: accept
//@ run: plain
//@ twin: esc_unsize_rebrand_return
//@ item: escape:unsize_ok
//@ rule: unsize! yields a pointer with the SAME brand as its argument, so it may be stored in the same arena
// Positive twin: unsize a root pointer and store it (strong and weak) into slots of the same arena, then read through them.
use gc_arena::{Arena, Collect, Gc, GcRefLock, GcWeak, RefLock, Rootable, unsize};
use std::fmt::Display;

#[derive(Collect)]
#[collect(no_drop)]
struct Root<'gc> {
    ptr: Gc<'gc, i32>,
    slot: GcRefLock<'gc, Option<Gc<'gc, dyn Display>>>,
    wslot: GcRefLock<'gc, Option<GcWeak<'gc, dyn Display>>>,
}

fn new_arena(v: i32) -> Arena<Rootable![Root<'_>]> {
    Arena::new(|mc| Root {
        ptr: Gc::new(mc, v),
        slot: Gc::new(mc, RefLock::new(None)),
        wslot: Gc::new(mc, RefLock::new(None)),
    })
}

fn main() {
    let mut a = new_arena(10);
    a.mutate(|mc, r| {
        let d: Gc<'_, dyn Display> = unsize!(r.ptr => dyn Display);
        *r.slot.borrow_mut(mc) = Some(d);
        let w: GcWeak<'_, dyn Display> = unsize!(Gc::downgrade(r.ptr) => dyn Display);
        *r.wslot.borrow_mut(mc) = Some(w);
    });
    a.finish_cycle();
    a.mutate(|mc, r| {
        assert_eq!(r.slot.borrow().unwrap().to_string(), "10");
        assert_eq!(r.wslot.borrow().unwrap().upgrade(mc).unwrap().to_string(), "10");
    });
}
