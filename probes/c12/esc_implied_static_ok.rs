//@ expect: accept
//@ run: plain
//@ twin: esc_implied_static_phantom_root
//@ item: escape:implied_static:ok
//@ rule: a PhantomData of 'static data in the root is harmless; callbacks return 'static data
// Sanctioned twin of the esc_implied_static_* probes: same root shape with `&'static u8` in the PhantomData (no
// constraint on the brand); the callback returns the payload value, not the pointer.
use gc_arena::{Arena, Gc, Rootable};
use std::marker::PhantomData;
use std::sync::atomic::{AtomicUsize, Ordering};

static DROPS: AtomicUsize = AtomicUsize::new(0);

struct Payload(u64);
impl Drop for Payload {
    fn drop(&mut self) {
        DROPS.fetch_add(1, Ordering::SeqCst);
    }
}

type R = Rootable![(PhantomData<&'static u8>, Gc<'_, Payload>)];

fn main() {
    let mut arena = Arena::<R>::new(|mc| (PhantomData, Gc::new_static(mc, Payload(4))));
    arena.finish_cycle();
    let escaped: u64 = arena.mutate(|_mc, root| {
        let g: Gc<'_, Payload> = root.1;
        g.0
    });
    assert_eq!(DROPS.load(Ordering::SeqCst), 0);
    drop(arena);
    assert_eq!((escaped, DROPS.load(Ordering::SeqCst)), (4, 1));
}
