//@ expect: reject
//@ codes:
//@ twin: esc_mutate_ok
//@ item: escape:return_impl_trait
//@ rule: the return type T of a `for<'gc>` callback cannot mention the brand 'gc
// Arena::mutate callback returns an opaque `impl Fn() -> i32` from a helper that captured the Gc (the opaque type captures 'gc).
use gc_arena::{Arena, Collect, Gc, GcRefLock, Mutation, RefLock, Rootable};

#[derive(Collect)]
#[collect(no_drop)]
struct Root<'gc> {
    ptr: Gc<'gc, i32>,
    slot: GcRefLock<'gc, Option<Gc<'gc, i32>>>,
}

fn new_arena() -> Arena<Rootable![Root<'_>]> {
    Arena::new(|mc| Root {
        ptr: Gc::new(mc, 7),
        slot: Gc::new(mc, RefLock::new(None)),
    })
}

fn main() {
    let arena = new_arena();
    let escaped = arena.mutate(|_mc, root| thunk(root.ptr));
    drop(arena);
    let _ = escaped();
}

fn thunk<'gc>(p: Gc<'gc, i32>) -> impl Fn() -> i32 {
    move || *p
}
