//@ expect: accept
//@ run: plain
//@ twin: esc_leak_box_to_static
//@ item: escape:leak_box_to_static:ok
//@ rule: Box::leak of 'static data yields a &'static mut that may be returned
// Sanctioned twin: leaks a box of the pointee (i32).
use gc_arena::{Arena, Collect, Gc, GcRefLock, Mutation, RefLock, Rootable};

#[derive(Collect)]
#[collect(no_drop)]
struct Root<'gc> {
    ptr: Gc<'gc, i32>,
    slot: GcRefLock<'gc, Option<Gc<'gc, i32>>>,
}

fn new_arena() -> Arena<Rootable![Root<'_>]> {
    Arena::new(|mc| Root {
        ptr: Gc::new(mc, 7),
        slot: Gc::new(mc, RefLock::new(None)),
    })
}

fn main() {
    let arena = new_arena();
    let leaked: &'static mut i32 = arena.mutate(|_mc, root| Box::leak(Box::new(*root.ptr)));
    drop(arena);
    assert_eq!(*leaked, 7);
}
