//! c15-translator: pulls structural facts out of derive/src/lib.rs (the function registered by
//! `decl_derive!([Collect, ..] => f)`) and prints them as Coq definitions (Gen/GenDeriveFacts.v).
//! Anything it cannot find is emitted as the string "Unknown:<what>", on which the checker
//! `FactsCheck.facts_ok` returns false (fail closed).
//!
//! usage: c15-translator <path to derive/src/lib.rs>
use quote::ToTokens;
use syn::visit::Visit;

fn strip(s: &str) -> String { s.chars().filter(|c| !c.is_whitespace()).collect() }
fn toks<T: ToTokens>(t: &T) -> String { strip(&t.to_token_stream().to_string()) }
fn cstr(s: &str) -> String { format!("\"{}\"", s.replace('"', "\"\"")) }
fn clist(v: &[String]) -> String { format!("[{}]", v.join("; ")) }

fn lit_str_arg(m: &syn::ExprMethodCall) -> Option<String> {
    if m.args.len() != 1 { return None; }
    if let syn::Expr::Lit(l) = &m.args[0] { if let syn::Lit::Str(s) = &l.lit { return Some(s.value()); } }
    None
}

/// `X.is_ident("lit")` calls found inside an expression (in source order), with the receiver's shape.
#[derive(Default)]
struct IsIdent { attr_level: Vec<String>, meta_level: Vec<String> }
impl<'ast> Visit<'ast> for IsIdent {
    fn visit_expr_method_call(&mut self, m: &'ast syn::ExprMethodCall) {
        syn::visit::visit_expr_method_call(self, m);
        if m.method == "is_ident" {
            if let Some(l) = lit_str_arg(m) {
                match &*m.receiver {
                    syn::Expr::MethodCall(r) if r.method == "path" => self.attr_level.push(l),   // attr.path().is_ident
                    syn::Expr::Field(_) => self.meta_level.push(l),                               // meta.path.is_ident
                    _ => self.meta_level.push(format!("Unknown:receiver:{}", toks(&*m.receiver))),
                }
            }
        }
    }
}

fn macro_name(m: &syn::Macro) -> String { m.path.segments.last().map(|s| s.ident.to_string()).unwrap_or_default() }

/// All macro invocations (quote!, quote_spanned!, parse_quote!, panic!) in source order.
#[derive(Default)]
struct Macros { v: Vec<(String, String)> }
impl<'ast> Visit<'ast> for Macros {
    fn visit_macro(&mut self, m: &'ast syn::Macro) {
        self.v.push((macro_name(m), strip(&m.tokens.to_string())));
        // macros whose arguments are themselves expressions (panic!, format_args!) may nest
        if let Ok(e) = m.parse_body_with(syn::punctuated::Punctuated::<syn::Expr, syn::Token![,]>::parse_terminated) {
            for x in e.iter() { self.visit_expr(x); }
        }
    }
}

#[derive(Default)]
struct Facts {
    mode_map: Vec<(String, String)>,        // ("no_drop", "NoDrop")
    filter_arms: Vec<(String, String)>,     // (pattern, tail)
    filter_idents: Vec<String>,
    filter_flag_set_under: Vec<String>,     // is_ident literals guarding `flag = true`
    filter_flag: String,
    each_closure_macros: Vec<String>,
    seed: Vec<String>,
    drop_if: Vec<(String, Vec<String>, Vec<String>)>,  // cond, then-macros, else-macros
    where_pred_macros: Vec<String>,
    add_bounds_if: Vec<(String, String, String)>,
}

fn tail_of_block(b: &syn::Block) -> String {
    match b.stmts.last() {
        Some(syn::Stmt::Expr(e, None)) => norm_tail(e),
        _ => "Unknown:no-tail".into(),
    }
}
fn norm_tail(e: &syn::Expr) -> String {
    match e {
        syn::Expr::Unary(u) if matches!(u.op, syn::UnOp::Not(_)) => format!("not:{}", toks(&*u.expr)),
        syn::Expr::Lit(l) => toks(l),
        syn::Expr::Block(b) => tail_of_block(&b.block),
        syn::Expr::Paren(p) => norm_tail(&p.expr),
        other => format!("Unknown:tail:{}", toks(other)),
    }
}

struct Walker<'a> { f: &'a mut Facts }
impl<'a, 'ast> Visit<'ast> for Walker<'a> {
    fn visit_expr_if(&mut self, i: &'ast syn::ExprIf) {
        // mode mapping: `if meta.path.is_ident("x") { mode = Some(Mode::X); }`
        let mut ii = IsIdent::default(); ii.visit_expr(&i.cond);
        if ii.meta_level.len() == 1 {
            for st in &i.then_branch.stmts {
                if let syn::Stmt::Expr(syn::Expr::Assign(a), _) = st {
                    let lhs = toks(&*a.left); let rhs = toks(&*a.right);
                    if lhs == "mode" {
                        if let Some(v) = rhs.strip_prefix("Some(Mode::").and_then(|r| r.strip_suffix(")")) {
                            self.f.mode_map.push((ii.meta_level[0].clone(), v.to_string()));
                        } else { self.f.mode_map.push((ii.meta_level[0].clone(), format!("Unknown:{}", rhs))); }
                    }
                }
            }
        }
        let cond = toks(&*i.cond);
        // drop guard: `if mode == Mode::NoDrop { ...gen_impl(quote!{..}) } else { quote!() }`
        if cond.contains("Mode::") && cond.contains("==") {
            let mut t = Macros::default(); t.visit_block(&i.then_branch);
            let mut e = Macros::default(); if let Some((_, eb)) = &i.else_branch { e.visit_expr(eb); }
            let ev: Vec<String> = if e.v.len() <= 2 { e.v.iter().map(|x| x.1.clone()).collect() } else { vec!["<long>".to_string()] };
            self.f.drop_if.push((cond.clone(), t.v.iter().map(|x| x.1.clone()).collect(), ev));
        }
        // add_bounds: `if override_bound.is_some() { add_bounds(AddBounds::None) } else { add_bounds(AddBounds::Generics) }`
        let tb = toks(&i.then_branch);
        let else_single = match i.else_branch.as_ref().map(|(_, e)| &**e) { Some(syn::Expr::Block(b)) => b.block.stmts.len() == 1, _ => false };
        if tb.contains("add_bounds(") && i.then_branch.stmts.len() == 1 && else_single {
            let eb = i.else_branch.as_ref().map(|(_, e)| toks(&**e)).unwrap_or_default();
            let pick = |s: &str| s.split("AddBounds::").nth(1).map(|r| r.chars().take_while(|c| c.is_alphanumeric()).collect::<String>()).unwrap_or("Unknown:add_bounds".into());
            self.f.add_bounds_if.push((cond, pick(&tb), pick(&eb)));
        }
        syn::visit::visit_expr_if(self, i);
    }
    fn visit_expr_method_call(&mut self, m: &'ast syn::ExprMethodCall) {
        if m.method == "filter" && m.args.len() == 1 {
            if let syn::Expr::Closure(c) = &m.args[0] {
                if let syn::Expr::Match(mm) = &*c.body {
                    let mut ii = IsIdent::default(); ii.visit_expr(&c.body);
                    self.f.filter_idents = ii.meta_level.clone();
                    for arm in &mm.arms {
                        self.f.filter_arms.push((toks(&arm.pat), norm_tail(&arm.body)));
                    }
                    // which flag is set to true, and under which is_ident guard
                    struct Flag<'b> { f: &'b mut Facts }
                    impl<'b, 'ast> Visit<'ast> for Flag<'b> {
                        fn visit_expr_if(&mut self, i: &'ast syn::ExprIf) {
                            let mut ii = IsIdent::default(); ii.visit_expr(&i.cond);
                            for st in &i.then_branch.stmts {
                                if let syn::Stmt::Expr(syn::Expr::Assign(a), _) = st {
                                    if toks(&*a.right) == "true" {
                                        self.f.filter_flag = toks(&*a.left);
                                        self.f.filter_flag_set_under = ii.meta_level.clone();
                                        if !toks(&*i.cond).contains("input.is_empty()") {
                                            self.f.filter_flag_set_under.push("Unknown:no-input-is-empty-guard".into());
                                        }
                                    }
                                }
                            }
                            syn::visit::visit_expr_if(self, i);
                        }
                    }
                    Flag { f: self.f }.visit_expr(&c.body);
                }
            }
        }
        if m.method == "each" && m.args.len() == 1 {
            if let syn::Expr::Closure(c) = &m.args[0] {
                let mut mm = Macros::default(); mm.visit_expr(&c.body);
                self.f.each_closure_macros = mm.v.iter().map(|x| x.1.clone()).collect();
            }
        }
        if m.method == "to_tokens" {
            if let syn::Expr::Macro(em) = &*m.receiver {
                let t = strip(&em.mac.tokens.to_string());
                if m.args.len() == 1 && toks(&m.args[0]).contains("needs_trace") && !t.contains("NEEDS_TRACE") {
                    self.f.seed.push(t);
                }
            }
        }
        if m.method == "add_where_predicate" {
            let mut mm = Macros::default(); for a in &m.args { mm.visit_expr(a); }
            self.f.where_pred_macros.extend(mm.v.iter().map(|x| x.1.clone()));
        }
        syn::visit::visit_expr_method_call(self, m);
    }
}

fn main() {
    let path = std::env::args().nth(1).expect("usage: c15-translator <lib.rs>");
    let text = std::fs::read_to_string(&path).expect("cannot read source");
    let file = syn::parse_file(&text).expect("source does not parse");
    // find the registered function
    let mut entry = String::new();
    let mut helper_attrs: Vec<String> = vec![];
    for it in &file.items {
        if let syn::Item::Macro(m) = it {
            if macro_name(&m.mac) == "decl_derive" {
                let t: Vec<proc_macro2::TokenTree> = m.mac.tokens.clone().into_iter().collect();
                if let Some(proc_macro2::TokenTree::Group(g)) = t.first() {
                    let inner: Vec<proc_macro2::TokenTree> = g.stream().into_iter().collect();
                    if matches!(inner.first(), Some(proc_macro2::TokenTree::Ident(i)) if i == "Collect") {
                        if let Some(proc_macro2::TokenTree::Ident(i)) = t.last() { entry = i.to_string(); }
                        for tt in &inner {
                            if let proc_macro2::TokenTree::Group(a) = tt {
                                for x in a.stream() { if let proc_macro2::TokenTree::Ident(i) = x { helper_attrs.push(i.to_string()); } }
                            }
                        }
                    }
                }
            }
        }
    }
    let func = file.items.iter().find_map(|it| match it { syn::Item::Fn(f) if f.sig.ident == entry => Some(f), _ => None });
    let mut facts = Facts::default();
    let mut all_ident = IsIdent::default();
    let mut all_macros = Macros::default();
    if let Some(f) = func {
        Walker { f: &mut facts }.visit_block(&f.block);
        all_ident.visit_block(&f.block);
        all_macros.visit_block(&f.block);
    }
    let unknown = |what: &str| format!("Unknown:{}", what);
    let mut out = String::new();
    out.push_str("(* GENERATED by /verif/translator-derive from derive/src/lib.rs -- do not edit *)\n");
    out.push_str("From Coq Require Import List String.\nImport ListNotations.\nLocal Open Scope string_scope.\n\n");
    let def = |out: &mut String, name: &str, ty: &str, val: String| out.push_str(&format!("Definition {} : {} := {}.\n", name, ty, val));
    def(&mut out, "gen_entry_fn", "string", cstr(if entry.is_empty() { "Unknown:entry" } else { &entry }));
    def(&mut out, "gen_helper_attrs", "list string", clist(&helper_attrs.iter().map(|s| cstr(s)).collect::<Vec<_>>()));
    // attribute-level is_ident literals (attr.path().is_ident("collect")), de-duplicated
    let mut al = all_ident.attr_level.clone(); al.dedup(); al.sort(); al.dedup();
    def(&mut out, "gen_attr_idents", "list string", clist(&al.iter().map(|s| cstr(s)).collect::<Vec<_>>()));
    def(&mut out, "gen_mode_map", "list (string * string)", clist(&facts.mode_map.iter().map(|(a, b)| format!("({}, {})", cstr(a), cstr(b))).collect::<Vec<_>>()));
    // option identifiers: meta-level literals that are neither modes nor inside the filter closure
    let mut opts: Vec<String> = vec![];
    for l in &all_ident.meta_level {
        if facts.mode_map.iter().any(|(a, _)| a == l) || facts.filter_idents.contains(l) { continue; }
        if !opts.contains(l) { opts.push(l.clone()); }
    }
    def(&mut out, "gen_option_idents", "list string", clist(&opts.iter().map(|s| cstr(s)).collect::<Vec<_>>()));
    def(&mut out, "gen_field_attr_idents", "list string", clist(&facts.filter_idents.iter().map(|s| cstr(s)).collect::<Vec<_>>()));
    def(&mut out, "gen_filter_flag", "string", cstr(if facts.filter_flag.is_empty() { "Unknown:flag" } else { &facts.filter_flag }));
    def(&mut out, "gen_filter_flag_set_under", "list string", clist(&facts.filter_flag_set_under.iter().map(|s| cstr(s)).collect::<Vec<_>>()));
    def(&mut out, "gen_filter_arms", "list (string * string)", clist(&facts.filter_arms.iter().map(|(a, b)| format!("({}, {})", cstr(a), cstr(b))).collect::<Vec<_>>()));
    // NEEDS_TRACE
    let seed = if facts.seed.len() == 1 { facts.seed[0].clone() } else { unknown("seed") };
    def(&mut out, "gen_needs_trace_seed", "string", cstr(&seed));
    let steps: Vec<&(String, String)> = all_macros.v.iter().filter(|(n, t)| n.starts_with("quote") && t.contains("NEEDS_TRACE") && !t.contains("constNEEDS_TRACE")).collect();
    let (op, atom) = if steps.len() == 1 {
        let t = &steps[0].1;
        // quote_spanned!(span=> || <#ty as ::gc_arena::Collect>::NEEDS_TRACE)
        let body = t.split("=>").last().unwrap_or("").to_string();
        let op: String = body.chars().take_while(|c| !c.is_alphanumeric() && *c != '<' && *c != '#').collect();
        (op.clone(), body[op.len()..].to_string())
    } else { (unknown("step"), unknown("step")) };
    def(&mut out, "gen_needs_trace_op", "string", cstr(&op));
    def(&mut out, "gen_needs_trace_atom", "string", cstr(&atom));
    let consts: Vec<String> = all_macros.v.iter().filter(|(_, t)| t.contains("constNEEDS_TRACE:bool=")).map(|(_, t)| {
        let r = t.split("constNEEDS_TRACE:bool=").nth(1).unwrap_or("");
        r.split(';').next().unwrap_or("").to_string()
    }).collect();
    def(&mut out, "gen_needs_trace_inits", "list string", clist(&consts.iter().map(|s| cstr(s)).collect::<Vec<_>>()));
    // trace body
    def(&mut out, "gen_each_closure", "list string", clist(&facts.each_closure_macros.iter().map(|s| cstr(s)).collect::<Vec<_>>()));
    let trace_fns: Vec<String> = all_macros.v.iter().filter(|(_, t)| t.contains("fntrace<")).map(|(_, t)| {
        let r = t.split("fntrace<").nth(1).unwrap_or("");
        let b = r.splitn(2, '{').nth(1).unwrap_or("");
        b.split("}}").next().unwrap_or("").to_string() + "}"
    }).collect();
    def(&mut out, "gen_trace_fn_bodies", "list string", clist(&trace_fns.iter().map(|s| cstr(s)).collect::<Vec<_>>()));
    // guards
    def(&mut out, "gen_mode_ifs", "list (string * list string * list string)", clist(&facts.drop_if.iter().map(|(c, t, e)| {
        format!("({}, {}, {})", cstr(c), clist(&t.iter().map(|s| cstr(s)).collect::<Vec<_>>()), clist(&e.iter().map(|s| cstr(s)).collect::<Vec<_>>()))
    }).collect::<Vec<_>>()));
    def(&mut out, "gen_where_pred_macros", "list string", clist(&facts.where_pred_macros.iter().map(|s| cstr(s)).collect::<Vec<_>>()));
    def(&mut out, "gen_add_bounds_ifs", "list (string * string * string)", clist(&facts.add_bounds_if.iter().map(|(c, t, e)| format!("({}, {}, {})", cstr(c), cstr(t), cstr(e))).collect::<Vec<_>>()));
    let mut calls: Vec<String> = vec![];
    if let Some(f) = func {
        let t = toks(&f.block);
        for part in t.split("add_bounds(AddBounds::").skip(1) {
            calls.push(part.chars().take_while(|c| c.is_alphanumeric()).collect());
        }
    }
    def(&mut out, "gen_add_bounds_calls", "list string", clist(&calls.iter().map(|s| cstr(s)).collect::<Vec<_>>()));
    let panics: Vec<String> = all_macros.v.iter().filter(|(n, _)| n == "panic").map(|(_, t)| t.clone()).collect();
    def(&mut out, "gen_panic_count", "nat", format!("{}", panics.len()));
    print!("{}", out);
}
