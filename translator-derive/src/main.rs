//! c15-translator: pulls structural facts out of derive/src/lib.rs (the function registered by
//! `decl_derive!([Collect, ..] => f)`) and prints them as Coq definitions (Gen/GenDeriveFacts.v).
//! Anything it cannot find is emitted as the string "Unknown:<what>", on which the checker
//! `FactsCheck.facts_ok` returns false (fail closed).
//!
//!
//! Before the facts are read the registered function is brought into a canonical shape (section
//! "normalisation" below), so that behaviour-preserving rewrites of the source give the same facts:
//!   * helper functions of the same file that are called exactly once are spliced into their call site,
//!     the others are scanned as if they were nested in the registered function;
//!   * `match` on `Option` / on `()` with guards / on `Mode` and `if let Some(_) = ..` become `if` chains,
//!     negated conditions (`!c`, `.is_none()`, `!=`) are turned round by swapping the branches;
//!   * `if C { ..return/panic } REST` becomes `if C { .. } else { REST }`;
//!   * `let p = if ..; S(p)`, `x = Some(if ..)`, `r.m(if ..)` are distributed over the branches;
//!   * `TokenStream::new()` is read as `quote!()`;
//!   * locals are renamed by ROLE (the variable that receives `Some(Mode::_)` is `mode`, the one assigned
//!     under `is_ident("bound")` is `override_bound`, the parameter of the `each` closure is `bi`).
//! None of these steps invents a fact: what is not recognised afterwards is still `Unknown`.
//!
//! usage: c15-translator <path to derive/src/lib.rs>
use quote::ToTokens;
use std::collections::{BTreeMap, BTreeSet};
use syn::visit::Visit;
use syn::visit_mut::VisitMut;
use syn::{Block, Expr, Pat, Stmt};

fn strip(s: &str) -> String { s.chars().filter(|c| !c.is_whitespace()).collect() }
fn toks<T: ToTokens>(t: &T) -> String { strip(&t.to_token_stream().to_string()) }
fn cstr(s: &str) -> String { format!("\"{}\"", s.replace('"', "\"\"")) }
fn clist(v: &[String]) -> String { format!("[{}]", v.join("; ")) }

fn lit_str_arg(m: &syn::ExprMethodCall) -> Option<String> {
    if m.args.len() != 1 { return None; }
    if let syn::Expr::Lit(l) = &m.args[0] { if let syn::Lit::Str(s) = &l.lit { return Some(s.value()); } }
    None
}

/// `X.is_ident("lit")` calls found inside an expression (in source order), with the receiver's shape.
#[derive(Default)]
struct IsIdent { attr_level: Vec<String>, meta_level: Vec<String> }
impl<'ast> Visit<'ast> for IsIdent {
    fn visit_expr_method_call(&mut self, m: &'ast syn::ExprMethodCall) {
        syn::visit::visit_expr_method_call(self, m);
        if m.method == "is_ident" {
            if let Some(l) = lit_str_arg(m) {
                match &*m.receiver {
                    syn::Expr::MethodCall(r) if r.method == "path" => self.attr_level.push(l),   // attr.path().is_ident
                    syn::Expr::Field(_) => self.meta_level.push(l),                               // meta.path.is_ident
                    _ => self.meta_level.push(format!("Unknown:receiver:{}", toks(&*m.receiver))),
                }
            }
        }
    }
}

fn macro_name(m: &syn::Macro) -> String { m.path.segments.last().map(|s| s.ident.to_string()).unwrap_or_default() }

/// All macro invocations (quote!, quote_spanned!, parse_quote!, panic!) in source order.
#[derive(Default)]
struct Macros { v: Vec<(String, String)> }
impl<'ast> Visit<'ast> for Macros {
    fn visit_macro(&mut self, m: &'ast syn::Macro) {
        self.v.push((macro_name(m), strip(&m.tokens.to_string())));
        // macros whose arguments are themselves expressions (panic!, format_args!) may nest
        if let Ok(e) = m.parse_body_with(syn::punctuated::Punctuated::<syn::Expr, syn::Token![,]>::parse_terminated) {
            for x in e.iter() { self.visit_expr(x); }
        }
    }
}

#[derive(Default)]
struct Facts {
    mode_map: Vec<(String, String)>,        // ("no_drop", "NoDrop")
    filter_arms: Vec<(String, String)>,     // (pattern, tail)
    filter_idents: Vec<String>,
    filter_flag_set_under: Vec<String>,     // is_ident literals guarding `flag = true`
    filter_flag: String,
    each_closure_macros: Vec<String>,
    seed: Vec<String>,
    nt_writes: Vec<(String, String)>,       // (variable, tokens appended / "Unknown:..") for every token accumulator
    mode_values_in_chain: usize,
    drop_if: Vec<(String, Vec<String>, Vec<String>)>,  // cond, then-macros, else-macros
    where_pred_macros: Vec<String>,
    add_bounds_if: Vec<(String, String, String)>,
}

fn tail_of_block(b: &syn::Block) -> String {
    match b.stmts.last() {
        Some(syn::Stmt::Expr(e, None)) => norm_tail(e),
        _ => "Unknown:no-tail".into(),
    }
}
fn norm_tail(e: &syn::Expr) -> String {
    match e {
        syn::Expr::Unary(u) if matches!(u.op, syn::UnOp::Not(_)) => format!("not:{}", toks(&*u.expr)),
        syn::Expr::Lit(l) => toks(l),
        syn::Expr::Block(b) => tail_of_block(&b.block),
        syn::Expr::Paren(p) => norm_tail(&p.expr),
        other => format!("Unknown:tail:{}", toks(other)),
    }
}

struct Walker<'a> { f: &'a mut Facts }
impl<'a, 'ast> Visit<'ast> for Walker<'a> {
    fn visit_expr_if(&mut self, i: &'ast syn::ExprIf) {
        // mode mapping: `if meta.path.is_ident("x") { mode = Some(Mode::X); }`
        let mut ii = IsIdent::default(); ii.visit_expr(&i.cond);
        if ii.meta_level.len() == 1 {
            for st in &i.then_branch.stmts {
                if let syn::Stmt::Expr(syn::Expr::Assign(a), _) = st {
                    let lhs = toks(&*a.left); let rhs = toks(&*a.right);
                    if lhs == "mode" {
                        if let Some(v) = rhs.strip_prefix("Some(Mode::").and_then(|r| r.strip_suffix(")")) {
                            self.f.mode_map.push((ii.meta_level[0].clone(), v.to_string()));
                            self.f.mode_values_in_chain += 1;
                        } else { self.f.mode_map.push((ii.meta_level[0].clone(), format!("Unknown:{}", rhs))); }
                    }
                }
            }
        }
        let cond = toks(&*i.cond);
        // drop guard: `if mode == Mode::NoDrop { ...gen_impl(quote!{..}) } else { quote!() }`
        if cond.contains("Mode::") && cond.contains("==") {
            let mut t = Macros::default(); t.visit_block(&i.then_branch);
            let mut e = Macros::default(); if let Some((_, eb)) = &i.else_branch { e.visit_expr(eb); }
            let ev: Vec<String> = if e.v.len() <= 2 { e.v.iter().map(|x| x.1.clone()).collect() } else { vec!["<long>".to_string()] };
            self.f.drop_if.push((cond.clone(), t.v.iter().map(|x| x.1.clone()).collect(), ev));
        }
        // add_bounds: `if override_bound.is_some() { add_bounds(AddBounds::None) } else { add_bounds(AddBounds::Generics) }`
        let tb = toks(&i.then_branch);
        let else_single = match i.else_branch.as_ref().map(|(_, e)| &**e) { Some(syn::Expr::Block(b)) => b.block.stmts.len() == 1, _ => false };
        if tb.contains("add_bounds(") && i.then_branch.stmts.len() == 1 && else_single {
            let eb = i.else_branch.as_ref().map(|(_, e)| toks(&**e)).unwrap_or_default();
            let pick = |s: &str| s.split("AddBounds::").nth(1).map(|r| r.chars().take_while(|c| c.is_alphanumeric()).collect::<String>()).unwrap_or("Unknown:add_bounds".into());
            self.f.add_bounds_if.push((cond, pick(&tb), pick(&eb)));
        }
        syn::visit::visit_expr_if(self, i);
    }
    fn visit_expr_method_call(&mut self, m: &'ast syn::ExprMethodCall) {
        if m.method == "filter" && m.args.len() == 1 {
            if let syn::Expr::Closure(c) = &m.args[0] {
                // the closure body: `match ..` or `{ match .. }`
                let cbody: &syn::Expr = match &*c.body {
                    syn::Expr::Block(b) if b.block.stmts.len() == 1 => match &b.block.stmts[0] {
                        syn::Stmt::Expr(e, None) => e,
                        _ => &*c.body,
                    },
                    o => o,
                };
                if let syn::Expr::Match(mm) = cbody {
                    let mut ii = IsIdent::default(); ii.visit_expr(&c.body);
                    self.f.filter_idents = ii.meta_level.clone();
                    // arms in the order Ok(Some(..)), Ok(None), Err(..) whatever the source order (the patterns are disjoint)
                    let rank = |p: &str| if p.starts_with("Ok(Some(") { 0 } else if p == "Ok(None)" { 1 } else if p.starts_with("Err(") { 2 } else { 3 };
                    let mut arms: Vec<(String, String, bool)> = mm.arms.iter().map(|arm| (toks(&arm.pat), norm_tail(&arm.body), arm.guard.is_some())).collect();
                    arms.sort_by_key(|a| rank(&a.0));
                    for (p, t, guarded) in arms {
                        self.f.filter_arms.push((if guarded { format!("Unknown:guarded:{}", p) } else { p }, t));
                    }
                    // which flag is set to true, and under which is_ident guard
                    struct Flag<'b> { f: &'b mut Facts }
                    impl<'b, 'ast> Visit<'ast> for Flag<'b> {
                        fn visit_expr_if(&mut self, i: &'ast syn::ExprIf) {
                            let mut ii = IsIdent::default(); ii.visit_expr(&i.cond);
                            for st in &i.then_branch.stmts {
                                if let syn::Stmt::Expr(syn::Expr::Assign(a), _) = st {
                                    if toks(&*a.right) == "true" {
                                        self.f.filter_flag = toks(&*a.left);
                                        self.f.filter_flag_set_under = ii.meta_level.clone();
                                        if !toks(&*i.cond).contains("input.is_empty()") {
                                            self.f.filter_flag_set_under.push("Unknown:no-input-is-empty-guard".into());
                                        }
                                    }
                                }
                            }
                            syn::visit::visit_expr_if(self, i);
                        }
                    }
                    Flag { f: self.f }.visit_expr(&c.body);
                    // the flag must be a fresh `let mut FLAG = false;` of this closure (one per field)
                    struct FlagDecl<'b> { name: &'b str, found: usize }
                    impl<'b, 'ast> Visit<'ast> for FlagDecl<'b> {
                        fn visit_local(&mut self, l: &'ast syn::Local) {
                            if let syn::Pat::Ident(pi) = &l.pat {
                                if pi.ident == self.name && pi.mutability.is_some() {
                                    if let Some(init) = &l.init { if toks(&*init.expr) == "false" { self.found += 1; } }
                                }
                            }
                            syn::visit::visit_local(self, l);
                        }
                    }
                    let flag = self.f.filter_flag.clone();
                    let mut fd = FlagDecl { name: &flag, found: 0 };
                    fd.visit_expr(&c.body);
                    if fd.found != 1 && !flag.is_empty() {
                        self.f.filter_flag = format!("Unknown:flag-not-declared-in-the-closure:{}", flag);
                    }
                }
            }
        }
        if m.method == "each" && m.args.len() == 1 {
            if let syn::Expr::Closure(c) = &m.args[0] {
                let param = match c.inputs.first() {
                    Some(syn::Pat::Ident(pi)) if c.inputs.len() == 1 => Some(pi.ident.to_string()),
                    Some(syn::Pat::Type(pt)) if c.inputs.len() == 1 => match &*pt.pat { syn::Pat::Ident(pi) => Some(pi.ident.to_string()), _ => None },
                    _ => None,
                };
                let body: syn::Expr = match &param {
                    Some(p) if p != "bi" && count_ident_tokens(c.body.to_token_stream(), "bi") == 0 => {
                        let mut map = BTreeMap::new(); map.insert(p.clone(), "bi".to_string());
                        syn::parse2::<syn::Expr>(rename_tokens(c.body.to_token_stream(), &map)).unwrap_or_else(|_| (*c.body).clone())
                    }
                    _ => (*c.body).clone(),
                };
                let mut mm = Macros::default(); mm.visit_expr(&body);
                self.f.each_closure_macros = mm.v.iter().map(|x| x.1.clone()).collect();
                if param.is_none() { self.f.each_closure_macros.push("Unknown:closure-parameter".into()); }
            }
        }
        if m.method == "to_tokens" && m.args.len() == 1 {
            if let Some(v) = mut_ref_var(&m.args[0]) {
                match &*m.receiver {
                    syn::Expr::Macro(em) if macro_name(&em.mac).starts_with("quote") => self.f.nt_writes.push((v, strip(&quote_body(&em.mac)))),
                    o => self.f.nt_writes.push((v, format!("Unknown:to_tokens-of:{}", toks(o)))),
                }
            }
        }
        if (m.method == "extend" || m.method == "append_all") && m.args.len() == 1 {
            if let Some(v) = single_ident(&m.receiver) {
                match &m.args[0] {
                    syn::Expr::Macro(em) if macro_name(&em.mac).starts_with("quote") => self.f.nt_writes.push((v, strip(&quote_body(&em.mac)))),
                    o => self.f.nt_writes.push((v, format!("Unknown:extend-with:{}", toks(o)))),
                }
            }
        }
        if m.method == "add_where_predicate" {
            let mut mm = Macros::default(); for a in &m.args { mm.visit_expr(a); }
            self.f.where_pred_macros.extend(mm.v.iter().map(|x| x.1.clone()));
        }
        syn::visit::visit_expr_method_call(self, m);
    }
}

// =================================================================================================
// normalisation (see the module comment)
// =================================================================================================

fn single_ident(e: &Expr) -> Option<String> {
    if let Expr::Path(p) = e {
        if p.qself.is_none() && p.path.leading_colon.is_none() && p.path.segments.len() == 1 && p.path.segments[0].arguments.is_none() {
            return Some(p.path.segments[0].ident.to_string());
        }
    }
    None
}

/// `x`, `&x`, `&mut x`, `*x`, `(x)`: the variable.
fn core_ident(e: &Expr) -> Option<String> {
    match e {
        Expr::Paren(p) => core_ident(&p.expr),
        Expr::Group(g) => core_ident(&g.expr),
        Expr::Reference(r) => core_ident(&r.expr),
        Expr::Unary(u) if matches!(u.op, syn::UnOp::Deref(_)) => core_ident(&u.expr),
        o => single_ident(o),
    }
}

fn path_segs(e: &Expr) -> Option<Vec<String>> {
    if let Expr::Path(p) = e {
        if p.qself.is_none() {
            return Some(p.path.segments.iter().map(|s| s.ident.to_string()).collect());
        }
    }
    None
}

fn pat_path_segs(p: &Pat) -> Option<Vec<String>> {
    match p {
        Pat::Path(pp) if pp.qself.is_none() => Some(pp.path.segments.iter().map(|s| s.ident.to_string()).collect()),
        Pat::Ident(i) if i.by_ref.is_none() && i.mutability.is_none() && i.subpat.is_none() => Some(vec![i.ident.to_string()]),
        Pat::Paren(p) => pat_path_segs(&p.pat),
        _ => None,
    }
}

fn pat_is_wild(p: &Pat) -> bool {
    match p {
        Pat::Wild(_) => true,
        Pat::Paren(p) => pat_is_wild(&p.pat),
        _ => false,
    }
}

/// `Some(_)`: matches `Some` and binds nothing.
fn pat_some_nobind(p: &Pat) -> bool {
    match p {
        Pat::TupleStruct(ts) => ts.qself.is_none() && ts.path.segments.last().map(|s| s.ident == "Some").unwrap_or(false) && ts.elems.len() == 1 && pat_is_wild(&ts.elems[0]),
        Pat::Paren(p) => pat_some_nobind(&p.pat),
        _ => false,
    }
}

fn pat_none(p: &Pat) -> bool {
    pat_path_segs(p).map(|s| s.last().map(|x| x == "None").unwrap_or(false)).unwrap_or(false)
}

/// `Mode::A` / `Mode::A | Mode::B`: the enum-variant paths of a pattern without bindings.
fn pat_variant_paths(p: &Pat) -> Option<Vec<syn::Path>> {
    match p {
        Pat::Path(pp) if pp.qself.is_none() && pp.path.segments.len() >= 2 => Some(vec![pp.path.clone()]),
        Pat::Or(o) => {
            let mut v = vec![];
            for c in &o.cases {
                v.extend(pat_variant_paths(c)?);
            }
            Some(v)
        }
        Pat::Paren(p) => pat_variant_paths(&p.pat),
        _ => None,
    }
}

fn expr_to_block(e: Expr) -> Block {
    match e {
        Expr::Block(b) if b.label.is_none() && b.attrs.is_empty() => b.block,
        o => Block { brace_token: Default::default(), stmts: vec![Stmt::Expr(o, None)] },
    }
}

fn block_expr(b: Block) -> Expr {
    Expr::Block(syn::ExprBlock { attrs: vec![], label: None, block: b })
}

fn mk_if(cond: Expr, then: Block, els: Option<Expr>) -> Expr {
    Expr::If(syn::ExprIf {
        attrs: vec![],
        if_token: Default::default(),
        cond: Box::new(cond),
        then_branch: then,
        else_branch: els.map(|e| (Default::default(), Box::new(e))),
    })
}

fn needs_parens_as_receiver(e: &Expr) -> bool {
    !matches!(e, Expr::Path(_) | Expr::Field(_) | Expr::MethodCall(_) | Expr::Call(_) | Expr::Paren(_) | Expr::Index(_))
}

fn mk_is_some(x: &Expr) -> Expr {
    if needs_parens_as_receiver(x) {
        syn::parse_quote!((#x).is_some())
    } else {
        syn::parse_quote!(#x.is_some())
    }
}

fn is_macro_named(m: &syn::Macro, names: &[&str]) -> bool {
    names.iter().any(|n| macro_name(m) == *n)
}

/// Does control never fall out of the end of this block?  (`return ..;`, `panic!(..)`, `unreachable!(..)`)
fn diverges(b: &Block) -> bool {
    match b.stmts.last() {
        Some(Stmt::Expr(Expr::Return(_), _)) => true,
        Some(Stmt::Expr(Expr::Macro(m), _)) => is_macro_named(&m.mac, &["panic", "unreachable"]),
        Some(Stmt::Macro(m)) => is_macro_named(&m.mac, &["panic", "unreachable"]),
        _ => false,
    }
}

/// An `if` chain every arm of which either yields a value (tail expression) or diverges.
fn is_value_if(e: &Expr) -> bool {
    match e {
        Expr::If(i) => {
            let then_ok = diverges(&i.then_branch) || matches!(i.then_branch.stmts.last(), Some(Stmt::Expr(_, None)));
            let else_ok = match &i.else_branch {
                None => false,
                Some((_, e)) => match &**e {
                    Expr::If(_) => is_value_if(e),
                    Expr::Block(b) => diverges(&b.block) || matches!(b.block.stmts.last(), Some(Stmt::Expr(_, None))),
                    _ => false,
                },
            };
            then_ok && else_ok
        }
        _ => false,
    }
}

fn count_ident_tokens(ts: proc_macro2::TokenStream, name: &str) -> usize {
    let mut n = 0;
    for t in ts {
        match t {
            proc_macro2::TokenTree::Ident(i) if i == name => n += 1,
            proc_macro2::TokenTree::Group(g) => n += count_ident_tokens(g.stream(), name),
            _ => {}
        }
    }
    n
}

fn collect_idents(ts: proc_macro2::TokenStream, out: &mut Vec<String>) {
    for t in ts {
        match t {
            proc_macro2::TokenTree::Ident(i) => out.push(i.to_string()),
            proc_macro2::TokenTree::Group(g) => collect_idents(g.stream(), out),
            _ => {}
        }
    }
}

/// Does some code assign to, or mutably borrow, one of `vars`?
struct Writes<'a> {
    vars: &'a [String],
    found: bool,
}
impl<'a, 'ast> Visit<'ast> for Writes<'a> {
    fn visit_expr_assign(&mut self, a: &'ast syn::ExprAssign) {
        if let Some(v) = core_ident(&a.left) {
            if self.vars.contains(&v) {
                self.found = true;
            }
        }
        syn::visit::visit_expr_assign(self, a);
    }
    fn visit_expr_reference(&mut self, r: &'ast syn::ExprReference) {
        if r.mutability.is_some() {
            if let Some(v) = core_ident(&r.expr) {
                if self.vars.contains(&v) {
                    self.found = true;
                }
            }
        }
        syn::visit::visit_expr_reference(self, r);
    }
    fn visit_pat_ident(&mut self, p: &'ast syn::PatIdent) {
        // a re-binding of one of the variables changes what the name means
        if self.vars.contains(&p.ident.to_string()) {
            self.found = true;
        }
    }
    fn visit_expr_method_call(&mut self, m: &'ast syn::ExprMethodCall) {
        // `v.replace(..)`, `v.take()`, `v.insert(..)`, `v.push(..)`: auto-ref'd mutation
        if let Some(v) = core_ident(&m.receiver) {
            if self.vars.contains(&v) && ["replace", "take", "insert", "push", "get_or_insert", "get_or_insert_with", "extend", "clear"].iter().any(|n| m.method == n) {
                self.found = true;
            }
        }
        syn::visit::visit_expr_method_call(self, m);
    }
}

struct CountPathUses<'a> {
    name: &'a str,
    n: usize,
}
impl<'a, 'ast> Visit<'ast> for CountPathUses<'a> {
    fn visit_expr(&mut self, e: &'ast Expr) {
        if single_ident(e).as_deref() == Some(self.name) {
            self.n += 1;
        }
        syn::visit::visit_expr(self, e);
    }
}

struct SubstIdent<'a> {
    name: &'a str,
    with: &'a Expr,
}
impl<'a> VisitMut for SubstIdent<'a> {
    fn visit_expr_mut(&mut self, e: &mut Expr) {
        if single_ident(e).as_deref() == Some(self.name) {
            *e = self.with.clone();
            return;
        }
        syn::visit_mut::visit_expr_mut(self, e);
    }
}

/// `st` with the variable `name` replaced by `with`; `None` unless `name` occurs exactly once, as an expression.
fn subst_once(st: &Stmt, name: &str, with: &Expr) -> Option<Stmt> {
    let toks = count_ident_tokens(st.to_token_stream(), name);
    let mut c = CountPathUses { name, n: 0 };
    c.visit_stmt(st);
    if toks != 1 || c.n != 1 {
        return None;
    }
    let mut out = st.clone();
    SubstIdent { name, with }.visit_stmt_mut(&mut out);
    Some(out)
}

/// Distribute a continuation over the arms of a value-`if`: every arm that yields `v` becomes `..; k(v)`.
fn distribute(e: &Expr, k: &dyn Fn(Expr) -> Option<Stmt>) -> Option<Expr> {
    fn arm(b: &Block, k: &dyn Fn(Expr) -> Option<Stmt>) -> Option<Block> {
        if diverges(b) {
            return Some(b.clone());
        }
        let mut stmts = b.stmts.clone();
        match stmts.pop() {
            Some(Stmt::Expr(v, None)) => {
                stmts.push(k(v)?);
                Some(Block { brace_token: Default::default(), stmts })
            }
            _ => None,
        }
    }
    match e {
        Expr::If(i) => {
            let then = arm(&i.then_branch, k)?;
            let els = match &i.else_branch {
                None => return None,
                Some((_, e)) => match &**e {
                    Expr::If(_) => distribute(e, k)?,
                    Expr::Block(b) => block_expr(arm(&b.block, k)?),
                    _ => return None,
                },
            };
            Some(mk_if((*i.cond).clone(), then, Some(els)))
        }
        _ => None,
    }
}

fn strip_parens(e: &Expr) -> &Expr {
    match e {
        Expr::Paren(p) => strip_parens(&p.expr),
        Expr::Group(g) => strip_parens(&g.expr),
        o => o,
    }
}

struct Norm {
    changed: bool,
}

impl Norm {
    fn rewrite_expr(&mut self, e: &mut Expr) {
        // TokenStream::new()  ==  quote!()
        if let Expr::Call(c) = e {
            if c.args.is_empty() {
                if let Some(s) = path_segs(&c.func) {
                    let n = s.len();
                    if n >= 2 && s[n - 1] == "new" && s[n - 2] == "TokenStream" {
                        *e = syn::parse_quote!(quote!());
                        self.changed = true;
                        return;
                    }
                }
            }
        }
        // match .. { .. }  ->  if chain
        if let Expr::Match(m) = e {
            if let Some(n) = Self::match_to_if(m) {
                *e = n;
                self.changed = true;
            }
        }
        if let Expr::If(i) = e {
            // if let Some(_) = X / if let None = X
            if let Expr::Let(l) = &*i.cond {
                let x = (*l.expr).clone();
                if pat_some_nobind(&l.pat) {
                    i.cond = Box::new(mk_is_some(&x));
                    self.changed = true;
                } else if pat_none(&l.pat) {
                    let some = mk_is_some(&x);
                    i.cond = Box::new(syn::parse_quote!(!#some));
                    self.changed = true;
                }
            }
            // (c) -> c
            if let Expr::Paren(p) = &*i.cond {
                i.cond = p.expr.clone();
                self.changed = true;
            }
            // x.is_none() -> !x.is_some()
            if let Expr::MethodCall(mc) = &*i.cond {
                if mc.method == "is_none" && mc.args.is_empty() {
                    let some = mk_is_some(&mc.receiver);
                    i.cond = Box::new(syn::parse_quote!(!#some));
                    self.changed = true;
                }
            }
            // a != b -> !(a == b);   Mode::X == v -> v == Mode::X;   *v == .. / &v == .. -> v == ..
            if let Expr::Binary(b) = &*i.cond {
                if let syn::BinOp::Ne(_) = b.op {
                    let (l, r) = (&b.left, &b.right);
                    i.cond = Box::new(syn::parse_quote!(!(#l == #r)));
                    self.changed = true;
                }
            }
            if let Expr::Binary(b) = &mut *i.cond {
                if let syn::BinOp::Eq(_) = b.op {
                    let l_var = core_ident(&b.left);
                    let r_var = core_ident(&b.right);
                    let l_path = path_segs(strip_parens(&b.left)).map(|s| s.len() >= 2).unwrap_or(false);
                    if l_path && r_var.is_some() {
                        std::mem::swap(&mut b.left, &mut b.right);
                        self.changed = true;
                    } else if let Some(v) = l_var {
                        if single_ident(&b.left).is_none() {
                            let id = syn::Ident::new(&v, proc_macro2::Span::call_site());
                            b.left = Box::new(syn::parse_quote!(#id));
                            self.changed = true;
                        }
                    }
                }
            }
            // if !c { A } else { B }  ->  if c { B } else { A }
            let negated: Option<Expr> = match &*i.cond {
                Expr::Unary(u) if matches!(u.op, syn::UnOp::Not(_)) => Some(match strip_parens(&u.expr) {
                    o => o.clone(),
                }),
                _ => None,
            };
            if let (Some(c), Some((_, els))) = (negated, i.else_branch.clone()) {
                let old_then = std::mem::replace(&mut i.then_branch, expr_to_block(*els));
                i.else_branch = Some((Default::default(), Box::new(block_expr(old_then))));
                i.cond = Box::new(c);
                self.changed = true;
            }
        }
    }

    /// `let c = a == b;` / `let c = x.is_some();` / `let c = m.path.is_ident("..");` (possibly negated)
    fn pure_condition_let(st: &Stmt) -> Option<(String, Expr)> {
        fn pure_cond(e: &Expr) -> bool {
            match e {
                Expr::Paren(p) => pure_cond(&p.expr),
                Expr::Unary(u) if matches!(u.op, syn::UnOp::Not(_)) => pure_cond(&u.expr),
                Expr::Binary(b) if matches!(b.op, syn::BinOp::Eq(_) | syn::BinOp::Ne(_)) => {
                    let side = |x: &Expr| core_ident(x).is_some() || path_segs(strip_parens(x)).is_some();
                    side(&b.left) && side(&b.right)
                }
                Expr::Binary(b) if matches!(b.op, syn::BinOp::And(_) | syn::BinOp::Or(_)) => pure_cond(&b.left) && pure_cond(&b.right),
                Expr::MethodCall(m) => {
                    let recv_ok = match &*m.receiver {
                        Expr::Path(_) => core_ident(&m.receiver).is_some(),
                        Expr::Field(f) => core_ident(&f.base).is_some(),
                        _ => false,
                    };
                    let lit_args = m.args.iter().all(|a| matches!(a, Expr::Lit(_)));
                    recv_ok && lit_args && ["is_some", "is_none", "is_ident", "is_empty"].iter().any(|n| m.method == n)
                }
                _ => false,
            }
        }
        if let Stmt::Local(l) = st {
            let init = l.init.as_ref()?;
            if init.diverge.is_some() || !l.attrs.is_empty() {
                return None;
            }
            let name = match &l.pat {
                Pat::Ident(pi) if pi.by_ref.is_none() && pi.subpat.is_none() && pi.mutability.is_none() => pi.ident.to_string(),
                Pat::Type(pt) => match &*pt.pat {
                    Pat::Ident(pi) if pi.by_ref.is_none() && pi.subpat.is_none() && pi.mutability.is_none() => pi.ident.to_string(),
                    _ => return None,
                },
                _ => return None,
            };
            if pure_cond(&init.expr) {
                return Some((name, (*init.expr).clone()));
            }
        }
        None
    }

    fn match_to_if(m: &syn::ExprMatch) -> Option<Expr> {
        if !m.attrs.is_empty() || m.arms.is_empty() {
            return None;
        }
        let body = |a: &syn::Arm| expr_to_block((*a.body).clone());
        let n = m.arms.len();
        // (a) Option scrutinee, no bindings: Some(_) / None / _
        if m.arms.iter().all(|a| a.guard.is_none() && (pat_some_nobind(&a.pat) || pat_none(&a.pat) || pat_is_wild(&a.pat))) && n == 2 {
            let some_arm = m.arms.iter().position(|a| pat_some_nobind(&a.pat));
            let none_arm = m.arms.iter().position(|a| pat_none(&a.pat));
            let wild_arm = m.arms.iter().position(|a| pat_is_wild(&a.pat));
            let (s, o) = match (some_arm, none_arm, wild_arm) {
                (Some(s), Some(o), None) => (s, o),
                (Some(0), None, Some(1)) => (0, 1),
                (None, Some(0), Some(1)) => (1, 0),
                _ => return None,
            };
            return Some(mk_if(mk_is_some(&m.expr), body(&m.arms[s]), Some(block_expr(body(&m.arms[o])))));
        }
        // (b) `match () { _ if c1 => A, _ if c2 => B, _ => C }`
        if m.arms.iter().all(|a| pat_is_wild(&a.pat)) && m.arms[..n - 1].iter().all(|a| a.guard.is_some()) && m.arms[n - 1].guard.is_none() && n >= 2 {
            let side_effect_free = matches!(strip_parens(&m.expr), Expr::Tuple(t) if t.elems.is_empty()) || core_ident(&m.expr).is_some();
            if !side_effect_free {
                return None;
            }
            let mut acc = block_expr(body(&m.arms[n - 1]));
            for a in m.arms[..n - 1].iter().rev() {
                let c = (*a.guard.as_ref().unwrap().1).clone();
                acc = mk_if(c, body(a), Some(acc));
            }
            return Some(acc);
        }
        // (c) enum variants without payload: `match v { E::A => X, E::B | E::C => Y, _ => Z }`; the last arm is
        //     whatever is left (the match is exhaustive)
        if let Some(v) = core_ident(&m.expr) {
            let id = syn::Ident::new(&v, proc_macro2::Span::call_site());
            let ok = n >= 2
                && m.arms.iter().all(|a| a.guard.is_none())
                && m.arms[..n - 1].iter().all(|a| pat_variant_paths(&a.pat).is_some())
                && (pat_is_wild(&m.arms[n - 1].pat) || pat_variant_paths(&m.arms[n - 1].pat).is_some());
            if ok {
                let mut acc = block_expr(body(&m.arms[n - 1]));
                for a in m.arms[..n - 1].iter().rev() {
                    let ps = pat_variant_paths(&a.pat).unwrap();
                    let mut cond: Option<Expr> = None;
                    for p in ps {
                        let c: Expr = syn::parse_quote!(#id == #p);
                        cond = Some(match cond {
                            None => c,
                            Some(prev) => syn::parse_quote!(#prev || #c),
                        });
                    }
                    acc = mk_if(cond?, body(a), Some(acc));
                }
                return Some(acc);
            }
        }
        None
    }

    fn rewrite_block(&mut self, b: &mut Block) {
        let mut k = 0;
        while k < b.stmts.len() {
            // if C { ..diverges } REST  ->  if C { .. } else { REST }
            let early = match &b.stmts[k] {
                Stmt::Expr(Expr::If(i), _) => i.else_branch.is_none() && diverges(&i.then_branch) && k + 1 < b.stmts.len() && !matches!(&*i.cond, Expr::Let(_)),
                _ => false,
            };
            if early {
                let rest: Vec<Stmt> = b.stmts.drain(k + 1..).collect();
                if let Stmt::Expr(Expr::If(i), semi) = &mut b.stmts[k] {
                    i.else_branch = Some((Default::default(), Box::new(block_expr(Block { brace_token: Default::default(), stmts: rest }))));
                    *semi = None;
                }
                self.changed = true;
                // the moved statements are normalised when the new else block is visited in the next round
                break;
            }
            // let p = IF; NEXT(p)   ->   if .. { NEXT(v1) } else { NEXT(v2) }
            let mut replaced = false;
            if k + 1 < b.stmts.len() {
                if let Stmt::Local(l) = &b.stmts[k] {
                    let name = match &l.pat {
                        Pat::Ident(pi) if pi.by_ref.is_none() && pi.subpat.is_none() => Some(pi.ident.to_string()),
                        Pat::Type(pt) => match &*pt.pat {
                            Pat::Ident(pi) if pi.by_ref.is_none() && pi.subpat.is_none() => Some(pi.ident.to_string()),
                            _ => None,
                        },
                        _ => None,
                    };
                    if let (Some(name), Some(init)) = (name, &l.init) {
                        let later: usize = b.stmts[k + 2..].iter().map(|s| count_ident_tokens(s.to_token_stream(), &name)).sum();
                        if init.diverge.is_none() && is_value_if(&init.expr) && later == 0 {
                            let next = b.stmts[k + 1].clone();
                            let cont = |v: Expr| -> Option<Stmt> {
                                let v = if matches!(v, Expr::Path(_) | Expr::Call(_) | Expr::MethodCall(_) | Expr::Macro(_) | Expr::Lit(_)) { v } else { syn::parse_quote!((#v)) };
                                subst_once(&next, &name, &v).map(|s| match s {
                                    Stmt::Expr(e, None) => Stmt::Expr(e, Some(Default::default())),
                                    o => o,
                                })
                            };
                            if let Some(n) = distribute(&init.expr, &cont) {
                                b.stmts[k] = Stmt::Expr(n, None);
                                b.stmts.remove(k + 1);
                                // keep the block's value shape: a trailing `if` without `;` is fine for `()`
                                if k + 1 < b.stmts.len() {
                                    if let Stmt::Expr(_, semi) = &mut b.stmts[k] {
                                        *semi = Some(Default::default());
                                    }
                                }
                                self.changed = true;
                                replaced = true;
                            }
                        }
                    }
                }
            }
            // let c = <pure condition>; REST   ->   REST[c := condition]   (when REST does not write its variables)
            if !replaced {
                if let Some((name, cond)) = Self::pure_condition_let(&b.stmts[k]) {
                    let vars: Vec<String> = {
                        let mut v = vec![];
                        collect_idents(cond.to_token_stream(), &mut v);
                        v
                    };
                    let rest = &b.stmts[k + 1..];
                    let written = rest.iter().any(|st| {
                        let mut w = Writes { vars: &vars, found: false };
                        w.visit_stmt(st);
                        w.found
                    });
                    let toks_n: usize = rest.iter().map(|st| count_ident_tokens(st.to_token_stream(), &name)).sum();
                    let mut c = CountPathUses { name: &name, n: 0 };
                    for st in rest {
                        c.visit_stmt(st);
                    }
                    if !written && toks_n == c.n && c.n >= 1 {
                        let with: Expr = syn::parse_quote!((#cond));
                        for st in b.stmts[k + 1..].iter_mut() {
                            SubstIdent { name: &name, with: &with }.visit_stmt_mut(st);
                        }
                        b.stmts.remove(k);
                        self.changed = true;
                        continue;
                    }
                }
            }
            // x = IF / x = Some(IF) / r.m(IF)   ->   distributed over the arms
            if !replaced {
                if let Stmt::Expr(e, semi) = &b.stmts[k] {
                    let semi = *semi;
                    let new: Option<Expr> = match e {
                        Expr::Assign(a) if a.attrs.is_empty() => {
                            let lhs = (*a.left).clone();
                            match &*a.right {
                                r if is_value_if(r) => distribute(r, &|v| Some(Stmt::Expr(syn::parse_quote!(#lhs = #v), Some(Default::default())))),
                                Expr::Call(c) if c.args.len() == 1 && is_value_if(&c.args[0]) => {
                                    let f = (*c.func).clone();
                                    distribute(&c.args[0], &|v| Some(Stmt::Expr(syn::parse_quote!(#lhs = #f(#v)), Some(Default::default()))))
                                }
                                _ => None,
                            }
                        }
                        Expr::MethodCall(mc) if mc.attrs.is_empty() && mc.turbofish.is_none() && mc.args.len() == 1 && is_value_if(&mc.args[0]) => {
                            let r = (*mc.receiver).clone();
                            let name = mc.method.clone();
                            distribute(&mc.args[0], &|v| Some(Stmt::Expr(syn::parse_quote!(#r.#name(#v)), Some(Default::default()))))
                        }
                        _ => None,
                    };
                    if let Some(n) = new {
                        b.stmts[k] = Stmt::Expr(n, semi);
                        self.changed = true;
                    }
                }
            }
            k += 1;
        }
    }
}

impl VisitMut for Norm {
    fn visit_expr_mut(&mut self, e: &mut Expr) {
        syn::visit_mut::visit_expr_mut(self, e);
        self.rewrite_expr(e);
    }
    fn visit_block_mut(&mut self, b: &mut Block) {
        syn::visit_mut::visit_block_mut(self, b);
        self.rewrite_block(b);
    }
}

fn normalize_block(b: &mut Block) {
    for _ in 0..40 {
        let mut n = Norm { changed: false };
        n.visit_block_mut(b);
        if !n.changed {
            break;
        }
    }
}

// ---- identifiers: renaming (also inside macro bodies) -------------------------------------------

fn rename_tokens(ts: proc_macro2::TokenStream, map: &BTreeMap<String, String>) -> proc_macro2::TokenStream {
    use proc_macro2::{Group, Ident, TokenTree};
    ts.into_iter()
        .map(|t| match t {
            TokenTree::Ident(i) => match map.get(&i.to_string()) {
                Some(to) => TokenTree::Ident(Ident::new(to, i.span())),
                None => TokenTree::Ident(i),
            },
            TokenTree::Group(g) => {
                let mut n = Group::new(g.delimiter(), rename_tokens(g.stream(), map));
                n.set_span(g.span());
                TokenTree::Group(n)
            }
            o => o,
        })
        .collect()
}

/// Rename variables everywhere in a block (token level, so `#x` inside `quote!` follows).
fn rename_block(b: &Block, map: &BTreeMap<String, String>) -> Option<Block> {
    if map.is_empty() {
        return Some(b.clone());
    }
    syn::parse2::<Block>(rename_tokens(b.to_token_stream(), map)).ok()
}

// ---- helper functions: splice the ones called once, nest the others -----------------------------

struct CallCounter<'a> {
    names: &'a BTreeSet<String>,
    count: BTreeMap<String, usize>,
}
impl<'a, 'ast> Visit<'ast> for CallCounter<'a> {
    fn visit_expr_call(&mut self, c: &'ast syn::ExprCall) {
        if let Some(n) = single_ident(&c.func) {
            if self.names.contains(&n) {
                *self.count.entry(n).or_insert(0) += 1;
            }
        }
        syn::visit::visit_expr_call(self, c);
    }
}

struct Splice<'a> {
    defs: &'a BTreeMap<String, syn::ItemFn>,
    once: &'a BTreeSet<String>,
    failed: Vec<String>,
}
impl<'a> VisitMut for Splice<'a> {
    fn visit_expr_mut(&mut self, e: &mut Expr) {
        syn::visit_mut::visit_expr_mut(self, e);
        let (name, args) = match e {
            Expr::Call(c) => match single_ident(&c.func) {
                Some(n) if self.once.contains(&n) => (n, c.args.iter().cloned().collect::<Vec<Expr>>()),
                _ => return,
            },
            _ => return,
        };
        let def = &self.defs[&name];
        let mut map = BTreeMap::new();
        let mut lets: Vec<Stmt> = vec![];
        if def.sig.inputs.len() != args.len() {
            self.failed.push(name);
            return;
        }
        for (p, a) in def.sig.inputs.iter().zip(args.iter()) {
            let pn = match p {
                syn::FnArg::Typed(pt) => match &*pt.pat {
                    Pat::Ident(pi) => pi.ident.clone(),
                    _ => {
                        self.failed.push(name);
                        return;
                    }
                },
                _ => {
                    self.failed.push(name);
                    return;
                }
            };
            match core_ident(a) {
                // the argument is a variable (possibly borrowed): the parameter IS that variable
                Some(v) => {
                    map.insert(pn.to_string(), v);
                }
                None => lets.push(syn::parse_quote!(let #pn = #a;)),
            }
        }
        match rename_block(&def.block, &map) {
            Some(mut body) => {
                let mut stmts = lets;
                stmts.append(&mut body.stmts);
                *e = block_expr(Block { brace_token: Default::default(), stmts });
            }
            None => self.failed.push(name),
        }
    }
}

/// The registered function's body with the file's helper functions brought in: those called exactly once are
/// spliced into the call site (parameters that receive a plain variable are renamed to it), the others are
/// appended as nested items so that every scan sees them.  Helper bodies are normalised first.
fn assemble(file: &syn::File, entry: &syn::ItemFn) -> (Block, Vec<String>) {
    let mut notes = vec![];
    let mut defs: BTreeMap<String, syn::ItemFn> = BTreeMap::new();
    for it in &file.items {
        if let syn::Item::Fn(f) = it {
            let is_entry_point = f.attrs.iter().any(|a| {
                let p = a.path();
                p.is_ident("proc_macro") || p.is_ident("proc_macro_derive") || p.is_ident("proc_macro_attribute")
            });
            if f.sig.ident != entry.sig.ident && !is_entry_point {
                defs.insert(f.sig.ident.to_string(), f.clone());
            }
        }
    }
    let mut body = (*entry.block).clone();
    // nested `fn` items of the entry that are called once are candidates as well
    let mut nested: BTreeMap<String, syn::ItemFn> = BTreeMap::new();
    for st in &body.stmts {
        if let Stmt::Item(syn::Item::Fn(f)) = st {
            nested.insert(f.sig.ident.to_string(), f.clone());
        }
    }
    for (k, v) in &nested {
        defs.insert(k.clone(), v.clone());
    }
    for d in defs.values_mut() {
        normalize_block(&mut d.block);
    }
    normalize_block(&mut body);
    for _round in 0..4 {
        let names: BTreeSet<String> = defs.keys().cloned().collect();
        let mut cc = CallCounter { names: &names, count: BTreeMap::new() };
        cc.visit_block(&body);
        // a helper is spliced when the whole reachable code calls it exactly once (calls from other helpers count)
        let mut total = cc.count.clone();
        for (n, d) in &defs {
            if nested.contains_key(n) {
                continue; // already counted: nested items are part of `body`
            }
            let mut c2 = CallCounter { names: &names, count: BTreeMap::new() };
            c2.visit_block(&d.block);
            for (k, v) in c2.count {
                *total.entry(k).or_insert(0) += v;
            }
        }
        let once: BTreeSet<String> = cc
            .count
            .iter()
            .filter(|(n, c)| **c == 1 && total.get(*n).copied().unwrap_or(0) == 1)
            .filter(|(n, _)| {
                let d = &defs[*n];
                d.sig.asyncness.is_none() && d.sig.unsafety.is_none() && d.sig.generics.params.is_empty()
            })
            .map(|(n, _)| n.clone())
            .collect();
        if once.is_empty() {
            break;
        }
        let mut sp = Splice { defs: &defs, once: &once, failed: vec![] };
        sp.visit_block_mut(&mut body);
        for f in &sp.failed {
            notes.push(format!("helper `{}` could not be spliced", f));
        }
        let failed: BTreeSet<String> = sp.failed.iter().cloned().collect();
        // drop the spliced definitions (nested items included)
        body.stmts.retain(|st| match st {
            Stmt::Item(syn::Item::Fn(f)) => !(once.contains(&f.sig.ident.to_string()) && !failed.contains(&f.sig.ident.to_string())),
            _ => true,
        });
        for n in &once {
            if !failed.contains(n) {
                defs.remove(n);
                nested.remove(n);
            }
        }
        normalize_block(&mut body);
        if !failed.is_empty() {
            break;
        }
    }
    // the remaining module-level helpers that the code mentions: nest them
    let mut mentioned: Vec<String> = vec![];
    let mut frontier = body.to_token_stream();
    for _ in 0..6 {
        let mut added = false;
        for (n, d) in &defs {
            if nested.contains_key(n) || mentioned.contains(n) {
                continue;
            }
            if count_ident_tokens(frontier.clone(), n) > 0 {
                mentioned.push(n.clone());
                frontier.extend(d.block.to_token_stream());
                added = true;
            }
        }
        if !added {
            break;
        }
    }
    for n in &mentioned {
        body.stmts.insert(0, Stmt::Item(syn::Item::Fn(defs[n].clone())));
    }
    (body, notes)
}

// ---- roles --------------------------------------------------------------------------------------

/// `Some(Mode::X)` -> X
fn some_mode(e: &Expr) -> Option<String> {
    if let Expr::Call(c) = e {
        if single_ident(&c.func).as_deref() == Some("Some") && c.args.len() == 1 {
            if let Some(s) = path_segs(&c.args[0]) {
                if s.len() == 2 && s[0] == "Mode" {
                    return Some(s[1].clone());
                }
            }
        }
    }
    None
}

#[derive(Default)]
struct Roles {
    mode_assigned: BTreeSet<String>,        // v in `v = Some(Mode::X)`
    mode_compared: BTreeSet<String>,        // v in `v == Mode::X`
    links: Vec<(String, String)>,           // (a, b) in `let Some(a) = b else ..` / `let a = b.unwrap()`
    bound_assigned: BTreeSet<String>,       // v in `v = Some(..)` under `if ..is_ident("bound")`
    in_bound: usize,
}
impl<'ast> Visit<'ast> for Roles {
    fn visit_expr_assign(&mut self, a: &'ast syn::ExprAssign) {
        if let Some(v) = single_ident(&a.left) {
            if some_mode(&a.right).is_some() {
                self.mode_assigned.insert(v.clone());
            }
            if self.in_bound > 0 {
                if let Expr::Call(c) = &*a.right {
                    if single_ident(&c.func).as_deref() == Some("Some") {
                        self.bound_assigned.insert(v);
                    }
                }
            }
        }
        syn::visit::visit_expr_assign(self, a);
    }
    fn visit_expr_binary(&mut self, b: &'ast syn::ExprBinary) {
        if matches!(b.op, syn::BinOp::Eq(_) | syn::BinOp::Ne(_)) {
            for (x, y) in [(&b.left, &b.right), (&b.right, &b.left)] {
                if let (Some(v), Some(s)) = (core_ident(x), path_segs(strip_parens(y))) {
                    if s.len() == 2 && s[0] == "Mode" {
                        self.mode_compared.insert(v);
                    }
                }
            }
        }
        syn::visit::visit_expr_binary(self, b);
    }
    fn visit_local(&mut self, l: &'ast syn::Local) {
        if let Some(init) = &l.init {
            // let Some(a) = b else { .. }
            if let Pat::TupleStruct(ts) = &l.pat {
                if ts.path.is_ident("Some") && ts.elems.len() == 1 && init.diverge.is_some() {
                    if let (Pat::Ident(pi), Some(b)) = (&ts.elems[0], core_ident(&init.expr)) {
                        self.links.push((pi.ident.to_string(), b));
                    }
                }
            }
            // let a = b.unwrap() / b.expect(..) / b.unwrap_or_else(|| panic..)
            if let Pat::Ident(pi) = &l.pat {
                if let Expr::MethodCall(mc) = &*init.expr {
                    if ["unwrap", "expect", "unwrap_or_else"].iter().any(|m| mc.method == m) {
                        if let Some(b) = core_ident(&mc.receiver) {
                            self.links.push((pi.ident.to_string(), b));
                        }
                    }
                }
            }
        }
        syn::visit::visit_local(self, l);
    }
    fn visit_expr_if(&mut self, i: &'ast syn::ExprIf) {
        let mut ii = IsIdent::default();
        ii.visit_expr(&i.cond);
        let is_bound = ii.meta_level.len() == 1 && ii.meta_level[0] == "bound";
        self.visit_expr(&i.cond);
        if is_bound {
            self.in_bound += 1;
        }
        self.visit_block(&i.then_branch);
        if is_bound {
            self.in_bound -= 1;
        }
        if let Some((_, e)) = &i.else_branch {
            self.visit_expr(e);
        }
    }
}

/// Rename locals by role.  A variable compared with `Mode::_` that is not the one fed by the attribute parser
/// gets a name no check accepts.
fn canonical_names(b: &Block) -> BTreeMap<String, String> {
    let mut r = Roles::default();
    r.visit_block(b);
    let mut map = BTreeMap::new();
    let mut class: BTreeSet<String> = r.mode_assigned.clone();
    if class.len() == 1 {
        loop {
            let mut grew = false;
            for (a, bb) in &r.links {
                if class.contains(bb) && class.insert(a.clone()) {
                    grew = true;
                }
            }
            if !grew {
                break;
            }
        }
        for v in &class {
            if v != "mode" {
                map.insert(v.clone(), "mode".to_string());
            }
        }
    }
    for v in &r.mode_compared {
        if !class.contains(v) {
            map.insert(v.clone(), format!("Unknown_not_the_parsed_mode_{}", v));
        }
    }
    if r.bound_assigned.len() == 1 {
        let v = r.bound_assigned.iter().next().unwrap();
        if v != "override_bound" && !map.contains_key(v) {
            map.insert(v.clone(), "override_bound".to_string());
        }
    }
    // a rename must not collide with a name that is already in use for something else
    let all_idents = b.to_token_stream();
    let targets: Vec<String> = map.values().cloned().collect();
    for t in targets {
        if t.starts_with("Unknown_") {
            continue;
        }
        let already = count_ident_tokens(all_idents.clone(), &t) > 0;
        let is_source_too = map.contains_key(&t);
        if already && !is_source_too && !class.contains(&t) && !(t == "override_bound" && r.bound_assigned.contains(&t)) {
            map.retain(|_, v| *v != t);
        }
    }
    map
}

/// `&mut v` -> v
fn mut_ref_var(e: &Expr) -> Option<String> {
    match e {
        Expr::Reference(r) if r.mutability.is_some() => single_ident(&r.expr),
        Expr::Paren(p) => mut_ref_var(&p.expr),
        _ => None,
    }
}

/// Tokens a `quote!(..)` / `quote_spanned!(span=> ..)` invocation produces (the part after `=>`).
fn quote_body(m: &syn::Macro) -> String {
    let t = m.tokens.to_string();
    if macro_name(m) == "quote_spanned" {
        match t.split_once("=>") {
            Some((_, b)) => b.to_string(),
            None => format!("Unknown:quote_spanned:{}", t),
        }
    } else {
        t
    }
}

/// Everything that can put tokens into the accumulator `var`, in source order: its initialiser, the
/// `to_tokens(&mut var)` / `var.extend(..)` calls; plus an `Unknown` entry for any other way of writing it.
struct Accum<'a> { var: &'a str, parts: Vec<String>, decls: usize }
impl<'a, 'ast> Visit<'ast> for Accum<'a> {
    fn visit_local(&mut self, l: &'ast syn::Local) {
        let name = match &l.pat {
            Pat::Ident(pi) => Some(pi.ident.to_string()),
            Pat::Type(pt) => match &*pt.pat { Pat::Ident(pi) => Some(pi.ident.to_string()), _ => None },
            _ => None,
        };
        if name.as_deref() == Some(self.var) {
            self.decls += 1;
            match &l.init {
                Some(init) => match &*init.expr {
                    Expr::Macro(em) if macro_name(&em.mac).starts_with("quote") => self.parts.push(strip(&quote_body(&em.mac))),
                    o => self.parts.push(format!("Unknown:initialiser:{}", toks(o))),
                },
                None => self.parts.push("Unknown:no-initialiser".into()),
            }
        }
        syn::visit::visit_local(self, l);
    }
    fn visit_expr_assign(&mut self, a: &'ast syn::ExprAssign) {
        if single_ident(&a.left).as_deref() == Some(self.var) {
            self.parts.push(format!("Unknown:assigned:{}", toks(&*a.right)));
        }
        syn::visit::visit_expr_assign(self, a);
    }
    fn visit_expr_reference(&mut self, r: &'ast syn::ExprReference) {
        // `&mut var` anywhere but as the argument of to_tokens is an unknown writer (counted below by difference)
        if r.mutability.is_some() && single_ident(&r.expr).as_deref() == Some(self.var) {
            self.parts.push("&mut".into());
        }
        syn::visit::visit_expr_reference(self, r);
    }
    fn visit_expr_method_call(&mut self, m: &'ast syn::ExprMethodCall) {
        if single_ident(&m.receiver).as_deref() == Some(self.var) && !(m.method == "extend" || m.method == "append_all" || m.method == "clone" || m.method == "to_string" || m.method == "is_empty") {
            self.parts.push(format!("Unknown:method:{}", m.method));
        }
        syn::visit::visit_expr_method_call(self, m);
    }
}

fn main() {
    let path = std::env::args().nth(1).expect("usage: c15-translator <lib.rs>");
    let text = std::fs::read_to_string(&path).expect("cannot read source");
    let file = syn::parse_file(&text).expect("source does not parse");
    // find the registered function
    let mut entry = String::new();
    let mut helper_attrs: Vec<String> = vec![];
    for it in &file.items {
        if let syn::Item::Macro(m) = it {
            if macro_name(&m.mac) == "decl_derive" {
                let t: Vec<proc_macro2::TokenTree> = m.mac.tokens.clone().into_iter().collect();
                if let Some(proc_macro2::TokenTree::Group(g)) = t.first() {
                    let inner: Vec<proc_macro2::TokenTree> = g.stream().into_iter().collect();
                    if matches!(inner.first(), Some(proc_macro2::TokenTree::Ident(i)) if i == "Collect") {
                        if let Some(proc_macro2::TokenTree::Ident(i)) = t.last() { entry = i.to_string(); }
                        for tt in &inner {
                            if let proc_macro2::TokenTree::Group(a) = tt {
                                for x in a.stream() { if let proc_macro2::TokenTree::Ident(i) = x { helper_attrs.push(i.to_string()); } }
                            }
                        }
                    }
                }
            }
        }
    }
    let func = file.items.iter().find_map(|it| match it { syn::Item::Fn(f) if f.sig.ident == entry => Some(f), _ => None });
    let mut facts = Facts::default();
    let mut all_ident = IsIdent::default();
    let mut all_macros = Macros::default();
    let mut body: Option<Block> = None;
    let mut notes: Vec<String> = vec![];
    if let Some(f) = func {
        let (b, n) = assemble(&file, f);
        notes = n;
        let names = canonical_names(&b);
        let b = match rename_block(&b, &names) {
            Some(x) => x,
            None => { notes.push("canonical renaming failed to re-parse".into()); b }
        };
        if std::env::var("C15_TRANSLATOR_DUMP").is_ok() {
            eprintln!("{}", b.to_token_stream());
        }
        Walker { f: &mut facts }.visit_block(&b);
        all_ident.visit_block(&b);
        all_macros.visit_block(&b);
        body = Some(b);
    }
    // every `Mode::X` used as a VALUE must be one of the three assignments of the attribute chain
    struct ModeValues { values: usize }
    impl<'ast> Visit<'ast> for ModeValues {
        fn visit_expr_binary(&mut self, b: &'ast syn::ExprBinary) {
            if matches!(b.op, syn::BinOp::Eq(_) | syn::BinOp::Ne(_)) {
                // operands of a comparison are not values that flow anywhere
                for x in [&b.left, &b.right] {
                    let is_mode = path_segs(strip_parens(x)).map(|s| s.len() == 2 && s[0] == "Mode").unwrap_or(false);
                    if !is_mode { self.visit_expr(x); }
                }
                return;
            }
            syn::visit::visit_expr_binary(self, b);
        }
        fn visit_expr_path(&mut self, p: &'ast syn::ExprPath) {
            let s: Vec<String> = p.path.segments.iter().map(|s| s.ident.to_string()).collect();
            if s.len() == 2 && s[0] == "Mode" { self.values += 1; }
        }
    }
    if let Some(b) = &body {
        let mut mv = ModeValues { values: 0 };
        mv.visit_block(b);
        if mv.values != facts.mode_values_in_chain {
            facts.mode_map.push(("Unknown:mode-value-outside-the-attribute-chain".into(), format!("{}", mv.values as i64 - facts.mode_values_in_chain as i64)));
        }
    }
    for n in &notes { facts.mode_map.push((format!("Unknown:{}", n), String::new())); }
    let unknown = |what: &str| format!("Unknown:{}", what);
    let mut out = String::new();
    out.push_str("(* GENERATED by /verif/translator-derive from derive/src/lib.rs -- do not edit *)\n");
    out.push_str("From Coq Require Import List String.\nImport ListNotations.\nLocal Open Scope string_scope.\n\n");
    let def = |out: &mut String, name: &str, ty: &str, val: String| out.push_str(&format!("Definition {} : {} := {}.\n", name, ty, val));
    def(&mut out, "gen_entry_fn", "string", cstr(if entry.is_empty() { "Unknown:entry" } else { &entry }));
    def(&mut out, "gen_helper_attrs", "list string", clist(&helper_attrs.iter().map(|s| cstr(s)).collect::<Vec<_>>()));
    // attribute-level is_ident literals (attr.path().is_ident("collect")), de-duplicated
    let mut al = all_ident.attr_level.clone(); al.dedup(); al.sort(); al.dedup();
    def(&mut out, "gen_attr_idents", "list string", clist(&al.iter().map(|s| cstr(s)).collect::<Vec<_>>()));
    def(&mut out, "gen_mode_map", "list (string * string)", clist(&facts.mode_map.iter().map(|(a, b)| format!("({}, {})", cstr(a), cstr(b))).collect::<Vec<_>>()));
    // option identifiers: meta-level literals that are neither modes nor inside the filter closure
    let mut opts: Vec<String> = vec![];
    for l in &all_ident.meta_level {
        if facts.mode_map.iter().any(|(a, _)| a == l) || facts.filter_idents.contains(l) { continue; }
        if !opts.contains(l) { opts.push(l.clone()); }
    }
    def(&mut out, "gen_option_idents", "list string", clist(&opts.iter().map(|s| cstr(s)).collect::<Vec<_>>()));
    def(&mut out, "gen_field_attr_idents", "list string", clist(&facts.filter_idents.iter().map(|s| cstr(s)).collect::<Vec<_>>()));
    def(&mut out, "gen_filter_flag", "string", cstr(if facts.filter_flag.is_empty() { "Unknown:flag" } else { &facts.filter_flag }));
    def(&mut out, "gen_filter_flag_set_under", "list string", clist(&facts.filter_flag_set_under.iter().map(|s| cstr(s)).collect::<Vec<_>>()));
    def(&mut out, "gen_filter_arms", "list (string * string)", clist(&facts.filter_arms.iter().map(|(a, b)| format!("({}, {})", cstr(a), cstr(b))).collect::<Vec<_>>()));
    // NEEDS_TRACE
    // the accumulator of the NEEDS_TRACE expression: the variable interpolated into `const NEEDS_TRACE: bool = #V;`.
    // Its seed is everything put into it that is not the per-field step.
    let nt_vars: BTreeSet<String> = all_macros.v.iter().filter(|(_, t)| t.contains("constNEEDS_TRACE:bool=#")).map(|(_, t)| {
        let r = t.split("constNEEDS_TRACE:bool=#").nth(1).unwrap_or("");
        r.chars().take_while(|c| c.is_alphanumeric() || *c == '_').collect::<String>()
    }).collect();
    if let (Some(b), true) = (&body, nt_vars.len() == 1) {
        let v = nt_vars.iter().next().unwrap().clone();
        let mut acc = Accum { var: &v, parts: vec![], decls: 0 };
        acc.visit_block(b);
        let writes: Vec<&(String, String)> = facts.nt_writes.iter().filter(|(w, _)| *w == v).collect();
        let to_tokens_refs = acc.parts.iter().filter(|p| *p == "&mut").count();
        let mut parts: Vec<String> = acc.parts.iter().filter(|p| *p != "&mut").cloned().collect();
        parts.extend(writes.iter().map(|(_, t)| t.clone()));
        // `&mut V` must only occur as the argument of the recognised `to_tokens` calls
        let recognised_refs = facts.nt_writes.iter().filter(|(w, t)| *w == v && !t.starts_with("Unknown:extend")).count();
        let extend_writes = writes.iter().filter(|(_, _)| true).count();
        let _ = extend_writes;
        if to_tokens_refs > recognised_refs { parts.push("Unknown:&mut-accumulator-passed-elsewhere".into()); }
        if acc.decls != 1 { parts.push(format!("Unknown:{}-declarations-of-the-accumulator", acc.decls)); }
        let seeds: Vec<String> = parts.into_iter().filter(|t| !t.is_empty() && !t.contains("NEEDS_TRACE")).collect();
        facts.seed = seeds;
    }
    let seed = if facts.seed.len() == 1 { facts.seed[0].clone() } else { unknown("seed") };
    def(&mut out, "gen_needs_trace_seed", "string", cstr(&seed));
    let steps: Vec<&(String, String)> = all_macros.v.iter().filter(|(n, t)| n.starts_with("quote") && t.contains("NEEDS_TRACE") && !t.contains("constNEEDS_TRACE")).collect();
    let (op, atom) = if steps.len() == 1 {
        let t = &steps[0].1;
        // quote_spanned!(span=> || <#ty as ::gc_arena::Collect>::NEEDS_TRACE)
        let body = t.split("=>").last().unwrap_or("").to_string();
        let op: String = body.chars().take_while(|c| !c.is_alphanumeric() && *c != '<' && *c != '#').collect();
        (op.clone(), body[op.len()..].to_string())
    } else { (unknown("step"), unknown("step")) };
    // the step must run for EVERY binding: no `if` / `match` / `continue` / `break` / `return` / `?` in a loop (or
    // iterator-adaptor closure) around it
    struct StepGuard { guarded: Vec<String> }
    fn has_step(ts: proc_macro2::TokenStream) -> bool {
        let t = strip(&ts.to_string());
        t.contains("NEEDS_TRACE") && !t.contains("constNEEDS_TRACE")
    }
    struct Ctl { found: Vec<String> }
    impl<'ast> Visit<'ast> for Ctl {
        fn visit_expr(&mut self, e: &'ast Expr) {
            match e {
                Expr::If(_) => self.found.push("if".into()),
                Expr::Match(_) => self.found.push("match".into()),
                Expr::Continue(_) => self.found.push("continue".into()),
                Expr::Break(_) => self.found.push("break".into()),
                Expr::Return(_) => self.found.push("return".into()),
                Expr::Try(_) => self.found.push("?".into()),
                _ => {}
            }
            syn::visit::visit_expr(self, e);
        }
    }
    impl<'ast> Visit<'ast> for StepGuard {
        fn visit_expr_for_loop(&mut self, f: &'ast syn::ExprForLoop) {
            if has_step(f.body.to_token_stream()) {
                let mut c = Ctl { found: vec![] };
                c.visit_block(&f.body);
                self.guarded.extend(c.found);
                self.guarded.extend(chain_cuts(&f.expr));
            }
            syn::visit::visit_expr_for_loop(self, f);
        }
        fn visit_expr_while(&mut self, w: &'ast syn::ExprWhile) {
            if has_step(w.body.to_token_stream()) { self.guarded.push("while".into()); }
            syn::visit::visit_expr_while(self, w);
        }
        fn visit_expr_loop(&mut self, l: &'ast syn::ExprLoop) {
            if has_step(l.body.to_token_stream()) { self.guarded.push("loop".into()); }
            syn::visit::visit_expr_loop(self, l);
        }
        fn visit_expr_closure(&mut self, c: &'ast syn::ExprClosure) {
            if has_step(c.body.to_token_stream()) {
                let mut k = Ctl { found: vec![] };
                k.visit_expr(&c.body);
                self.guarded.extend(k.found);
            }
            syn::visit::visit_expr_closure(self, c);
        }
        fn visit_expr_method_call(&mut self, m: &'ast syn::ExprMethodCall) {
            // `CHAIN.for_each(|b| step)`: adaptors in CHAIN that drop or cut elements
            if m.args.iter().any(|a| has_step(a.to_token_stream())) {
                self.guarded.extend(chain_cuts(&m.receiver));
            }
            syn::visit::visit_expr_method_call(self, m);
        }
    }
    fn chain_cuts(e: &Expr) -> Vec<String> {
        const CUTS: &[&str] = &["filter", "filter_map", "take", "skip", "take_while", "skip_while", "step_by", "find", "nth", "last", "next", "rev_take", "map_while", "scan"];
        match e {
            Expr::MethodCall(m) => {
                let mut v = chain_cuts(&m.receiver);
                if CUTS.iter().any(|n| m.method == n) { v.push(format!(".{}()", m.method)); }
                v
            }
            Expr::Paren(p) => chain_cuts(&p.expr),
            Expr::Reference(r) => chain_cuts(&r.expr),
            _ => vec![],
        }
    }
    let mut op = op;
    if let Some(b) = &body {
        let mut sg = StepGuard { guarded: vec![] };
        sg.visit_block(b);
        if !sg.guarded.is_empty() {
            op = format!("Unknown:step-under-control-flow:{}", sg.guarded.join(","));
        }
    }
    def(&mut out, "gen_needs_trace_op", "string", cstr(&op));
    def(&mut out, "gen_needs_trace_atom", "string", cstr(&atom));
    let consts: Vec<String> = all_macros.v.iter().filter(|(_, t)| t.contains("constNEEDS_TRACE:bool=")).map(|(_, t)| {
        let r = t.split("constNEEDS_TRACE:bool=").nth(1).unwrap_or("");
        r.split(';').next().unwrap_or("").to_string()
    }).collect();
    def(&mut out, "gen_needs_trace_inits", "list string", clist(&consts.iter().map(|s| cstr(s)).collect::<Vec<_>>()));
    // trace body
    def(&mut out, "gen_each_closure", "list string", clist(&facts.each_closure_macros.iter().map(|s| cstr(s)).collect::<Vec<_>>()));
    let trace_fns: Vec<String> = all_macros.v.iter().filter(|(_, t)| t.contains("fntrace<")).map(|(_, t)| {
        let r = t.split("fntrace<").nth(1).unwrap_or("");
        let b = r.splitn(2, '{').nth(1).unwrap_or("");
        b.split("}}").next().unwrap_or("").to_string() + "}"
    }).collect();
    def(&mut out, "gen_trace_fn_bodies", "list string", clist(&trace_fns.iter().map(|s| cstr(s)).collect::<Vec<_>>()));
    // guards
    def(&mut out, "gen_mode_ifs", "list (string * list string * list string)", clist(&facts.drop_if.iter().map(|(c, t, e)| {
        format!("({}, {}, {})", cstr(c), clist(&t.iter().map(|s| cstr(s)).collect::<Vec<_>>()), clist(&e.iter().map(|s| cstr(s)).collect::<Vec<_>>()))
    }).collect::<Vec<_>>()));
    def(&mut out, "gen_where_pred_macros", "list string", clist(&facts.where_pred_macros.iter().map(|s| cstr(s)).collect::<Vec<_>>()));
    def(&mut out, "gen_add_bounds_ifs", "list (string * string * string)", clist(&facts.add_bounds_if.iter().map(|(c, t, e)| format!("({}, {}, {})", cstr(c), cstr(t), cstr(e))).collect::<Vec<_>>()));
    let mut calls: Vec<String> = vec![];
    if let Some(b) = &body {
        let t = toks(b);
        for part in t.split("add_bounds(AddBounds::").skip(1) {
            calls.push(part.chars().take_while(|c| c.is_alphanumeric()).collect());
        }
    }
    def(&mut out, "gen_add_bounds_calls", "list string", clist(&calls.iter().map(|s| cstr(s)).collect::<Vec<_>>()));
    let panics: Vec<String> = all_macros.v.iter().filter(|(n, _)| n == "panic").map(|(_, t)| t.clone()).collect();
    def(&mut out, "gen_panic_count", "nat", format!("{}", panics.len()));
    print!("{}", out);
}
