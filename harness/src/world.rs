//! Interpreter of the op language against the real crate, written against the public API only
//! (plus the read-only snapshot hook). Emits one canonical trace line per op.
use std::collections::HashMap;
use std::panic::{self, AssertUnwindSafe};

use gc_arena::arena::{verif_snapshot_types::Snapshot, CollectionPhase};
use gc_arena::barrier::{field, unlock};
use gc_arena::lock::{Lock, OnceLock, RefLock};
use gc_arena::metrics::{Metrics, Pacing};
use gc_arena::{DynamicRootSet, Finalization, Gc, Mutation};

use crate::alloc_track::{self, Ev};
use crate::ops::*;
use crate::types::*;

pub const NREGS: usize = 6;
pub const NROOT: usize = 4;
pub const NARENAS: usize = 3;
pub const NHANDLES: usize = 6;

pub struct HarnessPanic;

/// a panic that was neither scripted (`panic` op) nor an injected trace fault
thread_local! {
    /// message and location of the last unexpected panic (set by the panic hook in main.rs)
    pub static LAST_PANIC: std::cell::RefCell<String> = const { std::cell::RefCell::new(String::new()) };
}
fn last_panic() -> String { LAST_PANIC.with(|p| p.borrow().clone()) }

fn unexpected(e: &Box<dyn std::any::Any + Send>) -> bool {
    !(e.is::<HarnessPanic>() || e.is::<InjectedPanic>())
}

/// Per-arena bookkeeping that lives outside the arena.
pub struct Book {
    pub uid: u32,
    pub next_id: u32,
    pub addr2id: HashMap<usize, u32>,
    pub kinds: Vec<Kind>,
    pub metrics: Option<Metrics>,
}

pub struct HandleRec {
    pub h: AnyHandle,
    pub uid: u32,
    pub set_id: u32,
    pub ptr_id: u32,
}

#[derive(Clone, Copy, PartialEq, Eq, Debug)]
pub enum Lic { Parent(u32), Child(u32), ChildW(u32), Pair(u32, u32), PairW(u32, u32) }

/// What the op source may look at to steer generation (never used as a pass/fail oracle).
pub struct View<'a> {
    pub in_cb: Option<(u8, CbKind, bool)>,
    pub regs: [Option<(u32, Kind)>; NREGS],
    pub wregs: [Option<(u32, Kind)>; NREGS],
    /// colour (0 White, 1 WhiteWeak, 2 Gray, 3 Black) and needs_trace of the registers' targets
    pub reg_col: [Option<(u8, bool)>; NREGS],
    pub wreg_col: [Option<(u8, bool)>; NREGS],
    /// phase of the current callback's arena (0 Sleep 1 Mark 2 Sweep)
    pub cb_phase: u8,
    pub arenas: [bool; NARENAS],
    pub handles: [Option<(u32, u32)>; NHANDLES], // (uid, set id)
    pub uids: [u32; NARENAS],
    pub snaps: &'a [Option<Snapshot>],
    pub books: &'a [Option<Book>],
    pub steps: usize,
}

pub trait OpSource {
    fn next(&mut self, v: &View) -> Option<Op>;
}

pub struct ScriptSource { pub ops: Vec<Op>, pub pos: usize }
impl OpSource for ScriptSource {
    fn next(&mut self, _v: &View) -> Option<Op> {
        let o = self.ops.get(self.pos).copied();
        self.pos += 1;
        o
    }
}

pub struct World {
    pub arenas: Vec<Option<TheArena>>,
    pub books: Vec<Option<Book>>,
    pub handles: Vec<Option<HandleRec>>,
    pub next_uid: u32,
    /// live Gc blocks: block base -> (uid, id, size, align)
    pub blocks: HashMap<usize, (u32, u32, usize, usize)>,
    pub lines: Vec<String>,
    pub stream: bool,
    /// allocator-level faults observed (double free, layout mismatch, ...): property oracle hits
    pub alarms: Vec<String>,
    pub steps: usize,
    /// events already drained (in order) but not yet printed
    pub pending: Vec<String>,
}

enum Term { End, EndErr }

struct Cb<'a, 'gc> {
    a: u8,
    kind: CbKind,
    mc: &'gc Mutation<'gc>,
    fc: Option<&'gc Finalization<'gc>>,
    root: Option<&'a Root<'gc>>,
    root_mut: Option<&'a mut Root<'gc>>,
    regs: [Option<Any<'gc>>; NREGS],
    wregs: [Option<AnyWeak<'gc>>; NREGS],
    lics: Vec<Lic>,
}

fn scaled(v: f64) -> String {
    let s = v * 4096.0;
    if s.is_finite() && s == s.trunc() && s.abs() < 4.0e18 {
        format!("{}", s as i128)
    } else {
        format!("f{:016x}", v.to_bits())
    }
}

fn pacing_of(p: &PacingSpec) -> Pacing {
    Pacing {
        sleep_factor: p.sleep.f64(),
        min_sleep: p.min_sleep as usize,
        mark_factor: p.mark.f64(),
        trace_factor: p.trace.f64(),
        keep_factor: p.keep.f64(),
        drop_factor: p.drop.f64(),
        free_factor: p.free.f64(),
    }
}

impl World {
    pub fn new() -> World {
        World {
            arenas: (0..NARENAS).map(|_| None).collect(),
            books: (0..NARENAS).map(|_| None).collect(),
            handles: (0..NHANDLES).map(|_| None).collect(),
            next_uid: 0,
            blocks: HashMap::new(),
            lines: Vec::new(),
            stream: false,
            alarms: Vec::new(),
            steps: 0,
            pending: Vec::new(),
        }
    }

    // ------------------------------------------------------------------------------------
    // rendering
    // ------------------------------------------------------------------------------------
    fn id_of(book: &Book, addr: usize) -> String {
        match book.addr2id.get(&addr) {
            Some(i) => i.to_string(),
            None => format!("?{addr:x}"),
        }
    }

    fn render_snap(book: &Book, s: &Snapshot, debt: f64, api_phase: Option<CollectionPhase>) -> String {
        let col = |c: u8| match c { 0 => 'W', 1 => 'w', 2 => 'G', _ => 'B' };
        let all: Vec<String> = s.all.iter().map(|o| {
            format!("{}:{}{}{}", Self::id_of(book, o.addr), col(o.color), o.needs_trace as u8, o.live as u8)
        }).collect();
        let ids = |v: &Vec<usize>| v.iter().map(|a| Self::id_of(book, *a)).collect::<Vec<_>>().join(",");
        let opt = |o: Option<usize>| match o { Some(a) => Self::id_of(book, a), None => "-".into() };
        let cp = match s.phase {
            0 => 0,
            1 => if !s.gray.is_empty() || !s.gray_again.is_empty() || s.root_needs_trace { 1 } else { 2 },
            2 => 3,
            _ => 9,
        };
        let api_cp = api_phase.map(|p| match p {
            CollectionPhase::Sleeping => 0, CollectionPhase::Marking => 1,
            CollectionPhase::Marked => 2, CollectionPhase::Sweeping => 3 });
        let cp_s = match api_cp { Some(x) if x != cp => format!("{cp}!api{x}"), _ => cp.to_string() };
        let m = &s.metrics;
        format!(
            "p={} all={} sw={} sp={} g={} ga={} rnt={} cp={} m={},{},{},{},{},{},{} dp={} q={},{},{}",
            s.phase, all.join(","), opt(s.sweep), opt(s.sweep_prev), ids(&s.gray), ids(&s.gray_again),
            s.root_needs_trace as u8, cp_s,
            m.total_gcs, m.allocated_gcs, m.dropped_gcs, m.freed_gcs, m.marked_gcs, m.traced_gcs, m.remembered_gcs,
            (debt > 0.0) as u8, scaled(m.wakeup_amount), scaled(m.artificial_debt), scaled(debt)
        )
    }

    /// `cur`: (arena index, snapshot taken through the callback's Mutation)
    fn render_arenas(&self, cur: Option<(u8, &Snapshot)>) -> (String, Vec<Option<Snapshot>>) {
        let mut parts = Vec::new();
        let mut snaps = Vec::new();
        for i in 0..NARENAS {
            let book = self.books[i].as_ref();
            let (snap, api): (Option<Snapshot>, Option<CollectionPhase>) = match cur {
                Some((a, s)) if a as usize == i => (Some(s.clone()), None),
                _ => match &self.arenas[i] {
                    Some(ar) => (Some(ar.verif_snapshot()), Some(ar.collection_phase())),
                    None => (None, None),
                },
            };
            match (&snap, book) {
                (Some(s), Some(b)) => {
                    let debt = b.metrics.as_ref().map(|m| m.allocation_debt()).unwrap_or(0.0);
                    // truthfulness of the public counter vs. the hook (C10 uses the public one)
                    parts.push(format!("A{}{{{}}}", i, Self::render_snap(b, s, debt, api)));
                }
                _ => parts.push(format!("A{}-", i)),
            }
            snaps.push(snap);
        }
        (parts.join(" "), snaps)
    }

    fn drain_events(&mut self) -> String {
        self.drain_pending();
        let v = std::mem::take(&mut self.pending);
        v.join(" ")
    }

    /// Process everything recorded so far, in order, into `pending`.
    fn drain_pending(&mut self) {
        let (evs, overflow) = alloc_track::drain();
        if overflow {
            self.alarms.push("event ring overflow".into());
        }
        let mut out = Vec::new();
        for e in evs {
            match e {
                Ev::Drop { uid: _, id } => out.push(format!("D{id}")),
                Ev::Dealloc { ptr, size, align } => {
                    if let Some((_uid, id, s, a)) = self.blocks.remove(&ptr) {
                        if s != size || a != align {
                            self.alarms.push(format!("Gc block of object {id} released with layout ({size},{align}) but was requested with ({s},{a})"));
                        }
                        out.push(format!("F{id}"));
                    }
                }
                Ev::BadDealloc { ptr, size, align } => {
                    self.alarms.push(format!("dealloc of a pointer that is not a live block (double free?): {ptr:x} size {size} align {align}"));
                    if let Some((_uid, id, _, _)) = self.blocks.get(&ptr) {
                        out.push(format!("F{id}!double"));
                    }
                }
                Ev::LayoutMismatch { ptr, size, align, asize, aalign } => {
                    self.alarms.push(format!("dealloc layout mismatch at {ptr:x}: released ({size},{align}), requested ({asize},{aalign})"));
                    if let Some((_uid, id, _, _)) = self.blocks.remove(&ptr) {
                        out.push(format!("F{id}!layout"));
                    }
                }
                Ev::Alloc { .. } => {}
            }
        }
        self.pending.extend(out);
    }

    /// streamed runs name every operation BEFORE executing it, so that an operation that kills the process
    /// (memory corruption in the crate under test) is known to the parent
    fn announce(&self, op: &Op) {
        if self.stream {
            use std::io::Write;
            let so = std::io::stdout();
            let mut l = so.lock();
            let _ = writeln!(l, "#next {}", op.text());
            let _ = l.flush();
        }
    }

    fn emit(&mut self, op: Op, out: &[i64], cur: Option<(u8, &Snapshot)>) -> Vec<Option<Snapshot>> {
        let ev = self.drain_events();
        let (ar, snaps) = self.render_arenas(cur);
        let outs = out.iter().map(|x| x.to_string()).collect::<Vec<_>>().join(" ");
        let line = format!("{} | {} | {} | {} | ", op.text(), outs, ev, ar);
        if self.stream {
            // streamed and flushed line by line: if the crate under test corrupts memory and the process dies,
            // everything up to the fatal operation is still available to the oracles
            use std::io::Write;
            let so = std::io::stdout();
            let mut l = so.lock();
            let _ = writeln!(l, "{line}");
            let _ = l.flush();
        }
        self.lines.push(line);
        self.steps += 1;
        snaps
    }

    fn view<'a>(&'a self, in_cb: Option<(u8, CbKind, bool)>, regs: [Option<(u32, Kind)>; NREGS],
                wregs: [Option<(u32, Kind)>; NREGS], snaps: &'a [Option<Snapshot>]) -> View<'a> {
        let mut arenas = [false; NARENAS];
        let mut uids = [0u32; NARENAS];
        for i in 0..NARENAS {
            arenas[i] = self.books[i].is_some();
            uids[i] = self.books[i].as_ref().map(|b| b.uid).unwrap_or(u32::MAX);
        }
        let mut handles = [None; NHANDLES];
        for i in 0..NHANDLES {
            handles[i] = self.handles[i].as_ref().map(|h| (h.uid, h.set_id));
        }
        let mut reg_col = [None; NREGS];
        let mut wreg_col = [None; NREGS];
        let mut cb_phase = 0u8;
        if let Some((a, _, _)) = in_cb {
            let ai = a as usize;
            if let (Some(Some(snap)), Some(book)) = (snaps.get(ai), self.books[ai].as_ref()) {
                cb_phase = snap.phase;
                let mut by_id: HashMap<u32, (u8, bool)> = HashMap::new();
                for o in &snap.all {
                    if let Some(id) = book.addr2id.get(&o.addr) { by_id.insert(*id, (o.color, o.needs_trace)); }
                }
                for i in 0..NREGS {
                    reg_col[i] = regs[i].and_then(|(id, _)| by_id.get(&id).copied());
                    wreg_col[i] = wregs[i].and_then(|(id, _)| by_id.get(&id).copied());
                }
            }
        }
        View { in_cb, regs, wregs, reg_col, wreg_col, cb_phase, arenas, handles, uids, snaps, books: &self.books, steps: self.steps }
    }

    // ------------------------------------------------------------------------------------
    // top level
    // ------------------------------------------------------------------------------------
    pub fn run(&mut self, src: &mut dyn OpSource) {
        let mut snaps: Vec<Option<Snapshot>> = self.render_arenas(None).1;
        loop {
            let op = {
                let v = self.view(None, [None; NREGS], [None; NREGS], &snaps);
                match src.next(&v) { Some(o) => { self.announce(&o); o }, None => break }
            };
            alloc_track::set_recording(true);
            snaps = self.exec_top(op, src);
            alloc_track::set_recording(false);
        }
        // tidy up: drop whatever is left, silently
        alloc_track::set_recording(false);
        for h in self.handles.iter_mut() { *h = None; }
        for a in self.arenas.iter_mut() { *a = None; }
        let _ = alloc_track::drain();
    }

    fn skip(&mut self, op: Op) -> Vec<Option<Snapshot>> {
        self.emit(op, &[-2], None)
    }

    fn exec_top(&mut self, op: Op, src: &mut dyn OpSource) -> Vec<Option<Snapshot>> {
        match op {
            Op::Begin(a, k) => self.callback(op, a, k, src),
            Op::M(_) | Op::End | Op::EndErr | Op::Panic => self.skip(op),
            Op::Collect(a, how, fault) => {
                let ai = a as usize;
                if ai >= NARENAS || self.arenas[ai].is_none() { return self.skip(op); }
                let mut arena = self.arenas[ai].take().unwrap();
                FAULT.with(|f| f.set(fault));
                let r = panic::catch_unwind(AssertUnwindSafe(|| match how {
                    How::CollectDebt => { arena.collect_debt(); None }
                    How::MarkDebt => Some(arena.mark_debt().is_some()),
                    How::FinishMarking => Some(arena.finish_marking().is_some()),
                    How::CycleDebt => { arena.cycle_debt(); None }
                    How::FinishCycle => { arena.finish_cycle(); None }
                }));
                FAULT.with(|f| f.set(None));
                let marked_phase = arena.collection_phase() == CollectionPhase::Marked;
                let (code, marked) = match r {
                    Ok(Some(m)) => (0, m),
                    Ok(None) => (0, marked_phase),
                    Err(e) => { if unexpected(&e) { self.alarms.push(format!("unexpected panic inside a collection call: {}", last_panic())); } (1, marked_phase) }
                };
                self.arenas[ai] = Some(arena);
                self.emit(op, &[code, marked as i64], None)
            }
            Op::StartSweep(a, fin) => {
                let ai = a as usize;
                if ai >= NARENAS || self.arenas[ai].is_none() { return self.skip(op); }
                let mut arena = self.arenas[ai].take().unwrap();
                let entered = {
                    let m = if fin { arena.finish_marking() } else { arena.mark_debt() };
                    match m { Some(m) => { m.start_sweeping(); true } None => false }
                };
                let sw = entered && arena.collection_phase() == CollectionPhase::Sweeping;
                self.arenas[ai] = Some(arena);
                self.emit(op, &[entered as i64, sw as i64], None)
            }
            Op::DropArena(a) => {
                let ai = a as usize;
                if ai >= NARENAS || self.arenas[ai].is_none() { return self.skip(op); }
                let arena = self.arenas[ai].take().unwrap();
                drop(arena);
                let book = self.books[ai].take().unwrap();
                let tot = book.metrics.as_ref().map(|m| m.total_gc_count()).unwrap_or(0);
                self.emit(op, &[tot as i64], None)
            }
            Op::Adjust(a, q) => {
                let ai = a as usize;
                match self.books.get(ai).and_then(|b| b.as_ref()).and_then(|b| b.metrics.clone()) {
                    Some(m) if self.arenas[ai].is_some() => { m.adjust_debt(q.f64()); self.emit(op, &[0], None) }
                    _ => self.skip(op),
                }
            }
            Op::Pacing(a, p) => {
                let ai = a as usize;
                match self.books.get(ai).and_then(|b| b.as_ref()).and_then(|b| b.metrics.clone()) {
                    Some(m) if self.arenas[ai].is_some() => { m.set_pacing(pacing_of(&p)); self.emit(op, &[0], None) }
                    _ => self.skip(op),
                }
            }
            Op::CloneH(h2, h) => {
                let (h2i, hi) = (h2 as usize, h as usize);
                if h2i >= NHANDLES || hi >= NHANDLES || self.handles[h2i].is_some() || self.handles[hi].is_none() {
                    return self.skip(op);
                }
                let src_h = self.handles[hi].as_ref().unwrap();
                match panic::catch_unwind(AssertUnwindSafe(|| src_h.h.clone())) {
                    Ok(hc) => {
                        let c = HandleRec { h: hc, uid: src_h.uid, set_id: src_h.set_id, ptr_id: src_h.ptr_id };
                        self.handles[h2i] = Some(c);
                        self.emit(op, &[1], None)
                    }
                    Err(_) => {
                        self.alarms.push(format!("DynamicRootSet: cloning a live handle panicked: {}", last_panic()));
                        self.emit(op, &[9], None)
                    }
                }
            }
            Op::DropH(h) => {
                let hi = h as usize;
                if hi >= NHANDLES || self.handles[hi].is_none() { return self.skip(op); }
                let rec = self.handles[hi].take();
                if panic::catch_unwind(AssertUnwindSafe(move || drop(rec))).is_err() {
                    self.alarms.push(format!("DynamicRootSet: dropping a live handle panicked: {}", last_panic()));
                    return self.emit(op, &[9], None);
                }
                self.emit(op, &[1], None)
            }
        }
    }

    // ------------------------------------------------------------------------------------
    // callbacks
    // ------------------------------------------------------------------------------------
    fn callback(&mut self, op: Op, a: u8, k: CbKind, src: &mut dyn OpSource) -> Vec<Option<Snapshot>> {
        let ai = a as usize;
        if ai >= NARENAS { return self.skip(op); }
        match k {
            CbKind::New | CbKind::TryNew => {
                if self.books[ai].is_some() { return self.skip(op); }
                let uid = self.next_uid;
                self.next_uid += 1;
                self.books[ai] = Some(Book { uid, next_id: 0, addr2id: HashMap::new(), kinds: Vec::new(), metrics: None });
                let r = panic::catch_unwind(AssertUnwindSafe(|| {
                    if k == CbKind::New {
                        Ok(TheArena::new(|mc| {
                            let (_t, regs, wregs) = self.cb_loop(op, a, k, mc, None, None, None, true, None, src);
                            root_from(regs, wregs)
                        }))
                    } else {
                        TheArena::try_new(|mc| {
                            let (t, regs, wregs) = self.cb_loop(op, a, k, mc, None, None, None, true, None, src);
                            match t { Term::End => Ok(root_from(regs, wregs)), Term::EndErr => Err(()) }
                        })
                    }
                }));
                match r {
                    Ok(Ok(arena)) => {
                        self.arenas[ai] = Some(arena);
                        self.emit(Op::End, &[0], None)
                    }
                    Ok(Err(())) => {
                        let book = self.books[ai].take().unwrap();
                        let tot = book.metrics.as_ref().map(|m| m.total_gc_count()).unwrap_or(0);
                        self.emit(Op::EndErr, &[tot as i64], None)
                    }
                    Err(e) => {
                        if unexpected(&e) { self.alarms.push(format!("unexpected panic inside a constructor / map_root callback: {}", last_panic())); }
                        let book = self.books[ai].take().unwrap();
                        let tot = book.metrics.as_ref().map(|m| m.total_gc_count()).unwrap_or(0);
                        self.emit(Op::Panic, &[tot as i64], None)
                    }
                }
            }
            CbKind::Mutate => {
                if self.arenas[ai].is_none() { return self.skip(op); }
                let arena = self.arenas[ai].take().unwrap();
                let r = panic::catch_unwind(AssertUnwindSafe(|| {
                    arena.mutate(|mc, root| self.cb_loop(op, a, k, mc, None, Some(root), None, true, None, src).0)
                }));
                self.arenas[ai] = Some(arena);
                self.finish_plain(r)
            }
            CbKind::MutRoot => {
                if self.arenas[ai].is_none() { return self.skip(op); }
                let mut arena = self.arenas[ai].take().unwrap();
                let r = panic::catch_unwind(AssertUnwindSafe(|| {
                    arena.mutate_root(|mc, root| self.cb_loop(op, a, k, mc, None, None, Some(root), true, None, src).0)
                }));
                self.arenas[ai] = Some(arena);
                self.finish_plain(r)
            }
            CbKind::MapRoot | CbKind::TryMapRoot => {
                if self.arenas[ai].is_none() { return self.skip(op); }
                let arena = self.arenas[ai].take().unwrap();
                let r = panic::catch_unwind(AssertUnwindSafe(|| {
                    if k == CbKind::MapRoot {
                        Ok(arena.map_root::<gc_arena::Rootable![Root<'_>]>(|mc, root| {
                            let (_t, regs, wregs) = self.cb_loop(op, a, k, mc, None, None, None, true, Some(root), src);
                            root_from(regs, wregs)
                        }))
                    } else {
                        arena.try_map_root::<gc_arena::Rootable![Root<'_>], ()>(|mc, root| {
                            let (t, regs, wregs) = self.cb_loop(op, a, k, mc, None, None, None, true, Some(root), src);
                            match t { Term::End => Ok(root_from(regs, wregs)), Term::EndErr => Err(()) }
                        })
                    }
                }));
                match r {
                    Ok(Ok(arena)) => {
                        self.arenas[ai] = Some(arena);
                        self.emit(Op::End, &[0], None)
                    }
                    Ok(Err(())) => {
                        let book = self.books[ai].take().unwrap();
                        let tot = book.metrics.as_ref().map(|m| m.total_gc_count()).unwrap_or(0);
                        self.emit(Op::EndErr, &[tot as i64], None)
                    }
                    Err(e) => {
                        if unexpected(&e) { self.alarms.push(format!("unexpected panic inside a constructor / map_root callback: {}", last_panic())); }
                        let book = self.books[ai].take().unwrap();
                        let tot = book.metrics.as_ref().map(|m| m.total_gc_count()).unwrap_or(0);
                        self.emit(Op::Panic, &[tot as i64], None)
                    }
                }
            }
            CbKind::Finalize(fin) => {
                if self.arenas[ai].is_none() { return self.skip(op); }
                let mut arena = self.arenas[ai].take().unwrap();
                let mut entered = false;
                let r = panic::catch_unwind(AssertUnwindSafe(|| {
                    let m = if fin { arena.finish_marking() } else { arena.mark_debt() };
                    match m {
                        Some(m) => {
                            entered = true;
                            Some(m.finalize(|fc, root| self.cb_loop(op, a, k, fc, Some(fc), Some(root), None, true, None, src).0))
                        }
                        None => None,
                    }
                }));
                self.arenas[ai] = Some(arena);
                if !entered {
                    // the callback is never entered: its ops are skipped
                    self.emit(op, &[0, 0], None);
                    let mut snaps = self.render_arenas(None).1;
                    loop {
                        let o = {
                            let v = self.view(Some((a, k, false)), [None; NREGS], [None; NREGS], &snaps);
                            let o = src.next(&v);
                            if let Some(o) = &o { self.announce(o); }
                            o
                        };
                        match o {
                            None | Some(Op::End) | Some(Op::EndErr) | Some(Op::Panic) => {
                                return self.emit(o.unwrap_or(Op::End), &[0], None);
                            }
                            Some(x) => { snaps = self.skip(x); }
                        }
                    }
                }
                match r {
                    Ok(Some(Term::EndErr)) => self.emit(Op::EndErr, &[0], None),
                    Ok(_) => self.emit(Op::End, &[0], None),
                    Err(e) => { if unexpected(&e) { self.alarms.push(format!("unexpected panic inside a finalize callback: {}", last_panic())); } self.emit(Op::Panic, &[0], None) }
                }
            }
        }
    }

    fn finish_plain(&mut self, r: Result<Term, Box<dyn std::any::Any + Send>>) -> Vec<Option<Snapshot>> {
        match r {
            Ok(Term::End) => self.emit(Op::End, &[0], None),
            Ok(Term::EndErr) => self.emit(Op::EndErr, &[0], None),
            Err(e) => { if unexpected(&e) { self.alarms.push(format!("unexpected panic inside a mutate callback (barrier / setter / allocation): {}", last_panic())); } self.emit(Op::Panic, &[0], None) }
        }
    }

    #[allow(clippy::too_many_arguments)]
    fn cb_loop<'a, 'gc>(
        &mut self, begin: Op, a: u8, kind: CbKind, mc: &'gc Mutation<'gc>, fc: Option<&'gc Finalization<'gc>>,
        root: Option<&'a Root<'gc>>, root_mut: Option<&'a mut Root<'gc>>, _entered: bool,
        moved_root: Option<Root<'gc>>, src: &mut dyn OpSource,
    ) -> (Term, [Option<Any<'gc>>; NREGS], [Option<AnyWeak<'gc>>; NREGS]) {
        let ai = a as usize;
        if self.books[ai].as_ref().unwrap().metrics.is_none() {
            self.books[ai].as_mut().unwrap().metrics = Some(mc.metrics().clone());
        }
        let mut cb = Cb { a, kind, mc, fc, root, root_mut, regs: [None; NREGS], wregs: [None; NREGS], lics: Vec::new() };
        if let Some(r) = moved_root {
            for i in 0..NROOT.min(NREGS) {
                cb.regs[i] = r.strong.get(i).copied().flatten();
                cb.wregs[i] = r.weak.get(i).copied().flatten();
            }
            drop(r);
        }
        let begin_out: Vec<i64> = match kind { CbKind::Finalize(_) => vec![1, 0], _ => vec![1] };
        let mut snaps = { let s = mc.verif_snapshot(); self.emit(begin, &begin_out, Some((a, &s))) };
        loop {
            let op = {
                let (r, w) = self.reg_view(ai, &cb);
                let v = self.view(Some((a, kind, true)), r, w, &snaps);
                let o = src.next(&v);
                if let Some(o) = &o { self.announce(o); }
                o
            };
            match op {
                None | Some(Op::End) => return (Term::End, cb.regs, cb.wregs),
                Some(Op::EndErr) => return (Term::EndErr, cb.regs, cb.wregs),
                Some(Op::Panic) => panic::panic_any(HarnessPanic),
                Some(Op::M(m)) => {
                    let out = self.micro(&mut cb, m);
                    let s = mc.verif_snapshot();
                    snaps = self.emit(Op::M(m), &out, Some((a, &s)));
                }
                Some(o @ Op::Adjust(a2, q)) => {
                    if a2 == a { mc.metrics().adjust_debt(q.f64()); let s = mc.verif_snapshot(); snaps = self.emit(o, &[0], Some((a, &s))); }
                    else { let s = mc.verif_snapshot(); snaps = self.emit(o, &[-2], Some((a, &s))); }
                }
                Some(o @ Op::Pacing(a2, p)) => {
                    if a2 == a { mc.metrics().set_pacing(pacing_of(&p)); let s = mc.verif_snapshot(); snaps = self.emit(o, &[0], Some((a, &s))); }
                    else { let s = mc.verif_snapshot(); snaps = self.emit(o, &[-2], Some((a, &s))); }
                }
                Some(o @ Op::CloneH(h2, h)) => {
                    let (h2i, hi) = (h2 as usize, h as usize);
                    let ok = h2i < NHANDLES && hi < NHANDLES && self.handles[h2i].is_none() && self.handles[hi].is_some();
                    let mut code = if ok { 1 } else { -2 };
                    if ok {
                        let sh = self.handles[hi].as_ref().unwrap();
                        match panic::catch_unwind(AssertUnwindSafe(|| sh.h.clone())) {
                            Ok(hc) => { let c = HandleRec { h: hc, uid: sh.uid, set_id: sh.set_id, ptr_id: sh.ptr_id }; self.handles[h2i] = Some(c); }
                            Err(_) => { self.alarms.push(format!("DynamicRootSet: cloning a live handle panicked: {}", last_panic())); code = 9; }
                        }
                    }
                    let s = mc.verif_snapshot();
                    snaps = self.emit(o, &[code], Some((a, &s)));
                }
                Some(o @ Op::DropH(h)) => {
                    let hi = h as usize;
                    let ok = hi < NHANDLES && self.handles[hi].is_some();
                    let mut code = if ok { 1 } else { -2 };
                    if ok {
                        let rec = self.handles[hi].take();
                        if panic::catch_unwind(AssertUnwindSafe(move || drop(rec))).is_err() {
                            self.alarms.push(format!("DynamicRootSet: dropping a live handle panicked: {}", last_panic()));
                            code = 9;
                        }
                    }
                    let s = mc.verif_snapshot();
                    snaps = self.emit(o, &[code], Some((a, &s)));
                }
                Some(o) => {
                    // API ops are not available inside a callback
                    let s = mc.verif_snapshot();
                    snaps = self.emit(o, &[-2], Some((a, &s)));
                }
            }
        }
    }

    fn reg_view<'a, 'gc>(&self, ai: usize, cb: &Cb<'a, 'gc>) -> ([Option<(u32, Kind)>; NREGS], [Option<(u32, Kind)>; NREGS]) {
        let book = self.books[ai].as_ref().unwrap();
        let mut r = [None; NREGS];
        let mut w = [None; NREGS];
        for i in 0..NREGS {
            r[i] = cb.regs[i].as_ref().and_then(|x| book.addr2id.get(&x.addr()).map(|id| (*id, book.kinds[*id as usize])));
            w[i] = cb.wregs[i].as_ref().and_then(|x| book.addr2id.get(&x.addr()).map(|id| (*id, book.kinds[*id as usize])));
        }
        (r, w)
    }

    fn idr<'gc>(&self, ai: usize, x: &Option<Any<'gc>>) -> i64 {
        match x {
            Some(p) => self.books[ai].as_ref().unwrap().addr2id.get(&p.addr()).map(|i| *i as i64).unwrap_or(-7),
            None => -1,
        }
    }
    fn idw<'gc>(&self, ai: usize, x: &Option<AnyWeak<'gc>>) -> i64 {
        match x {
            Some(p) => self.books[ai].as_ref().unwrap().addr2id.get(&p.addr()).map(|i| *i as i64).unwrap_or(-7),
            None => -1,
        }
    }
    fn uid_of<'gc>(&self, ai: usize, p: &Any<'gc>) -> u32 {
        *self.books[ai].as_ref().unwrap().addr2id.get(&p.addr()).expect("pointer to unknown object")
    }
    fn uid_of_w<'gc>(&self, ai: usize, p: &AnyWeak<'gc>) -> u32 {
        *self.books[ai].as_ref().unwrap().addr2id.get(&p.addr()).expect("weak pointer to unknown object")
    }

    fn register_alloc<'gc>(&mut self, ai: usize, mc: &'gc Mutation<'gc>, kind: Kind, mark: usize, p: &Any<'gc>) -> u32 {
        let book = self.books[ai].as_mut().unwrap();
        let id = book.next_id;
        book.next_id += 1;
        let snap = mc.verif_snapshot();
        let head = snap.all.first().map(|o| o.addr).unwrap_or(0);
        let addr = p.addr();
        if head != addr {
            self.alarms.push(format!("new object {id}: value address {addr:x} is not the head of the all-list ({head:x})"));
        }
        book.addr2id.insert(addr, id);
        book.kinds.push(kind);
        // the Gc block: the last allocation made by the call whose extent contains the value
        let evs = alloc_track::since(mark);
        let mut found = None;
        for e in evs.iter().rev() {
            if let Ev::Alloc { ptr, size, align } = *e {
                if ptr <= addr && addr <= ptr + size {
                    found = Some((ptr, size, align));
                    break;
                }
            }
        }
        let uid = book.uid;
        // attribute everything that happened before this block existed first (addresses get reused)
        self.drain_pending();
        match found {
            Some((ptr, size, align)) => { self.blocks.insert(ptr, (uid, id, size, align)); }
            None => self.alarms.push(format!("no allocator block found for new object {id}")),
        }
        id
    }

    fn has_lic(cb: &Cb, ls: &[Lic]) -> bool {
        ls.iter().any(|l| cb.lics.contains(l))
    }

    fn micro<'a, 'gc>(&mut self, cb: &mut Cb<'a, 'gc>, m: MOp) -> Vec<i64> {
        const SKIP: i64 = -2;
        let ai = cb.a as usize;
        let mc = cb.mc;
        let rg = |cb: &Cb<'a, 'gc>, r: u8| -> Option<Any<'gc>> { cb.regs.get(r as usize).copied().flatten() };
        let wrg = |cb: &Cb<'a, 'gc>, r: u8| -> Option<AnyWeak<'gc>> { cb.wregs.get(r as usize).copied().flatten() };
        // registers usable where an erased Gc is needed
        let rge = |cb: &Cb<'a, 'gc>, r: u8| -> Option<(Any<'gc>, Gc<'gc, ()>)> {
            rg(cb, r).and_then(|p| p.erase().map(|e| (p, e)))
        };
        let setr = |cb: &mut Cb<'a, 'gc>, r: u8, v: Option<Any<'gc>>| { if (r as usize) < NREGS { cb.regs[r as usize] = v; } };
        let setw = |cb: &mut Cb<'a, 'gc>, r: u8, v: Option<AnyWeak<'gc>>| { if (r as usize) < NREGS { cb.wregs[r as usize] = v; } };
        match m {
            MOp::Alloc(r, kind, ns, nw) => {
                let book = self.books[ai].as_ref().unwrap();
                let (uid, id) = (book.uid, book.next_id);
                let tag = DropTag { uid, id };
                let mk = alloc_track::mark();
                let p = match kind {
                    Kind::Node => Any::Node(Gc::new(mc, RefLock::new(NodeData { tag, strong: vec![None; ns as usize], weak: vec![None; nw as usize] }))),
                    Kind::Leaf => Any::Leaf(Gc::new(mc, LeafData { tag, n: std::cell::Cell::new(0) })),
                    Kind::Set => { std::mem::forget(tag); Any::Set(DynamicRootSet::new(mc)) }
                    Kind::Lock => { std::mem::forget(tag); Any::Lock(Gc::new(mc, Lock::new(None))) }
                    Kind::Once => { std::mem::forget(tag); Any::Once(Gc::new(mc, OnceLock::new())) }
                    Kind::Struct => Any::Struct(Gc::new(mc, StructData {
                        tag, lock: Lock::new(None), once: OnceLock::new(),
                        vec: RefLock::new(vec![None; ns as usize]), weak: RefLock::new(vec![None; nw as usize]) })),
                };
                let got = self.register_alloc(ai, mc, kind, mk, &p);
                setr(cb, r, Some(p));
                vec![got as i64]
            }
            MOp::AllocW(r, kind, cs, ws) => {
                // Gc::new of a value that already holds pointers (no barrier involved)
                let sv: Vec<Option<Any<'gc>>> = cs.iter().map(|c| c.and_then(|x| rg(cb, x))).collect();
                let wv: Vec<Option<AnyWeak<'gc>>> = ws.iter().map(|c| c.and_then(|x| wrg(cb, x))).collect();
                if !matches!(kind, Kind::Node | Kind::Lock | Kind::Struct) { return vec![SKIP]; }
                let book = self.books[ai].as_ref().unwrap();
                let (uid, id) = (book.uid, book.next_id);
                let tag = DropTag { uid, id };
                let mk = alloc_track::mark();
                let p = match kind {
                    Kind::Node => Any::Node(Gc::new(mc, RefLock::new(NodeData { tag, strong: sv, weak: wv }))),
                    Kind::Lock => { std::mem::forget(tag); Any::Lock(Gc::new(mc, Lock::new(sv[0]))) }
                    _ => Any::Struct(Gc::new(mc, StructData {
                        tag, lock: Lock::new(sv[0]), once: OnceLock::new(),
                        vec: RefLock::new(sv[2..].to_vec()), weak: RefLock::new(wv) })),
                };
                let got = self.register_alloc(ai, mc, kind, mk, &p);
                setr(cb, r, Some(p));
                vec![got as i64]
            }
            MOp::LoadRoot(r, i) => {
                let v = match (&cb.root, &cb.root_mut) {
                    (Some(rt), _) => rt.strong.get(i as usize).copied().flatten(),
                    (_, Some(rt)) => rt.strong.get(i as usize).copied().flatten(),
                    _ => None,
                };
                setr(cb, r, v);
                vec![self.idr(ai, &v)]
            }
            MOp::LoadRootW(w, i) => {
                let v = match (&cb.root, &cb.root_mut) {
                    (Some(rt), _) => rt.weak.get(i as usize).copied().flatten(),
                    (_, Some(rt)) => rt.weak.get(i as usize).copied().flatten(),
                    _ => None,
                };
                setw(cb, w, v);
                vec![self.idw(ai, &v)]
            }
            MOp::Load(r, p, i) => {
                let i = i as usize;
                let v = match rg(cb, p) {
                    None | Some(Any::Set(_)) => return vec![SKIP],
                    Some(Any::Node(g)) => g.borrow().strong.get(i).copied().flatten(),
                    Some(Any::Leaf(g)) => { let _ = g.n.get(); None }
                    Some(Any::Lock(g)) => if i == 0 { g.get() } else { None },
                    Some(Any::Once(g)) => if i == 0 { g.get().copied() } else { None },
                    Some(Any::Struct(g)) => match i {
                        0 => g.lock.get(),
                        1 => g.once.get().copied(),
                        _ => g.vec.borrow().get(i - 2).copied().flatten(),
                    },
                };
                setr(cb, r, v);
                vec![self.idr(ai, &v)]
            }
            MOp::LoadW(w, p, i) => {
                let i = i as usize;
                let v = match rg(cb, p) {
                    None => return vec![SKIP],
                    Some(Any::Node(g)) => g.borrow().weak.get(i).copied().flatten(),
                    Some(Any::Struct(g)) => g.weak.borrow().get(i).copied().flatten(),
                    Some(Any::Leaf(g)) => { let _ = g.n.get(); None }
                    Some(_) => None,
                };
                setw(cb, w, v);
                vec![self.idw(ai, &v)]
            }
            MOp::Store(p, i, c) => {
                let i = i as usize;
                let v = c.and_then(|r| rg(cb, r));
                let Some(pp) = rg(cb, p) else { return vec![SKIP] };
                let pid = self.uid_of(ai, &pp);
                match pp {
                    Any::Set(_) => vec![SKIP],
                    Any::Leaf(g) => { let _ = Gc::write(mc, g); g.n.set(g.n.get().wrapping_add(1)); cb.lics.push(Lic::Parent(pid)); vec![0] }
                    Any::Node(g) => {
                        let mut b = g.borrow_mut(mc);
                        if i < b.strong.len() { b.strong[i] = v; }
                        cb.lics.push(Lic::Parent(pid));
                        vec![0]
                    }
                    Any::Lock(g) => {
                        if i == 0 { g.set(mc, v); } else { let _ = g.unlock(mc); }
                        cb.lics.push(Lic::Parent(pid));
                        vec![0]
                    }
                    Any::Struct(g) => {
                        let w = Gc::write(mc, g);
                        cb.lics.push(Lic::Parent(pid));
                        match i {
                            0 => { unlock!(w, StructData, lock).set(v); vec![0] }
                            1 => match v {
                                None => vec![0],
                                Some(x) => vec![field!(w, StructData, once).unlock().set(x).is_ok() as i64],
                            },
                            _ => {
                                let mut b = unlock!(w, StructData, vec).borrow_mut();
                                if i - 2 < b.len() { b[i - 2] = v; }
                                vec![0]
                            }
                        }
                    }
                    Any::Once(g) => match v {
                        None => vec![SKIP],
                        Some(x) => {
                            let ok = g.set(mc, x).is_ok();
                            if ok { cb.lics.push(Lic::Parent(pid)); }
                            vec![ok as i64]
                        }
                    },
                }
            }
            MOp::StoreW(p, i, w) => {
                let i = i as usize;
                let v = w.and_then(|r| wrg(cb, r));
                let Some(pp) = rg(cb, p) else { return vec![SKIP] };
                let pid = self.uid_of(ai, &pp);
                match pp {
                    Any::Node(g) => {
                        let mut b = g.borrow_mut(mc);
                        if i < b.weak.len() { b.weak[i] = v; }
                        cb.lics.push(Lic::Parent(pid));
                        vec![0]
                    }
                    Any::Struct(g) => {
                        let wr = Gc::write(mc, g);
                        cb.lics.push(Lic::Parent(pid));
                        let mut b = unlock!(wr, StructData, weak).borrow_mut();
                        if i < b.len() { b[i] = v; }
                        vec![0]
                    }
                    _ => vec![SKIP],
                }
            }
            MOp::OnceInit(p, c) => {
                let (Some(pp), Some(x)) = (rg(cb, p), rg(cb, c)) else { return vec![SKIP] };
                let pid = self.uid_of(ai, &pp);
                match pp {
                    Any::Once(g) => {
                        let was_empty = g.get().is_none();
                        let _ = g.get_or_init(mc, || x);
                        if was_empty { cb.lics.push(Lic::Parent(pid)); }
                        vec![was_empty as i64]
                    }
                    _ => vec![SKIP],
                }
            }
            MOp::RootSet(i, c) => {
                if cb.kind != CbKind::MutRoot { return vec![SKIP]; }
                let v = c.and_then(|r| rg(cb, r));
                match cb.root_mut.as_mut() {
                    Some(rt) if (i as usize) < rt.strong.len() => { rt.strong[i as usize] = v; vec![0] }
                    _ => vec![SKIP],
                }
            }
            MOp::RootSetW(i, w) => {
                if cb.kind != CbKind::MutRoot { return vec![SKIP]; }
                let v = w.and_then(|r| wrg(cb, r));
                match cb.root_mut.as_mut() {
                    Some(rt) if (i as usize) < rt.weak.len() => { rt.weak[i as usize] = v; vec![0] }
                    _ => vec![SKIP],
                }
            }
            MOp::Downgrade(w, r) => {
                match rg(cb, r).and_then(|p| p.downgrade()) {
                    Some(x) => { setw(cb, w, Some(x)); vec![self.idw(ai, &Some(x))] }
                    None => vec![SKIP],
                }
            }
            MOp::Upgrade(r, w) => {
                let Some(x) = wrg(cb, w) else { return vec![SKIP] };
                let v = x.upgrade(mc);
                setr(cb, r, v);
                vec![v.is_some() as i64, self.idw(ai, &Some(x))]
            }
            MOp::IsDropped(w) => {
                let Some(x) = wrg(cb, w) else { return vec![SKIP] };
                vec![x.is_dropped() as i64, self.idw(ai, &Some(x))]
            }
            MOp::BarB(p, c) => {
                let Some((pp, pe)) = rge(cb, p) else { return vec![SKIP] };
                let pid = self.uid_of(ai, &pp);
                match c {
                    None => { mc.backward_barrier(pe, None); cb.lics.push(Lic::Parent(pid)); vec![0] }
                    Some(r) => {
                        let Some((cp, ce)) = rge(cb, r) else { return vec![SKIP] };
                        let cid = self.uid_of(ai, &cp);
                        mc.backward_barrier(pe, Some(ce));
                        cb.lics.push(Lic::Pair(pid, cid));
                        vec![0]
                    }
                }
            }
            MOp::BarBW(p, w) => {
                let (Some((pp, pe)), Some(x)) = (rge(cb, p), wrg(cb, w)) else { return vec![SKIP] };
                let (pid, xid) = (self.uid_of(ai, &pp), self.uid_of_w(ai, &x));
                mc.backward_barrier_weak(pe, x.erase());
                cb.lics.push(Lic::PairW(pid, xid));
                vec![0]
            }
            MOp::BarF(p, c) => {
                let Some((cp, ce)) = rge(cb, c) else { return vec![SKIP] };
                let cid = self.uid_of(ai, &cp);
                match p {
                    None => { mc.forward_barrier(None, ce); cb.lics.push(Lic::Child(cid)); vec![0] }
                    Some(r) => {
                        let Some((pp, pe)) = rge(cb, r) else { return vec![SKIP] };
                        let pid = self.uid_of(ai, &pp);
                        mc.forward_barrier(Some(pe), ce);
                        cb.lics.push(Lic::Pair(pid, cid));
                        vec![0]
                    }
                }
            }
            MOp::BarFW(p, w) => {
                let Some(x) = wrg(cb, w) else { return vec![SKIP] };
                let xid = self.uid_of_w(ai, &x);
                match p {
                    None => { mc.forward_barrier_weak(None, x.erase()); cb.lics.push(Lic::ChildW(xid)); vec![0] }
                    Some(r) => {
                        let Some((pp, pe)) = rge(cb, r) else { return vec![SKIP] };
                        let pid = self.uid_of(ai, &pp);
                        mc.forward_barrier_weak(Some(pe), x.erase());
                        cb.lics.push(Lic::PairW(pid, xid));
                        vec![0]
                    }
                }
            }
            MOp::RawStore(p, i, c) => {
                let (Some(pp), Some(x)) = (rg(cb, p), rg(cb, c)) else { return vec![SKIP] };
                let (pid, cid) = (self.uid_of(ai, &pp), self.uid_of(ai, &x));
                match pp {
                    Any::Node(g) => {
                        if Self::has_lic(cb, &[Lic::Parent(pid), Lic::Child(cid), Lic::Pair(pid, cid)]) {
                            // the documented unsafe protocol: a barrier was issued in this callback
                            let mut b = unsafe { g.as_ref().as_ref_cell() }.borrow_mut();
                            if (i as usize) < b.strong.len() { b.strong[i as usize] = Some(x); }
                            vec![1]
                        } else { vec![0] }
                    }
                    _ => vec![SKIP],
                }
            }
            MOp::RawStoreW(p, i, w) => {
                let (Some(pp), Some(x)) = (rg(cb, p), wrg(cb, w)) else { return vec![SKIP] };
                let (pid, xid) = (self.uid_of(ai, &pp), self.uid_of_w(ai, &x));
                match pp {
                    Any::Node(g) => {
                        if Self::has_lic(cb, &[Lic::Parent(pid), Lic::ChildW(xid), Lic::PairW(pid, xid), Lic::Child(xid), Lic::Pair(pid, xid)]) {
                            let mut b = unsafe { g.as_ref().as_ref_cell() }.borrow_mut();
                            if (i as usize) < b.weak.len() { b.weak[i as usize] = Some(x); }
                            vec![1]
                        } else { vec![0] }
                    }
                    _ => vec![SKIP],
                }
            }
            MOp::Stash(h, s, c) => {
                let hi = h as usize;
                let (Some(sp), Some(x)) = (rg(cb, s), rg(cb, c)) else { return vec![SKIP] };
                if hi >= NHANDLES || self.handles[hi].is_some() { return vec![SKIP]; }
                let Any::Set(set) = sp else { return vec![SKIP] };
                let (sid, cid) = (self.uid_of(ai, &sp), self.uid_of(ai, &x));
                let hd = match x {
                    Any::Set(_) => return vec![SKIP],
                    Any::Node(g) => AnyHandle::Node(set.stash(mc, g)),
                    Any::Leaf(g) => AnyHandle::Leaf(set.stash(mc, g)),
                    Any::Lock(g) => AnyHandle::Lock(set.stash(mc, g)),
                    Any::Once(g) => AnyHandle::Once(set.stash(mc, g)),
                    Any::Struct(g) => AnyHandle::Struct(set.stash(mc, g)),
                };
                cb.lics.push(Lic::Pair(sid, cid));
                let uid = self.books[ai].as_ref().unwrap().uid;
                self.handles[hi] = Some(HandleRec { h: hd, uid, set_id: sid, ptr_id: cid });
                vec![1, sid as i64, cid as i64]
            }
            MOp::Fetch(r, s, h) => {
                let hi = h as usize;
                let Some(sp) = rg(cb, s) else { return vec![SKIP] };
                if hi >= NHANDLES || self.handles[hi].is_none() { return vec![SKIP]; }
                let Any::Set(set) = sp else { return vec![SKIP] };
                let hr = self.handles[hi].as_ref().unwrap();
                macro_rules! fetch {
                    ($hd:expr, $variant:ident) => {{
                        let contains = set.contains($hd);
                        let tf = set.try_fetch($hd);
                        let fpanic = panic::catch_unwind(AssertUnwindSafe(|| { let _ = set.fetch($hd); })).is_err();
                        (contains, tf.ok().map(Any::$variant), fpanic)
                    }};
                }
                let (contains, got, fpanic) = match &hr.h {
                    AnyHandle::Node(hd) => fetch!(hd, Node),
                    AnyHandle::Leaf(hd) => fetch!(hd, Leaf),
                    AnyHandle::Lock(hd) => fetch!(hd, Lock),
                    AnyHandle::Once(hd) => fetch!(hd, Once),
                    AnyHandle::Struct(hd) => fetch!(hd, Struct),
                };
                let foreign = self.books[ai].as_ref().map(|b| b.uid != hr.uid).unwrap_or(true);
                if contains != got.is_some() || fpanic == contains {
                    self.alarms.push(format!("DynamicRootSet: contains={contains} try_fetch.is_ok={} fetch panicked={fpanic} disagree{}", got.is_some(),
                        if foreign { " (handle issued by ANOTHER arena)" } else { "" }));
                }
                if foreign && (contains || got.is_some() || !fpanic) {
                    self.alarms.push(format!("DynamicRootSet: a handle issued by ANOTHER arena was accepted (contains={contains} try_fetch.is_ok={} fetch panicked={fpanic})", got.is_some()));
                }
                if let Some(g) = got { setr(cb, r, Some(g)); }
                let sid = self.uid_of(ai, &sp);
                vec![got.is_some() as i64, self.idr(ai, &got), sid as i64]
            }
            MOp::IsDead(r) => {
                let Some(fc) = cb.fc else { return vec![SKIP] };
                let Some((p, e)) = rge(cb, r) else { return vec![SKIP] };
                vec![Gc::is_dead(fc, e) as i64, self.idr(ai, &Some(p))]
            }
            MOp::IsDeadW(w) => {
                let Some(fc) = cb.fc else { return vec![SKIP] };
                let Some(x) = wrg(cb, w) else { return vec![SKIP] };
                vec![x.is_dead(fc) as i64, self.idw(ai, &Some(x))]
            }
            MOp::Resurrect(r) => {
                let Some(fc) = cb.fc else { return vec![SKIP] };
                let Some((p, e)) = rge(cb, r) else { return vec![SKIP] };
                Gc::resurrect(fc, e);
                vec![0, self.idr(ai, &Some(p))]
            }
            MOp::ResurrectW(r, w) => {
                let Some(fc) = cb.fc else { return vec![SKIP] };
                let Some(x) = wrg(cb, w) else { return vec![SKIP] };
                let v = x.resurrect(fc);
                setr(cb, r, v);
                vec![v.is_some() as i64, self.idw(ai, &Some(x))]
            }
            MOp::Move(r, r2) => { let v = rg(cb, r2); setr(cb, r, v); vec![self.idr(ai, &v)] }
            MOp::Clear(r) => { setr(cb, r, None); vec![0] }
            MOp::ClearW(w) => { setw(cb, w, None); vec![0] }
            MOp::PtrEq(x, y) => {
                let (Some(p), Some(q)) = (rg(cb, x), rg(cb, y)) else { return vec![SKIP] };
                let eq = match (p.erase(), q.erase()) {
                    (Some(a), Some(b)) => Gc::ptr_eq(a, b),
                    _ => p.addr() == q.addr(),
                };
                vec![eq as i64]
            }
        }
    }
}

fn root_from<'gc>(regs: [Option<Any<'gc>>; NREGS], wregs: [Option<AnyWeak<'gc>>; NREGS]) -> Root<'gc> {
    Root { strong: regs[..NROOT].to_vec(), weak: wregs[..NROOT].to_vec() }
}
