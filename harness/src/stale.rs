//! Stale `DynamicRoot` handles and allocator address reuse (model-independent scenario).
//!
//! A handle issued by an arena that has been dropped is presented to the root sets of arenas created
//! afterwards, arranged so that the allocator hands the new sets the very addresses the dead set and its
//! objects used (same allocation sequence, LIFO free lists).  Whatever address is reused, every new set must
//! refuse the handle: `contains` false, `try_fetch` Err, `fetch` panics.  Output: `VIOL ...` lines, `SUMMARY`.
use gc_arena::collect::Trace;
use gc_arena::{Arena, Collect, DynamicRoot, DynamicRootSet, Gc, Rootable};
use std::panic::{self, AssertUnwindSafe};

struct SRoot<'gc> {
    sets: Vec<DynamicRootSet<'gc>>,
}
unsafe impl<'gc> Collect<'gc> for SRoot<'gc> {
    fn trace<T: Trace<'gc>>(&self, cc: &mut T) {
        for s in &self.sets {
            cc.trace(s);
        }
    }
}

type Handle = DynamicRoot<Rootable![u64]>;

/// address of the set object (DynamicRootSet is a newtype around one Gc pointer; it exposes no accessor)
fn set_addr(s: &DynamicRootSet<'_>) -> usize {
    unsafe { *(s as *const DynamicRootSet<'_> as *const usize) }
}

fn new_arena(nsets: usize, handles: &mut Vec<Handle>, addrs: &mut Vec<usize>) -> Arena<Rootable![SRoot<'_>]> {
    Arena::new(|mc| {
        let mut sets = Vec::new();
        for k in 0..nsets {
            let s = DynamicRootSet::new(mc);
            addrs.push(set_addr(&s));
            handles.push(s.stash::<Rootable![u64]>(mc, Gc::new(mc, 1000 + k as u64)));
            sets.push(s);
        }
        SRoot { sets }
    })
}

pub fn run_all() {
    let (mut trials, mut presentations, mut coincidences, mut nviol) = (0usize, 0usize, 0usize, 0usize);
    for nsets in [1usize, 2, 3] {
        for keep_alive in [false, true] {
            for round in 0..12 {
                trials += 1;
                let mut old_handles = Vec::new();
                let mut old_addrs = Vec::new();
                let mut a = new_arena(nsets, &mut old_handles, &mut old_addrs);
                if round % 2 == 1 {
                    a.finish_cycle();
                }
                drop(a);
                let mut live = Vec::new();
                for t in 0..6 {
                    let mut hs = Vec::new();
                    let mut addrs = Vec::new();
                    let b = new_arena(nsets, &mut hs, &mut addrs);
                    b.mutate(|_, root| {
                        for (si, s) in root.sets.iter().enumerate() {
                            let reused = old_addrs.contains(&set_addr(s));
                            for (hi, h) in old_handles.iter().enumerate() {
                                presentations += 1;
                                if reused {
                                    coincidences += 1;
                                }
                                let c = s.contains(h);
                                let tf = s.try_fetch(h).is_ok();
                                let fp = panic::catch_unwind(AssertUnwindSafe(|| {
                                    let _ = s.fetch(h);
                                }))
                                .is_err();
                                if c || tf || !fp {
                                    nviol += 1;
                                    if nviol <= 5 {
                                        println!(
                                            "VIOL nsets={nsets} keep_alive={keep_alive} round={round} arena#{t} set#{si} handle#{hi} :: a handle issued by a DROPPED arena is accepted by a set of a later arena (contains={c} try_fetch.is_ok={tf} fetch panicked={fp}; the new set {} the address of the dead set)",
                                            if reused { "reuses" } else { "does not reuse" }
                                        );
                                    }
                                }
                            }
                            // its own handle is of course accepted
                            if !s.contains(&hs[si]) {
                                nviol += 1;
                                println!("VIOL nsets={nsets} round={round} arena#{t} set#{si} :: the set refuses the handle it just issued");
                            }
                        }
                    });
                    drop(hs);
                    if keep_alive {
                        live.push(b);
                    }
                }
                drop(live);
                drop(old_handles);
            }
        }
    }
    println!("SUMMARY trials={trials} presentations={presentations} address_coincidences={coincidences} violations={nviol}");
}
