//! Stale `DynamicRoot` handles and allocator address reuse (model-independent scenario).
//!
//! A handle issued by an arena that has been dropped is presented to the root sets of arenas created
//! afterwards, arranged so that the allocator hands the new sets the very addresses the dead set and its
//! objects used (same allocation sequence, LIFO free lists).  Whatever address is reused, every new set must
//! refuse the handle: `contains` false, `try_fetch` Err, `fetch` panics.  Output: `VIOL ...` lines, `SUMMARY`.
use gc_arena::collect::Trace;
use gc_arena::{Arena, Collect, DynamicRoot, DynamicRootSet, Gc, Rootable};
use std::panic::{self, AssertUnwindSafe};

struct SRoot<'gc> {
    sets: Vec<DynamicRootSet<'gc>>,
}
unsafe impl<'gc> Collect<'gc> for SRoot<'gc> {
    fn trace<T: Trace<'gc>>(&self, cc: &mut T) {
        for s in &self.sets {
            cc.trace(s);
        }
    }
}

type Handle = DynamicRoot<Rootable![u64]>;

/// address of the set object (DynamicRootSet is a newtype around one Gc pointer; it exposes no accessor)
fn set_addr(s: &DynamicRootSet<'_>) -> usize {
    unsafe { *(s as *const DynamicRootSet<'_> as *const usize) }
}

fn new_arena(nsets: usize, handles: &mut Vec<Handle>, addrs: &mut Vec<usize>) -> Arena<Rootable![SRoot<'_>]> {
    Arena::new(|mc| {
        let mut sets = Vec::new();
        for k in 0..nsets {
            let s = DynamicRootSet::new(mc);
            addrs.push(set_addr(&s));
            handles.push(s.stash::<Rootable![u64]>(mc, Gc::new(mc, 1000 + k as u64)));
            sets.push(s);
        }
        SRoot { sets }
    })
}

pub fn run_all() {
    let (mut trials, mut presentations, mut coincidences, mut nviol) = (0usize, 0usize, 0usize, 0usize);
    for nsets in [1usize, 2, 3] {
        for keep_alive in [false, true] {
            for round in 0..12 {
                trials += 1;
                let mut old_handles = Vec::new();
                let mut old_addrs = Vec::new();
                let mut a = new_arena(nsets, &mut old_handles, &mut old_addrs);
                if round % 2 == 1 {
                    a.finish_cycle();
                }
                drop(a);
                let mut live = Vec::new();
                for t in 0..6 {
                    let mut hs = Vec::new();
                    let mut addrs = Vec::new();
                    let b = new_arena(nsets, &mut hs, &mut addrs);
                    b.mutate(|_, root| {
                        for (si, s) in root.sets.iter().enumerate() {
                            let reused = old_addrs.contains(&set_addr(s));
                            for (hi, h) in old_handles.iter().enumerate() {
                                presentations += 1;
                                if reused {
                                    coincidences += 1;
                                }
                                let c = s.contains(h);
                                let tf = s.try_fetch(h).is_ok();
                                let fp = panic::catch_unwind(AssertUnwindSafe(|| {
                                    let _ = s.fetch(h);
                                }))
                                .is_err();
                                if c || tf || !fp {
                                    nviol += 1;
                                    if nviol <= 5 {
                                        println!(
                                            "VIOL nsets={nsets} keep_alive={keep_alive} round={round} arena#{t} set#{si} handle#{hi} :: a handle issued by a DROPPED arena is accepted by a set of a later arena (contains={c} try_fetch.is_ok={tf} fetch panicked={fp}; the new set {} the address of the dead set)",
                                            if reused { "reuses" } else { "does not reuse" }
                                        );
                                    }
                                }
                            }
                            // its own handle is of course accepted
                            if !s.contains(&hs[si]) {
                                nviol += 1;
                                println!("VIOL nsets={nsets} round={round} arena#{t} set#{si} :: the set refuses the handle it just issued");
                            }
                        }
                    });
                    drop(hs);
                    if keep_alive {
                        live.push(b);
                    }
                }
                drop(live);
                drop(old_handles);
            }
        }
    }
    nviol += clone_from_scenarios();
    println!("SUMMARY trials={trials} presentations={presentations} address_coincidences={coincidences} violations={nviol}");
}


// ---------------------------------------------------------------------------------------------------
// `clone` / `clone_from` / assignment between live handles (the Gallina model has `clone` and `drop` of a
// handle only; `Clone::clone_from` is a separate entry point of the real type). Model-independent oracle
// taken from the property: a handle is accepted by exactly the set whose slot it holds, fetches the object
// stashed there, keeps it alive while it exists, and releases its old slot when it is overwritten.
thread_local! { static TOK_DROPS: std::cell::RefCell<Vec<u32>> = const { std::cell::RefCell::new(Vec::new()) }; }
struct Tok(u32);
impl Drop for Tok {
    fn drop(&mut self) { TOK_DROPS.with(|d| d.borrow_mut().push(self.0)); }
}
unsafe impl<'gc> Collect<'gc> for Tok {
    const NEEDS_TRACE: bool = false;
}
type TokHandle = DynamicRoot<Rootable![Tok]>;
fn dropped(id: u32) -> bool { TOK_DROPS.with(|d| d.borrow().contains(&id)) }

fn clone_from_scenarios() -> usize {
    let mut nviol = 0usize;
    let mut n = 0usize;
    // same_set: target and source issued by the same set; same_obj: they name the same object;
    // pad_t / pad_s: dummy stashes made first so that the slot indices differ or coincide; how: 0 clone_from, 1 assignment of a clone
    for same_set in [false, true] {
        for same_obj in [false, true] {
            for pad_t in 0..3usize {
                for pad_s in 0..3usize {
                    for how in 0..2 {
                        n += 1;
                        TOK_DROPS.with(|d| d.borrow_mut().clear());
                        let name = format!("clonefrom same_set={same_set} same_obj={same_obj} pad_t={pad_t} pad_s={pad_s} how={how}");
                        println!("NEXTCF {name}");
                        let mut viol = |what: &str| { nviol += 1; if nviol <= 6 { println!("VIOL {name} :: {what}"); } };
                        let mut pads: Vec<TokHandle> = Vec::new();
                        let mut hs: Vec<TokHandle> = Vec::new();
                        let mut arena: Arena<Rootable![SRoot<'_>]> = Arena::new(|mc| {
                            let a = DynamicRootSet::new(mc);
                            let b = if same_set { a } else { DynamicRootSet::new(mc) };
                            for k in 0..pad_t { pads.push(a.stash::<Rootable![Tok]>(mc, Gc::new(mc, Tok(100 + k as u32)))); }
                            if !same_set { for k in 0..pad_s { pads.push(b.stash::<Rootable![Tok]>(mc, Gc::new(mc, Tok(200 + k as u32)))); } }
                            let x = Gc::new(mc, Tok(1));
                            let y = if same_obj { x } else { Gc::new(mc, Tok(2)) };
                            hs.push(a.stash::<Rootable![Tok]>(mc, x)); // t
                            hs.push(b.stash::<Rootable![Tok]>(mc, y)); // s
                            SRoot { sets: vec![a, b] }
                        });
                        let src = hs.pop().unwrap();
                        let mut tgt = hs.pop().unwrap();
                        let src_id = if same_obj { 1 } else { 2 };
                        if how == 0 { tgt.clone_from(&src); } else { tgt = src.clone(); }
                        drop(src);
                        arena.finish_cycle();
                        arena.finish_cycle();
                        if dropped(src_id) { viol("the object named by a live handle (made by clone_from / clone of a handle that was then dropped) was destructed"); }
                        if !same_obj && !dropped(1) { viol("the object whose only handle was overwritten was not released after two full cycles"); }
                        arena.mutate(|_, root| {
                            let (a, b) = (root.sets[0], root.sets[1]);
                            if !b.contains(&tgt) { viol("the issuing set of the source refuses the handle that was made from it"); }
                            else if b.fetch(&tgt).0 != src_id { viol("the handle fetches a different object than its source named"); }
                            if !same_set && a.contains(&tgt) { viol("the overwritten handle is still accepted by its old set"); }
                        });
                        drop(tgt);
                        arena.finish_cycle();
                        arena.finish_cycle();
                        if !dropped(src_id) { viol("the object was not released after its last handle was dropped"); }
                        drop(pads);
                        drop(arena);
                    }
                }
            }
        }
    }
    println!("CLONEFROM scenarios={n} violations={nviol}");
    nviol
}
