//! Tracking global allocator: never allocates itself; records alloc/dealloc/drop events in a
//! fixed ring and keeps a fixed open-addressing table of live blocks, so that double frees,
//! frees of unknown pointers and layout mismatches are detected before reaching the system
//! allocator.
use std::alloc::{GlobalAlloc, Layout, System};
use std::cell::UnsafeCell;

#[derive(Copy, Clone, Debug, PartialEq, Eq)]
pub enum Ev {
    Alloc { ptr: usize, size: usize, align: usize },
    Dealloc { ptr: usize, size: usize, align: usize },
    /// dealloc of a pointer that is not a live block (double free / foreign pointer)
    BadDealloc { ptr: usize, size: usize, align: usize },
    /// dealloc with a layout different from the one requested
    LayoutMismatch { ptr: usize, size: usize, align: usize, asize: usize, aalign: usize },
    /// destructor of a tagged harness payload ran
    Drop { uid: u32, id: u32 },
}

const RING: usize = 1 << 20;
const TAB: usize = 1 << 21;

struct State {
    recording: bool,
    n: usize,
    overflow: bool,
    ring: [Ev; RING],
    // live block table: key 0 = empty, 1 = tombstone
    keys: [usize; TAB],
    sizes: [usize; TAB],
    aligns: [usize; TAB],
    live: usize,
}

struct Shared(UnsafeCell<State>);
// The harness is single-threaded.
unsafe impl Sync for Shared {}

static STATE: Shared = Shared(UnsafeCell::new(State {
    recording: false,
    n: 0,
    overflow: false,
    ring: [Ev::Alloc { ptr: 0, size: 0, align: 0 }; RING],
    keys: [0; TAB],
    sizes: [0; TAB],
    aligns: [0; TAB],
    live: 0,
}));

#[inline]
fn st() -> &'static mut State {
    unsafe { &mut *STATE.0.get() }
}

#[inline]
fn hash(p: usize) -> usize {
    (p.wrapping_mul(0x9E37_79B9_7F4A_7C15) >> 20) & (TAB - 1)
}

fn push(e: Ev) {
    let s = st();
    if !s.recording {
        return;
    }
    if s.n >= RING {
        s.overflow = true;
        return;
    }
    s.ring[s.n] = e;
    s.n += 1;
}

fn tab_insert(p: usize, size: usize, align: usize) {
    let s = st();
    let mut i = hash(p);
    loop {
        if s.keys[i] == 0 || s.keys[i] == 1 {
            s.keys[i] = p;
            s.sizes[i] = size;
            s.aligns[i] = align;
            s.live += 1;
            return;
        }
        i = (i + 1) & (TAB - 1);
    }
}

fn tab_remove(p: usize) -> Option<(usize, usize)> {
    let s = st();
    let mut i = hash(p);
    let mut probes = 0;
    loop {
        if s.keys[i] == 0 || probes > TAB {
            return None;
        }
        if s.keys[i] == p {
            s.keys[i] = 1;
            s.live -= 1;
            return Some((s.sizes[i], s.aligns[i]));
        }
        i = (i + 1) & (TAB - 1);
        probes += 1;
    }
}

pub struct Tracker;

unsafe impl GlobalAlloc for Tracker {
    unsafe fn alloc(&self, l: Layout) -> *mut u8 {
        let p = unsafe { System.alloc(l) };
        if !p.is_null() {
            tab_insert(p as usize, l.size(), l.align());
            push(Ev::Alloc { ptr: p as usize, size: l.size(), align: l.align() });
        }
        p
    }
    unsafe fn dealloc(&self, p: *mut u8, l: Layout) {
        match tab_remove(p as usize) {
            None => {
                // do not forward: the system allocator could corrupt its state or abort
                let was = st().recording;
                st().recording = true;
                push(Ev::BadDealloc { ptr: p as usize, size: l.size(), align: l.align() });
                st().recording = was;
            }
            Some((size, align)) => {
                if size != l.size() || align != l.align() {
                    let was = st().recording;
                    st().recording = true;
                    push(Ev::LayoutMismatch { ptr: p as usize, size: l.size(), align: l.align(), asize: size, aalign: align });
                    st().recording = was;
                    // release with the layout it was allocated with
                    unsafe { System.dealloc(p, Layout::from_size_align_unchecked(size, align)) };
                } else {
                    push(Ev::Dealloc { ptr: p as usize, size: l.size(), align: l.align() });
                    unsafe { System.dealloc(p, l) };
                }
            }
        }
    }
    unsafe fn realloc(&self, p: *mut u8, l: Layout, new_size: usize) -> *mut u8 {
        // route through alloc/dealloc so that the table stays exact
        let nl = unsafe { Layout::from_size_align_unchecked(new_size, l.align()) };
        let np = unsafe { self.alloc(nl) };
        if !np.is_null() {
            unsafe {
                std::ptr::copy_nonoverlapping(p, np, l.size().min(new_size));
                self.dealloc(p, l);
            }
        }
        np
    }
}

pub fn set_recording(on: bool) {
    st().recording = on;
}

pub fn record_drop(uid: u32, id: u32) {
    push(Ev::Drop { uid, id });
}

/// Copy out and clear the recorded events.
pub fn drain() -> (Vec<Ev>, bool) {
    let was = st().recording;
    st().recording = false;
    let n = st().n;
    let v = st().ring[..n].to_vec();
    let of = st().overflow;
    st().n = 0;
    st().overflow = false;
    st().recording = was;
    (v, of)
}

pub fn mark() -> usize {
    st().n
}

/// Events recorded since `mark` (without clearing).
pub fn since(mark: usize) -> Vec<Ev> {
    let was = st().recording;
    st().recording = false;
    let n = st().n;
    let v = st().ring[mark.min(n)..n].to_vec();
    st().recording = was;
    v
}

pub fn is_live_block(p: usize) -> Option<(usize, usize)> {
    let s = st();
    let mut i = hash(p);
    let mut probes = 0;
    loop {
        if s.keys[i] == 0 || probes > TAB {
            return None;
        }
        if s.keys[i] == p {
            return Some((s.sizes[i], s.aligns[i]));
        }
        i = (i + 1) & (TAB - 1);
        probes += 1;
    }
}
