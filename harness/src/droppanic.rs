//! Panicking payload destructors (model-independent oracle; the Coq model assumes destructors do not panic).
//!
//! A destructor that unwinds out of a collection call or out of `drop(arena)` must not make ANY value be
//! destructed a second time, must not make `is_dropped` lie about a value whose destructor has run, must not
//! produce a bad `dealloc`, and must not stop the other values of a dropped arena from being destructed
//! ("resuming after a panicking destructor").  What the crate does NOT promise (and what is only recorded here,
//! never charged): the block of the very object whose destructor panicked may never be returned.
//!
//! Deterministic enumeration: how the victim is held x its position in the allocation list x how the collection
//! is driven x what happens afterwards.  Output: `VIOL <scenario> :: <what>` lines, then a `SUMMARY` line.
use crate::alloc_track::{self, Ev};
use crate::types::InjectedPanic;
use gc_arena::collect::Trace;
use gc_arena::lock::Lock;
use gc_arena::{Arena, Collect, Gc, GcWeak, Rootable};
use std::cell::RefCell;
use std::panic::{self, AssertUnwindSafe};

thread_local! {
    /// ids in the order their destructors were entered (the payload itself owns no heap memory, so that a destructor
    /// run twice by a broken collector is recorded instead of corrupting the harness)
    static LOG: RefCell<Vec<u32>> = const { RefCell::new(Vec::new()) };
    /// ids whose destructor panics (once)
    static ARMED: RefCell<Vec<u32>> = const { RefCell::new(Vec::new()) };
}

struct PTag {
    id: u32,
}
impl Drop for PTag {
    fn drop(&mut self) {
        LOG.with(|l| l.borrow_mut().push(self.id));
        let armed = ARMED.with(|a| {
            let mut a = a.borrow_mut();
            match a.iter().position(|x| *x == self.id) {
                Some(i) => {
                    a.swap_remove(i);
                    true
                }
                None => false,
            }
        });
        if armed {
            panic::panic_any(InjectedPanic);
        }
    }
}

fn log_snapshot() -> Vec<u32> {
    LOG.with(|l| l.borrow().clone())
}

struct PNode<'gc> {
    tag: PTag,
    next: Lock<Option<Gc<'gc, PNode<'gc>>>>,
}
// The harness's own impl (trusted): reports the one pointer it holds.
unsafe impl<'gc> Collect<'gc> for PNode<'gc> {
    fn trace<T: Trace<'gc>>(&self, cc: &mut T) {
        if let Some(g) = self.next.get() {
            cc.trace_gc(Gc::erase(g));
        }
    }
}

struct PRoot<'gc> {
    strong: Vec<Gc<'gc, PNode<'gc>>>,
    weak: Vec<GcWeak<'gc, PNode<'gc>>>,
}
unsafe impl<'gc> Collect<'gc> for PRoot<'gc> {
    fn trace<T: Trace<'gc>>(&self, cc: &mut T) {
        for g in &self.strong {
            cc.trace_gc(Gc::erase(*g));
        }
        for w in &self.weak {
            cc.trace_gc_weak(GcWeak::erase(*w));
        }
    }
}

#[derive(Copy, Clone, Debug, PartialEq)]
enum Hold {
    Garbage,  // unreachable: destructed and released by the sweep (White arm)
    WeakOnly, // only a GcWeak in the root: destructed early, shell kept (WhiteWeak arm)
    Strong,   // in the root: destructed when the arena is dropped (DropAll)
}
#[derive(Copy, Clone, Debug)]
enum Drive {
    FinishCycle,
    CollectDebt,
    CycleDebt,
}
#[derive(Copy, Clone, Debug)]
enum After {
    MoreCycles,          // two more full cycles, then drop the arena
    ClearWeakThenCycles, // forget the weak pointers, two full cycles (the shell is released), drop
    DropNow,             // drop the arena right after the unwind (possibly mid-sweep)
    DropMarked,          // finish marking again, then drop the arena fully marked
}

fn drive(arena: &mut Arena<Rootable![PRoot<'_>]>, how: Drive) -> (u32, bool) {
    // returns (number of calls that unwound, finished without unwinding at last)
    let mut unwound = 0;
    for _ in 0..12 {
        let r = panic::catch_unwind(AssertUnwindSafe(|| match how {
            Drive::FinishCycle => arena.finish_cycle(),
            Drive::CollectDebt => {
                arena.metrics().adjust_debt(1.0e6);
                arena.collect_debt();
                arena.finish_cycle();
            }
            Drive::CycleDebt => {
                arena.metrics().adjust_debt(1.0e6);
                arena.cycle_debt();
                arena.finish_cycle();
            }
        }));
        match r {
            Ok(()) => return (unwound, true),
            Err(_) => unwound += 1,
        }
    }
    (unwound, false)
}

struct Outcome {
    viols: Vec<String>,
    leaked_blocks: usize,
    panics: u32,
}

fn scenario(holds: &[Hold], victim_pos: usize, others: usize, how: Drive, after: After) -> Outcome {
    LOG.with(|l| l.borrow_mut().clear());
    ARMED.with(|a| a.borrow_mut().clear());
    let mut viols = Vec::new();
    let mut arms: Vec<u32> = Vec::new();
    let mut victim_ids: Vec<(u32, Hold)> = Vec::new();
    let total = others + holds.len();
    let _ = alloc_track::drain();
    alloc_track::set_recording(true);
    let mut arena = Arena::<Rootable![PRoot<'_>]>::new(|mc| {
        let mut root = PRoot { strong: Vec::new(), weak: Vec::new() };
        let mut vi = 0;
        for k in 0..total {
            let is_victim = vi < holds.len() && k == victim_pos + vi;
            let id = k as u32 + 1;
            let g = Gc::new(mc, PNode { tag: PTag { id }, next: Lock::new(None) });
            if is_victim {
                let h = holds[vi];
                vi += 1;
                arms.push(id);
                victim_ids.push((id, h));
                match h {
                    Hold::Garbage => {}
                    Hold::WeakOnly => root.weak.push(Gc::downgrade(g)),
                    Hold::Strong => root.strong.push(g),
                }
            } else if k % 3 == 0 {
                root.strong.push(g); // kept
            } else if k % 3 == 1 {
                root.weak.push(Gc::downgrade(g)); // an innocent weakly held object (destructed early, shell kept)
            } // else: innocent garbage
        }
        root
    });
    // a first quiet cycle? no: the victims must meet their destructor with the arms set
    ARMED.with(|a| a.borrow_mut().extend(arms.iter().copied()));
    let (unwound, settled) = drive(&mut arena, how);
    let mut panics = unwound;
    if !settled {
        viols.push("collection calls keep unwinding (12 attempts)".into());
    }
    // every victim that is not strongly held has met its destructor by now (one full cycle completed)
    let check_weak = |arena: &Arena<Rootable![PRoot<'_>]>, viols: &mut Vec<String>, when: &str| {
        arena.mutate(|mc, root| {
            for w in &root.weak {
                // the id cannot be read through a dead weak pointer; use the log: a weak target whose destructor
                // ran must read is_dropped() and must not upgrade
                let up = w.upgrade(mc);
                if let Some(g) = up {
                    if log_snapshot().contains(&g.tag.id) {
                        viols.push(format!("{when}: upgrade() returned object {} whose destructor has already run", g.tag.id));
                    }
                    if w.is_dropped() {
                        viols.push(format!("{when}: is_dropped() is true for object {} that upgrade() still returns", g.tag.id));
                    }
                }
            }
        });
    };
    check_weak(&arena, &mut viols, "after the unwound collection");
    match after {
        After::MoreCycles => {
            let (u, _) = drive(&mut arena, Drive::FinishCycle);
            panics += u;
            let (u, _) = drive(&mut arena, Drive::FinishCycle);
            panics += u;
            check_weak(&arena, &mut viols, "after two more cycles");
        }
        After::ClearWeakThenCycles => {
            arena.mutate_root(|_, root| root.weak.clear());
            let (u, _) = drive(&mut arena, Drive::FinishCycle);
            panics += u;
            let (u, _) = drive(&mut arena, Drive::FinishCycle);
            panics += u;
        }
        After::DropNow => {}
        After::DropMarked => {
            let r = panic::catch_unwind(AssertUnwindSafe(|| {
                let _ = arena.finish_marking();
            }));
            if r.is_err() {
                panics += 1;
            }
        }
    }
    let metrics = arena.metrics().clone();
    let r = panic::catch_unwind(AssertUnwindSafe(move || drop(arena)));
    if r.is_err() {
        panics += 1;
    }
    alloc_track::set_recording(false);
    let (evs, _) = alloc_track::drain();
    for e in &evs {
        match e {
            Ev::BadDealloc { ptr, size, align } => viols.push(format!("dealloc of {ptr:x} ({size},{align}) which is not a live block (double free)")),
            Ev::LayoutMismatch { ptr, size, align, asize, aalign } => {
                viols.push(format!("dealloc layout mismatch at {ptr:x}: released ({size},{align}), requested ({asize},{aalign})"))
            }
            _ => {}
        }
    }
    let lg = log_snapshot();
    for id in 1..=total as u32 {
        let n = lg.iter().filter(|x| **x == id).count();
        if n != 1 {
            let what = victim_ids.iter().find(|(v, _)| *v == id).map(|(_, h)| format!("victim, {h:?}")).unwrap_or_else(|| "innocent".into());
            viols.push(format!("object {id} ({what}): destructor ran {n} time(s) over the arena's lifetime (drop log {:?})", &lg));
        }
    }
    // the crate's own count of blocks not returned (the block of an object whose destructor panicked may stay behind)
    let leaked = metrics.total_gc_count();
    if leaked > holds.len() {
        viols.push(format!("Gc count reads {leaked} after the arena was dropped, more than the {} objects whose destructor panicked", holds.len()));
    }
    Outcome { viols, leaked_blocks: leaked, panics }
}

pub fn run_all() {
    let mut n = 0usize;
    let mut nviol = 0usize;
    let mut leaked_scen = 0usize;
    let mut panics = 0u32;
    let hold_sets: Vec<Vec<Hold>> = vec![
        vec![Hold::Garbage],
        vec![Hold::WeakOnly],
        vec![Hold::Strong],
        vec![Hold::WeakOnly, Hold::Garbage],
        vec![Hold::WeakOnly, Hold::WeakOnly],
        vec![Hold::Strong, Hold::WeakOnly],
    ];
    for holds in &hold_sets {
        for &(pos, others) in &[(0usize, 0usize), (0, 4), (2, 5), (6, 6)] {
            for how in [Drive::FinishCycle, Drive::CollectDebt, Drive::CycleDebt] {
                for after in [After::MoreCycles, After::ClearWeakThenCycles, After::DropNow, After::DropMarked] {
                    let name = format!("holds={holds:?} pos={pos} others={others} drive={how:?} after={after:?}");
                    println!("NEXT {name}");
                    let r = panic::catch_unwind(AssertUnwindSafe(|| scenario(holds, pos, others, how, after)));
                    n += 1;
                    match r {
                        Ok(o) => {
                            panics += o.panics;
                            if o.leaked_blocks > 0 {
                                leaked_scen += 1;
                            }
                            for v in o.viols.iter().take(3) {
                                nviol += 1;
                                println!("VIOL {name} :: {v}");
                            }
                        }
                        Err(_) => {
                            nviol += 1;
                            alloc_track::set_recording(false);
                            let msg = crate::world::LAST_PANIC.with(|p| p.borrow().clone());
                            println!("VIOL {name} :: the scenario itself died with an unexpected panic: {msg}");
                        }
                    }
                }
            }
        }
    }
    println!("SUMMARY scenarios={n} violations={nviol} destructor_panics_observed={panics} scenarios_with_leaked_victim_block={leaked_scen}");
}
