//! Correspondence harness: drives the real gc-arena crate with op scripts and prints one
//! canonical line per op (outputs, destructor / allocator events, collector snapshot).
mod alloc_track;
mod genr;
mod ops;
mod types;
mod droppanic;
mod stale;
mod world;

use std::io::{BufRead, Write};

#[global_allocator]
static GLOBAL: alloc_track::Tracker = alloc_track::Tracker;

fn usage() -> ! {
    eprintln!("usage: ga-harness gen --seed S --scripts N --len L [--multi] [--faults] [--default-pacing] [--burst] [--max-cb K]");
    eprintln!("       ga-harness run   (script(s) on stdin, separated by '#script <name>' lines)");
    std::process::exit(2)
}

fn check_platform() {
    // constants the Coq layout model takes as given
    assert_eq!(std::mem::size_of::<usize>(), 8);
}

fn main() {
    check_platform();
    std::panic::set_hook(Box::new(|info| {
        // injected panics are expected; anything else is printed
        let p = info.payload();
        if p.is::<types::InjectedPanic>() || p.is::<world::HarnessPanic>() { return; }
        let msg = if let Some(s) = p.downcast_ref::<&str>() { s.to_string() } else if let Some(s) = p.downcast_ref::<String>() { s.clone() } else { "?".into() };
        if msg == "mismatched root set" { return; }
        let loc = info.location().map(|l| format!("{}:{}", l.file().rsplit('/').next().unwrap_or(""), l.line())).unwrap_or_default();
        world::LAST_PANIC.with(|p| *p.borrow_mut() = format!("{msg} at {loc}"));
        eprintln!("PANIC: {msg} at {:?}", info.location());
    }));
    let args: Vec<String> = std::env::args().collect();
    if args.len() < 2 { usage(); }
    let out = std::io::stdout();
    let mut out = std::io::BufWriter::new(out.lock());
    match args[1].as_str() {
        "gen" => {
            let mut seed = 1u64; let mut scripts = 10usize; let mut first = 0usize;
            let mut prof = genr::Profile { len: 200, multi_arena: false, faults: false, default_pacing: false, max_cb: 10, burst: false };
            let mut i = 2;
            while i < args.len() {
                match args[i].as_str() {
                    "--seed" => { seed = args[i + 1].parse().unwrap(); i += 1; }
                    "--scripts" => { scripts = args[i + 1].parse().unwrap(); i += 1; }
                    "--first" => { first = args[i + 1].parse().unwrap(); i += 1; }
                    "--len" => { prof.len = args[i + 1].parse().unwrap(); i += 1; }
                    "--max-cb" => { prof.max_cb = args[i + 1].parse().unwrap(); i += 1; }
                    "--multi" => prof.multi_arena = true,
                    "--faults" => prof.faults = true,
                    "--default-pacing" => prof.default_pacing = true,
                    "--burst" => prof.burst = true,
                    _ => usage(),
                }
                i += 1;
            }
            drop(out);
            let emit = |s: String| { let so = std::io::stdout(); let mut l = so.lock(); writeln!(l, "{s}").unwrap(); l.flush().unwrap(); };
            for s in first..scripts {
                let sd = seed.wrapping_mul(1_000_003).wrapping_add(s as u64);
                let mut g = genr::Gen::new(sd, prof);
                let mut w = world::World::new();
                w.stream = true;
                emit(format!("#script gen-{seed}-{s}"));
                w.run(&mut g);
                for a in &w.alarms { emit(format!("#alarm {a}")); }
                emit(format!("#done gen-{seed}-{s}"));
            }
            for c in genr::cells_report() { emit(format!("#cell {c}")); }
            return;
        }
        "stale" => {
            drop(out);
            stale::run_all();
            return;
        }
        "droppanic" => {
            drop(out);
            droppanic::run_all();
            return;
        }
        "run" => {
            let stdin = std::io::stdin();
            let mut name = String::from("stdin");
            let mut ops: Vec<ops::Op> = Vec::new();
            let mut flush = |name: &str, ops: &mut Vec<ops::Op>, out: &mut dyn Write| {
                if ops.is_empty() { return; }
                let mut src = world::ScriptSource { ops: std::mem::take(ops), pos: 0 };
                let mut w = world::World::new();
                w.stream = true;
                writeln!(out, "#script {name}").unwrap();
                out.flush().unwrap();
                w.run(&mut src);
                for a in &w.alarms { writeln!(out, "#alarm {a}").unwrap(); }
                writeln!(out, "#done {name}").unwrap();
                out.flush().unwrap();
            };
            for line in stdin.lock().lines() {
                let line = line.unwrap();
                let t = line.trim();
                if t.is_empty() { continue; }
                if let Some(n) = t.strip_prefix("#script") {
                    flush(&name, &mut ops, &mut out);
                    name = n.trim().to_string();
                    continue;
                }
                if t.starts_with('#') { continue; }
                let optext = t.split('|').next().unwrap().trim();
                ops.push(ops::Op::parse(optext));
            }
            flush(&name, &mut ops, &mut out);
        }
        _ => usage(),
    }
}
