//! Harness object types. Their `Collect` impls are hand-written (part of the trusted harness) so
//! that `trace` can be made to panic after reporting a chosen number of edges.
use gc_arena::{
    lock::{Lock, OnceLock, RefLock},
    Collect, DynamicRoot, DynamicRootSet, Gc, GcWeak, Rootable,
};
use gc_arena::collect::Trace;
use std::cell::Cell;

use crate::alloc_track;

/// Logs its destruction (object id) into the event ring.
pub struct DropTag {
    pub uid: u32,
    pub id: u32,
}
impl Drop for DropTag {
    fn drop(&mut self) {
        alloc_track::record_drop(self.uid, self.id);
    }
}

thread_local! {
    /// (k, j): the k-th panic-capable trace call from now panics after reporting j edges.
    pub static FAULT: Cell<Option<(u32, u32)>> = const { Cell::new(None) };
}

pub struct InjectedPanic;

/// Called on entry of every panic-capable `trace`: `Some(j)` = panic after j edges.
fn fault_enter() -> Option<u32> {
    FAULT.with(|f| match f.get() {
        Some((0, j)) => {
            f.set(None);
            Some(j)
        }
        Some((k, j)) => {
            f.set(Some((k - 1, j)));
            None
        }
        None => None,
    })
}

struct EdgeCounter {
    limit: Option<u32>,
    n: u32,
}
impl EdgeCounter {
    fn new() -> Self {
        EdgeCounter { limit: fault_enter(), n: 0 }
    }
    /// call before reporting each present edge
    fn tick(&mut self) {
        if let Some(l) = self.limit {
            if self.n == l {
                std::panic::panic_any(InjectedPanic);
            }
        }
        self.n += 1;
    }
    /// call at the end: a fault with j >= number of edges panics after all of them
    fn finish(&mut self) {
        if self.limit.is_some() {
            std::panic::panic_any(InjectedPanic);
        }
    }
}

pub type NodeGc<'gc> = Gc<'gc, RefLock<NodeData<'gc>>>;
pub type LeafGc<'gc> = Gc<'gc, LeafData>;
pub type LockGc<'gc> = Gc<'gc, Lock<Option<Any<'gc>>>>;
pub type OnceGc<'gc> = Gc<'gc, OnceLock<Any<'gc>>>;
pub type StructGc<'gc> = Gc<'gc, StructData<'gc>>;

#[derive(Copy, Clone)]
pub enum Any<'gc> {
    Node(NodeGc<'gc>),
    Leaf(LeafGc<'gc>),
    Set(DynamicRootSet<'gc>),
    Lock(LockGc<'gc>),
    Once(OnceGc<'gc>),
    Struct(StructGc<'gc>),
}

#[derive(Copy, Clone)]
pub enum AnyWeak<'gc> {
    Node(GcWeak<'gc, RefLock<NodeData<'gc>>>),
    Leaf(GcWeak<'gc, LeafData>),
    Lock(GcWeak<'gc, Lock<Option<Any<'gc>>>>),
    Once(GcWeak<'gc, OnceLock<Any<'gc>>>),
    Struct(GcWeak<'gc, StructData<'gc>>),
}

unsafe impl<'gc> Collect<'gc> for Any<'gc> {
    fn trace<T: Trace<'gc>>(&self, cc: &mut T) {
        match self {
            Any::Node(g) => cc.trace(g),
            Any::Leaf(g) => cc.trace(g),
            Any::Set(s) => cc.trace(s),
            Any::Lock(g) => cc.trace(g),
            Any::Once(g) => cc.trace(g),
            Any::Struct(g) => cc.trace(g),
        }
    }
}

unsafe impl<'gc> Collect<'gc> for AnyWeak<'gc> {
    fn trace<T: Trace<'gc>>(&self, cc: &mut T) {
        match self {
            AnyWeak::Node(g) => cc.trace(g),
            AnyWeak::Leaf(g) => cc.trace(g),
            AnyWeak::Lock(g) => cc.trace(g),
            AnyWeak::Once(g) => cc.trace(g),
            AnyWeak::Struct(g) => cc.trace(g),
        }
    }
}

impl<'gc> Any<'gc> {
    /// address of the pointed-to value (the collector's identity of the object)
    pub fn addr(&self) -> usize {
        match self {
            Any::Node(g) => Gc::as_ptr(*g) as *const () as usize,
            Any::Leaf(g) => Gc::as_ptr(*g) as *const () as usize,
            // DynamicRootSet is a newtype around a Gc (one pointer); it exposes no accessor
            Any::Set(s) => unsafe { *(s as *const DynamicRootSet<'gc> as *const usize) },
            Any::Lock(g) => Gc::as_ptr(*g) as *const () as usize,
            Any::Once(g) => Gc::as_ptr(*g) as *const () as usize,
            Any::Struct(g) => Gc::as_ptr(*g) as *const () as usize,
        }
    }
    pub fn erase(&self) -> Option<Gc<'gc, ()>> {
        match self {
            Any::Node(g) => Some(Gc::erase(*g)),
            Any::Leaf(g) => Some(Gc::erase(*g)),
            Any::Set(_) => None,
            Any::Lock(g) => Some(Gc::erase(*g)),
            Any::Once(g) => Some(Gc::erase(*g)),
            Any::Struct(g) => Some(Gc::erase(*g)),
        }
    }
    pub fn downgrade(&self) -> Option<AnyWeak<'gc>> {
        match self {
            Any::Node(g) => Some(AnyWeak::Node(Gc::downgrade(*g))),
            Any::Leaf(g) => Some(AnyWeak::Leaf(Gc::downgrade(*g))),
            Any::Set(_) => None,
            Any::Lock(g) => Some(AnyWeak::Lock(Gc::downgrade(*g))),
            Any::Once(g) => Some(AnyWeak::Once(Gc::downgrade(*g))),
            Any::Struct(g) => Some(AnyWeak::Struct(Gc::downgrade(*g))),
        }
    }
}

impl<'gc> AnyWeak<'gc> {
    pub fn addr(&self) -> usize {
        match self {
            AnyWeak::Node(g) => g.as_ptr() as *const () as usize,
            AnyWeak::Leaf(g) => g.as_ptr() as *const () as usize,
            AnyWeak::Lock(g) => g.as_ptr() as *const () as usize,
            AnyWeak::Once(g) => g.as_ptr() as *const () as usize,
            AnyWeak::Struct(g) => g.as_ptr() as *const () as usize,
        }
    }
    pub fn erase(&self) -> GcWeak<'gc, ()> {
        match self {
            AnyWeak::Node(g) => GcWeak::erase(*g),
            AnyWeak::Leaf(g) => GcWeak::erase(*g),
            AnyWeak::Lock(g) => GcWeak::erase(*g),
            AnyWeak::Once(g) => GcWeak::erase(*g),
            AnyWeak::Struct(g) => GcWeak::erase(*g),
        }
    }
    pub fn upgrade(&self, mc: &gc_arena::Mutation<'gc>) -> Option<Any<'gc>> {
        match self {
            AnyWeak::Node(g) => g.upgrade(mc).map(Any::Node),
            AnyWeak::Leaf(g) => g.upgrade(mc).map(Any::Leaf),
            AnyWeak::Lock(g) => g.upgrade(mc).map(Any::Lock),
            AnyWeak::Once(g) => g.upgrade(mc).map(Any::Once),
            AnyWeak::Struct(g) => g.upgrade(mc).map(Any::Struct),
        }
    }
    pub fn is_dropped(&self) -> bool {
        match self {
            AnyWeak::Node(g) => g.is_dropped(),
            AnyWeak::Leaf(g) => g.is_dropped(),
            AnyWeak::Lock(g) => g.is_dropped(),
            AnyWeak::Once(g) => g.is_dropped(),
            AnyWeak::Struct(g) => g.is_dropped(),
        }
    }
    pub fn is_dead(&self, fc: &gc_arena::Finalization<'gc>) -> bool {
        match self {
            AnyWeak::Node(g) => g.is_dead(fc),
            AnyWeak::Leaf(g) => g.is_dead(fc),
            AnyWeak::Lock(g) => g.is_dead(fc),
            AnyWeak::Once(g) => g.is_dead(fc),
            AnyWeak::Struct(g) => g.is_dead(fc),
        }
    }
    pub fn resurrect(&self, fc: &gc_arena::Finalization<'gc>) -> Option<Any<'gc>> {
        match self {
            AnyWeak::Node(g) => g.resurrect(fc).map(Any::Node),
            AnyWeak::Leaf(g) => g.resurrect(fc).map(Any::Leaf),
            AnyWeak::Lock(g) => g.resurrect(fc).map(Any::Lock),
            AnyWeak::Once(g) => g.resurrect(fc).map(Any::Once),
            AnyWeak::Struct(g) => g.resurrect(fc).map(Any::Struct),
        }
    }
}

/// Kind 0: `Gc<RefLock<NodeData>>`, mutated through `Gc<RefLock<_>>::borrow_mut`.
pub struct NodeData<'gc> {
    pub tag: DropTag,
    pub strong: Vec<Option<Any<'gc>>>,
    pub weak: Vec<Option<AnyWeak<'gc>>>,
}

fn trace_slots<'gc, T: Trace<'gc>>(
    cc: &mut T,
    ec: &mut EdgeCounter,
    strong: &[Option<Any<'gc>>],
    weak: &[Option<AnyWeak<'gc>>],
) {
    for s in strong.iter().flatten() {
        ec.tick();
        cc.trace(s);
    }
    for w in weak.iter().flatten() {
        ec.tick();
        cc.trace(w);
    }
}

unsafe impl<'gc> Collect<'gc> for NodeData<'gc> {
    fn trace<T: Trace<'gc>>(&self, cc: &mut T) {
        let mut ec = EdgeCounter::new();
        trace_slots(cc, &mut ec, &self.strong, &self.weak);
        ec.finish();
    }
}

/// Kind 1: a type that needs no tracing (`NEEDS_TRACE = false`) behind a `RefLock`.
/// Deliberately NOT a multiple of 8 bytes and only 4-aligned (size 12, align 4): the block layout
/// `GcBox<LeafData>` then has trailing padding, so a `dealloc` that recomputes a padded or otherwise
/// different layout is seen by the tracking allocator (C04: "exactly the layout it was requested with").
pub struct LeafData {
    pub tag: DropTag,
    pub n: std::cell::Cell<u8>,
}
unsafe impl<'gc> Collect<'gc> for LeafData {
    const NEEDS_TRACE: bool = false;
}

/// Kind 5: a struct whose fields are reached with `Gc::write` + `field!` / `unlock!`.
pub struct StructData<'gc> {
    pub tag: DropTag,
    pub lock: Lock<Option<Any<'gc>>>,
    pub once: OnceLock<Any<'gc>>,
    pub vec: RefLock<Vec<Option<Any<'gc>>>>,
    pub weak: RefLock<Vec<Option<AnyWeak<'gc>>>>,
}

unsafe impl<'gc> Collect<'gc> for StructData<'gc> {
    fn trace<T: Trace<'gc>>(&self, cc: &mut T) {
        let mut ec = EdgeCounter::new();
        if let Some(a) = self.lock.get() {
            ec.tick();
            cc.trace(&a);
        }
        if let Some(a) = self.once.get() {
            ec.tick();
            cc.trace(a);
        }
        trace_slots(cc, &mut ec, &self.vec.borrow(), &self.weak.borrow());
        ec.finish();
    }
}

/// The arena root.
pub struct Root<'gc> {
    pub strong: Vec<Option<Any<'gc>>>,
    pub weak: Vec<Option<AnyWeak<'gc>>>,
}
unsafe impl<'gc> Collect<'gc> for Root<'gc> {
    fn trace<T: Trace<'gc>>(&self, cc: &mut T) {
        let mut ec = EdgeCounter::new();
        trace_slots(cc, &mut ec, &self.strong, &self.weak);
        ec.finish();
    }
}

pub type TheArena = gc_arena::Arena<Rootable![Root<'_>]>;

pub enum AnyHandle {
    Node(DynamicRoot<Rootable![RefLock<NodeData<'_>>]>),
    Leaf(DynamicRoot<Rootable![LeafData]>),
    Lock(DynamicRoot<Rootable![Lock<Option<Any<'_>>>]>),
    Once(DynamicRoot<Rootable![OnceLock<Any<'_>>]>),
    Struct(DynamicRoot<Rootable![StructData<'_>]>),
}

impl Clone for AnyHandle {
    fn clone(&self) -> Self {
        match self {
            AnyHandle::Node(h) => AnyHandle::Node(h.clone()),
            AnyHandle::Leaf(h) => AnyHandle::Leaf(h.clone()),
            AnyHandle::Lock(h) => AnyHandle::Lock(h.clone()),
            AnyHandle::Once(h) => AnyHandle::Once(h.clone()),
            AnyHandle::Struct(h) => AnyHandle::Struct(h.clone()),
        }
    }
}
