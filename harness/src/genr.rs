//! State-directed random generation of op scripts (all randomness from one seeded PRNG).
use crate::ops::*;
use crate::world::{OpSource, View, NARENAS, NHANDLES, NREGS, NROOT};

pub struct Rng(pub u64);
impl Rng {
    pub fn next(&mut self) -> u64 {
        self.0 = self.0.wrapping_add(0x9E37_79B9_7F4A_7C15);
        let mut z = self.0;
        z = (z ^ (z >> 30)).wrapping_mul(0xBF58_476D_1CE4_E5B9);
        z = (z ^ (z >> 27)).wrapping_mul(0x94D0_49BB_1331_11EB);
        z ^ (z >> 31)
    }
    pub fn below(&mut self, n: u64) -> u64 { if n == 0 { 0 } else { self.next() % n } }
    pub fn chance(&mut self, num: u64, den: u64) -> bool { self.below(den) < num }
    pub fn pick<T: Copy>(&mut self, v: &[T]) -> T { v[self.below(v.len() as u64) as usize] }
    pub fn weighted(&mut self, w: &[u32]) -> usize {
        let tot: u64 = w.iter().map(|x| *x as u64).sum();
        let mut r = self.below(tot.max(1));
        for (i, x) in w.iter().enumerate() {
            if r < *x as u64 { return i; }
            r -= *x as u64;
        }
        w.len() - 1
    }
}

#[derive(Clone, Copy, Debug)]
pub struct Profile {
    pub len: usize,          // total number of ops
    pub multi_arena: bool,   // use arenas 1 and 2 as well
    pub faults: bool,        // inject trace panics / callback panics
    pub default_pacing: bool, // leave Pacing::DEFAULT (non-dyadic): only decisions are compared
    pub max_cb: usize,
    pub burst: bool,         // long allocation bursts (pacing workloads)
}

thread_local! {
    /// hit counts of (op class, phase, parent colour, child colour) cells, shared by all scripts of a run
    pub static CELLS: std::cell::RefCell<std::collections::HashMap<(u8, u8, u8, u8), u32>> = std::cell::RefCell::new(std::collections::HashMap::new());
}

pub fn cells_report() -> Vec<String> {
    let names = ["store", "storew", "rawstore", "rawstorew", "barb", "barbw", "barf", "barfw", "stash", "barb-", "barf-", "barfw-", "upgrade", "resurrect"];
    let cols = ["W", "w", "G", "B", "-", "Wn", "wn", "Gn", "Bn", "-n"];
    let mut v: Vec<String> = CELLS.with(|c| c.borrow().iter().map(|((o, p, a, b), n)| format!("{}:ph{}:{}:{}={}", names[*o as usize], p, cols[*a as usize], cols[*b as usize], n)).collect());
    v.sort();
    v
}

pub struct Gen {
    pub rng: Rng,
    pub prof: Profile,
    emitted: usize,
    cb_left: usize,
    cb_kind: Option<CbKind>,
    paced: [bool; NARENAS],
    closing: bool,
    queued: Option<Op>,
    /// pending template ops (inside a callback)
    tpl: std::collections::VecDeque<Op>,
    /// pending flat scenario (top-level and callback ops in order)
    flat: std::collections::VecDeque<Op>,
}

const DYADIC: &[(i64, i64)] = &[(0, 1), (1, 64), (1, 16), (1, 8), (1, 4), (3, 8), (1, 2), (5, 8), (3, 4), (7, 8), (1, 1), (3, 2), (2, 1)];

impl Gen {
    pub fn new(seed: u64, prof: Profile) -> Gen {
        Gen { rng: Rng(seed), prof, emitted: 0, cb_left: 0, cb_kind: None, paced: [false; NARENAS], closing: false, queued: None, tpl: std::collections::VecDeque::new(), flat: std::collections::VecDeque::new() }
    }

    fn pacing(&mut self) -> PacingSpec {
        let r = &mut self.rng;
        let work = |r: &mut Rng| { let (n, d) = r.pick(&DYADIC[..10]); Rat(n, d) };
        let stw = r.chance(1, 8);
        let z = Rat(0, 1);
        PacingSpec {
            sleep: { let (n, d) = r.pick(DYADIC); Rat(n, d) },
            min_sleep: r.pick(&[0u64, 1, 2, 4, 8, 16, 256]),
            mark: if stw { z } else { work(r) },
            trace: if stw { z } else { work(r) },
            keep: if stw { z } else { work(r) },
            drop: if stw { z } else { work(r) },
            free: if stw { z } else { work(r) },
        }
    }

    fn debt_estimate(v: &View, a: usize) -> f64 {
        match v.snaps.get(a).and_then(|s| s.as_ref()) {
            Some(s) => {
                let m = &s.metrics;
                let p = &m.pacing;
                if m.total_gcs == 0 { return 0.0; }
                let deb = m.allocated_gcs as f64 - m.wakeup_amount + m.artificial_debt;
                if deb <= 0.0 { return 0.0; }
                let cred = m.marked_gcs as f64 * p.mark_factor + m.traced_gcs as f64 * p.trace_factor
                    + m.remembered_gcs as f64 * p.keep_factor + m.dropped_gcs as f64 * p.drop_factor
                    + m.freed_gcs as f64 * p.free_factor;
                (deb - cred).max(0.0)
            }
            None => 0.0,
        }
    }

    fn top(&mut self, v: &View) -> Op {
        let live: Vec<u8> = (0..NARENAS as u8).filter(|a| v.arenas[*a as usize]).collect();
        for i in 0..NARENAS { if !v.arenas[i] { self.paced[i] = false; } }
        if !v.arenas[0] {
            return Op::Begin(0, if self.rng.chance(1, 6) { CbKind::TryNew } else { CbKind::New });
        }
        // give each new arena an exact (dyadic) pacing before anything is compared numerically
        if !self.prof.default_pacing {
            for a in live.iter() {
                if !self.paced[*a as usize] {
                    self.paced[*a as usize] = true;
                    return Op::Pacing(*a, self.pacing());
                }
            }
        }
        let a = self.rng.pick(&live);
        let ai = a as usize;
        let have_handles = v.handles.iter().any(|h| h.is_some());
        let free_arena = (1..NARENAS as u8).find(|x| !v.arenas[*x as usize]);
        let w = [
            30u32,                                             // 0 mutate
            12,                                                // 1 mutate_root
            30,                                                // 2 collect
            8,                                                 // 3 finalize
            3,                                                 // 4 start sweeping
            9,                                                 // 5 adjust debt
            2,                                                 // 6 pacing
            2,                                                 // 7 map_root
            1,                                                 // 8 try_map_root
            if have_handles { 5 } else { 0 },                  // 9 handle clone/drop
            if self.prof.multi_arena && free_arena.is_some() { 3 } else { 0 }, // 10 new arena
            if self.prof.multi_arena && a != 0 { 1 } else { 0 }, // 11 drop arena
            4,                                                 // 12 two finish_cycle calls in a row
        ];
        match self.rng.weighted(&w) {
            0 => Op::Begin(a, CbKind::Mutate),
            1 => Op::Begin(a, CbKind::MutRoot),
            2 => {
                let how = self.rng.pick(&[How::CollectDebt, How::CollectDebt, How::MarkDebt, How::MarkDebt, How::FinishMarking, How::CycleDebt, How::CycleDebt, How::FinishCycle]);
                let fault = if self.prof.faults && self.rng.chance(1, 8) {
                    Some((self.rng.below(5) as u32, self.rng.below(4) as u32))
                } else { None };
                Op::Collect(a, how, fault)
            }
            3 => Op::Begin(a, CbKind::Finalize(self.rng.chance(2, 3))),
            4 => Op::StartSweep(a, self.rng.chance(2, 3)),
            5 => {
                let d = Self::debt_estimate(v, ai);
                if d > 2.0 && self.rng.chance(1, 2) {
                    // leave a small positive debt so that the next debt-driven call does little work
                    let keep = self.rng.pick(&[1i64, 1, 2, 3]);
                    Op::Adjust(a, Rat(-((d.floor() as i64) - keep).max(0), 1))
                } else {
                    let (n, dd) = self.rng.pick(&[(1, 2), (1, 1), (2, 1), (5, 1), (16, 1), (1000, 1), (-1, 1), (-3, 2), (-8, 1), (1, 64), (-1, 64)]);
                    Op::Adjust(a, Rat(n, dd))
                }
            }
            6 => if self.prof.default_pacing { Op::Begin(a, CbKind::Mutate) } else { Op::Pacing(a, self.pacing()) },
            7 => Op::Begin(a, CbKind::MapRoot),
            8 => Op::Begin(a, CbKind::TryMapRoot),
            9 => self.handle_op(v),
            10 => { let n = free_arena.unwrap(); self.paced[n as usize] = false; Op::Begin(n, CbKind::New) }
            11 => { self.paced[ai] = false; Op::DropArena(a) }
            _ => { self.queued = Some(Op::Collect(a, How::FinishCycle, None)); Op::Collect(a, How::FinishCycle, None) }
        }
    }

    fn handle_op(&mut self, v: &View) -> Op {
        let full: Vec<u8> = (0..NHANDLES as u8).filter(|h| v.handles[*h as usize].is_some()).collect();
        let free: Vec<u8> = (0..NHANDLES as u8).filter(|h| v.handles[*h as usize].is_none()).collect();
        if !full.is_empty() && !free.is_empty() && self.rng.chance(1, 2) {
            Op::CloneH(self.rng.pick(&free), self.rng.pick(&full))
        } else if !full.is_empty() {
            Op::DropH(self.rng.pick(&full))
        } else {
            Op::DropH(0)
        }
    }

    /// State-directed choice: among all adoption / barrier ops applicable to the current registers,
    /// take one whose (op, phase, parent colour, child colour) cell has been hit least.
    fn directed(&mut self, v: &View, kind: CbKind) -> Option<Op> {
        let ph = v.cb_phase;
        let mut cands: Vec<((u8, u8, u8, u8), Op)> = Vec::new();
        let col = |x: Option<(u8, bool)>| x.map(|c| c.0).unwrap_or(4);
        let free_h: Vec<u8> = (0..NHANDLES as u8).filter(|h| v.handles[*h as usize].is_none()).collect();
        for p in 0..NREGS as u8 {
            let Some((_, pk)) = v.regs[p as usize] else { continue };
            // parents of a non-tracing type get their own cells (colour + 5): barriers must leave them alone
            let pc = col(v.reg_col[p as usize]) + if matches!(v.reg_col[p as usize], Some((_, false))) { 5 } else { 0 };
            cands.push(((9, ph, pc, 4), Op::M(MOp::BarB(p, None))));
            for c in 0..NREGS as u8 {
                let Some((_, ck)) = v.regs[c as usize] else { continue };
                let cc = col(v.reg_col[c as usize]);
                let slot = self.rng.below(3) as u8;
                if pk != Kind::Set { cands.push(((0, ph, pc, cc), Op::M(MOp::Store(p, slot, Some(c))))); }
                if pk == Kind::Node { cands.push(((2, ph, pc, cc), Op::M(MOp::RawStore(p, slot, c)))); }
                if pk != Kind::Set && ck != Kind::Set {
                    cands.push(((4, ph, pc, cc), Op::M(MOp::BarB(p, Some(c)))));
                    cands.push(((6, ph, pc, cc), Op::M(MOp::BarF(Some(p), c))));
                }
                if pk == Kind::Set && ck != Kind::Set && !free_h.is_empty() {
                    cands.push(((8, ph, pc, cc), Op::M(MOp::Stash(free_h[0], p, c))));
                }
            }
            for w in 0..NREGS as u8 {
                if v.wregs[w as usize].is_none() { continue; }
                let wc = col(v.wreg_col[w as usize]);
                let slot = self.rng.below(3) as u8;
                if pk == Kind::Node || pk == Kind::Struct { cands.push(((1, ph, pc, wc), Op::M(MOp::StoreW(p, slot, Some(w))))); }
                if pk == Kind::Node { cands.push(((3, ph, pc, wc), Op::M(MOp::RawStoreW(p, slot, w)))); }
                if pk != Kind::Set {
                    cands.push(((5, ph, pc, wc), Op::M(MOp::BarBW(p, w))));
                    cands.push(((7, ph, pc, wc), Op::M(MOp::BarFW(Some(p), w))));
                }
            }
        }
        for c in 0..NREGS as u8 {
            if let Some((_, ck)) = v.regs[c as usize] {
                if ck != Kind::Set { cands.push(((10, ph, 4, col(v.reg_col[c as usize])), Op::M(MOp::BarF(None, c)))); }
                if matches!(kind, CbKind::Finalize(_)) && ck != Kind::Set {
                    cands.push(((13, ph, 4, col(v.reg_col[c as usize])), Op::M(MOp::Resurrect(c))));
                }
            }
        }
        for w in 0..NREGS as u8 {
            if v.wregs[w as usize].is_some() {
                let wc = col(v.wreg_col[w as usize]);
                cands.push(((11, ph, 4, wc), Op::M(MOp::BarFW(None, w))));
                cands.push(((12, ph, 4, wc), Op::M(MOp::Upgrade(self.rng.below(NREGS as u64) as u8, w))));
                if matches!(kind, CbKind::Finalize(_)) {
                    cands.push(((13, ph, 4, wc), Op::M(MOp::ResurrectW(self.rng.below(NREGS as u64) as u8, w))));
                }
            }
        }
        if cands.is_empty() { return None; }
        let best = CELLS.with(|cl| {
            let cl = cl.borrow();
            // least-hit cell first; among equals prefer the rarely reachable colour combinations
            // (weakly marked child, black or gray parent)
            let score = |k: &(u8, u8, u8, u8)| -> i64 {
                let n = cl.get(k).copied().unwrap_or(0) as i64;
                let rare = (if k.3 == 1 { 4 } else { 0 }) + (if k.2 == 3 { 2 } else { 0 }) + (if k.2 == 2 || k.3 == 2 { 1 } else { 0 }) + (if k.2 == 1 { 3 } else { 0 }) + (if k.2 == 8 { 3 } else { 0 });
                n * 8 - rare
            };
            let min = cands.iter().map(|(k, _)| score(k)).min().unwrap();
            let pool: Vec<usize> = cands.iter().enumerate().filter(|(_, (k, _))| score(k) == min).map(|(i, _)| i).collect();
            pool
        });
        let i = best[self.rng.below(best.len() as u64) as usize];
        let (k, op) = cands[i];
        CELLS.with(|cl| *cl.borrow_mut().entry(k).or_insert(0) += 1);
        Some(op)
    }

    fn micro(&mut self, v: &View, kind: CbKind) -> Op {
        // while a collection cycle is in progress, half of the ops are chosen by coverage
        if v.cb_phase != 0 && self.rng.chance(1, 2) {
            // make sure weak pointers and their upgrades are around to choose from
            let have_w = v.wregs.iter().any(|x| x.is_some());
            if !have_w && self.rng.chance(1, 2) {
                let r = &mut self.rng;
                let full: Vec<u8> = (0..NREGS as u8).filter(|i| v.regs[*i as usize].is_some()).collect();
                return if full.is_empty() || r.chance(1, 2) { Op::M(MOp::LoadRootW(r.below(NREGS as u64) as u8, r.below(NROOT as u64) as u8)) }
                       else { Op::M(MOp::LoadW(r.below(NREGS as u64) as u8, r.pick(&full), r.below(3) as u8)) };
            }
            // a weakly marked object in hand but no fully traced holder to adopt it: fetch one
            let has_w = v.reg_col.iter().any(|c| matches!(c, Some((1, _))));
            let has_b = v.reg_col.iter().any(|c| matches!(c, Some((3, true))));
            if has_w && !has_b && self.rng.chance(2, 3) {
                let r = &mut self.rng;
                let tgt: Vec<u8> = (0..NREGS as u8).filter(|i| !matches!(v.reg_col[*i as usize], Some((1, _)))).collect();
                return Op::M(MOp::LoadRoot(r.pick(&tgt), r.below(NROOT as u64) as u8));
            }
            if let Some(op) = self.directed(v, kind) { return op; }
        }
        let r = &mut self.rng;
        let full: Vec<u8> = (0..NREGS as u8).filter(|i| v.regs[*i as usize].is_some()).collect();
        let wfull: Vec<u8> = (0..NREGS as u8).filter(|i| v.wregs[*i as usize].is_some()).collect();
        let anyr = |r: &mut Rng| r.below(NREGS as u64) as u8;
        let sets: Vec<u8> = full.iter().copied().filter(|i| matches!(v.regs[*i as usize], Some((_, Kind::Set)))).collect();
        let onces: Vec<u8> = full.iter().copied().filter(|i| matches!(v.regs[*i as usize], Some((_, Kind::Once)))).collect();
        let alloc = |r: &mut Rng, burst: bool| {
            let k = if burst { Kind::Node } else {
                [Kind::Node, Kind::Node, Kind::Node, Kind::Node, Kind::Leaf, Kind::Struct, Kind::Lock, Kind::Once, Kind::Set][r.weighted(&[10, 10, 10, 10, 10, 10, 7, 7, 6])]
            };
            // in constructors the low registers become the root
            let reg = if matches!(kind, CbKind::New | CbKind::TryNew | CbKind::MapRoot | CbKind::TryMapRoot) && r.chance(3, 4) { r.below(NROOT as u64) as u8 } else { anyr(r) };
            // a third of the traced allocations are born with contents taken from the registers
            if !burst && matches!(k, Kind::Node | Kind::Struct | Kind::Lock) && !full.is_empty() && r.chance(1, 3) {
                let mut sr = |r: &mut Rng| if r.chance(2, 3) { Some(r.pick(&full)) } else { None };
                let cs = [sr(r), sr(r), sr(r)];
                let mut wr = |r: &mut Rng| if !wfull.is_empty() && r.chance(1, 2) { Some(r.pick(&wfull)) } else { None };
                let ws = [wr(r), wr(r)];
                return Op::M(MOp::AllocW(reg, k, cs, ws));
            }
            Op::M(MOp::Alloc(reg, k, 1 + r.below(3) as u8, r.below(3) as u8))
        };
        if full.is_empty() {
            return if r.chance(3, 5) { Op::M(MOp::LoadRoot(anyr(r), r.below(NROOT as u64) as u8)) } else { alloc(r, false) };
        }
        let fin = matches!(kind, CbKind::Finalize(_));
        let mutroot = kind == CbKind::MutRoot;
        let have_h = v.handles.iter().any(|h| h.is_some());
        let free_h: Vec<u8> = (0..NHANDLES as u8).filter(|h| v.handles[*h as usize].is_none()).collect();
        let w = [
            if self.prof.burst { 60 } else { 15u32 },          // 0 alloc
            8,                                                 // 1 loadroot
            12,                                                // 2 load
            22,                                                // 3 store
            6,                                                 // 4 storew
            6,                                                 // 5 downgrade
            if wfull.is_empty() { 0 } else { 7 },              // 6 upgrade
            if wfull.is_empty() { 0 } else { 3 },              // 7 isdropped
            4,                                                 // 8 loadw
            3,                                                 // 9 loadrootw
            if mutroot { 12 } else { 0 },                      // 10 rootset
            if mutroot { 4 } else { 0 },                       // 11 rootsetw
            9,                                                 // 12 explicit barriers
            5,                                                 // 13 rawstore
            if wfull.is_empty() { 0 } else { 2 },              // 14 rawstorew
            if sets.is_empty() || free_h.is_empty() { 0 } else { 5 }, // 15 stash
            if sets.is_empty() || !have_h { 0 } else { 4 },    // 16 fetch
            if fin { 8 } else { 0 },                           // 17 isdead
            if fin && !wfull.is_empty() { 4 } else { 0 },      // 18 isdeadw
            if fin { 6 } else { 0 },                           // 19 resurrect
            if fin && !wfull.is_empty() { 5 } else { 0 },      // 20 resurrectw
            2,                                                 // 21 move
            2,                                                 // 22 clear
            1,                                                 // 23 ptreq
            if onces.is_empty() { 0 } else { 3 },              // 24 onceinit
            1,                                                 // 25 clearw
        ];
        let pf = |r: &mut Rng| r.pick(&full);
        let slot = |r: &mut Rng| r.below(4) as u8;
        match r.weighted(&w) {
            0 => alloc(r, self.prof.burst),
            1 => Op::M(MOp::LoadRoot(anyr(r), r.below(NROOT as u64) as u8)),
            2 => Op::M(MOp::Load(anyr(r), pf(r), slot(r))),
            3 => Op::M(MOp::Store(pf(r), slot(r), if r.chance(1, 7) { None } else { Some(pf(r)) })),
            4 => Op::M(MOp::StoreW(pf(r), r.below(3) as u8, if wfull.is_empty() || r.chance(1, 7) { None } else { Some(r.pick(&wfull)) })),
            5 => Op::M(MOp::Downgrade(anyr(r), pf(r))),
            6 => Op::M(MOp::Upgrade(anyr(r), r.pick(&wfull))),
            7 => Op::M(MOp::IsDropped(r.pick(&wfull))),
            8 => Op::M(MOp::LoadW(anyr(r), pf(r), r.below(3) as u8)),
            9 => Op::M(MOp::LoadRootW(anyr(r), r.below(NROOT as u64) as u8)),
            10 => Op::M(MOp::RootSet(r.below(NROOT as u64) as u8, if r.chance(1, 6) { None } else { Some(pf(r)) })),
            11 => Op::M(MOp::RootSetW(r.below(NROOT as u64) as u8, if wfull.is_empty() || r.chance(1, 6) { None } else { Some(r.pick(&wfull)) })),
            12 => match r.below(6) {
                0 => Op::M(MOp::BarB(pf(r), None)),
                1 => Op::M(MOp::BarB(pf(r), Some(pf(r)))),
                2 => Op::M(MOp::BarF(None, pf(r))),
                3 => Op::M(MOp::BarF(Some(pf(r)), pf(r))),
                4 => if wfull.is_empty() { Op::M(MOp::BarB(pf(r), None)) } else { Op::M(MOp::BarBW(pf(r), r.pick(&wfull))) },
                _ => if wfull.is_empty() { Op::M(MOp::BarF(None, pf(r))) } else { Op::M(MOp::BarFW(if r.chance(1, 2) { None } else { Some(pf(r)) }, r.pick(&wfull))) },
            },
            13 => Op::M(MOp::RawStore(pf(r), slot(r), pf(r))),
            14 => Op::M(MOp::RawStoreW(pf(r), r.below(3) as u8, r.pick(&wfull))),
            15 => Op::M(MOp::Stash(r.pick(&free_h), r.pick(&sets), pf(r))),
            16 => Op::M(MOp::Fetch(anyr(r), r.pick(&sets), r.below(NHANDLES as u64) as u8)),
            17 => Op::M(MOp::IsDead(pf(r))),
            18 => Op::M(MOp::IsDeadW(r.pick(&wfull))),
            19 => Op::M(MOp::Resurrect(pf(r))),
            20 => Op::M(MOp::ResurrectW(anyr(r), r.pick(&wfull))),
            21 => Op::M(MOp::Move(anyr(r), pf(r))),
            22 => Op::M(MOp::Clear(pf(r))),
            23 => Op::M(MOp::PtrEq(pf(r), pf(r))),
            24 => Op::M(MOp::OnceInit(r.pick(&onces), pf(r))),
            _ => Op::M(MOp::ClearW(anyr(r))),
        }
    }
}

impl OpSource for Gen {
    fn next(&mut self, v: &View) -> Option<Op> {
        self.emitted += 1;
        if let Some(op) = self.flat.pop_front() {
            if matches!(op, Op::End | Op::EndErr | Op::Panic) { self.cb_kind = None; self.tpl.clear(); }
            return Some(op);
        }
        // scenario: a handle that outlives its arena is presented to a fresh arena whose allocator
        // and slot table look the same (stale / foreign handle must be refused)
        if v.in_cb.is_none() && self.prof.multi_arena && self.emitted < self.prof.len && self.rng.chance(1, 40) {
            let free_arena = (1..NARENAS as u8).find(|x| !v.arenas[*x as usize]);
            let free_h: Vec<u8> = (0..NHANDLES as u8).filter(|h| v.handles[*h as usize].is_none()).collect();
            if let (Some(b), true) = (free_arena, free_h.len() >= 2) {
                let (h1, h2) = (free_h[0], free_h[1]);
                let k = self.rng.pick(&[Kind::Node, Kind::Leaf, Kind::Struct]);
                let seq = [
                    Op::Begin(b, CbKind::New), Op::M(MOp::Alloc(0, Kind::Set, 0, 0)), Op::M(MOp::Alloc(1, k, 1, 0)),
                    Op::M(MOp::Stash(h1, 0, 1)), Op::End,
                    Op::DropArena(b),
                    Op::Begin(b, CbKind::New), Op::M(MOp::Alloc(0, Kind::Set, 0, 0)), Op::M(MOp::Alloc(1, k, 1, 0)),
                    Op::M(MOp::Stash(h2, 0, 1)), Op::M(MOp::Fetch(2, 0, h1)), Op::M(MOp::Fetch(3, 0, h2)), Op::End,
                    Op::Begin(0, CbKind::Mutate), Op::M(MOp::LoadRoot(0, 0)), Op::M(MOp::Fetch(1, 0, h1)), Op::M(MOp::Fetch(1, 0, h2)), Op::End,
                    Op::Collect(b, How::FinishCycle, None),
                    Op::Begin(b, CbKind::Mutate), Op::M(MOp::LoadRoot(0, 0)), Op::M(MOp::Fetch(1, 0, h2)), Op::M(MOp::Fetch(2, 0, h1)), Op::End,
                    Op::DropH(h1),
                ];
                self.paced[b as usize] = false;
                self.flat.extend(seq.iter().copied());
                return self.flat.pop_front();
            }
        }
        // scenario: the adoption matrix. Build, while the collector sleeps, a holder P (kept by the root) that
        // refers only WEAKLY to X, which owns a private child Y; mark the arena completely (P black, X weakly
        // marked, Y white); upgrade X and let P adopt it through one of the documented paths; finish the cycle
        // twice; read X and Y back through P.
        if v.in_cb.is_none() && self.emitted < self.prof.len && self.rng.chance(1, 14) {
            let alive: Vec<u8> = (0..NARENAS as u8).filter(|x| v.arenas[*x as usize]).collect();
            let free_h: Vec<u8> = (0..NHANDLES as u8).filter(|h| v.handles[*h as usize].is_none()).collect();
            if !alive.is_empty() {
                let a = self.rng.pick(&alive);
                let rs = self.rng.below(NROOT as u64) as u8;
                let kx = self.rng.pick(&[Kind::Node, Kind::Node, Kind::Struct, Kind::Lock]);
                let ky = self.rng.pick(&[Kind::Leaf, Kind::Node, Kind::Struct]);
                let pk = self.rng.pick(&[Kind::Node, Kind::Node, Kind::Struct]);
                let mut seq = vec![
                    Op::Collect(a, How::FinishCycle, None),
                    Op::Begin(a, CbKind::MutRoot),
                    Op::M(MOp::Alloc(0, pk, 2, 1)), Op::M(MOp::RootSet(rs, Some(0))),
                    Op::M(MOp::Alloc(1, kx, 1, 0)), Op::M(MOp::Alloc(2, ky, 1, 0)), Op::M(MOp::Store(1, 0, Some(2))),
                    Op::M(MOp::Downgrade(0, 1)), Op::M(MOp::StoreW(0, 0, Some(0))),
                    Op::End,
                ];
                // marking: completely, or in increments that stop somewhere in the middle
                match self.rng.below(3) {
                    0 => seq.push(Op::Collect(a, How::FinishMarking, None)),
                    1 => { seq.push(Op::Adjust(a, Rat(3, 1))); seq.push(Op::Collect(a, How::MarkDebt, None)); seq.push(Op::Collect(a, How::FinishMarking, None)); }
                    _ => { seq.push(Op::Adjust(a, Rat(1000, 1))); seq.push(Op::Collect(a, How::MarkDebt, None)); }
                }
                seq.extend([Op::Begin(a, CbKind::Mutate), Op::M(MOp::LoadRoot(0, rs)), Op::M(MOp::LoadW(1, 0, 0)), Op::M(MOp::Upgrade(2, 1))]);
                let variant = self.rng.below(7);
                match variant {
                    0 => seq.push(Op::M(MOp::Store(0, 1, Some(2)))),
                    1 => { seq.push(Op::M(MOp::BarB(0, Some(2)))); seq.push(Op::M(MOp::RawStore(0, 1, 2))); }
                    2 => { seq.push(Op::M(MOp::BarB(0, None))); seq.push(Op::M(MOp::RawStore(0, 1, 2))); }
                    3 => { seq.push(Op::M(MOp::BarF(Some(0), 2))); seq.push(Op::M(MOp::RawStore(0, 1, 2))); }
                    4 => { seq.push(Op::M(MOp::BarF(None, 2))); seq.push(Op::M(MOp::RawStore(0, 1, 2))); }
                    5 if !free_h.is_empty() => {
                        // through a DynamicRootSet held by P
                        seq.push(Op::M(MOp::Alloc(3, Kind::Set, 0, 0)));
                        seq.push(Op::M(MOp::Store(0, 1, Some(3))));
                        seq.push(Op::M(MOp::Stash(free_h[0], 3, 2)));
                    }
                    _ => { seq.push(Op::M(MOp::Store(0, 0, Some(2)))); }
                }
                seq.push(Op::End);
                seq.extend([
                    Op::Collect(a, How::FinishCycle, None), Op::Collect(a, How::FinishCycle, None),
                    Op::Begin(a, CbKind::Mutate), Op::M(MOp::LoadRoot(0, rs)), Op::M(MOp::Load(1, 0, 1)), Op::M(MOp::Load(2, 1, 0)),
                    Op::M(MOp::Load(3, 0, 0)), Op::M(MOp::Load(4, 3, 0)), Op::End,
                ]);
                self.flat.extend(seq.iter().copied());
                return self.flat.pop_front();
            }
        }
        // scenario: barriers while sweeping. With the arena in the Sweep phase and a marked, not yet swept holder
        // P, every barrier kind is issued on (P, fresh object): all of them must be no-ops; the fresh object is
        // then dropped from all registers and must be reclaimed by two full cycles
        if v.in_cb.is_none() && self.emitted < self.prof.len && self.rng.chance(1, 22) {
            let alive: Vec<u8> = (0..NARENAS as u8).filter(|x| v.arenas[*x as usize]).collect();
            if !alive.is_empty() {
                let a = self.rng.pick(&alive);
                let rs = self.rng.below(NROOT as u64) as u8;
                let mut seq = vec![
                    Op::Collect(a, How::FinishCycle, None),
                    Op::Begin(a, CbKind::MutRoot),
                    Op::M(MOp::Alloc(0, Kind::Node, 2, 1)), Op::M(MOp::RootSet(rs, Some(0))), Op::End,
                    Op::StartSweep(a, true),
                    Op::Begin(a, CbKind::Mutate), Op::M(MOp::LoadRoot(0, rs)),
                    Op::M(MOp::Alloc(2, self.rng.pick(&[Kind::Node, Kind::Leaf, Kind::Struct]), 1, 0)), Op::M(MOp::Downgrade(3, 2)),
                ];
                match self.rng.below(6) {
                    0 => seq.push(Op::M(MOp::BarF(Some(0), 2))),
                    1 => seq.push(Op::M(MOp::BarF(None, 2))),
                    2 => seq.push(Op::M(MOp::BarB(0, Some(2)))),
                    3 => seq.push(Op::M(MOp::BarFW(Some(0), 3))),
                    4 => seq.push(Op::M(MOp::BarFW(None, 3))),
                    _ => seq.push(Op::M(MOp::BarBW(0, 3))),
                }
                seq.extend([Op::End, Op::Collect(a, How::FinishCycle, None), Op::Collect(a, How::FinishCycle, None)]);
                self.flat.extend(seq.iter().copied());
                return self.flat.pop_front();
            }
        }
        // scenario: finalization without mutation. Finish the running cycle, mark atomically, and in the
        // finalize callback probe -- with non-mutating operations only -- the weakly held objects of the root,
        // their children and weak pointers found INSIDE dead objects or freshly made from dead strong pointers:
        // is_dead must be true exactly for what the root does not reach
        if v.in_cb.is_none() && self.emitted < self.prof.len && self.rng.chance(1, 25) {
            let alive: Vec<u8> = (0..NARENAS as u8).filter(|x| v.arenas[*x as usize]).collect();
            if !alive.is_empty() {
                let a = self.rng.pick(&alive);
                // while the collector sleeps, hang a fresh two-object structure from a weak root slot:
                // root ~~> X --strong--> Y, X ~~> Y; nothing reaches X or Y strongly
                let ws = self.rng.below(NROOT as u64) as u8;
                let mut seq = vec![
                    Op::Collect(a, How::FinishCycle, None),
                    Op::Begin(a, CbKind::MutRoot),
                    Op::M(MOp::Alloc(1, Kind::Node, 1, 1)), Op::M(MOp::Alloc(2, self.rng.pick(&[Kind::Leaf, Kind::Node, Kind::Struct]), 1, 0)),
                    Op::M(MOp::Downgrade(0, 2)), Op::M(MOp::StoreW(1, 0, Some(0))), Op::M(MOp::Store(1, 0, Some(2))),
                    Op::M(MOp::Downgrade(3, 1)), Op::M(MOp::RootSetW(ws, Some(3))), Op::End,
                    Op::Begin(a, CbKind::Finalize(true)),
                ];
                for i in 0..NROOT as u8 {
                    seq.extend([
                        Op::M(MOp::LoadRootW(0, i)), Op::M(MOp::IsDeadW(0)), Op::M(MOp::Upgrade(1, 0)),
                        Op::M(MOp::LoadW(2, 1, 0)), Op::M(MOp::IsDeadW(2)),
                        Op::M(MOp::Load(3, 1, 0)), Op::M(MOp::IsDead(3)), Op::M(MOp::Downgrade(4, 3)), Op::M(MOp::IsDeadW(4)),
                        Op::M(MOp::LoadRoot(5, i)), Op::M(MOp::IsDead(5)),
                    ]);
                }
                seq.push(Op::End);
                seq.push(Op::Collect(a, How::FinishCycle, None));
                self.flat.extend(seq.iter().copied());
                return self.flat.pop_front();
            }
        }
        // scenario: a handle of a LIVE arena is presented to a set of another live arena (must be refused by
        // contains / try_fetch / fetch alike), then both arenas are collected and the handle is dropped
        if v.in_cb.is_none() && self.prof.multi_arena && self.emitted < self.prof.len && v.arenas[0] && self.rng.chance(1, 40) {
            let free_arena = (1..NARENAS as u8).find(|x| !v.arenas[*x as usize]);
            let free_h: Vec<u8> = (0..NHANDLES as u8).filter(|h| v.handles[*h as usize].is_none()).collect();
            if let (Some(b), true) = (free_arena, !free_h.is_empty()) {
                let h1 = free_h[0];
                let k = self.rng.pick(&[Kind::Node, Kind::Leaf, Kind::Struct]);
                let seq = [
                    Op::Begin(b, CbKind::New), Op::M(MOp::Alloc(0, Kind::Set, 0, 0)), Op::M(MOp::Alloc(1, k, 1, 0)),
                    Op::M(MOp::Stash(h1, 0, 1)), Op::End,
                    Op::Begin(0, CbKind::Mutate), Op::M(MOp::Alloc(0, Kind::Set, 0, 0)), Op::M(MOp::Fetch(1, 0, h1)),
                    Op::M(MOp::Alloc(2, k, 1, 0)), Op::M(MOp::Fetch(3, 0, h1)), Op::End,
                    Op::Collect(0, How::FinishCycle, None), Op::Collect(b, How::FinishMarking, None),
                    Op::Begin(b, CbKind::Mutate), Op::M(MOp::LoadRoot(0, 0)), Op::M(MOp::Fetch(1, 0, h1)), Op::End,
                    Op::DropH(h1),
                    Op::Collect(b, How::FinishCycle, None), Op::Collect(b, How::FinishCycle, None), Op::Collect(0, How::FinishCycle, None),
                ];
                self.paced[b as usize] = false;
                self.flat.extend(seq.iter().copied());
                return self.flat.pop_front();
            }
        }
        // scenario: slot reuse. A slot freed by dropping its last handle is taken by a new stash; the new
        // handle is cloned, one of the two is dropped, the arena is collected twice: the survivor must still
        // resolve to the second object (and a third stash must not disturb it)
        if v.in_cb.is_none() && self.prof.multi_arena && self.emitted < self.prof.len && self.rng.chance(1, 40) {
            let free_arena = (1..NARENAS as u8).find(|x| !v.arenas[*x as usize]);
            let free_h: Vec<u8> = (0..NHANDLES as u8).filter(|h| v.handles[*h as usize].is_none()).collect();
            if let (Some(b), true) = (free_arena, free_h.len() >= 3) {
                let (h1, h2, h3) = (free_h[0], free_h[1], free_h[2]);
                let k = self.rng.pick(&[Kind::Node, Kind::Leaf, Kind::Struct]);
                let mut seq = vec![
                    Op::Begin(b, CbKind::New), Op::M(MOp::Alloc(0, Kind::Set, 0, 0)), Op::M(MOp::Alloc(1, k, 1, 0)),
                    Op::M(MOp::Stash(h1, 0, 1)), Op::End,
                    Op::DropH(h1),
                    Op::Begin(b, CbKind::Mutate), Op::M(MOp::LoadRoot(0, 0)), Op::M(MOp::Alloc(1, k, 1, 0)),
                    Op::M(MOp::Stash(h2, 0, 1)), Op::End,
                    Op::CloneH(h3, h2),
                ];
                if self.rng.chance(1, 2) {
                    seq.extend([Op::DropH(h2), Op::Collect(b, How::FinishCycle, None), Op::Collect(b, How::FinishCycle, None),
                        Op::Begin(b, CbKind::Mutate), Op::M(MOp::LoadRoot(0, 0)), Op::M(MOp::Fetch(1, 0, h3)), Op::End, Op::DropH(h3)]);
                } else {
                    seq.extend([Op::DropH(h3),
                        Op::Begin(b, CbKind::Mutate), Op::M(MOp::LoadRoot(0, 0)), Op::M(MOp::Alloc(1, k, 1, 0)), Op::M(MOp::Stash(h1, 0, 1)), Op::End,
                        Op::Collect(b, How::FinishCycle, None), Op::Collect(b, How::FinishCycle, None),
                        Op::Begin(b, CbKind::Mutate), Op::M(MOp::LoadRoot(0, 0)), Op::M(MOp::Fetch(1, 0, h2)), Op::M(MOp::Fetch(2, 0, h1)), Op::End,
                        Op::DropH(h2), Op::Collect(b, How::FinishCycle, None), Op::Collect(b, How::FinishCycle, None),
                        Op::Begin(b, CbKind::Mutate), Op::M(MOp::LoadRoot(0, 0)), Op::M(MOp::Fetch(2, 0, h1)), Op::End]);
                }
                self.paced[b as usize] = false;
                self.flat.extend(seq.iter().copied());
                return self.flat.pop_front();
            }
        }
        match v.in_cb {
            Some((a, kind, entered)) => {
                if self.cb_kind.is_none() {
                    self.cb_kind = Some(kind);
                    self.cb_left = 1 + self.rng.below(self.prof.max_cb as u64) as usize;
                    if self.prof.burst && self.rng.chance(1, 3) { self.cb_left *= 6; }
                }
                let over = self.emitted >= self.prof.len;
                if self.cb_left == 0 || over || !entered {
                    self.cb_kind = None;
                    self.tpl.clear();
                    if self.prof.faults && self.rng.chance(1, 30) { return Some(Op::Panic); }
                    if matches!(kind, CbKind::TryNew | CbKind::TryMapRoot) && self.rng.chance(1, 5) { return Some(Op::EndErr); }
                    return Some(Op::End);
                }
                self.cb_left -= 1;
                if let Some(t) = self.tpl.pop_front() { return Some(t); }
                // fully marked arena: reachable holders are black, weak-only targets are weakly marked;
                // bring one of each into registers and let the coverage-directed choice combine them
                let marked = v.snaps.get(a as usize).and_then(|s| s.as_ref())
                    .map(|s| s.phase == 1 && s.gray.is_empty() && s.gray_again.is_empty() && !s.root_needs_trace).unwrap_or(false);
                if marked && self.rng.chance(1, 3) {
                    let r = &mut self.rng;
                    let (r0, r1, w0) = (r.below(2) as u8, 2 + r.below(2) as u8, r.below(NREGS as u64) as u8);
                    let slot = r.below(NROOT as u64) as u8;
                    if r.chance(1, 2) {
                        self.tpl.push_back(Op::M(MOp::LoadW(w0, r0, r.below(2) as u8)));
                    } else {
                        self.tpl.push_back(Op::M(MOp::LoadRootW(w0, r.below(NROOT as u64) as u8)));
                    }
                    self.tpl.push_back(Op::M(MOp::Upgrade(r1, w0)));
                    // ... and half of the time adopt the upgraded (possibly only weakly marked) object by the
                    // black holder right away, under a pair barrier or through the store API
                    if r.chance(1, 2) {
                        if r.chance(1, 2) {
                            self.tpl.push_back(Op::M(MOp::BarB(r0, Some(r1))));
                            self.tpl.push_back(Op::M(MOp::RawStore(r0, r.below(2) as u8, r1)));
                        } else {
                            self.tpl.push_back(Op::M(MOp::Store(r0, r.below(2) as u8, Some(r1))));
                        }
                        self.cb_left += 2;
                    }
                    self.cb_left += 4;
                    return Some(Op::M(MOp::LoadRoot(r0, slot)));
                }
                // fully marked arena: a black holder adopts a fresh (white) object under each of the documented
                // licences: child-only forward barrier, parent-only backward barrier, pair barriers
                if marked && !matches!(kind, CbKind::Finalize(_)) && self.rng.chance(1, 4) {
                    let r = &mut self.rng;
                    let (r0, rx) = (r.below(2) as u8, 2 + r.below(3) as u8);
                    let slot = r.below(NROOT as u64) as u8;
                    let s = r.below(2) as u8;
                    self.tpl.push_back(Op::M(MOp::Alloc(rx, r.pick(&[Kind::Node, Kind::Leaf, Kind::Struct]), 1, 1)));
                    match r.below(4) {
                        0 => self.tpl.push_back(Op::M(MOp::BarF(None, rx))),
                        1 => self.tpl.push_back(Op::M(MOp::BarB(r0, None))),
                        2 => self.tpl.push_back(Op::M(MOp::BarF(Some(r0), rx))),
                        _ => self.tpl.push_back(Op::M(MOp::BarB(r0, Some(rx)))),
                    }
                    self.tpl.push_back(Op::M(MOp::RawStore(r0, s, rx)));
                    self.tpl.push_back(Op::M(MOp::Clear(rx)));
                    self.cb_left += 5;
                    return Some(Op::M(MOp::LoadRoot(r0, slot)));
                }
                // templates that build the rarely reached shapes: objects that are only weakly
                // referenced from reachable holders (they become WhiteWeak during the next marking)
                if v.cb_phase == 0 && !matches!(kind, CbKind::Finalize(_)) && self.rng.chance(1, 6) {
                    let r = &mut self.rng;
                    let (rp, rx, w) = (r.below(2) as u8, 2 + r.below(2) as u8, r.below(NREGS as u64) as u8);
                    let k = r.pick(&[Kind::Node, Kind::Node, Kind::Struct, Kind::Leaf, Kind::Lock]);
                    self.tpl.push_back(Op::M(MOp::Alloc(rx, k, 2, 1)));
                    // half of the weakly held objects own a child that nothing else reaches: when such an object
                    // becomes strongly reachable again (upgrade + store) its child must be traced through it
                    if k != Kind::Leaf && r.chance(1, 2) {
                        let ry = 4 + r.below(2) as u8;
                        self.tpl.push_back(Op::M(MOp::Alloc(ry, r.pick(&[Kind::Node, Kind::Leaf, Kind::Struct]), 1, 0)));
                        self.tpl.push_back(Op::M(MOp::Store(rx, 0, Some(ry))));
                        self.tpl.push_back(Op::M(MOp::Clear(ry)));
                        self.cb_left += 3;
                    }
                    self.tpl.push_back(Op::M(MOp::Downgrade(w, rx)));
                    if kind == CbKind::MutRoot && r.chance(1, 2) {
                        self.tpl.push_back(Op::M(MOp::RootSetW(r.below(NROOT as u64) as u8, Some(w))));
                    } else {
                        self.tpl.push_back(Op::M(MOp::StoreW(rp, r.below(2) as u8, Some(w))));
                    }
                    self.tpl.push_back(Op::M(MOp::Clear(rx)));
                    self.cb_left += 4;
                    return Some(Op::M(MOp::LoadRoot(rp, r.below(NROOT as u64) as u8)));
                }
                // template: while a cycle is in progress, a wrapper is BORN AROUND a fresh (white) child -- and possibly
                // around an object already in hand -- and is then adopted by a holder loaded from the root
                if v.cb_phase != 0 && !matches!(kind, CbKind::Finalize(_)) && self.rng.chance(1, 8) {
                    let r = &mut self.rng;
                    let (r0, rx, ry) = (r.below(2) as u8, 2 + r.below(2) as u8, 4 + r.below(2) as u8);
                    let slot = r.below(NROOT as u64) as u8;
                    self.tpl.push_back(Op::M(MOp::Alloc(ry, r.pick(&[Kind::Node, Kind::Leaf, Kind::Struct]), 1, 0)));
                    let wk = r.pick(&[Kind::Node, Kind::Node, Kind::Struct, Kind::Lock]);
                    let cs = match r.below(3) { 0 => [Some(ry), None, None], 1 => [Some(ry), None, Some(r0)], _ => [None, None, Some(ry)] };
                    let cs = if wk == Kind::Lock { [Some(ry), None, None] } else { cs };
                    self.tpl.push_back(Op::M(MOp::AllocW(rx, wk, cs, [None, None])));
                    self.tpl.push_back(Op::M(MOp::Clear(ry)));
                    self.tpl.push_back(Op::M(MOp::Store(r0, r.below(2) as u8, Some(rx))));
                    self.tpl.push_back(Op::M(MOp::Clear(rx)));
                    self.cb_left += 6;
                    return Some(Op::M(MOp::LoadRoot(r0, slot)));
                }
                // template: a fully marked object of a NON-tracing type used as barrier parent of a fresh
                // (white) object, strongly and weakly: barriers must not re-queue it (it was never counted
                // as traced; F1 and its weak twin)
                if v.cb_phase == 1 && !matches!(kind, CbKind::Finalize(_)) && self.rng.chance(1, 10) {
                    let r = &mut self.rng;
                    let (rl, rx, w) = (r.below(2) as u8, 2 + r.below(2) as u8, r.below(NREGS as u64) as u8);
                    self.tpl.push_back(Op::M(MOp::BarF(None, rl)));
                    self.tpl.push_back(Op::M(MOp::Alloc(rx, r.pick(&[Kind::Node, Kind::Struct, Kind::Leaf]), 1, 1)));
                    self.tpl.push_back(Op::M(MOp::Downgrade(w, rx)));
                    if r.chance(1, 2) {
                        self.tpl.push_back(Op::M(MOp::BarBW(rl, w)));
                        self.tpl.push_back(Op::M(MOp::BarB(rl, Some(rx))));
                    } else {
                        self.tpl.push_back(Op::M(MOp::BarB(rl, Some(rx))));
                        self.tpl.push_back(Op::M(MOp::BarBW(rl, w)));
                    }
                    self.tpl.push_back(Op::M(MOp::BarB(rl, None)));
                    self.cb_left += 6;
                    return Some(Op::M(MOp::Alloc(rl, Kind::Leaf, 1, 0)));
                }
                // occasionally poke metrics from inside the callback
                if self.rng.chance(1, 60) { return Some(Op::Adjust(a, Rat(1, 2))); }
                if !v.handles.iter().all(|h| h.is_none()) && self.rng.chance(1, 50) { return Some(self.handle_op(v)); }
                Some(self.micro(v, kind))
            }
            None => {
                if let Some(q) = self.queued.take() { return Some(q); }
                if self.emitted >= self.prof.len {
                    // wind down: finish with two full cycles and drop every arena
                    if !self.closing { self.closing = true; }
                    for a in 0..NARENAS as u8 {
                        if v.arenas[a as usize] { return Some(Op::DropArena(a)); }
                    }
                    return None;
                }
                Some(self.top(v))
            }
        }
    }
}
