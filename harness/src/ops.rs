//! The op language (same text format as the OCaml driver parses).
#[derive(Copy, Clone, Debug, PartialEq, Eq, Hash)]
pub enum Kind { Node, Leaf, Set, Lock, Once, Struct }

#[derive(Copy, Clone, Debug, PartialEq, Eq, Hash)]
pub enum CbKind { New, TryNew, Mutate, MutRoot, MapRoot, TryMapRoot, Finalize(bool) }

#[derive(Copy, Clone, Debug, PartialEq, Eq, Hash)]
pub enum How { CollectDebt, MarkDebt, FinishMarking, CycleDebt, FinishCycle }

/// exact rational num/den (den > 0)
#[derive(Copy, Clone, Debug, PartialEq, Eq, Hash)]
pub struct Rat(pub i64, pub i64);
impl Rat {
    pub fn f64(self) -> f64 { self.0 as f64 / self.1 as f64 }
    pub fn text(self) -> String { if self.1 == 1 { format!("{}", self.0) } else { format!("{}/{}", self.0, self.1) } }
    pub fn parse(s: &str) -> Rat {
        match s.split_once('/') {
            Some((n, d)) => Rat(n.parse().unwrap(), d.parse().unwrap()),
            None => Rat(s.parse().unwrap(), 1),
        }
    }
}

#[derive(Copy, Clone, Debug, PartialEq, Eq, Hash)]
pub struct PacingSpec { pub sleep: Rat, pub min_sleep: u64, pub mark: Rat, pub trace: Rat, pub keep: Rat, pub drop: Rat, pub free: Rat }

#[derive(Copy, Clone, Debug, PartialEq, Eq, Hash)]
pub enum MOp {
    Alloc(u8, Kind, u8, u8),
    LoadRoot(u8, u8), LoadRootW(u8, u8), Load(u8, u8, u8), LoadW(u8, u8, u8),
    Store(u8, u8, Option<u8>), StoreW(u8, u8, Option<u8>), OnceInit(u8, u8),
    RootSet(u8, Option<u8>), RootSetW(u8, Option<u8>),
    Downgrade(u8, u8), Upgrade(u8, u8), IsDropped(u8),
    BarB(u8, Option<u8>), BarBW(u8, u8), BarF(Option<u8>, u8), BarFW(Option<u8>, u8),
    RawStore(u8, u8, u8), RawStoreW(u8, u8, u8),
    Stash(u8, u8, u8), Fetch(u8, u8, u8),
    IsDead(u8), IsDeadW(u8), Resurrect(u8), ResurrectW(u8, u8),
    Move(u8, u8), Clear(u8), ClearW(u8), PtrEq(u8, u8),
    /// Gc::new of a value that already holds pointers: (dest reg, kind, strong regs, weak regs)
    AllocW(u8, Kind, [Option<u8>; 3], [Option<u8>; 2]),
}

#[derive(Copy, Clone, Debug, PartialEq, Eq, Hash)]
pub enum Op {
    Begin(u8, CbKind),
    M(MOp),
    End, EndErr, Panic,
    Collect(u8, How, Option<(u32, u32)>),
    StartSweep(u8, bool),
    DropArena(u8),
    Adjust(u8, Rat),
    Pacing(u8, PacingSpec),
    CloneH(u8, u8), DropH(u8),
}

fn o(x: Option<u8>) -> String { match x { Some(v) => v.to_string(), None => "-".into() } }
fn po(s: &str) -> Option<u8> { if s == "-" { None } else { Some(s.parse().unwrap()) } }

impl Kind {
    pub fn text(self) -> &'static str {
        match self { Kind::Node => "node", Kind::Leaf => "leaf", Kind::Set => "set", Kind::Lock => "lock", Kind::Once => "once", Kind::Struct => "struct" }
    }
    pub fn parse(s: &str) -> Kind {
        match s { "node" => Kind::Node, "leaf" => Kind::Leaf, "set" => Kind::Set, "lock" => Kind::Lock, "once" => Kind::Once, "struct" => Kind::Struct, _ => panic!("bad kind {s}") }
    }
}
impl CbKind {
    pub fn text(self) -> &'static str {
        match self { CbKind::New => "new", CbKind::TryNew => "trynew", CbKind::Mutate => "mutate", CbKind::MutRoot => "mutroot", CbKind::MapRoot => "maproot", CbKind::TryMapRoot => "trymaproot", CbKind::Finalize(false) => "finalize0", CbKind::Finalize(true) => "finalize1" }
    }
    pub fn parse(s: &str) -> CbKind {
        match s { "new" => CbKind::New, "trynew" => CbKind::TryNew, "mutate" => CbKind::Mutate, "mutroot" => CbKind::MutRoot, "maproot" => CbKind::MapRoot, "trymaproot" => CbKind::TryMapRoot, "finalize0" => CbKind::Finalize(false), "finalize1" => CbKind::Finalize(true), _ => panic!("bad cbkind {s}") }
    }
}
impl How {
    pub fn text(self) -> &'static str {
        match self { How::CollectDebt => "cd", How::MarkDebt => "md", How::FinishMarking => "fm", How::CycleDebt => "cyd", How::FinishCycle => "fc" }
    }
    pub fn parse(s: &str) -> How {
        match s { "cd" => How::CollectDebt, "md" => How::MarkDebt, "fm" => How::FinishMarking, "cyd" => How::CycleDebt, "fc" => How::FinishCycle, _ => panic!("bad how {s}") }
    }
}

impl MOp {
    pub fn text(self) -> String {
        use MOp::*;
        match self {
            Alloc(r, k, ns, nw) => format!("alloc {r} {} {ns} {nw}", k.text()),
            LoadRoot(r, i) => format!("loadroot {r} {i}"),
            LoadRootW(w, i) => format!("loadrootw {w} {i}"),
            Load(r, p, i) => format!("load {r} {p} {i}"),
            LoadW(w, p, i) => format!("loadw {w} {p} {i}"),
            Store(p, i, c) => format!("store {p} {i} {}", o(c)),
            StoreW(p, i, w) => format!("storew {p} {i} {}", o(w)),
            OnceInit(p, c) => format!("onceinit {p} {c}"),
            RootSet(i, c) => format!("rootset {i} {}", o(c)),
            RootSetW(i, w) => format!("rootsetw {i} {}", o(w)),
            Downgrade(w, r) => format!("downgrade {w} {r}"),
            Upgrade(r, w) => format!("upgrade {r} {w}"),
            IsDropped(w) => format!("isdropped {w}"),
            BarB(p, c) => format!("barb {p} {}", o(c)),
            BarBW(p, w) => format!("barbw {p} {w}"),
            BarF(p, c) => format!("barf {} {c}", o(p)),
            BarFW(p, w) => format!("barfw {} {w}", o(p)),
            RawStore(p, i, c) => format!("rawstore {p} {i} {c}"),
            RawStoreW(p, i, w) => format!("rawstorew {p} {i} {w}"),
            Stash(h, s, c) => format!("stash {h} {s} {c}"),
            Fetch(r, s, h) => format!("fetch {r} {s} {h}"),
            IsDead(r) => format!("isdead {r}"),
            IsDeadW(w) => format!("isdeadw {w}"),
            Resurrect(r) => format!("resurrect {r}"),
            ResurrectW(r, w) => format!("resurrectw {r} {w}"),
            Move(r, r2) => format!("move {r} {r2}"),
            Clear(r) => format!("clear {r}"),
            ClearW(w) => format!("clearw {w}"),
            PtrEq(a, b) => format!("ptreq {a} {b}"),
            AllocW(r, k, s, w) => format!("allocw {r} {} {} {} {} {} {}", k.text(), o(s[0]), o(s[1]), o(s[2]), o(w[0]), o(w[1])),
        }
    }
    pub fn parse(t: &[&str]) -> MOp {
        use MOp::*;
        let n = |i: usize| -> u8 { t[i].parse().unwrap() };
        match t[0] {
            "alloc" => Alloc(n(1), Kind::parse(t[2]), n(3), n(4)),
            "loadroot" => LoadRoot(n(1), n(2)),
            "loadrootw" => LoadRootW(n(1), n(2)),
            "load" => Load(n(1), n(2), n(3)),
            "loadw" => LoadW(n(1), n(2), n(3)),
            "store" => Store(n(1), n(2), po(t[3])),
            "storew" => StoreW(n(1), n(2), po(t[3])),
            "onceinit" => OnceInit(n(1), n(2)),
            "rootset" => RootSet(n(1), po(t[2])),
            "rootsetw" => RootSetW(n(1), po(t[2])),
            "downgrade" => Downgrade(n(1), n(2)),
            "upgrade" => Upgrade(n(1), n(2)),
            "isdropped" => IsDropped(n(1)),
            "barb" => BarB(n(1), po(t[2])),
            "barbw" => BarBW(n(1), n(2)),
            "barf" => BarF(po(t[1]), n(2)),
            "barfw" => BarFW(po(t[1]), n(2)),
            "rawstore" => RawStore(n(1), n(2), n(3)),
            "rawstorew" => RawStoreW(n(1), n(2), n(3)),
            "stash" => Stash(n(1), n(2), n(3)),
            "fetch" => Fetch(n(1), n(2), n(3)),
            "isdead" => IsDead(n(1)),
            "isdeadw" => IsDeadW(n(1)),
            "resurrect" => Resurrect(n(1)),
            "resurrectw" => ResurrectW(n(1), n(2)),
            "move" => Move(n(1), n(2)),
            "clear" => Clear(n(1)),
            "clearw" => ClearW(n(1)),
            "ptreq" => PtrEq(n(1), n(2)),
            "allocw" => AllocW(n(1), Kind::parse(t[2]), [po(t[3]), po(t[4]), po(t[5])], [po(t[6]), po(t[7])]),
            x => panic!("bad micro op {x}"),
        }
    }
}

impl Op {
    pub fn text(self) -> String {
        match self {
            Op::Begin(a, k) => format!("begin {a} {}", k.text()),
            Op::M(m) => format!("m {}", m.text()),
            Op::End => "end".into(),
            Op::EndErr => "enderr".into(),
            Op::Panic => "panic".into(),
            Op::Collect(a, h, None) => format!("collect {a} {}", h.text()),
            Op::Collect(a, h, Some((k, j))) => format!("collect {a} {} {k} {j}", h.text()),
            Op::StartSweep(a, f) => format!("startsweep {a} {}", f as u8),
            Op::DropArena(a) => format!("droparena {a}"),
            Op::Adjust(a, q) => format!("adjust {a} {}", q.text()),
            Op::Pacing(a, p) => format!("pacing {a} {} {} {} {} {} {} {}", p.sleep.text(), p.min_sleep, p.mark.text(), p.trace.text(), p.keep.text(), p.drop.text(), p.free.text()),
            Op::CloneH(a, b) => format!("cloneh {a} {b}"),
            Op::DropH(h) => format!("droph {h}"),
        }
    }
    pub fn parse(line: &str) -> Op {
        let t: Vec<&str> = line.split_whitespace().collect();
        let n = |i: usize| -> u8 { t[i].parse().unwrap() };
        match t[0] {
            "begin" => Op::Begin(n(1), CbKind::parse(t[2])),
            "m" => Op::M(MOp::parse(&t[1..])),
            "end" => Op::End,
            "enderr" => Op::EndErr,
            "panic" => Op::Panic,
            "collect" => Op::Collect(n(1), How::parse(t[2]), if t.len() >= 5 { Some((t[3].parse().unwrap(), t[4].parse().unwrap())) } else { None }),
            "startsweep" => Op::StartSweep(n(1), t[2] == "1"),
            "droparena" => Op::DropArena(n(1)),
            "adjust" => Op::Adjust(n(1), Rat::parse(t[2])),
            "pacing" => Op::Pacing(n(1), PacingSpec { sleep: Rat::parse(t[2]), min_sleep: t[3].parse().unwrap(), mark: Rat::parse(t[4]), trace: Rat::parse(t[5]), keep: Rat::parse(t[6]), drop: Rat::parse(t[7]), free: Rat::parse(t[8]) }),
            "cloneh" => Op::CloneH(n(1), n(2)),
            "droph" => Op::DropH(n(1)),
            x => panic!("bad op {x}"),
        }
    }
}
