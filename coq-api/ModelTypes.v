(** * C12 model: variance, auto traits and callback signatures, computed from declarations.

    Definitions only (no proofs).  The rules below are *declared* to be rustc's rules (Rust
    Reference, "Subtyping and Variance" and "Auto traits"); that rustc implements them is trusted and
    validated by the compile probes of /verif/probes/c12 (see DESIGN.md section 5, C12). *)
Require Import Coq.Strings.String Coq.Lists.List Coq.Bool.Bool Coq.Arith.PeanoNat.
Require Import GAApi.Syntax.
Import ListNotations.
Open Scope string_scope.

(** ** Small helpers *)
Definition mem (x : string) (l : list string) : bool := existsb (String.eqb x) l.

(** Two name lists with the same members and the same number of entries.  Declaration order in the
    source (order of impl blocks, of methods inside a block) carries no meaning, so statements of the
    form "the .. are exactly [a; b; c]" are made with [same_set]; when the expected list is duplicate-free
    (it is a literal in each statement) this says: a permutation of it. *)
Definition same_set (a b : list string) : bool :=
  Nat.eqb (length a) (length b) && forallb (fun x => mem x b) a && forallb (fun x => mem x a) b.

Fixpoint assoc_find {A} (k : string) (l : list (string * A)) : option A :=
  match l with
  | [] => None
  | (k', v) :: r => if String.eqb k k' then Some v else assoc_find k r
  end.

Fixpoint remove_keys {A} (ks : list string) (l : list (string * A)) : list (string * A) :=
  match l with
  | [] => []
  | (k, v) :: r => if mem k ks then remove_keys ks r else (k, v) :: remove_keys ks r
  end.

Definition decl_name (d : decl) : string :=
  match d with
  | DStruct n _ _ _ _ | DEnum n _ _ _ _ | DAlias n _ _ _ => n
  | DUnknown _ => ""
  end.

Fixpoint find_decl (ds : list decl) (n : string) : option decl :=
  match ds with
  | [] => None
  | d :: r => if String.eqb (decl_name d) n then Some d else find_decl r n
  end.

Definition decl_generics (d : decl) : generics :=
  match d with
  | DStruct _ _ _ g _ | DEnum _ _ _ g _ | DAlias _ _ g _ => g
  | DUnknown _ => no_generics
  end.

Definition decl_field_tys (d : decl) : list ty :=
  match d with
  | DStruct _ _ _ _ fs => map f_ty fs
  | DEnum _ _ _ _ vs => flat_map (fun v => map f_ty (snd v)) vs
  | _ => []
  end.

Definition is_adt (d : decl) : bool :=
  match d with DStruct _ _ _ _ _ | DEnum _ _ _ _ _ => true | _ => false end.

Definition lt_is (n : string) (l : lt) : bool :=
  match l with LNamed m => String.eqb n m | _ => false end.

(** ** Substitution and alias expansion *)
Definition subst_lt (lm : list (string * lt)) (l : lt) : lt :=
  match l with
  | LNamed n => match assoc_find n lm with Some l' => l' | None => l end
  | _ => l
  end.

Fixpoint subst (tm : list (string * ty)) (lm : list (string * lt)) (t : ty) : ty :=
  match t with
  | TPath n lts args => TPath n (map (subst_lt lm) lts) (map (subst tm lm) args)
  | TParam x => match assoc_find x tm with Some t' => t' | None => t end
  | TRef l m t' => TRef (subst_lt lm l) m (subst tm lm t')
  | TPtr m t' => TPtr m (subst tm lm t')
  | TSlice t' => TSlice (subst tm lm t')
  | TArray t' => TArray (subst tm lm t')
  | TTuple ts => TTuple (map (subst tm lm) ts)
  | TFnPtr a r => TFnPtr (map (subst tm lm) a) (subst tm lm r)
  | TImplFn b k a r =>
      let lm' := remove_keys b lm in TImplFn b k (map (subst tm lm') a) (subst tm lm' r)
  | TDyn b tr lts a =>
      let lm' := remove_keys b lm in TDyn b tr (map (subst_lt lm') lts) (map (subst tm lm') a)
  | TProj s tr lts a x => TProj (subst tm lm s) tr (map (subst_lt lm) lts) (map (subst tm lm) a) x
  | TConst _ | TNever | TUnknown _ => t
  end.

Fixpoint zip_lts (ps : list string) (ls : list lt) : list (string * lt) :=
  match ps with
  | [] => []
  | p :: pr => match ls with
               | [] => (p, LElided) :: zip_lts pr []
               | l :: lr => (p, l) :: zip_lts pr lr
               end
  end.

Fixpoint zip_tps (ps : list tparam) (ts : list ty) : list (string * ty) :=
  match ps with
  | [] => []
  | p :: pr =>
      match ts with
      | [] => (tp_name p, match tp_default p with Some d => d | None => TUnknown "missing type argument" end)
              :: zip_tps pr []
      | t :: tr => (tp_name p, t) :: zip_tps pr tr
      end
  end.

(** Const arguments are interleaved with type arguments by the translator ([TConst]); an alias or
    ADT application binds type parameters to the non-const arguments in order. *)
Definition is_const_arg (t : ty) : bool := match t with TConst _ => true | _ => false end.
Definition ty_args (args : list ty) : list ty := filter (fun t => negb (is_const_arg t)) args.

Definition find_alias (ds : list decl) (n : string) : option (generics * ty) :=
  match find_decl ds n with
  | Some (DAlias _ _ g t) => Some (g, t)
  | _ => None
  end.

Fixpoint expand (fuel : nat) (ds : list decl) (t : ty) : ty :=
  match fuel with
  | O => TUnknown "alias expansion out of fuel"
  | S f =>
      match t with
      | TPath n lts args =>
          let args' := map (expand f ds) args in
          match find_alias ds n with
          | Some (g, target) =>
              expand f ds (subst (zip_tps (g_tps g) (ty_args args')) (zip_lts (g_lts g) lts) target)
          | None => TPath n lts args'
          end
      | TParam _ | TConst _ | TNever | TUnknown _ => t
      | TRef l m t' => TRef l m (expand f ds t')
      | TPtr m t' => TPtr m (expand f ds t')
      | TSlice t' => TSlice (expand f ds t')
      | TArray t' => TArray (expand f ds t')
      | TTuple ts => TTuple (map (expand f ds) ts)
      | TFnPtr a r => TFnPtr (map (expand f ds) a) (expand f ds r)
      | TImplFn b k a r => TImplFn b k (map (expand f ds) a) (expand f ds r)
      | TDyn b tr lts a => TDyn b tr lts (map (expand f ds) a)
      | TProj s tr lts a x => TProj (expand f ds s) tr lts (map (expand f ds) a) x
      end
  end.

Definition EXPAND_FUEL := 24%nat.

(** ** Syntactic occurrence checks (on alias-free types) *)
Fixpoint mentions_lt (n : string) (t : ty) : bool :=
  match t with
  | TPath _ lts args => existsb (lt_is n) lts || existsb (mentions_lt n) args
  | TParam _ | TConst _ | TNever | TUnknown _ => false
  | TRef l _ t' => lt_is n l || mentions_lt n t'
  | TPtr _ t' | TSlice t' | TArray t' => mentions_lt n t'
  | TTuple ts => existsb (mentions_lt n) ts
  | TFnPtr a r => existsb (mentions_lt n) a || mentions_lt n r
  | TImplFn b _ a r => if mem n b then false else existsb (mentions_lt n) a || mentions_lt n r
  | TDyn b _ lts a => if mem n b then false else existsb (lt_is n) lts || existsb (mentions_lt n) a
  | TProj s _ lts a _ => mentions_lt n s || existsb (lt_is n) lts || existsb (mentions_lt n) a
  end.

Fixpoint mentions_path (names : list string) (t : ty) : bool :=
  match t with
  | TPath n _ args => mem n names || existsb (mentions_path names) args
  | TParam _ | TConst _ | TNever | TUnknown _ => false
  | TRef _ _ t' | TPtr _ t' | TSlice t' | TArray t' => mentions_path names t'
  | TTuple ts => existsb (mentions_path names) ts
  | TFnPtr a r | TImplFn _ _ a r => existsb (mentions_path names) a || mentions_path names r
  | TDyn _ _ _ a => existsb (mentions_path names) a
  | TProj s _ _ a _ => mentions_path names s || existsb (mentions_path names) a
  end.

Fixpoint has_unknown (t : ty) : bool :=
  match t with
  | TUnknown _ => true
  | TPath _ _ args => existsb has_unknown args
  | TParam _ | TConst _ | TNever => false
  | TRef _ _ t' | TPtr _ t' | TSlice t' | TArray t' => has_unknown t'
  | TTuple ts => existsb has_unknown ts
  | TFnPtr a r | TImplFn _ _ a r => existsb has_unknown a || has_unknown r
  | TDyn _ _ _ a => existsb has_unknown a
  | TProj s _ _ a _ => has_unknown s || existsb has_unknown a
  end.

(** ** Variance (Rust Reference; rustc [variance/constraints.rs], [Variance::xform]) *)
Inductive variance := Bi | Co | Contra | Inv.

Definition variance_eqb (a b : variance) : bool :=
  match a, b with
  | Bi, Bi | Co, Co | Contra, Contra | Inv, Inv => true
  | _, _ => false
  end.

(** [xform ctx v]: variance of an occurrence that has variance [v] in a position of variance [ctx]. *)
Definition xform (ctx v : variance) : variance :=
  match ctx with
  | Co => v
  | Contra => match v with Co => Contra | Contra => Co | Inv => Inv | Bi => Bi end
  | Inv => Inv
  | Bi => Bi
  end.

(** Least upper bound in the lattice [Bi < Co, Contra < Inv]. *)
Definition vjoin (a b : variance) : variance :=
  match a, b with
  | Bi, x | x, Bi => x
  | Co, Co => Co
  | Contra, Contra => Contra
  | _, _ => Inv
  end.

Definition vjoins (l : list variance) : variance := fold_left vjoin l Bi.

(** Primitive table: variance of the type arguments (in order) of the std type constructors the
    crate uses. A std constructor that is not listed contributes nothing (fail closed: the theorems ask
    for [Inv], which then has to come from somewhere else). Lifetime arguments of std types ([Ref<'b,T>])
    are covariant. *)
Definition prim_variance (n : string) : option (list variance) :=
  if mem n ["PhantomData"; "Box"; "Vec"; "Option"; "NonNull"; "Rc"; "Arc"; "rc::Weak"; "sync::Weak"; "Weak";
            "VecDeque"; "LinkedList"; "BinaryHeap"; "BTreeSet"; "ManuallyDrop"; "MaybeUninit";
            "Ref"; "Reverse"; "Wrapping"]
  then Some [Co]
  else if mem n ["Cell"; "RefCell"; "UnsafeCell"; "OnceCell"; "RefMut"; "Mutex"; "RwLock"; "AtomicPtr"]
  then Some [Inv]
  else if mem n ["Result"; "BTreeMap"] then Some [Co; Co]
  else if mem n ["HashMap"] then Some [Co; Co; Co]
  else if mem n ["HashSet"] then Some [Co; Co]
  else None.

Definition venv := list (string * (list variance * list variance)).

Fixpoint nth_var (i : nat) (l : list variance) : variance :=
  match l with
  | [] => Bi
  | v :: r => match i with O => v | S j => nth_var j r end
  end.

Definition occ_lt (is_lt : bool) (p : string) (ctx : variance) (l : lt) : variance :=
  if is_lt && lt_is p l then ctx else Bi.

Fixpoint occ_list {A} (f : variance -> A -> variance) (ctx : variance) (vs : list variance) (xs : list A)
  : variance :=
  match xs with
  | [] => Bi
  | x :: xr =>
      match vs with
      | [] => Bi   (* more arguments than declared parameters: ignored *)
      | v :: vr => vjoin (f (xform ctx v) x) (occ_list f ctx vr xr)
      end
  end.

(** [occ env is_lt p ctx t]: join of the variances of all occurrences of the parameter [p] (a
    lifetime if [is_lt], else a type parameter) in the alias-free type [t] placed in a position of
    variance [ctx]. *)
Fixpoint occ (env : venv) (is_lt : bool) (p : string) (ctx : variance) (t : ty) : variance :=
  match t with
  | TParam x => if negb is_lt && String.eqb x p then ctx else Bi
  | TConst _ | TNever | TUnknown _ => Bi
  | TRef l m t' =>
      vjoin (occ_lt is_lt p ctx l) (occ env is_lt p (if m then xform ctx Inv else ctx) t')
  | TPtr m t' => occ env is_lt p (if m then xform ctx Inv else ctx) t'
  | TSlice t' | TArray t' => occ env is_lt p ctx t'
  | TTuple ts => vjoins (map (occ env is_lt p ctx) ts)
  | TFnPtr a r => vjoin (vjoins (map (occ env is_lt p (xform ctx Contra)) a)) (occ env is_lt p ctx r)
  | TImplFn b _ a r =>
      if is_lt && mem p b then Bi
      else vjoin (vjoins (map (occ env is_lt p (xform ctx Inv)) a)) (occ env is_lt p (xform ctx Inv) r)
  | TDyn b _ lts a =>
      if is_lt && mem p b then Bi
      else vjoin (vjoins (map (occ_lt is_lt p (xform ctx Inv)) lts))
                 (vjoins (map (occ env is_lt p (xform ctx Inv)) a))
  | TProj s _ lts a _ =>
      vjoin (occ env is_lt p (xform ctx Inv) s)
            (vjoin (vjoins (map (occ_lt is_lt p (xform ctx Inv)) lts))
                   (vjoins (map (occ env is_lt p (xform ctx Inv)) a)))
  | TPath n lts args =>
      (* type arguments, skipping const arguments, against the declared per-parameter variances *)
      let fix go (vs : list variance) (xs : list ty) : variance :=
          match xs with
          | [] => Bi
          | x :: xr =>
              if is_const_arg x then go vs xr
              else match vs with
                   | [] => Bi
                   | v :: vr => vjoin (occ env is_lt p (xform ctx v) x) (go vr xr)
                   end
          end in
      match assoc_find n env with
      | Some (vl, vt) => vjoin (occ_list (occ_lt is_lt p) ctx vl lts) (go vt args)
      | None =>
          match prim_variance n with
          | Some vt => vjoin (vjoins (map (occ_lt is_lt p ctx) lts)) (go vt args)
          | None => Bi
          end
      end
  end.

(** An ADT prepared for the fixed-point computation: name, lifetime params, type params, alias-free
    field types. *)
Record adt := { a_name : string; a_lts : list string; a_tps : list string; a_fields : list ty }.

Definition mk_adts (ds : list decl) : list adt :=
  flat_map (fun d =>
    if is_adt d then
      [{| a_name := decl_name d; a_lts := g_lts (decl_generics d);
          a_tps := map tp_name (g_tps (decl_generics d));
          a_fields := map (expand EXPAND_FUEL ds) (decl_field_tys d) |}]
    else []) ds.

Definition venv0 (adts : list adt) : venv :=
  map (fun a => (a_name a, (map (fun _ => Bi) (a_lts a), map (fun _ => Bi) (a_tps a)))) adts.

Definition vstep (adts : list adt) (env : venv) : venv :=
  map (fun a =>
         (a_name a,
          (map (fun l => vjoins (map (occ env true l Co) (a_fields a))) (a_lts a),
           map (fun p => vjoins (map (occ env false p Co) (a_fields a))) (a_tps a)))) adts.

Fixpoint vlist_eqb (a b : list variance) : bool :=
  match a, b with
  | [], [] => true
  | x :: ar, y :: br => variance_eqb x y && vlist_eqb ar br
  | _, _ => false
  end.

Fixpoint venv_eqb (a b : venv) : bool :=
  match a, b with
  | [], [] => true
  | (n, (l1, t1)) :: ar, (m, (l2, t2)) :: br =>
      String.eqb n m && vlist_eqb l1 l2 && vlist_eqb t1 t2 && venv_eqb ar br
  | _, _ => false
  end.

(** Kleene iteration from the bottom element; stops at the first fixed point. *)
Fixpoint viter (fuel : nat) (adts : list adt) (env : venv) : venv :=
  match fuel with
  | O => env
  | S f => let env' := vstep adts env in
           if venv_eqb env env' then env else viter f adts env'
  end.

Definition VITER_FUEL := 64%nat.
Definition variances (adts : list adt) : venv := viter VITER_FUEL adts (venv0 adts).

Fixpoint index_of (x : string) (l : list string) : option nat :=
  match l with
  | [] => None
  | y :: r => if String.eqb x y then Some O
              else match index_of x r with Some i => Some (S i) | None => None end
  end.

(** Variance of the [i]-th lifetime parameter of ADT [n]; [None] if there is no such parameter. *)
Definition variance_lt (adts : list adt) (env : venv) (n : string) (i : nat) : option variance :=
  match assoc_find n env with
  | Some (vl, _) => if Nat.ltb i (length vl) then Some (nth_var i vl) else None
  | None => None
  end.

Definition variance_tp (adts : list adt) (env : venv) (n : string) (i : nat) : option variance :=
  match assoc_find n env with
  | Some (_, vt) => if Nat.ltb i (length vt) then Some (nth_var i vt) else None
  | None => None
  end.

(** *** Which (ADT, lifetime parameter) pairs carry the brand.
    Base: the lifetime parameter of the pointer and context types.  Closure: an ADT whose field types
    mention a branded ADT instantiated at one of the ADT's own lifetime parameters in the branded
    position. *)
Definition brand_base : list (string * nat) :=
  [("Gc", 0%nat); ("GcWeak", 0%nat); ("GcBuilder", 0%nat); ("Mutation", 0%nat); ("Finalization", 0%nat);
   ("DynamicRootSet", 0%nat); ("ZstCache", 0%nat)].

Fixpoint nth_lt (i : nat) (l : list lt) : lt :=
  match l with
  | [] => LElided
  | x :: r => match i with O => x | S j => nth_lt j r end
  end.

Definition pair_mem (n : string) (i : nat) (l : list (string * nat)) : bool :=
  existsb (fun q => String.eqb (fst q) n && Nat.eqb (snd q) i) l.

(** Does [t] contain a branded constructor applied, in its branded position, to the lifetime [p]? *)
Fixpoint uses_brand (br : list (string * nat)) (p : string) (t : ty) : bool :=
  match t with
  | TPath n lts args =>
      existsb (fun q => String.eqb (fst q) n && lt_is p (nth_lt (snd q) lts)) br
      || existsb (uses_brand br p) args
  | TParam _ | TConst _ | TNever | TUnknown _ => false
  | TRef _ _ t' | TPtr _ t' | TSlice t' | TArray t' => uses_brand br p t'
  | TTuple ts => existsb (uses_brand br p) ts
  | TFnPtr a r | TImplFn _ _ a r => existsb (uses_brand br p) a || uses_brand br p r
  | TDyn _ _ _ a => existsb (uses_brand br p) a
  | TProj s _ _ a _ => uses_brand br p s || existsb (uses_brand br p) a
  end.

Fixpoint enum_from {A} (i : nat) (l : list A) : list (nat * A) :=
  match l with [] => [] | x :: r => (i, x) :: enum_from (S i) r end.

Definition brand_step (adts : list adt) (br : list (string * nat)) : list (string * nat) :=
  br ++ flat_map (fun a =>
          flat_map (fun ip =>
             if negb (pair_mem (a_name a) (fst ip) br)
                && existsb (uses_brand br (snd ip)) (a_fields a)
             then [(a_name a, fst ip)] else []) (enum_from 0 (a_lts a))) adts.

Fixpoint brand_iter (fuel : nat) (adts : list adt) (br : list (string * nat)) : list (string * nat) :=
  match fuel with
  | O => br
  | S f => let br' := brand_step adts br in
           if Nat.eqb (length br') (length br) then br else brand_iter f adts br'
  end.

Definition branded (adts : list adt) : list (string * nat) := brand_iter 32 adts brand_base.

Definition is_invariant (o : option variance) : bool :=
  match o with Some Inv => true | _ => false end.

Definition invariant_ok (adts : list adt) (env : venv) (q : string * nat) : bool :=
  is_invariant (variance_lt adts env (fst q) (snd q)).

(** Aliases that expand to a branded type: variance of the alias's lifetime parameter in its
    expansion. *)
Definition alias_variances (ds : list decl) (env : venv) : list (string * string * variance) :=
  flat_map (fun d =>
    match d with
    | DAlias n _ g t =>
        let t' := expand EXPAND_FUEL ds t in
        map (fun l => (n, l, occ env true l Co t')) (g_lts g)
    | _ => []
    end) ds.

Definition branded_aliases (ds : list decl) (br : list (string * nat)) : list (string * string) :=
  flat_map (fun d =>
    match d with
    | DAlias n _ g t =>
        let t' := expand EXPAND_FUEL ds t in
        flat_map (fun l => if uses_brand br l t' then [(n, l)] else []) (g_lts g)
    | _ => []
    end) ds.

Definition alias_invariant_ok (ds : list decl) (env : venv) (q : string * string) : bool :=
  match find_alias ds (fst q) with
  | Some (_, t) => variance_eqb (occ env true (snd q) Co (expand EXPAND_FUEL ds t)) Inv
  | None => false
  end.

(** ** Auto traits (Send / Sync) *)
Inductive auto_tr := ASend | ASync.

Definition explicit_impl (is : list impl_hdr) (tr : string) (n : string) : option bool :=
  (* Some true: positive impl exists; Some false: only a negative impl *)
  let hits := filter (fun i => String.eqb (i_trait i) tr &&
                               match i_self i with TPath m _ _ => String.eqb m n | _ => false end) is in
  if existsb (fun i => negb (i_neg i)) hits then Some true
  else if existsb i_neg hits then Some false else None.

Definition auto_name (tr : auto_tr) : string := match tr with ASend => "Send" | ASync => "Sync" end.

Definition primitive_both : list string :=
  ["usize"; "isize"; "u8"; "u16"; "u32"; "u64"; "u128"; "i8"; "i16"; "i32"; "i64"; "i128"; "f32"; "f64";
   "bool"; "char"; "str"; "String"; "Layout"; "TypeId"; "Ordering"].

(** [auto is ds fuel tr t]: may [t] implement the auto trait [tr] for *some* instantiation of its
    type parameters and projections (those are assumed to be [Send + Sync]; so a [false] verdict holds
    for every instantiation).  Unknown types and std constructors outside the table count as
    implementing the trait (fail closed for the "is not Send/Sync" theorems), as does running out of
    fuel (rustc treats cycles coinductively). *)
Fixpoint auto (is : list impl_hdr) (ds : list decl) (fuel : nat) (tr : auto_tr) (t : ty) : bool :=
  match fuel with
  | O => true
  | S f =>
      let go := auto is ds f in
      match t with
      | TParam _ | TConst _ | TNever | TUnknown _ | TProj _ _ _ _ _ => true
      | TFnPtr _ _ => true
      | TImplFn _ _ _ _ => true
      | TDyn _ _ _ _ => false
      | TPtr _ _ => false
      | TRef _ false t' => go ASync t'
      | TRef _ true t' => go tr t'
      | TSlice t' | TArray t' => go tr t'
      | TTuple ts => forallb (go tr) ts
      | TPath n lts args =>
          match find_decl ds n with
          | Some (DAlias _ _ g tgt) =>
              go tr (subst (zip_tps (g_tps g) (ty_args args)) (zip_lts (g_lts g) lts) tgt)
          | Some d =>
              match explicit_impl is (auto_name tr) n with
              | Some b => b
              | None =>
                  if is_adt d then
                    let g := decl_generics d in
                    forallb (fun ft => go tr (subst (zip_tps (g_tps g) (ty_args args)) (zip_lts (g_lts g) lts) ft))
                            (decl_field_tys d)
                  else true
              end
          | None =>
              let a := ty_args args in
              if mem n ["NonNull"; "Rc"; "rc::Weak"; "Weak"] then false
              else if mem n ["Cell"; "RefCell"; "UnsafeCell"; "OnceCell"] then
                match tr with ASend => forallb (go ASend) a | ASync => false end
              else if mem n ["Arc"; "sync::Weak"] then forallb (go ASend) a && forallb (go ASync) a
              else if mem n ["Mutex"] then forallb (go ASend) a
              else if mem n ["RwLock"] then
                match tr with ASend => forallb (go ASend) a
                            | ASync => forallb (go ASend) a && forallb (go ASync) a end
              else if mem n ["Ref"; "RefMut"] then false
              else if mem n primitive_both then true
              else forallb (go tr) a   (* PhantomData, Box, Vec, Option, Result, maps, unknown std types *)
          end
      end
  end.

Definition AUTO_FUEL := 40%nat.

(** The type [D<'a.., T..>] with its own parameters as arguments. *)
Definition generic_instance (d : decl) : ty :=
  let g := decl_generics d in
  TPath (decl_name d) (map LNamed (g_lts g)) (map (fun p => TParam (tp_name p)) (g_tps g)).

Definition not_send_sync_names : list string :=
  ["Gc"; "GcWeak"; "GcBuilder"; "Mutation"; "Finalization"; "DynamicRootSet"; "ZstCache";
   "Arena"; "MarkedArena"; "Metrics"; "DynamicRoot"].

Definition not_auto_ok (is : list impl_hdr) (ds : list decl) (n : string) : bool :=
  match find_decl ds n with
  | Some d => is_adt d
              && negb (auto is ds AUTO_FUEL ASend (generic_instance d))
              && negb (auto is ds AUTO_FUEL ASync (generic_instance d))
  | None => false
  end.

(** ** Callback signatures *)
Definition closure_of_param (g ig : generics) (t : ty)
  : option (list string * string * list ty * ty) :=
  match t with
  | TImplFn b k a r => Some (b, k, a, r)
  | TParam x =>
      let bs := flat_map (fun p => if String.eqb (tp_name p) x then tp_bounds p else [])
                         (g_tps g ++ g_tps ig) in
      let fix pick (l : list bound) :=
          match l with
          | [] => None
          | BFn b k a r :: _ => Some (b, k, a, r)
          | _ :: r => pick r
          end in
      pick bs
  | _ => None
  end.

Fixpoint first_some {A B} (f : A -> option B) (l : list A) : option B :=
  match l with
  | [] => None
  | x :: r => match f x with Some y => Some y | None => first_some f r end
  end.

Definition callback_of (f : fnsig) : option (list string * string * list ty * ty) :=
  first_some (closure_of_param (fs_g f) (fs_impl_g f)) (fs_params f).

Definition fn_tparam_names (f : fnsig) : list string :=
  map tp_name (g_tps (fs_g f)) ++ map tp_name (g_tps (fs_impl_g f)).

(** The context argument: [&'gc Mutation<'gc>] or [&'gc Finalization<'gc>] with the bound brand. *)
Definition ctx_arg_ok (brand : string) (t : ty) : bool :=
  match t with
  | TRef (LNamed l) false (TPath n [LNamed l'] []) =>
      String.eqb l brand && String.eqb l' brand && mem n ["Mutation"; "Finalization"]
  | _ => false
  end.

(** The root type at the brand: [Root<'gc, R>], i.e. [<R as Rootable<'gc>>::Root] after expansion. *)
Definition is_root_at (brand : string) (t : ty) : bool :=
  match t with
  | TProj (TParam _) "Rootable" [LNamed l] [] "Root" => String.eqb l brand
  | _ => false
  end.

Definition root_arg_ok (brand : string) (t : ty) : bool :=
  match t with
  | TRef (LNamed l) _ t' => String.eqb l brand && is_root_at brand t'
  | _ => is_root_at brand t
  end.

(** What the closure may return: a type parameter of the function (quantified outside the binder,
    hence unable to name the brand), the root at the brand (which the arena stores and never hands
    back), a [Result] of such, or any type not mentioning the brand. *)
Fixpoint cb_ret_ok (fuel : nat) (brand : string) (fn_tps : list string) (t : ty) : bool :=
  match fuel with
  | O => false
  | S f =>
      match t with
      | TParam x => mem x fn_tps
      | TPath "Result" [] [a; b] => cb_ret_ok f brand fn_tps a && cb_ret_ok f brand fn_tps b
      | _ => is_root_at brand t || negb (mentions_lt brand t || has_unknown t)
      end
  end.

Definition callback_ok (ds : list decl) (f : fnsig) : bool :=
  match callback_of f with
  | None => false
  | Some (binder, kind, args, ret) =>
      match binder with
      | [brand] =>
          let args' := map (expand EXPAND_FUEL ds) args in
          let ret' := expand EXPAND_FUEL ds ret in
          let fret := expand EXPAND_FUEL ds (fs_ret f) in
          mem kind ["FnOnce"; "FnMut"; "Fn"]
          && negb (mem brand (g_lts (fs_g f) ++ g_lts (fs_impl_g f)))     (* not shadowing an outer lifetime *)
          && match args' with
             | [c] => ctx_arg_ok brand c
             | [c; r] => ctx_arg_ok brand c && root_arg_ok brand r
             | _ => false
             end
          && cb_ret_ok 4 brand (fn_tparam_names f) ret'
          && negb (mentions_lt brand fret) && negb (has_unknown fret)
          && negb (fs_unsafe f)
      | _ => false
      end
  end.

Definition callback_fns (fs : list fnsig) : list fnsig :=
  filter (fun f => match callback_of f with Some _ => true | None => false end) fs.

Definition expected_callback_names : list string :=
  ["new"; "try_new"; "map_root"; "try_map_root"; "mutate"; "mutate_root"; "finalize"; "rootless_mutate"].

(** Every function of arena.rs that hands out a context: either it is recognised as a callback-taking
    function, or none of its parameter / return types mentions [Mutation]/[Finalization] at all. *)
Definition no_other_context_source (ds : list decl) (f : fnsig) : bool :=
  match callback_of f with
  | Some _ => true
  | None => negb (existsb (mentions_path ["Mutation"; "Finalization"])
                          (map (expand EXPAND_FUEL ds) (fs_ret f :: fs_params f)))
  end.

(** ** ['static]-only [Collect] impls *)
Definition static_only_ctors : list string :=
  ["Cell"; "RefCell"; "UnsafeCell"; "OnceCell"; "Mutex"; "RwLock"; "Static"; "AtomicPtr"].

Definition bound_is_static (b : bound) : bool :=
  match b with BOutlives LStatic => true | _ => false end.

Definition tparam_static (g : generics) (x : string) : bool :=
  existsb (fun p => String.eqb (tp_name p) x && existsb bound_is_static (tp_bounds p)) (g_tps g)
  || existsb (fun w => match w with
                       | ([], TParam y, bs) => String.eqb x y && existsb bound_is_static bs
                       | _ => false
                       end) (g_where g).

Fixpoint tparams_of (t : ty) : list string :=
  match t with
  | TParam x => [x]
  | TPath _ _ args => flat_map tparams_of args
  | TConst _ | TNever | TUnknown _ => []
  | TRef _ _ t' | TPtr _ t' | TSlice t' | TArray t' => tparams_of t'
  | TTuple ts => flat_map tparams_of ts
  | TFnPtr a r | TImplFn _ _ a r => flat_map tparams_of a ++ tparams_of r
  | TDyn _ _ _ a => flat_map tparams_of a
  | TProj s _ _ a _ => tparams_of s ++ flat_map tparams_of a
  end.

(** A [Collect] impl for a reference or for an interior-mutability / [Static] wrapper must bound every
    type parameter of its self type by ['static] (and a reference must itself be [&'static]). *)
Definition collect_impl_static_ok (i : impl_hdr) : bool :=
  match i_self i with
  | TRef l _ t => match l with LStatic => true | _ => false end
                  && forallb (tparam_static (i_g i)) (tparams_of t)
  | TPtr _ _ => false
  | TPath n _ args =>
      if mem n static_only_ctors
      then forallb (tparam_static (i_g i)) (flat_map tparams_of args)
      else true
  | _ => true
  end.

Definition is_guarded_collect_impl (i : impl_hdr) : bool :=
  match i_self i with
  | TRef _ _ _ | TPtr _ _ => true
  | TPath n _ _ => mem n static_only_ctors
  | _ => false
  end.

(** ** Impl headers keep the brand

    An impl [impl<'a ..> Trait<Args> for Self] whose trait ARGUMENTS mention a lifetime parameter of the
    impl that its self type does not mention lets the caller choose that lifetime freely: for the
    conversion trait behind [unsize!] ([__CoercePtrInternal<Dst> for Src]) that would re-brand a pointer.
    Every lifetime parameter occurring in a trait argument must occur in the self type. *)
Definition impl_arg_lts (i : impl_hdr) : list string :=
  filter (fun l => existsb (mentions_lt l) (i_trait_args i)) (g_lts (i_g i)).

Definition impl_args_brand_ok (i : impl_hdr) : bool :=
  forallb (fun l => mentions_lt l (i_self i)) (impl_arg_lts i).

(** The conversion impls the rule is about (non-vacuity): impls of [tr] whose arguments carry a
    lifetime parameter. *)
Definition brand_carrying_impls (tr : string) (is : list impl_hdr) : list impl_hdr :=
  filter (fun i => String.eqb (i_trait i) tr && match impl_arg_lts i with [] => false | _ => true end) is.
