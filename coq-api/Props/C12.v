(** * C12 -- brand isolation (structural part; the property is PARTIAL, see below).

    What is proved here, over the tables regenerated from the current source tree ([Gen/GenTypes.v],
    [Gen/GenWrite.v]): the variance and auto-trait verdicts of the declared-rules model, the shape of
    every callback signature, the ['static]-only Collect impls, and the generic lemma that subtyping
    cannot move a generative brand.  What is NOT proved: that rustc implements these rules, and that
    nothing else in safe Rust breaks generativity.  That part is modelled and validated by the probe
    corpus /verif/probes/c12 (one KNOWN way to break it is recorded there: an implied ['gc: 'static]
    bound obtained through [Rootable!]'s un-WF-checked [dyn for<'a> Rootable<'a, Root = ..>]). *)
Require Import Coq.Strings.String Coq.Lists.List Coq.Bool.Bool.
Require Import GAApi.Syntax GAApi.ModelTypes GAApi.ModelStatic GAApi.TypesProofs.
Require Import GAApi.Gen.GenTypes GAApi.Gen.GenWrite GAApi.Checks.C12Checks.
Require GAApi.ModelSigs GAApi.Gen.GenSigs.
Import ListNotations.
Open Scope string_scope.

(** [ADTS := mk_adts decls] are the struct/enum declarations of the crate with aliases expanded;
    [ENV := variances ADTS] is the variance table computed from them (Checks/C12Checks.v). *)

(** Every lifetime parameter that carries the brand -- of the pointer and context types and of every
    type that embeds them -- is invariant, in the least fixed point of rustc's variance rules. *)
Theorem C12_invariant :
  forall T i, In (T, i) (branded ADTS) ->
              variance_lt ADTS ENV T i = Some Inv.
Proof. exact invariant_lifted. Qed.
Print Assumptions C12_invariant.

Theorem C12_invariant_base :
  forall T i, In (T, i) brand_base ->
              variance_lt ADTS ENV T i = Some Inv.
Proof. exact base_lifted. Qed.
Print Assumptions C12_invariant_base.

(** The table the two theorems above talk about is a fixed point of the variance equations (it is
    reached by Kleene iteration from the all-bivariant table, hence the least one). *)
Theorem C12_variance_fixpoint :
  venv_eqb ENV (vstep ADTS ENV) = true.
Proof. exact fixpoint_check. Qed.
Print Assumptions C12_variance_fixpoint.

(** Aliases of branded types ([GcLock], [GcSlice], [GcThinStr], ...) are invariant in their brand. *)
Theorem C12_alias_invariant :
  forall q, In q (branded_aliases decls (branded ADTS)) ->
            alias_invariant_ok decls ENV q = true.
Proof. exact alias_lifted. Qed.
Print Assumptions C12_alias_invariant.

(** None of the pointer / context / arena types is [Send] or [Sync], for any instantiation of their
    type parameters. *)
Theorem C12_not_send_sync :
  forall n, In n not_send_sync_names ->
  exists d, find_decl decls n = Some d
            /\ auto impls decls AUTO_FUEL ASend (generic_instance d) = false
            /\ auto impls decls AUTO_FUEL ASync (generic_instance d) = false.
Proof. exact not_auto_lifted. Qed.
Print Assumptions C12_not_send_sync.

(** Every callback-taking function of arena.rs binds the brand by [for<'gc>] on the closure bound,
    passes [&'gc Mutation<'gc>] / [&'gc Finalization<'gc>] and the root at the brand, and lets the
    closure return only a type parameter quantified outside the binder (or the root, which the arena
    keeps); all eight entry points are present and nothing else in arena.rs hands out a context. *)
Theorem C12_callbacks :
  (forall f, In f (callback_fns arena_fns) -> callback_ok decls f = true)
  /\ (forall n, In n expected_callback_names -> exists f, In f (callback_fns arena_fns) /\ fs_name f = n)
  /\ (forall f, In f arena_fns -> no_other_context_source decls f = true).
Proof. exact (conj callbacks_lifted (conj callbacks_present no_other_source)). Qed.
Print Assumptions C12_callbacks.

(** Generic lemma, for every subtyping derivation of the calculus of [TypesProofs]: if every
    constructor is invariant in its brand positions and nothing but the brand both outlives it and is
    outlived by it, then subtyping relates only types that agree on whether they carry the brand. *)
Theorem C12_sub_preserves_brand :
  forall (lft : Type) (Brand : lft) (outl : lft -> lft -> Prop)
         (var_l var_t : nat -> nat -> variance) (brand_pos : nat -> nat -> bool),
    (forall c i, brand_pos c i = true -> var_l c i = Inv) ->
    (forall l, outl Brand l -> outl l Brand -> l = Brand) ->
    forall t t', sub lft outl var_l var_t t t' ->
                 (mentions_brand lft Brand brand_pos t <-> mentions_brand lft Brand brand_pos t').
Proof. exact sub_preserves_brand. Qed.
Print Assumptions C12_sub_preserves_brand.

(** [&T], [Cell<T>], [RefCell<T>], [Static<T>] (and any other interior-mutability wrapper) implement
    [Collect] only for ['static] contents, so neither [&'gc T] nor a plain cell of pointers can be
    rooted. *)
Theorem C12_static_only :
  forall i, In i collect_impls -> collect_impl_static_ok i = true.
Proof. exact static_only_lifted. Qed.
Print Assumptions C12_static_only.

(** No impl of the crate has a trait argument mentioning a lifetime parameter that its self type does
    not mention: in particular the conversion behind [unsize!] ([__CoercePtrInternal<Dst> for Src],
    implemented for exactly [Gc] and [GcWeak]) returns a pointer with the brand of its argument. *)
Theorem C12_impl_args_keep_brand :
  (forall i, In i impls -> impl_args_brand_ok i = true)
  /\ same_set (map (fun i => match i_self i with TPath n _ _ => n | _ => "?" end)
                   (brand_carrying_impls "__CoercePtrInternal" impls)) ["Gc"; "GcWeak"] = true.
Proof. exact (conj impl_brand_lifted unsize_impls_present). Qed.
Print Assumptions C12_impl_args_keep_brand.

(** Every public function (inherent, trait impl or provided method) takes all its branded arguments --
    the context, pointers, weak pointers, root sets, caches, builders, the self type -- at one and the
    same named lifetime: no function lets a caller combine the context of one arena with a pointer of
    another. *)
Theorem C12_args_share_brand :
  forall f, In f GenSigs.pub_fns -> ModelSigs.args_share_brand decls BRANDED f = true.
Proof. exact args_brand_lifted. Qed.
Print Assumptions C12_args_share_brand.

Theorem C12_no_unknown_syntax : GenTypes.unknown_items = [].
Proof. exact no_unknown. Qed.
Print Assumptions C12_no_unknown_syntax.

(** ** Non-vacuity *)
Example C12_invariant_nonvacuous :
  In ("Gc", 0%nat) (branded ADTS) /\ In ("Mutation", 0%nat) (branded ADTS)
  /\ In ("DynamicRootSet", 0%nat) (branded ADTS).
Proof. vm_compute. tauto. Qed.

Example C12_static_only_nonvacuous :
  existsb (fun i => match i_self i with TRef LStatic false (TParam _) => true | _ => false end) collect_impls
  && forallb (fun n => existsb (fun i => match i_self i with TPath m _ _ => String.eqb m n | _ => false end) collect_impls)
             ["Cell"; "RefCell"; "Static"] = true.
Proof. exact guarded_present. Qed.

Example C12_write_of_gc_not_shareable :
  auto impls decls AUTO_FUEL ASync write_of_gc = false
  /\ auto impls decls AUTO_FUEL ASend (TRef (LNamed "'a") false write_of_gc) = false.
Proof. exact write_gc_not_sync. Qed.

(** ** Discrimination: with [type Invariant<'a> = PhantomData<&'a ()>] the brand of [Mutation] would
    be covariant, and the checker says so. *)
Definition weaken_invariant (d : decl) : decl :=
  match d with
  | DAlias "Invariant" v g _ =>
      DAlias "Invariant" v g (TPath "PhantomData" [] [TRef (LNamed "'a") false (TTuple [])])
  | _ => d
  end.

Example C12_invariant_discriminates :
  let ds := map weaken_invariant decls in
  variance_lt (mk_adts ds) (variances (mk_adts ds)) "Mutation" 0 = Some Co.
Proof. vm_compute. reflexivity. Qed.

(** ... and [unsafe impl Send for Gc] flips the auto-trait verdict. *)
Definition send_for_gc : impl_hdr :=
  {| i_unsafe := true; i_neg := false; i_g := no_generics; i_trait := "Send"; i_trait_lts := []; i_trait_args := [];
     i_self := TPath "Gc" [LNamed "'gc"] [TParam "T"; TParam "K"]; i_file := "gc.rs"; i_cfg := []; i_consts := [] |}.

Example C12_not_send_discriminates : not_auto_ok (send_for_gc :: impls) decls "Gc" = false.
Proof. vm_compute. reflexivity. Qed.

Example C12_impl_args_discriminates : impl_args_brand_ok rebranding_impl = false.
Proof. exact rebranding_impl_fails. Qed.

Example C12_args_share_brand_nonvacuous :
  Nat.leb 30 (List.length (filter (fun f => Nat.ltb 1 (List.length (ModelSigs.fn_brands decls BRANDED f))) GenSigs.pub_fns)) = true.
Proof. exact (proj1 args_brand_nonvacuous). Qed.

Example C12_args_share_brand_discriminates :
  ModelSigs.brands_agree [LElided; LNamed "'gc"] = false.
Proof. exact (proj1 anonymous_context_fails). Qed.
