(** * C19 -- "the safe API never conjures values" and the ZstCache condition (PARTIAL).

    The signature criterion is decided here over every public function of the crate; its soundness
    (a parametricity argument) is TRUSTED, not proved.  The pointer-identity half of C19 is tested by
    the run-time twin /verif/harness-api/src/bin/c19_twin.rs. *)
Require Import Coq.Strings.String Coq.Lists.List Coq.Bool.Bool Coq.NArith.NArith.
Require Import GAApi.Syntax GAApi.ModelTypes GAApi.ModelSigs GAApi.SigsProofs.
Require Import GAApi.Gen.GenTypes GAApi.Gen.GenSigs GAApi.Checks.C19Checks.
Import ListNotations.
Open Scope string_scope.

(** Every public function that is not [unsafe] and whose return type mentions [Gc]/[GcWeak] may
    return a pointer to an [X] (for each type parameter [X] occurring in the pointee) only if one of its
    parameters supplies an [X] -- a value, [&X], [[X]], a [Gc]/[GcWeak]/builder/[DynamicRoot] of [X], a
    closure returning [X] -- or [X: Default]. *)
Theorem C19_sigs_ok :
  forall f, In f pub_fns -> relevant decls f = true -> sig_ok decls f = true.
Proof. exact sigs_lifted. Qed.
Print Assumptions C19_sigs_ok.

(** The body of [ZstCache::alloc_zst], read as a decision tree over its (pure) conditions, returns
    [Some(..)] exactly when [size_of::<T>() == 0 && align_of::<T>() <= MAX_ALIGN] -- decided on the
    MEANING of the conditions ([ModelSigs.zbody_canonical]: the propositional reading of the tree agrees
    with that conjunction on all four valuations), not on their spelling: an early [return None], a
    De Morgan-negated or nested guard, flipped comparisons, [let]-bound sub-expressions and reordered
    conjuncts are the same condition --, and each anchor type registered for [Alignment<N>] is
    [#[repr(align(N))]]. *)
Theorem C19_zst_shape : zst_shape = true.
Proof. exact zst_shape_check. Qed.
Print Assumptions C19_zst_shape.

(** With that guard: a cache hit implies a zero-sized type whose alignment does not exceed the
    cache's, and the shared pointer (aligned to MAX_ALIGN) is aligned for the type. *)
Theorem C19_zst_cond :
  forall anchor size align maxa k j p,
    align = (2 ^ k)%N -> maxa = (2 ^ j)%N -> (anchor mod maxa = 0)%N ->
    alloc_zst_model zst_body anchor size align maxa = Some p ->
    size = 0%N /\ (align <= maxa)%N /\ p = anchor /\ (p mod align = 0)%N.
Proof. exact zst_sound_generated. Qed.
Print Assumptions C19_zst_cond.

(** ... and conversely the shared pointer is returned exactly in that case. *)
Theorem C19_zst_cond_complete :
  (forall anchor size align maxa,
     size = 0%N -> (align <= maxa)%N -> alloc_zst_model zst_body anchor size align maxa = Some anchor)
  /\ (forall anchor size align maxa,
     (size <> 0%N \/ (maxa < align)%N) -> alloc_zst_model zst_body anchor size align maxa = None).
Proof. exact (conj zst_complete_generated zst_none_generated). Qed.
Print Assumptions C19_zst_cond_complete.

(** No [macro_rules!] of the crate expands a caller-supplied expression, block, statement, token tree,
    item or path inside its own [unsafe { .. }] block ([unsafe] is not hygienic): [unsize!], [field!] and
    [unlock!] evaluate the caller's expression outside, in the caller's (safe) context. *)
Theorem C19_macros_no_caller_code_in_unsafe :
  forall e, In e unsafe_metavars -> metavar_harmless e = true.
Proof. exact unsafe_metavars_lifted. Qed.
Print Assumptions C19_macros_no_caller_code_in_unsafe.

(** [unsize!] type-checks its coercion between RAW pointers (where rustc allows only unsizing, which keeps
    the address) -- never between references (where deref coercion would also apply and the result
    would point to something else than the original allocation): every [__coerce_unchecked] of the
    crate (the trait method and its impls for exactly [Gc] and [GcWeak]) is [unsafe] and takes a
    [FnOnce( *const _ ) -> *const _], and the macro's single rule is the one annotated with raw pointer
    types. *)
Theorem C19_unsize_coerces_raw_pointers :
  (forall f, In f pub_fns -> fs_name f = "__coerce_unchecked" -> coerce_fn_ok f = true)
  /\ same_set (map fs_owner (coerce_fns pub_fns)) ["__CoercePtrInternal"; "Gc"; "GcWeak"] = true
  /\ unsize_macro_ok unsize_macro_rules unsize_macro_matcher unsize_macro_text = true.
Proof. exact (conj coerce_fns_lifted (conj (proj2 coerce_fns_check) unsize_macro_check)). Qed.
Print Assumptions C19_unsize_coerces_raw_pointers.

(** ** Non-vacuity *)
Example C19_sigs_nonvacuous :
  forallb (fun on => existsb (fun f => String.eqb (fs_owner f) (fst on) && String.eqb (fs_name f) (snd on)) relevant_fns)
          [("Gc", "new"); ("Gc", "new_static"); ("ZstCache", "alloc"); ("ZstCache", "alloc_static");
           ("GcWeak", "upgrade"); ("DynamicRootSet", "fetch"); ("Gc", "erase"); ("GcBuilder", "write")] = true.
Proof. exact relevant_present. Qed.

Example C19_zst_cond_nonvacuous :
  alloc_zst_model zst_body 4096 0 8 16 = Some 4096%N /\ alloc_zst_model zst_body 4096 0 32 16 = None
  /\ alloc_zst_model zst_body 4096 1 1 16 = None.
Proof. vm_compute. repeat split. Qed.

(** The check on the guard discriminates: the reference spelling, the early-return / De Morgan spelling
    and the nested / flipped spelling are canonical; weakened guards are not. *)
Example C19_zst_shape_discriminates :
  map zbody_canonical [zb_reference; zb_early_demorgan; zb_nested_flipped] = [true; true; true]
  /\ map zbody_canonical [zb_no_size_test; zb_or; zb_swapped_leaves; zb_align_lt; zb_size_le_one;
                          ZIf (ZUnknownC "x") ZRetSome ZRetNone; ZUnknownB "x"; ZRetSome; ZRetNone]
     = [false; false; false; false; false; false; false; false; false].
Proof. exact zbody_canonical_examples. Qed.

(** ** Discrimination (F3): [alloc_zst] is [unsafe] now; the very same signature without [unsafe]
    -- the pre-fix [alloc_zst<T>(&self) -> Option<Gc<'gc, T>>] -- is relevant and FAILS the criterion. *)
Example C19_sigs_discriminates :
  option_map fs_unsafe (find_fn pub_fns "ZstCache" "alloc_zst") = Some true
  /\ option_map (fun f => relevant decls (set_safe f) && negb (sig_ok decls (set_safe f)))
                (find_fn pub_fns "ZstCache" "alloc_zst") = Some true
  /\ relevant decls alloc_zst_prefix = true /\ sig_ok decls alloc_zst_prefix = false.
Proof. exact (conj alloc_zst_unsafe_now (conj alloc_zst_prefix_fails alloc_zst_prefix_literal_fails)). Qed.

Example C19_macros_nonvacuous :
  forallb (fun n => existsb (String.eqb n) macro_names) ["unsize"; "__field"; "__unlock"] = true
  /\ existsb (fun e => String.eqb (fst (fst e)) "unsize#0" && String.eqb (snd e) "ty") unsafe_metavars = true.
Proof. exact macros_present. Qed.

Example C19_macros_discriminates : metavar_harmless (("unsize#0", "gc"), "expr") = false.
Proof. exact unsize_expr_in_unsafe_fails. Qed.

Example C19_unsize_discriminates :
  raw_ptr_closure (BFn [] "FnOnce" [TRef LElided false (TParam "T")] (TRef LElided false (TParam "U"))) = false.
Proof. exact ref_closure_rejected. Qed.
