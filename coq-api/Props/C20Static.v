(** * Static fact used by C20: no shared state. *)
Require Import Coq.Strings.String Coq.Lists.List Coq.Bool.Bool Coq.NArith.NArith.
Require Import GAApi.Syntax GAApi.ModelTypes GAApi.ModelStatic GAApi.StaticProofs.
Require Import GAApi.Gen.GenTypes GAApi.Gen.GenCallGraph GAApi.Checks.C20Checks.
Import ListNotations.
Open Scope string_scope.

(** The crate has no [static] / [static mut] item and no [thread_local!]; every field of [Context],
    [MetricsInner] and [Metrics] is an owned value (cells, vectors, pointers to this arena's own
    allocations, the per-context [Rc]); [Context::new] and [Metrics::new] take no arguments, so with no
    statics there is nothing two arenas could share. *)
Theorem C20_no_shared_state :
  statics = [] /\ thread_locals = [] /\ GenCallGraph.unknown_items = []
  /\ (forall n, In n state_structs -> state_struct_ok decls n = true)
  /\ fresh_ctor fns "Context" && fresh_ctor fns "Metrics" = true.
Proof.
  exact (conj (proj1 statics_nil) (conj (proj1 (proj2 statics_nil)) (conj (proj2 (proj2 statics_nil))
        (conj state_structs_lifted fresh_ctors_check)))).
Qed.
Print Assumptions C20_no_shared_state.

(** ** Non-vacuity: the three state structs exist and have fields. *)
Example C20_state_structs_present :
  forallb (fun n => match find_decl decls n with Some d => negb (Nat.eqb (length (decl_field_tys d)) 0) | None => false end)
          state_structs = true.
Proof. vm_compute. reflexivity. Qed.
