(** * C13 -- no adoption without a barrier from safe code.

    The calculus ([ModelWrite.derivable]) is our reading of which safe expressions produce a
    [&Write<_>]; it is validated rule by rule against rustc by /verif/probes/c13.  "Safe" means free of
    the [unsafe] keyword (a program that passes [#![forbid(unsafe_code)]]): implementing the safe trait
    [Unlock] needs an [unsafe fn], which that lint rejects.  The constructors and projections of the
    calculus are the functions a CLIENT crate can call ([pub] or trait methods, [ModelWrite.is_public]):
    a private / [pub(crate)] helper returning [&Write<_>] is no source of [Write] by itself; the public
    functions that call it are judged by their own signature, with the helper's body facts inlined.  Composition with the barrier theorems
    (C06) and C01 is the coordinator's. *)
Require Import Coq.Strings.String Coq.Lists.List Coq.Bool.Bool.
Require Import GAApi.Syntax GAApi.ModelTypes GAApi.ModelWrite GAApi.ModelStatic GAApi.WriteProofs.
Require Import GAApi.Gen.GenTypes GAApi.Gen.GenWrite GAApi.Checks.C13Checks.
Import ListNotations.
Open Scope string_scope.

(** For ANY tables: if every safe constructor has a sanctioned origin, every safe projection is one
    the calculus knows, every [DerefWrite]/[IndexWrite] implementor owns its target uniquely and the
    [field!] pattern has the by-pattern shape, then every derivable witness is covered -- by induction
    on derivations. *)
Theorem C13_covered :
  forall T : tables, premise T = true -> forall o p, derivable T o p -> covered o p.
Proof. exact covered_of_derivable. Qed.
Print Assumptions C13_covered.

(** The premise holds of the tables regenerated from the current source tree ... *)
Theorem C13_premise : premise GenT = true.
Proof. exact premise_check. Qed.
Print Assumptions C13_premise.

(** ... hence every witness derivable from the current API is covered. *)
Theorem C13_covered_generated : forall o p, derivable GenT o p -> covered o p.
Proof. exact covered_generated. Qed.
Print Assumptions C13_covered_generated.

(** The declarations the calculus stands on: [DerefWrite]/[IndexWrite] are [unsafe trait]s,
    [Unlock::unlock_unchecked] is an [unsafe fn], [Write] is [#[non_exhaustive] #[repr(transparent)]],
    the lock types' cell is private, only the lock types implement [Unlock], [unlock!] is
    [field!(..).unlock()], and the translator met no syntax it could not classify. *)
Theorem C13_side_conditions : side_conditions = true.
Proof. exact side_conditions_check. Qed.
Print Assumptions C13_side_conditions.

(** Every public safe function that borrows the unlocked cell either has a [&Write<Self>] receiver
    ([Write::unlock]) or takes the [Gc] and [&Mutation] and calls the barrier; every public safe
    function that mutates the cell without returning it has exclusive access, or takes [Gc]+[&Mutation]
    and calls the barrier, or only [take]s a [Default] value. *)
Theorem C13_unlock_needs_write : forall f, In f lock_fns -> lock_fn_ok f = true.
Proof. exact lock_fns_lifted. Qed.
Print Assumptions C13_unlock_needs_write.

(** Plain cells (and references) are [Collect] only with ['static] contents. *)
Theorem C13_cells_static : forall i, In i collect_impls -> collect_impl_static_ok i = true.
Proof. exact cells_static_lifted. Qed.
Print Assumptions C13_cells_static.

(** ** Non-vacuity: the generated tables do derive witnesses. *)
Example C13_derives_barriered_deref_box :
  exists i, In i deref_write_impls /\ derivable GenT OBarriered [SDeref (i_self i)].
Proof. exact barriered_deref_box_derivable. Qed.

Example C13_derives_exclusive_field_index :
  exists i, In i index_write_impls /\ derivable GenT OExclusive [SField true; SIndex (i_self i)].
Proof. exact exclusive_field_index_derivable. Qed.

Example C13_lock_api_present :
  forallb (fun on => existsb (fun f => String.eqb (fs_owner f) (fst on) && String.eqb (fs_name f) (snd on)) lock_fns)
          [("Write", "unlock"); ("Gc", "unlock"); ("Gc", "borrow_mut"); ("Gc", "set"); ("Gc", "get_or_init");
           ("Lock", "as_cell"); ("RefLock", "as_ref_cell"); ("Lock", "take"); ("Unlock", "unlock_unchecked")] = true.
Proof. exact lock_fns_present. Qed.

(** ** Discrimination (F2): with [unsafe impl<T: ?Sized> DerefWrite for &T {}] added to the impl
    list the premise is false, and [from_mut . Deref(&T)] is a derivable witness that is not covered. *)
Example C13_covered_discriminates :
  premise GenT_F2 = false
  /\ derivable GenT_F2 OExclusive [SDeref (TRef LElided false (TParam "T"))]
  /\ ~ covered OExclusive [SDeref (TRef LElided false (TParam "T"))].
Proof. exact (conj f2_premise_false f2_witness). Qed.
