(** * Static fact used by C03: the call graph. *)
Require Import Coq.Strings.String Coq.Lists.List Coq.Bool.Bool Coq.NArith.NArith.
Require Import GAApi.Syntax GAApi.ModelTypes GAApi.ModelStatic GAApi.StaticProofs.
Require Import GAApi.Gen.GenTypes GAApi.Gen.GenCallGraph GAApi.Checks.C03Checks.
Import ListNotations.
Open Scope string_scope.

(** In the name-based over-approximate call graph of the crate (the over-approximation rule is itself
    re-checked, third conjunct): no function of [impl Mutation] / [impl Finalization] -- link, the four
    barriers, upgrade, resurrect, metrics, deref -- reaches [sweep_one], [drop_in_place], [dealloc],
    [do_collection] or [mark_one]; an [Arena]/[MarkedArena] method that does not take [&mut self] or
    [self] cannot reach [do_collection]; every callback-taking function of arena.rs has a [self]
    receiver (so the arena is borrowed or consumed for the callback's duration) or builds its own
    fresh context. *)
Theorem C03_callgraph :
  (forall e t, In e (entries fns) -> In t (forbidden fns) -> ~ path fns e t)
  /\ (forall f, In f fns -> mem (cg_owner f) arena_owners = true -> recv_exclusive (cg_recv f) = false ->
                forall d, In d (do_collection_ids fns) -> ~ path fns (cg_id f) d)
  /\ (forall f, In f fns -> edge_rule_ok NAMES fns f = true)
  /\ (forall f, In f arena_fns -> callback_borrows_arena f = true)
  /\ GenCallGraph.unknown_items = [].
Proof.
  exact (conj entries_unreachable (conj arena_methods_lifted (conj edge_rule_lifted
        (conj callbacks_borrow_lifted cg_no_unknown)))).
Qed.
Print Assumptions C03_callgraph.

(** ** Non-vacuity *)
Example C03_callgraph_nonvacuous :
  negb (Nat.eqb (length (entries fns)) 0)
  && forallb (fun n => existsb (fun f => String.eqb (cg_name f) n) fns) forbidden_names
  && forallb (fun n => existsb (fun f => is_entry f && String.eqb (cg_name f) n) fns)
             ["link"; "backward_barrier"; "backward_barrier_weak"; "forward_barrier"; "forward_barrier_weak";
              "upgrade"; "resurrect"; "metrics"] = true.
Proof. exact nonvacuous_check. Qed.

(** The methods that do reach [do_collection] are exactly the six collection entry points. *)
Example C03_collecting_methods :
  same_set (collecting_methods fns) ["collect_debt"; "mark_debt"; "finish_marking"; "cycle_debt"; "finish_cycle"; "start_sweeping"] = true.
Proof. exact collecting_methods_check. Qed.

(** Discrimination: [sweep_one] *is* reachable from [do_collection] (the graph is not edgeless). *)
Example C03_graph_has_paths :
  existsb (fun s => existsb (fun d => memN s (reach_from fns [d])) (do_collection_ids fns))
          (ids_where fns (fun f => String.eqb (cg_name f) "sweep_one")) = true.
Proof. vm_compute. reflexivity. Qed.
