(** * Syntax of the declarative surface of gc-arena, as emitted by /verif/translator-api.

    Definitions only.  Everything in [Gen/*.v] is a value of one of these types.  The translator
    fails closed: what it cannot classify becomes [TUnknown] / [BUnknown] / [DUnknown] /
    an entry of an [unknown_items] list, and every checker returns [false] on those. *)
Require Import Coq.Strings.String Coq.Lists.List Coq.Bool.Bool Coq.NArith.NArith.
Import ListNotations.
Open Scope string_scope.

(** Lifetimes. *)
Inductive lt := LStatic | LNamed (n : string) | LElided.

(** Types.  Nominal types are identified by the last segment of their path ([alloc::rc::Rc<T>] is
    [TPath "Rc" [] [T]]); a generic type parameter in scope is a [TParam]; [Self] is replaced by the
    impl's self type by the translator.  [TProj s tr lts args a] is [<s as tr<lts, args>>::a]
    (shorthand projections [K::Store] are resolved through the bounds in scope and the crate's trait
    declarations).  [TImplFn] is an [impl for<..> Fn*(..) -> ..] argument type. *)
Inductive ty :=
| TPath (name : string) (lts : list lt) (args : list ty)
| TParam (name : string)
| TRef (l : lt) (mutable : bool) (t : ty)
| TPtr (mutable : bool) (t : ty)
| TSlice (t : ty)
| TArray (t : ty)
| TTuple (ts : list ty)
| TFnPtr (args : list ty) (ret : ty)
| TImplFn (binder : list string) (kind : string) (args : list ty) (ret : ty)
| TDyn (binder : list string) (trait : string) (lts : list lt) (args : list ty)
| TProj (self : ty) (trait : string) (lts : list lt) (args : list ty) (assoc : string)
| TConst (s : string)
| TNever
| TUnknown (s : string).

Definition TUnit := TTuple [].

(** Bounds on a type parameter or on the left-hand side of a where-predicate. *)
Inductive bound :=
| BTrait (binder : list string) (name : string) (lts : list lt) (args : list ty)
         (assoc : list (string * ty))
| BFn (binder : list string) (kind : string) (args : list ty) (ret : ty)
| BOutlives (l : lt)
| BMaybeSized
| BUnknown (s : string).

Record tparam := { tp_name : string; tp_bounds : list bound; tp_default : option ty }.

(** [g_where] keeps the where-predicates whose left-hand side is not a plain type parameter of
    the same generics list (those are merged into [tp_bounds]). *)
Record generics := {
  g_lts : list string;
  g_tps : list tparam;
  g_consts : list string;
  g_where : list (list string * ty * list bound)
}.

Definition no_generics : generics := {| g_lts := []; g_tps := []; g_consts := []; g_where := [] |}.

Record field := { f_name : string; f_pub : bool; f_ty : ty }.

Inductive decl :=
| DStruct (name : string) (vis : string) (attrs : list string) (g : generics) (fields : list field)
| DEnum (name : string) (vis : string) (attrs : list string) (g : generics)
        (variants : list (string * list field))
| DAlias (name : string) (vis : string) (g : generics) (target : ty)
| DUnknown (s : string).

Record trait_decl := {
  tr_name : string; tr_unsafe : bool; tr_vis : string; tr_g : generics;
  tr_supers : list bound; tr_assoc : list string;
  tr_fns : list (string * bool)          (* method name, is [unsafe fn] *)
}.

(** Header of a trait impl ([i_trait = None] never occurs here: inherent impls only contribute
    their functions). [i_neg] is a negative impl ([impl !Send for ..]). *)
Record impl_hdr := {
  i_unsafe : bool; i_neg : bool; i_g : generics;
  i_trait : string; i_trait_lts : list lt; i_trait_args : list ty;
  i_self : ty; i_file : string; i_cfg : list string;
  i_consts : list (string * string)      (* associated consts, value as token text *)
}.

Inductive recv := RNone | RRef | RRefMut | RValue | RTyped (t : ty).

(** A function signature together with the few body facts the checkers use.  [fs_vis] is one of
    "pub", "pub(crate)", "priv", "trait" (a method of a trait impl or a trait's provided method). *)
Record fnsig := {
  fs_name : string;
  fs_owner : string;                 (* name of the impl's self type / trait, "" for free fns *)
  fs_self_ty : ty;                   (* the impl's self type, [TUnit] for free fns *)
  fs_trait : string;                 (* trait being implemented, "" for inherent / free *)
  fs_vis : string;
  fs_unsafe : bool;
  fs_impl_g : generics;
  fs_g : generics;
  fs_recv : recv;
  fs_params : list ty;               (* without the receiver *)
  fs_ret : ty;
  fs_file : string;
  fs_cfg : list string;
  fs_calls : list string;            (* simple names of everything called in the body, and -- transitively -- in the
                                        bodies of the crate's private helper functions it calls (inlined by the
                                        translator when the call resolves unambiguously) *)
  fs_field_calls : list (string * string)   (* (field, method) for calls of the form [x.field.method(..)]; private helpers
                                               inlined as for [fs_calls] *)
}.

(** Patterns, only as far as the [field!] macro needs them. [PBind by_ref mutable name]. *)
Inductive pat :=
| PRef (mutable : bool) (p : pat)
| PStruct (path : string) (fields : list (string * pat)) (rest : bool)
| PBind (by_ref : bool) (mutable : bool) (name : string)
| PUnknown (s : string).

Record macro_shape := {
  ms_found : bool;
  ms_rules : nat;
  ms_matcher : string;               (* token text of the (single) matcher *)
  ms_scrutinee : string;             (* token text of the matched expression *)
  ms_arms : nat;
  ms_pat : pat;
  ms_body_unsafe : bool;
  ms_body_fn : string;               (* last path segment of the function called in the arm *)
  ms_body_args : list string;        (* token text of each argument *)
  ms_text : string                   (* token text of the whole transcriber, for the evidence *)
}.

(** Call-graph node. [cg_edges] are the ids of every function the name-based resolution links the
    body's calls to (over-approximation by name; the narrowing rules are spelled out and re-checked
    by [ModelStatic.edge_rule_ok]); implicit destructor
    calls are approximated by an edge to [T::drop] from every function that names a type [T] of
    the crate with a [Drop] impl. *)
Record cg_fn := {
  cg_id : N; cg_name : string; cg_owner : string;
  cg_kind : string;                          (* "free" (incl. nested fns) | "inherent" | "trait" *)
  cg_trait : string;
  cg_recv : recv; cg_nparams : N; cg_unsafe : bool;
  cg_file : string;
  cg_tparams : list string;                  (* type parameters in scope *)
  cg_call_names : list (string * string);    (* (qualifier, name); "." = method call, "" = unqualified,
                                                "?" = qualified by something that is not a plain path *)
  cg_edges : list N
}.

(** The condition guarding the cache hit in [ZstCache::alloc_zst]. *)
Inductive zexpr := ZSizeOf | ZAlignOf | ZMaxAlign | ZLit (n : N) | ZUnknownE (s : string).
Inductive zcond :=
| ZEq (a b : zexpr) | ZLe (a b : zexpr) | ZLt (a b : zexpr)
| ZAnd (a b : zcond) | ZOr (a b : zcond) | ZNot (a : zcond) | ZTrue | ZUnknownC (s : string).

(** The body of [alloc_zst] as a decision tree: which of [Some(..)] / [None] it returns under which
    (pure) conditions.  The translator only turns control flow into this tree -- an early
    [if c { return X; } rest] is [ZIf c X rest], [let]-bound pure sub-expressions are substituted --;
    what the conditions MEAN is decided in [ModelSigs].  Anything else (a statement with an effect,
    a leaf that is neither [Some(..)] nor [None], a loop, a [match]) is a [ZUnknownB] leaf. *)
Inductive zbody :=
| ZRetSome | ZRetNone | ZIf (c : zcond) (t e : zbody) | ZUnknownB (s : string).
