(** * C13 model: the derivation calculus for [&Write<_>] and the checkers over the generated tables.

    Definitions only.  A witness of a [&Write<_>] obtained by safe code is an origin together with a
    path of projection segments.  Which constructors, projections and marker impls exist is read from
    [Gen/GenWrite.v]; what they mean (origin of a constructor, ownership class of an implementing
    type) is decided here, from the signature / the type constructor, failing closed. *)
Require Import Coq.Strings.String Coq.Lists.List Coq.Bool.Bool Coq.Arith.PeanoNat.
Require Import GAApi.Syntax GAApi.ModelTypes.
Import ListNotations.
Open Scope string_scope.

(** ** Ownership classes *)
Inductive oclass := Unique | Shared.

Definition oclass_eqb (a b : oclass) : bool :=
  match a, b with Unique, Unique | Shared, Shared => true | _, _ => false end.

(** Type constructors that own their contents uniquely and inline/out-of-line without sharing.
    Everything else -- [&T], [Rc], [Arc], [Gc], [Ref], [Cow], raw pointers, type parameters,
    projections, unknown constructors -- is [Shared]. *)
Definition unique_ctors : list string :=
  ["Box"; "Vec"; "VecDeque"; "BTreeMap"; "HashMap"; "IndexMap"; "SmallVec"; "LinkedList"; "Option"].

Definition class_of (t : ty) : oclass :=
  match t with
  | TPath n _ _ => if mem n unique_ctors then Unique else Shared
  | TSlice _ | TArray _ => Unique
  | _ => Shared
  end.

(** ** Origins *)
Inductive origin := OBarriered | OStatic | OExclusive | OForged.

Definition origin_eqb (a b : origin) : bool :=
  match a, b with
  | OBarriered, OBarriered | OStatic, OStatic | OExclusive, OExclusive | OForged, OForged => true
  | _, _ => false
  end.

Definition all_generics_static (f : fnsig) (x : string) : bool :=
  tparam_static (fs_g f) x || tparam_static (fs_impl_g f) x.

Definition has_trait_bound_in (g : generics) (x tr : string) : bool :=
  existsb (fun p => String.eqb (tp_name p) x
                    && existsb (fun b => match b with BTrait _ n _ _ _ => String.eqb n tr | _ => false end)
                               (tp_bounds p)) (g_tps g)
  || existsb (fun w => match w with
                       | ([], TParam y, bs) =>
                           String.eqb x y
                           && existsb (fun b => match b with BTrait _ n _ _ _ => String.eqb n tr | _ => false end) bs
                       | _ => false
                       end) (g_where g).

Definition has_trait_bound (f : fnsig) (x tr : string) : bool :=
  has_trait_bound_in (fs_g f) x tr || has_trait_bound_in (fs_impl_g f) x tr.

(** Does the type mention [Write] outside the self position of a projection?  ([<Write<T> as
    Deref>::Target] is [T], not a [Write].) *)
Fixpoint yields_write (t : ty) : bool :=
  match t with
  | TPath n _ args => String.eqb n "Write" || existsb yields_write args
  | TParam _ | TConst _ | TNever | TUnknown _ => false
  | TRef _ _ t' | TPtr _ t' | TSlice t' | TArray t' => yields_write t'
  | TTuple ts => existsb yields_write ts
  | TFnPtr a r | TImplFn _ _ a r => existsb yields_write a || yields_write r
  | TDyn _ _ _ a => existsb yields_write a
  | TProj _ _ _ a _ => existsb yields_write a
  end.

Definition self_is_write (f : fnsig) : bool :=
  match fs_self_ty f with TPath "Write" _ _ => true | _ => false end.

Definition has_self_recv (f : fnsig) : bool :=
  match fs_recv f with RNone => false | _ => true end.

(** Only what code OUTSIDE the crate can call is a source of [Write] for a client program: [pub]
    functions and methods of trait impls / provided trait methods (a [pub] item of a private module is
    counted too: conservative).  Private and [pub(crate)] / [pub(super)] functions are reachable only
    through such a function, and then it is THAT function's signature (and its body facts, which the
    translator reports with the bodies of the private helpers it calls inlined) that is judged below. *)
Definition is_public (f : fnsig) : bool := String.eqb (fs_vis f) "pub" || String.eqb (fs_vis f) "trait".

Definition is_write_fn (f : fnsig) : bool := yields_write (fs_ret f) && is_public f.
Definition is_projection (f : fnsig) : bool := is_write_fn f && self_is_write f && has_self_recv f.
Definition is_ctor (f : fnsig) : bool := is_write_fn f && negb (is_projection f).

Definition calls (f : fnsig) (n : string) : bool := mem n (fs_calls f).

Definition is_mutation_ref (t : ty) : bool :=
  match t with TRef _ false (TPath "Mutation" _ _) => true | _ => false end.

(** Origin of a constructor, from its signature (and, for the barriered one, the fact that its body
    calls the backward barrier). Anything that fits none of the three sanctioned shapes is [OForged]. *)
Definition ctor_origin (f : fnsig) : origin :=
  match fs_recv f, fs_params f, fs_ret f with
  (* Gc::write(mc: &Mutation<'gc>, gc: Gc<'gc, T, K>) -> &'gc Write<T> *)
  | RNone, [m; TPath "Gc" _ (TParam x :: _)], TRef _ false (TPath "Write" [] [TParam y]) =>
      if is_mutation_ref m && String.eqb x y && calls f "backward_barrier" then OBarriered else OForged
  (* from_static(v: &T) -> &Write<T>  where T: 'static *)
  | RNone, [TRef _ false (TParam x)], TRef _ false (TPath "Write" [] [TParam y]) =>
      if String.eqb x y && all_generics_static f x then OStatic else OForged
  (* from_mut(v: &mut T) -> &mut Write<T>  (or &Write<T>) *)
  | RNone, [TRef _ true (TParam x)], TRef _ _ (TPath "Write" [] [TParam y]) =>
      if String.eqb x y then OExclusive else OForged
  | _, _, _ => OForged
  end.

Definition ctor_ok (f : fnsig) : bool :=
  fs_unsafe f || negb (origin_eqb (ctor_origin f) OForged).

(** ** Projections *)
Inductive proj_kind := PDeref | PIndex | PPayload | PUnknown.

Definition proj_kind_of (f : fnsig) : proj_kind :=
  match fs_self_ty f, fs_ret f with
  | TPath "Write" [] [TParam x],
    TRef _ false (TPath "Write" [] [TProj (TParam y) "Deref" [] [] "Target"]) =>
      if String.eqb x y && has_trait_bound f x "DerefWrite" && String.eqb (fs_name f) "as_deref"
      then PDeref else PUnknown
  | TPath "Write" [] [TParam x],
    TRef _ false (TPath "Write" [] [TProj (TParam y) "Index" [] [TParam _] "Output"]) =>
      if String.eqb x y && has_trait_bound f x "IndexWrite" && String.eqb (fs_trait f) "Index"
      then PIndex else PUnknown
  | TPath "Write" [] [TPath "Option" [] [TParam x]],
    TPath "Option" [] [TRef _ false (TPath "Write" [] [TParam y])] =>
      if String.eqb x y then PPayload else PUnknown
  | TPath "Write" [] [TPath "Result" [] [TParam x; TParam e]],
    TPath "Result" [] [TRef _ false (TPath "Write" [] [TParam y]);
                       TRef _ false (TPath "Write" [] [TParam e'])] =>
      if String.eqb x y && String.eqb e e' then PPayload else PUnknown
  | _, _ => PUnknown
  end.

Definition proj_kind_eqb (a b : proj_kind) : bool :=
  match a, b with
  | PDeref, PDeref | PIndex, PIndex | PPayload, PPayload | PUnknown, PUnknown => true
  | _, _ => false
  end.

Definition proj_ok (f : fnsig) : bool :=
  fs_unsafe f || negb (proj_kind_eqb (proj_kind_of f) PUnknown).

(** ** The [field!] macro *)
Fixpoint pat_eqb (a b : pat) : bool :=
  match a, b with
  | PRef m p, PRef m' p' => Bool.eqb m m' && pat_eqb p p'
  | PBind r m n, PBind r' m' n' => Bool.eqb r r' && Bool.eqb m m' && String.eqb n n'
  | PStruct n fs r, PStruct n' fs' r' =>
      String.eqb n n' && Bool.eqb r r'
      && (fix go (x y : list (string * pat)) : bool :=
            match x, y with
            | [], [] => true
            | (k, p) :: xr, (k', p') :: yr => String.eqb k k' && pat_eqb p p' && go xr yr
            | _, _ => false
            end) fs fs'
  | _, _ => false
  end.

Fixpoint strs_eqb (a b : list string) : bool :=
  match a, b with
  | [], [] => true
  | x :: ar, y :: br => String.eqb x y && strs_eqb ar br
  | _, _ => false
  end.

(** The one shape for which the by-pattern argument holds: the matched value is the macro argument
    itself, a single arm, a [&Write { __inner: $type { ref $field, .. }, .. }] pattern (reference
    pattern without [mut], struct patterns -- which cannot call [Deref] --, a by-[ref] binding that is
    not [mut]), and a body that passes the binding both as reference and as a cast pointer. *)
Definition field_pat : pat :=
  PRef false (PStruct "Write" [("__inner", PStruct "$type" [("$field", PBind true false "$field")] true)] true).

Definition field_macro_ok (m : macro_shape) : bool :=
  ms_found m && Nat.eqb (ms_rules m) 1 && Nat.eqb (ms_arms m) 1
  && String.eqb (ms_matcher m) "$ value : expr , $ type : path , $ field : ident"
  && String.eqb (ms_scrutinee m) "$value"
  && pat_eqb (ms_pat m) field_pat
  && ms_body_unsafe m
  && String.eqb (ms_body_fn m) "__from_ref_and_ptr"
  && strs_eqb (ms_body_args m) ["$field"; "$field as * const _"].

(** [unlock!(v, Type, field)] is [field!(v, Type, field).unlock()]: one rule; the macro invoked is the
    crate's [__field] ([ms_scrutinee]: resolved by the translator through the crate's re-exports --
    [$crate::__field!] and [$crate::barrier::field!] name the same macro --, and judged by
    [field_macro_ok]); its arguments are the three metavariables, in order; the method is [unlock]. *)
Definition unlock_macro_ok (m : macro_shape) : bool :=
  ms_found m && Nat.eqb (ms_rules m) 1
  && String.eqb (ms_matcher m) "$ value : expr , $ type : path , $ field : ident"
  && String.eqb (ms_scrutinee m) "__field"
  && String.eqb (ms_body_fn m) "unlock"
  && strs_eqb (ms_body_args m) ["$value"; "$type"; "$field"]
  && negb (ms_body_unsafe m).

(** ** Tables and the calculus *)
Record tables := {
  t_write_fns : list fnsig;
  t_deref : list impl_hdr;
  t_index : list impl_hdr;
  t_field : macro_shape
}.

Definition ctors (T : tables) : list fnsig := filter is_ctor (t_write_fns T).
Definition projs (T : tables) : list fnsig := filter is_projection (t_write_fns T).

(** A path segment records which projection was taken; its ownership class is computed from the
    implementing type of the marker impl that licensed it. [SUnsize] is the built-in unsizing
    coercion [&Write<[T; N]>] to [&Write<[T]>] / [&Write<T>] to [&Write<dyn Tr>] (same storage). *)
Inductive seg :=
| SField (ok : bool)
| SPayload
| SUnsize
| SIndex (self : ty)
| SDeref (self : ty)
| SUnknownProj (name : string).

Definition seg_class (s : seg) : oclass :=
  match s with
  | SField ok => if ok then Unique else Shared
  | SPayload | SUnsize => Unique
  | SIndex t | SDeref t => class_of t
  | SUnknownProj _ => Shared
  end.

Inductive derivable (T : tables) : origin -> list seg -> Prop :=
| D_ctor : forall f, In f (ctors T) -> fs_unsafe f = false -> derivable T (ctor_origin f) []
| D_field : forall o p, derivable T o p -> derivable T o (p ++ [SField (field_macro_ok (t_field T))])
| D_unsize : forall o p, derivable T o p -> derivable T o (p ++ [SUnsize])
| D_payload : forall o p f, derivable T o p -> In f (projs T) -> fs_unsafe f = false ->
                            proj_kind_of f = PPayload -> derivable T o (p ++ [SPayload])
| D_index : forall o p f i, derivable T o p -> In f (projs T) -> fs_unsafe f = false ->
                            proj_kind_of f = PIndex -> In i (t_index T) ->
                            derivable T o (p ++ [SIndex (i_self i)])
| D_deref : forall o p f i, derivable T o p -> In f (projs T) -> fs_unsafe f = false ->
                            proj_kind_of f = PDeref -> In i (t_deref T) ->
                            derivable T o (p ++ [SDeref (i_self i)])
| D_unknown : forall o p f, derivable T o p -> In f (projs T) -> fs_unsafe f = false ->
                            proj_kind_of f = PUnknown -> derivable T o (p ++ [SUnknownProj (fs_name f)]).

(** A witness is covered if its storage is ['static] data, or it has a sanctioned origin and every
    segment stays inside storage uniquely owned by the place the origin speaks about (the barriered
    allocation; or an exclusively borrowed value, which no allocation other than an already barriered
    [RefMut]'s can alias). *)
Definition covered (o : origin) (p : list seg) : Prop :=
  o = OStatic \/ (o <> OForged /\ Forall (fun s => seg_class s = Unique) p).

Definition impl_unique (i : impl_hdr) : bool := oclass_eqb (class_of (i_self i)) Unique.

(** An [IndexWrite<I>] impl that is generic in the index type [I] (the trait argument is a bare type
    parameter of the impl) is sound only if a where-predicate delegates to an already sanctioned impl of a
    uniquely owned inner type ([[T]: IndexWrite<I>]): otherwise a client crate may implement
    [Index<Local>] for the implementing type (the orphan rule allows it for a local index type) with an
    [index] that leaves the owned storage, e.g. by looking through a stored [Gc]. *)
Definition where_delegates (g : generics) (x : string) : bool :=
  existsb (fun w => match w with
                    | (_, t, bs) =>
                      oclass_eqb (class_of t) Unique
                      && existsb (fun b => match b with
                                           | BTrait _ n _ [TParam y] _ => String.eqb n "IndexWrite" && String.eqb x y
                                           | _ => false
                                           end) bs
                    end) (g_where g).

Definition index_arg_ok (i : impl_hdr) : bool :=
  match i_trait_args i with
  | [TParam x] => where_delegates (i_g i) x
  | _ => true
  end.

Definition premise (T : tables) : bool :=
  forallb ctor_ok (ctors T)
  && forallb proj_ok (projs T)
  && forallb impl_unique (t_deref T)
  && forallb impl_unique (t_index T)
  && field_macro_ok (t_field T)
  && forallb index_arg_ok (t_index T).

(** ** Side conditions read from declarations *)
Definition trait_is_unsafe (ts : list trait_decl) (n : string) : bool :=
  existsb (fun t => String.eqb (tr_name t) n && tr_unsafe t) ts
  && forallb (fun t => negb (String.eqb (tr_name t) n) || tr_unsafe t) ts.

Definition trait_fn_unsafe (ts : list trait_decl) (n fn : string) : bool :=
  existsb (fun t => String.eqb (tr_name t) n
                    && existsb (fun q => String.eqb (fst q) fn && snd q) (tr_fns t)) ts.

Definition write_struct_ok (ds : list decl) : bool :=
  match find_decl ds "Write" with
  | Some (DStruct _ _ attrs _ fs) =>
      mem "non_exhaustive" attrs && mem "repr(transparent)" attrs && Nat.eqb (length fs) 1
  | _ => false
  end.

Definition lock_names : list string := ["Lock"; "RefLock"; "OnceLock"].

Definition lock_struct_ok (ds : list decl) (n : string) : bool :=
  match find_decl ds n with
  | Some (DStruct _ _ _ _ fs) => forallb (fun f => negb (f_pub f)) fs && negb (Nat.eqb (length fs) 0)
  | _ => false
  end.

Definition unlock_impl_ok (i : impl_hdr) : bool :=
  match i_self i with TPath n _ _ => mem n lock_names | _ => false end.

(** ** Lock API: every safe way to the unlocked cell *)
Definition cell_names : list string := ["Cell"; "RefCell"; "OnceCell"; "UnsafeCell"; "RefMut"].

Fixpoint mentions_assoc (a : string) (t : ty) : bool :=
  match t with
  | TProj s _ _ args x => String.eqb a x || mentions_assoc a s || existsb (mentions_assoc a) args
  | TPath _ _ args => existsb (mentions_assoc a) args
  | TParam _ | TConst _ | TNever | TUnknown _ => false
  | TRef _ _ t' | TPtr _ t' | TSlice t' | TArray t' => mentions_assoc a t'
  | TTuple ts => existsb (mentions_assoc a) ts
  | TFnPtr xs r | TImplFn _ _ xs r => existsb (mentions_assoc a) xs || mentions_assoc a r
  | TDyn _ _ _ xs => existsb (mentions_assoc a) xs
  end.

(** Returns a *borrow* of a std cell (or of [T::Unlocked]); constructors and conversions that take or
    return a cell by value do not expose an existing one. *)
Fixpoint borrows_cell (under_ref : bool) (t : ty) : bool :=
  match t with
  | TPath n _ args =>
      (under_ref && mem n cell_names) || String.eqb n "RefMut" || existsb (borrows_cell under_ref) args
  | TProj _ _ _ _ x => under_ref && String.eqb x "Unlocked"
  | TRef _ _ t' | TPtr _ t' => borrows_cell true t'
  | TSlice t' | TArray t' => borrows_cell under_ref t'
  | TTuple ts => existsb (borrows_cell under_ref) ts
  | _ => false
  end.

Definition recv_is_write_ref (f : fnsig) : bool :=
  self_is_write f && match fs_recv f with RRef => true | _ => false end.

Definition takes_gc_and_mc (f : fnsig) : bool :=
  existsb is_mutation_ref (fs_params f)
  && (match fs_recv f with
      | RValue | RTyped _ => match fs_self_ty f with TPath "Gc" _ _ => true | _ => false end
      | _ => false
      end
      || existsb (fun t => match t with TPath "Gc" _ _ => true | _ => false end) (fs_params f)).

Definition calls_barrier (f : fnsig) : bool :=
  calls f "backward_barrier" || calls f "unlock" || calls f "write".

Definition cell_mutators : list string :=
  ["set"; "replace"; "swap"; "take"; "borrow_mut"; "try_borrow_mut"; "get_or_init"; "get_or_try_init";
   "update"; "try_insert"; "get_mut_or_init"].

Definition cell_mutations (f : fnsig) : list string :=
  flat_map (fun q => if String.eqb (fst q) "cell" && mem (snd q) cell_mutators then [snd q] else [])
           (fs_field_calls f).

Definition only_takes_default (f : fnsig) : bool :=
  forallb (String.eqb "take") (cell_mutations f)
  && match fs_self_ty f with
     | TPath _ _ [TParam x] => has_trait_bound f x "Default"
     | _ => false
     end.

Definition lock_fn_ok (f : fnsig) : bool :=
  fs_unsafe f || negb (is_public f)
  || (if borrows_cell false (fs_ret f)
      then recv_is_write_ref f || (takes_gc_and_mc f && calls_barrier f)
      else match cell_mutations f with
           | [] => true
           | _ => match fs_recv f with
                  | RRefMut => true
                  | RValue => match fs_self_ty f with TPath "Gc" _ _ => false | _ => true end
                  | _ => false
                  end
                  || (takes_gc_and_mc f && calls_barrier f)
                  || only_takes_default f
           end).
