(** * Soundness of the closed-set certificate for unreachability in the generated call graph. *)
Require Import Coq.Strings.String Coq.Lists.List Coq.Bool.Bool Coq.NArith.NArith.
Require Import GAApi.Syntax GAApi.ModelTypes GAApi.ModelStatic.
Import ListNotations.

Lemma memN_In : forall x l, memN x l = true <-> In x l.
Proof.
  intros x l. unfold memN. rewrite existsb_exists. split.
  - intros [y [Hin He]]. apply N.eqb_eq in He. subst. exact Hin.
  - intro H. exists x. split; [exact H | apply N.eqb_refl].
Qed.

Lemma closed_step : forall g starts S x y,
  closed g starts S = true -> memN x S = true -> In y (succs g x) -> memN y S = true.
Proof.
  intros g starts S x y Hc Hx Hy.
  unfold closed in Hc. apply andb_prop in Hc. destruct Hc as [_ Hc].
  rewrite forallb_forall in Hc. apply memN_In in Hx.
  specialize (Hc x Hx). rewrite forallb_forall in Hc. exact (Hc y Hy).
Qed.

(** Every node reachable from a member of a closed set is in the set. *)
Lemma closed_path : forall g starts S, closed g starts S = true ->
  forall x t, path g x t -> memN x S = true -> memN t S = true.
Proof.
  intros g starts S Hc x t Hp. induction Hp as [x | x y z Hy _ IH]; intro Hx.
  - exact Hx.
  - apply IH. eapply closed_step; eauto.
Qed.

Lemma closed_starts : forall g starts S, closed g starts S = true ->
  forall s, In s starts -> memN s S = true.
Proof.
  intros g starts S Hc s Hs. unfold closed in Hc. apply andb_prop in Hc. destruct Hc as [Hc _].
  rewrite forallb_forall in Hc. exact (Hc s Hs).
Qed.

Theorem closed_unreachable : forall g starts S bad,
  closed g starts S = true -> disjoint bad S = true ->
  forall s t, In s starts -> In t bad -> ~ path g s t.
Proof.
  intros g starts S bad Hc Hd s t Hs Ht Hp.
  pose proof (closed_path g starts S Hc s t Hp (closed_starts g starts S Hc s Hs)) as Hin.
  unfold disjoint in Hd. rewrite forallb_forall in Hd. specialize (Hd t Ht).
  rewrite Hin in Hd. discriminate.
Qed.

(** Generic (table-independent) reading of the per-method check. *)
Lemma arena_method_ok_spec : forall g f,
  arena_method_ok g f = true ->
  mem (cg_owner f) arena_owners = true -> recv_exclusive (cg_recv f) = false ->
  forall d, In d (do_collection_ids g) -> ~ path g (cg_id f) d.
Proof.
  intros g f H Hown Hrecv d Hd.
  unfold arena_method_ok in H. rewrite Hown, Hrecv in H.
  unfold cannot_collect in H. apply andb_prop in H. destruct H as [Hc Hdis].
  exact (closed_unreachable g [cg_id f] (reach_from g [cg_id f]) (do_collection_ids g)
           Hc Hdis (cg_id f) d (or_introl eq_refl) Hd).
Qed.
