(** * C19 model: the signature criterion "a safe public function never conjures a value", and the
    model of the [ZstCache::alloc_zst] guard.  Definitions only.

    The criterion is sound by a parametricity argument (a function generic in [X] that is given no
    [X], no container/pointer/closure that yields one and no [X: Default]-like capability cannot
    return a pointer to an [X] it created).  That argument is TRUSTED, not proved here. *)
Require Import Coq.Strings.String Coq.Lists.List Coq.Bool.Bool Coq.Arith.PeanoNat Coq.NArith.NArith.
Require Import GAApi.Syntax GAApi.ModelTypes.
Import ListNotations.
Open Scope string_scope.

Definition gc_ptr_names : list string := ["Gc"; "GcWeak"].

Fixpoint first_ty_arg (args : list ty) : list ty :=
  match args with
  | [] => []
  | a :: r => if is_const_arg a then first_ty_arg r else [a]
  end.

(** The pointee types of every [Gc<'gc, X, _>] / [GcWeak<'gc, X, _>] occurring in an (alias-free)
    type. *)
Fixpoint gc_targets (t : ty) : list ty :=
  match t with
  | TPath n _ args =>
      ((if mem n gc_ptr_names then first_ty_arg args else []) ++ flat_map gc_targets args)%list
  | TParam _ | TConst _ | TNever | TUnknown _ => []
  | TRef _ _ t' | TPtr _ t' | TSlice t' | TArray t' => gc_targets t'
  | TTuple ts => flat_map gc_targets ts
  | TFnPtr a r | TImplFn _ _ a r => (flat_map gc_targets a ++ gc_targets r)%list
  | TDyn _ _ _ a => flat_map gc_targets a
  | TProj s _ _ a _ => (gc_targets s ++ flat_map gc_targets a)%list
  end.

(** Does a parameter of (alias-free) type [t] supply a value of the type parameter [x]?  A value, a
    reference, a slice/array/tuple/container of it, a [Gc]/[GcWeak]/builder/[DynamicRoot] of it, a
    projection built from it, or a function/closure returning it.  Not: [PhantomData], raw pointers,
    function *arguments*, trait objects. *)
Fixpoint supplies (x : string) (t : ty) : bool :=
  match t with
  | TParam y => String.eqb x y
  | TRef _ _ t' | TSlice t' | TArray t' => supplies x t'
  | TTuple ts => existsb (supplies x) ts
  | TPath n _ args => if mem n ["PhantomData"] then false else existsb (supplies x) args
  | TImplFn _ _ _ r | TFnPtr _ r => supplies x r
  | TProj s _ _ a _ => supplies x s || existsb (supplies x) a
  | TPtr _ _ | TDyn _ _ _ _ | TConst _ | TNever | TUnknown _ => false
  end.

Definition bounds_of (f : fnsig) (x : string) : list bound :=
  flat_map (fun p => if String.eqb (tp_name p) x then tp_bounds p else [])
           (g_tps (fs_g f) ++ g_tps (fs_impl_g f))
  ++ flat_map (fun w => match w with
                        | ([], TParam y, bs) => if String.eqb x y then bs else []
                        | _ => []
                        end) (g_where (fs_g f) ++ g_where (fs_impl_g f)).

(** A parameter whose type is a type parameter [F] bounded by [FnOnce(..) -> R]. *)
Definition closure_supplies (ds : list decl) (f : fnsig) (x : string) (t : ty) : bool :=
  match t with
  | TParam fn =>
      existsb (fun b => match b with
                        | BFn _ _ _ r => supplies x (expand EXPAND_FUEL ds r)
                        | _ => false
                        end) (bounds_of f fn)
  | _ => false
  end.

(** Capabilities that let a function make an [X] from nothing. *)
Definition default_like : list string := ["Default"].

Definition has_default_like (f : fnsig) (x : string) : bool :=
  existsb (fun b => match b with BTrait _ n _ _ _ => mem n default_like | _ => false end) (bounds_of f x).

Definition value_params (ds : list decl) (f : fnsig) : list ty :=
  map (expand EXPAND_FUEL ds)
      (match fs_recv f with
       | RNone => fs_params f
       | RTyped t => t :: fs_params f
       | _ => fs_self_ty f :: fs_params f
       end).

Definition supplied (ds : list decl) (f : fnsig) (x : string) : bool :=
  existsb (supplies x) (value_params ds f)
  || existsb (closure_supplies ds f x) (fs_params f)
  || has_default_like f x.

Definition ret_expanded (ds : list decl) (f : fnsig) : ty := expand EXPAND_FUEL ds (fs_ret f).

Definition returns_gc (ds : list decl) (f : fnsig) : bool :=
  mentions_path gc_ptr_names (ret_expanded ds f).

Definition is_public_fn (f : fnsig) : bool := String.eqb (fs_vis f) "pub" || String.eqb (fs_vis f) "trait".

(** Trait *declarations* (methods without an implementing type) are not callable by themselves. *)
Definition relevant (ds : list decl) (f : fnsig) : bool :=
  is_public_fn f && negb (fs_unsafe f) && returns_gc ds f.

Definition sig_ok (ds : list decl) (f : fnsig) : bool :=
  let r := ret_expanded ds f in
  negb (has_unknown r)
  && forallb (fun tgt => forallb (supplied ds f) (tparams_of tgt)) (gc_targets r).

Definition set_safe (f : fnsig) : fnsig :=
  {| fs_name := fs_name f; fs_owner := fs_owner f; fs_self_ty := fs_self_ty f; fs_trait := fs_trait f;
     fs_vis := fs_vis f; fs_unsafe := false; fs_impl_g := fs_impl_g f; fs_g := fs_g f;
     fs_recv := fs_recv f; fs_params := fs_params f; fs_ret := fs_ret f; fs_file := fs_file f;
     fs_cfg := fs_cfg f; fs_calls := fs_calls f; fs_field_calls := fs_field_calls f |}.

Definition find_fn (fs : list fnsig) (owner name : string) : option fnsig :=
  find (fun f => String.eqb (fs_owner f) owner && String.eqb (fs_name f) name) fs.

(** ** The [alloc_zst] guard

    The translator emits the body of [alloc_zst] as a decision tree ([Syntax.zbody]) over the
    conditions it found in the source, spelled as in the source.  Nothing below depends on HOW the
    guard is spelled: [zbody_canonical] decides, semantically, that the tree returns [Some] exactly
    when [size_of::<T>() == 0] and [align_of::<T>() <= MAX_ALIGN]. *)
Definition eval_zexpr (size align maxa : N) (e : zexpr) : option N :=
  match e with
  | ZSizeOf => Some size
  | ZAlignOf => Some align
  | ZMaxAlign => Some maxa
  | ZLit n => Some n
  | ZUnknownE _ => None
  end.

Definition lift2 {A B} (f : A -> A -> B) (a b : option A) : option B :=
  match a, b with Some x, Some y => Some (f x y) | _, _ => None end.

Fixpoint eval_zcond (size align maxa : N) (c : zcond) : option bool :=
  match c with
  | ZEq a b => lift2 N.eqb (eval_zexpr size align maxa a) (eval_zexpr size align maxa b)
  | ZLe a b => lift2 N.leb (eval_zexpr size align maxa a) (eval_zexpr size align maxa b)
  | ZLt a b => lift2 N.ltb (eval_zexpr size align maxa a) (eval_zexpr size align maxa b)
  | ZAnd a b => lift2 andb (eval_zcond size align maxa a) (eval_zcond size align maxa b)
  | ZOr a b => lift2 orb (eval_zcond size align maxa a) (eval_zcond size align maxa b)
  | ZNot a => option_map negb (eval_zcond size align maxa a)
  | ZTrue => Some true
  | ZUnknownC _ => None
  end.

(** Does the body return [Some(..)] (the cached pointer)?  [None] = the tree contains something the
    translator could not interpret on the path taken. *)
Fixpoint body_hit (size align maxa : N) (b : zbody) : option bool :=
  match b with
  | ZRetSome => Some true
  | ZRetNone => Some false
  | ZIf c t e =>
      match eval_zcond size align maxa c with
      | Some true => body_hit size align maxa t
      | Some false => body_hit size align maxa e
      | None => None
      end
  | ZUnknownB _ => None
  end.

(** [alloc_zst] returns the anchor address iff its body reaches a [Some(..)] leaf. *)
Definition alloc_zst_model (b : zbody) (anchor size align maxa : N) : option N :=
  match body_hit size align maxa b with
  | Some true => Some anchor
  | _ => None
  end.

Definition zexpr_eqb (a b : zexpr) : bool :=
  match a, b with
  | ZSizeOf, ZSizeOf | ZAlignOf, ZAlignOf | ZMaxAlign, ZMaxAlign => true
  | ZLit n, ZLit m => N.eqb n m
  | _, _ => false
  end.

(** The two facts the guard is about.  A comparison of the source is recognised as one of them or
    its negation (over the naturals: [size <= 0], [size < 1], [!(size > 0)] all say [size == 0];
    [MAX_ALIGN < align] is the negation of [align <= MAX_ALIGN]); any other comparison is not
    interpreted (fail closed). *)
Inductive zprop := PSizeZero | PAlignFits.

Definition classify_atom (c : zcond) : option (zprop * bool) :=
  match c with
  | ZEq a b =>
      if (zexpr_eqb a ZSizeOf && zexpr_eqb b (ZLit 0)) || (zexpr_eqb a (ZLit 0) && zexpr_eqb b ZSizeOf)
      then Some (PSizeZero, true) else None
  | ZLe a b =>
      if zexpr_eqb a ZAlignOf && zexpr_eqb b ZMaxAlign then Some (PAlignFits, true)
      else if zexpr_eqb a ZSizeOf && zexpr_eqb b (ZLit 0) then Some (PSizeZero, true)
      else if zexpr_eqb a (ZLit 1) && zexpr_eqb b ZSizeOf then Some (PSizeZero, false)
      else None
  | ZLt a b =>
      if zexpr_eqb a ZMaxAlign && zexpr_eqb b ZAlignOf then Some (PAlignFits, false)
      else if zexpr_eqb a ZSizeOf && zexpr_eqb b (ZLit 1) then Some (PSizeZero, true)
      else if zexpr_eqb a (ZLit 0) && zexpr_eqb b ZSizeOf then Some (PSizeZero, false)
      else None
  | _ => None
  end.

Definition lit_val (v pos : bool) : bool := if pos then v else negb v.

(** Propositional evaluation: [P] stands for [size == 0], [Q] for [align <= MAX_ALIGN]. *)
Fixpoint peval (P Q : bool) (c : zcond) : option bool :=
  match c with
  | ZAnd a b => lift2 andb (peval P Q a) (peval P Q b)
  | ZOr a b => lift2 orb (peval P Q a) (peval P Q b)
  | ZNot a => option_map negb (peval P Q a)
  | ZTrue => Some true
  | ZUnknownC _ => None
  | atom =>
      match classify_atom atom with
      | Some (PSizeZero, pos) => Some (lit_val P pos)
      | Some (PAlignFits, pos) => Some (lit_val Q pos)
      | None => None
      end
  end.

Fixpoint pbody (P Q : bool) (b : zbody) : option bool :=
  match b with
  | ZRetSome => Some true
  | ZRetNone => Some false
  | ZIf c t e =>
      match peval P Q c with
      | Some true => pbody P Q t
      | Some false => pbody P Q e
      | None => None
      end
  | ZUnknownB _ => None
  end.

(** The body hands out the pointer exactly when [size_of::<T>() == 0 && align_of::<T>() <= MAX_ALIGN]
    -- however the source spells, nests, negates, orders or early-returns it: the propositional
    reading of the tree agrees with [P && Q] on all four valuations. *)
Definition zbody_canonical (b : zbody) : bool :=
  forallb (fun pq => match pbody (fst pq) (snd pq) b with
                     | Some v => Bool.eqb v (fst pq && snd pq)
                     | None => false
                     end)
          [(true, true); (true, false); (false, true); (false, false)].

Definition aligned_types_ok (l : list (string * string)) : bool :=
  negb (Nat.eqb (length l) 0) && forallb (fun q => String.eqb (fst q) (snd q) && negb (String.eqb (fst q) "?")) l.

(** ** Macro hygiene: no caller code inside a macro's [unsafe] block

    [unsafe] blocks are not hygienic: caller tokens that a [macro_rules!] transcriber pastes inside its
    own [unsafe { .. }] are compiled in an unsafe context, so a SAFE program could call [Gc::from_ptr],
    [cast], [assume_init] .. through the macro and conjure a pointer.  Fragments that can carry
    executable caller code are [expr], [block], [stmt], [tt], [item], [path], [pat_param]/[pat] (const
    patterns are paths, harmless) -- we forbid the first six plus an unbound name; [ident], [ty],
    [lifetime], [literal], [vis], [meta] cannot contain an expression evaluated in that context. *)
Definition code_fragments : list string := ["expr"; "block"; "stmt"; "tt"; "item"; "path"; "?"].

Definition metavar_harmless (e : (string * string) * string) : bool :=
  negb (existsb (String.eqb (snd e)) code_fragments).

(** ** [unsize!] only performs coercions that rustc allows between RAW pointers

    [unsize!(gc => U)] type-checks [|p: *const _| -> *const U { p }]: between raw pointers the only
    implicit coercions are unsizing ones ([T: Unsize<U>]) -- the address is kept.  Were the closure over
    references ([&T -> &U]), deref coercion would apply too ([&String -> &str], [&Box<T> -> &T],
    [&Gc<T> -> &T]): the "unsized" pointer would point INTO or AWAY from the original value, to
    something that is not a Gc allocation at all.  Hence: the closure bound of every
    [__coerce_unchecked] is [FnOnce( *const _ ) -> *const _], and the macro's transcriber is the one
    whose closure is annotated with raw pointer types. *)
Definition is_const_ptr (t : ty) : bool := match t with TPtr false _ => true | _ => false end.

Definition raw_ptr_closure (b : bound) : bool :=
  match b with
  | BFn _ "FnOnce" [a] r => is_const_ptr a && is_const_ptr r
  | _ => false
  end.

Definition coerce_fn_ok (f : fnsig) : bool :=
  fs_unsafe f
  && match g_tps (fs_g f) with
     | [tp] => match tp_bounds tp with [b] => raw_ptr_closure b | _ => false end
     | _ => false
     end
  && match g_where (fs_g f) with [] => true | _ => false end.

Definition coerce_fns (fs : list fnsig) : list fnsig :=
  filter (fun f => String.eqb (fs_name f) "__coerce_unchecked") fs.

Definition unsize_macro_ok (rules : nat) (matcher text : string) : bool :=
  Nat.eqb rules 1
  && String.eqb matcher "$ gc : expr => $ ty : ty"
  && String.eqb text "{ let gc = $ gc ; unsafe { $ crate :: __CoercePtrInternal :: __coerce_unchecked (gc , | p : * const _ | -> * const $ ty { p }) } }".

(** ** Arguments of one call share one brand

    A function that receives a context ([&Mutation<'x>], [&Finalization<'x>]) together with pointers,
    root sets, caches or builders, or two pointers, must take them all at the SAME named lifetime:
    were one of them elided or a second lifetime parameter, a caller could pass a pointer of arena A with
    the context of arena B (the collector of B would then mark, barrier or resurrect A's object).  The
    lifetimes at brand positions (table [branded], computed from the declarations) of the self type and
    of every parameter type, after alias expansion; closures and trait objects bind their own. *)
Definition lt_eqb (a b : lt) : bool :=
  match a, b with
  | LStatic, LStatic => true
  | LNamed x, LNamed y => String.eqb x y
  | _, _ => false   (* two elided lifetimes are two different lifetimes *)
  end.

Fixpoint brand_lts (br : list (string * nat)) (t : ty) : list lt :=
  match t with
  | TPath n lts args =>
      flat_map (fun iq => if pair_mem n (fst iq) br then [snd iq] else []) (enum_from 0 lts)
      ++ flat_map (brand_lts br) args
  | TRef _ _ t' | TPtr _ t' | TSlice t' | TArray t' => brand_lts br t'
  | TTuple ts => flat_map (brand_lts br) ts
  | _ => []
  end.

Definition fn_arg_tys (f : fnsig) : list ty :=
  match fs_recv f with
  | RNone => fs_params f
  | RTyped t => t :: fs_params f
  | _ => fs_self_ty f :: fs_params f
  end.

Definition fn_brands (ds : list decl) (br : list (string * nat)) (f : fnsig) : list lt :=
  flat_map (fun t => brand_lts br (expand EXPAND_FUEL ds t)) (fn_arg_tys f).

Definition brands_agree (l : list lt) : bool :=
  match l with
  | [] => true
  | [_] => true
  | x :: r => forallb (lt_eqb x) r
  end.

Definition args_share_brand (ds : list decl) (br : list (string * nat)) (f : fnsig) : bool :=
  brands_agree (fn_brands ds br f).
