(** * C12: a small subtyping calculus and the lemma that subtyping cannot move the brand.

    Types are constructor applications to lifetime and type arguments; every (constructor, position)
    has a declared variance (never bivariant: rustc rejects unused parameters).  Lifetimes are ordered
    by an arbitrary "outlives" relation.  Region equality is mutual outlives, as in rustc: an invariant
    position relates [a] and [b] iff each outlives the other.

    The brand is generative if nothing but the brand itself both outlives it and is outlived by it
    ([brand_antisym]).  That is what rustc's higher-ranked [for<'gc>] binder is TRUSTED to provide; see
    the report for the one known way to break it (an implied ['gc: 'static] bound obtained through the
    [Rootable!] macro's un-WF-checked projection). *)
Require Import Coq.Lists.List Coq.Bool.Bool Coq.Arith.PeanoNat.
Require Import GAApi.ModelTypes.
Import ListNotations.

Section Calculus.
  (** Lifetimes and the outlives relation [outl a b] ("a outlives b"). *)
  Variable lft : Type.
  Variable Brand : lft.
  Variable outl : lft -> lft -> Prop.

  Inductive sty :=
  | SBase (n : nat)
  | SApp (c : nat) (ls : list lft) (ts : list sty).

  (** Declared variances (from ModelTypes.variance, without [Bi]) and the brand positions. *)
  Variable var_l : nat -> nat -> variance.
  Variable var_t : nat -> nat -> variance.
  Variable brand_pos : nat -> nat -> bool.

  Definition lrel (v : variance) (a b : lft) : Prop :=
    match v with
    | Co => outl a b
    | Contra => outl b a
    | Inv => outl a b /\ outl b a
    | Bi => False
    end.

  Inductive lsub (c : nat) : nat -> list lft -> list lft -> Prop :=
  | lsub_nil : forall i, lsub c i [] []
  | lsub_cons : forall i a b r r', lrel (var_l c i) a b -> lsub c (S i) r r' ->
                                   lsub c i (a :: r) (b :: r').

  Inductive sub : sty -> sty -> Prop :=
  | sub_base : forall n, sub (SBase n) (SBase n)
  | sub_app : forall c ls ls' ts ts',
      lsub c 0 ls ls' -> tsub c 0 ts ts' -> sub (SApp c ls ts) (SApp c ls' ts')
  with tsub : nat -> nat -> list sty -> list sty -> Prop :=
  | tsub_nil : forall c j, tsub c j [] []
  | tsub_cons : forall c j t t' r r',
      trel c j t t' -> tsub c (S j) r r' -> tsub c j (t :: r) (t' :: r')
  with trel : nat -> nat -> sty -> sty -> Prop :=
  | trel_co : forall c j t t', var_t c j = Co -> sub t t' -> trel c j t t'
  | trel_contra : forall c j t t', var_t c j = Contra -> sub t' t -> trel c j t t'
  | trel_inv : forall c j t t', var_t c j = Inv -> sub t t' -> sub t' t -> trel c j t t'.

  Scheme sub_ind2 := Minimality for sub Sort Prop
    with tsub_ind2 := Minimality for tsub Sort Prop
    with trel_ind2 := Minimality for trel Sort Prop.
  Combined Scheme sub_mutind from sub_ind2, tsub_ind2, trel_ind2.

  (** The lifetimes sitting in brand positions, in traversal order. *)
  Fixpoint select (c i : nat) (ls : list lft) : list lft :=
    match ls with
    | [] => []
    | a :: r => if brand_pos c i then a :: select c (S i) r else select c (S i) r
    end.

  Fixpoint brand_lts (t : sty) : list lft :=
    match t with
    | SBase _ => []
    | SApp c ls ts => select c 0 ls ++ flat_map brand_lts ts
    end.

  Definition same_brand (l l' : list lft) : Prop :=
    Forall2 (fun a b => a = Brand <-> b = Brand) l l'.

  Lemma same_brand_sym : forall l l', same_brand l l' -> same_brand l' l.
  Proof.
    induction 1; constructor; [tauto | assumption].
  Qed.

  Lemma same_brand_app : forall a a' b b',
    same_brand a a' -> same_brand b b' -> same_brand (a ++ b) (a' ++ b').
  Proof. intros. apply Forall2_app; assumption. Qed.

  Lemma same_brand_In : forall l l', same_brand l l' -> (In Brand l <-> In Brand l').
  Proof.
    induction 1 as [| a b l l' Hab _ IH]; simpl; [tauto|].
    destruct Hab as [Hab Hba]. destruct IH as [IH1 IH2].
    split; intros [H | H].
    - left. apply Hab. exact H.
    - right. apply IH1. exact H.
    - left. apply Hba. exact H.
    - right. apply IH2. exact H.
  Qed.

  (** Hypotheses of the lemma. *)
  Hypothesis brand_positions_invariant : forall c i, brand_pos c i = true -> var_l c i = Inv.
  Hypothesis brand_antisym : forall l, outl Brand l -> outl l Brand -> l = Brand.

  Lemma lsub_same_brand : forall c i ls ls', lsub c i ls ls' -> same_brand (select c i ls) (select c i ls').
  Proof.
    induction 1 as [| i a b r r' Hrel _ IH]; simpl; [constructor|].
    destruct (brand_pos c i) eqn:E; [|exact IH].
    constructor; [|exact IH].
    rewrite (brand_positions_invariant c i E) in Hrel. simpl in Hrel. destruct Hrel as [Hab Hba].
    split; intro; subst.
    - apply brand_antisym; assumption.
    - apply brand_antisym; assumption.
  Qed.

  Theorem sub_same_brand_all :
    (forall t t', sub t t' -> same_brand (brand_lts t) (brand_lts t'))
    /\ (forall c j ts ts', tsub c j ts ts' -> same_brand (flat_map brand_lts ts) (flat_map brand_lts ts'))
    /\ (forall c j t t', trel c j t t' -> same_brand (brand_lts t) (brand_lts t')).
  Proof.
    apply sub_mutind.
    - intros n. constructor.
    - intros c ls ls' ts ts' Hl _ IHt. simpl.
      apply same_brand_app; [apply lsub_same_brand; exact Hl | exact IHt].
    - intros c j. constructor.
    - intros c j t t' r r' _ IHt _ IHr. simpl. apply same_brand_app; assumption.
    - intros c j t t' _ _ IH. exact IH.
    - intros c j t t' _ _ IH. apply same_brand_sym. exact IH.
    - intros c j t t' _ _ IH _ _. exact IH.
  Qed.

  Definition mentions_brand (t : sty) : Prop := In Brand (brand_lts t).

  (** Subtyping relates only types that agree, position by position, on where the brand sits; in
      particular a type carrying the brand is never a sub- or supertype of one that does not. *)
  Theorem sub_preserves_brand : forall t t', sub t t' -> (mentions_brand t <-> mentions_brand t').
  Proof.
    intros t t' H. unfold mentions_brand. apply same_brand_In.
    exact (proj1 sub_same_brand_all t t' H).
  Qed.
End Calculus.

(** Non-vacuity / discrimination: with a *covariant* brand position and the fact ['static: 'gc] the
    statement is false -- [C<'static> <: C<'gc>]. *)
Module Discriminate.
  Inductive l3 := B | St | Other.
  Definition outl (a b : l3) : Prop := a = b \/ a = St.   (* 'static outlives everything *)
  Definition var_l (c i : nat) : variance := Co.
  Definition var_t (c i : nat) : variance := Co.
  Definition bp (c i : nat) : bool := true.

  Example covariant_brand_moves :
    sub l3 outl var_l var_t (SApp l3 0 [St] []) (SApp l3 0 [B] [])
    /\ ~ mentions_brand l3 B bp (SApp l3 0 [St] [])
    /\ mentions_brand l3 B bp (SApp l3 0 [B] []).
  Proof.
    split; [|split].
    - apply sub_app; [|constructor]. constructor; [|constructor]. simpl. right. reflexivity.
    - unfold mentions_brand. simpl. intros [H | []]. discriminate.
    - unfold mentions_brand. simpl. left. reflexivity.
  Qed.

  (** The hypotheses are satisfiable: invariant brand position, the same outlives relation. *)
  Definition var_inv (c i : nat) : variance := Inv.
  Example hypotheses_satisfiable :
    (forall c i, bp c i = true -> var_inv c i = Inv)
    /\ (forall l, outl B l -> outl l B -> l = B).
  Proof.
    split; [reflexivity|].
    intros l [H | H] [H' | H']; try congruence.
  Qed.
End Discriminate.
