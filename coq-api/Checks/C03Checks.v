(** Finite checks for the call-graph fact used by C03. *)
Require Import Coq.Strings.String Coq.Lists.List Coq.Bool.Bool Coq.Arith.PeanoNat Coq.NArith.NArith.
Require Import GAApi.Syntax GAApi.ModelTypes GAApi.ModelStatic GAApi.StaticProofs.
Require Import GAApi.Gen.GenTypes GAApi.Gen.GenCallGraph.
Import ListNotations.
Open Scope string_scope.

Definition NAMES : cg_names := {| n_structs := struct_names; n_aliases := alias_names; n_traits := trait_names |}.

(** The closed set witnessing that the entry points reach no forbidden function. *)
Definition ENTRY_SET : list N := Eval vm_compute in reach_from fns (entries fns).

Lemma ids_wf_check : ids_wf fns = true.
Proof. vm_compute. reflexivity. Qed.

Lemma entry_closed_check : closed fns (entries fns) ENTRY_SET = true.
Proof. vm_compute. reflexivity. Qed.

Lemma entry_disjoint_check : disjoint (forbidden fns) ENTRY_SET = true.
Proof. vm_compute. reflexivity. Qed.

Lemma nonvacuous_check :
  negb (Nat.eqb (length (entries fns)) 0)
  && forallb (fun n => existsb (fun f => String.eqb (cg_name f) n) fns) forbidden_names
  && forallb (fun n => existsb (fun f => is_entry f && String.eqb (cg_name f) n) fns)
             ["link"; "backward_barrier"; "backward_barrier_weak"; "forward_barrier"; "forward_barrier_weak";
              "upgrade"; "resurrect"; "metrics"] = true.
Proof. vm_compute. reflexivity. Qed.

Theorem entries_unreachable : forall e t, In e (entries fns) -> In t (forbidden fns) -> ~ path fns e t.
Proof. exact (closed_unreachable fns (entries fns) ENTRY_SET (forbidden fns) entry_closed_check entry_disjoint_check). Qed.

Lemma edge_rule_check : forallb (edge_rule_ok NAMES fns) fns = true.
Proof. vm_compute. reflexivity. Qed.

Lemma edge_rule_lifted : forall f, In f fns -> edge_rule_ok NAMES fns f = true.
Proof. exact (proj1 (forallb_forall _ _) edge_rule_check). Qed.

(** Arena / MarkedArena methods. *)
Lemma arena_methods_check : forallb (arena_method_ok fns) fns = true.
Proof. vm_compute. reflexivity. Qed.

Theorem arena_methods_lifted : forall f, In f fns -> mem (cg_owner f) arena_owners = true ->
  recv_exclusive (cg_recv f) = false ->
  forall d, In d (do_collection_ids fns) -> ~ path fns (cg_id f) d.
Proof.
  intros f Hin Hown Hrecv d Hd.
  exact (arena_method_ok_spec fns f (proj1 (forallb_forall _ _) arena_methods_check f Hin) Hown Hrecv d Hd).
Qed.

Lemma collecting_methods_check :
  same_set (collecting_methods fns) ["collect_debt"; "mark_debt"; "finish_marking"; "cycle_debt"; "finish_cycle"; "start_sweeping"] = true.
Proof. vm_compute. reflexivity. Qed.

Lemma callbacks_borrow_check : forallb callback_borrows_arena arena_fns = true.
Proof. vm_compute. reflexivity. Qed.

Lemma callbacks_borrow_lifted : forall f, In f arena_fns -> callback_borrows_arena f = true.
Proof. exact (proj1 (forallb_forall _ _) callbacks_borrow_check). Qed.

Lemma cg_no_unknown_check : is_nil GenCallGraph.unknown_items = true.
Proof. vm_compute. reflexivity. Qed.

Lemma is_nil_spec : forall {A} (l : list A), is_nil l = true -> l = [].
Proof. intros A [|x l]; simpl; [reflexivity | discriminate]. Qed.

Lemma cg_no_unknown : GenCallGraph.unknown_items = [].
Proof. exact (is_nil_spec _ cg_no_unknown_check). Qed.
