(** Finite checks of the C19 model over the regenerated tables. *)
Require Import Coq.Strings.String Coq.Lists.List Coq.Bool.Bool Coq.Arith.PeanoNat Coq.NArith.NArith.
Require Import GAApi.Syntax GAApi.ModelTypes GAApi.ModelSigs GAApi.ModelStatic GAApi.SigsProofs.
Require Import GAApi.Gen.GenTypes GAApi.Gen.GenSigs.
Import ListNotations.
Open Scope string_scope.

Definition relevant_fns : list fnsig := filter (relevant decls) pub_fns.

Lemma sigs_check : forallb (sig_ok decls) relevant_fns = true.
Proof. vm_compute. reflexivity. Qed.

Lemma sigs_lifted : forall f, In f pub_fns -> relevant decls f = true -> sig_ok decls f = true.
Proof.
  intros f Hin Hrel. apply (proj1 (forallb_forall _ _) sigs_check).
  unfold relevant_fns. apply filter_In. split; assumption.
Qed.

Lemma no_unknown_check : is_nil GenSigs.unknown_items = true.
Proof. vm_compute. reflexivity. Qed.

(** The scan is not vacuous: the allocation entry points are among the relevant signatures. *)
Lemma relevant_present :
  forallb (fun on => existsb (fun f => String.eqb (fs_owner f) (fst on) && String.eqb (fs_name f) (snd on)) relevant_fns)
          [("Gc", "new"); ("Gc", "new_static"); ("ZstCache", "alloc"); ("ZstCache", "alloc_static");
           ("GcWeak", "upgrade"); ("DynamicRootSet", "fetch"); ("Gc", "erase"); ("GcBuilder", "write")] = true.
Proof. vm_compute. reflexivity. Qed.

(** [alloc_zst] exists, is [unsafe] (hence outside the safe surface) -- and with the pre-fix signature
    (the same function, not [unsafe]) it fails the criterion. *)
Lemma alloc_zst_unsafe_now :
  option_map fs_unsafe (find_fn pub_fns "ZstCache" "alloc_zst") = Some true.
Proof. vm_compute. reflexivity. Qed.

Lemma alloc_zst_prefix_fails :
  option_map (fun f => relevant decls (set_safe f) && negb (sig_ok decls (set_safe f)))
             (find_fn pub_fns "ZstCache" "alloc_zst") = Some true.
Proof. vm_compute. reflexivity. Qed.

(** The pre-fix signature written out by hand:
    [impl<'gc, const MAX_ALIGN: usize> ZstCache<'gc, MAX_ALIGN> { pub fn alloc_zst<T: 'gc>(&self) -> Option<Gc<'gc, T>> }] *)
Definition alloc_zst_prefix : fnsig :=
  {| fs_name := "alloc_zst"; fs_owner := "ZstCache";
     fs_self_ty := TPath "ZstCache" [LNamed "'gc"] [TConst "MAX_ALIGN"]; fs_trait := ""; fs_vis := "pub";
     fs_unsafe := false;
     fs_impl_g := {| g_lts := ["'gc"]; g_tps := []; g_consts := ["MAX_ALIGN"]; g_where := [] |};
     fs_g := {| g_lts := []; g_tps := [{| tp_name := "T"; tp_bounds := [BOutlives (LNamed "'gc")]; tp_default := None |}];
                g_consts := []; g_where := [] |};
     fs_recv := RRef; fs_params := [];
     fs_ret := TPath "Option" [] [TPath "Gc" [LNamed "'gc"] [TParam "T"]];
     fs_file := "zst_cache.rs"; fs_cfg := []; fs_calls := []; fs_field_calls := [] |}.

Lemma alloc_zst_prefix_literal_fails : relevant decls alloc_zst_prefix = true /\ sig_ok decls alloc_zst_prefix = false.
Proof. split; vm_compute; reflexivity. Qed.

(** *** The guard *)
Definition zst_shape : bool :=
  zst_found && zbody_canonical zst_body && aligned_types_ok aligned_types.

Lemma zst_shape_check : zst_shape = true.
Proof. vm_compute. reflexivity. Qed.

Lemma zst_canonical : zbody_canonical zst_body = true.
Proof. vm_compute. reflexivity. Qed.

Theorem zst_sound_generated : forall anchor size align maxa k j p,
  align = (2 ^ k)%N -> maxa = (2 ^ j)%N -> (anchor mod maxa = 0)%N ->
  alloc_zst_model zst_body anchor size align maxa = Some p ->
  size = 0%N /\ (align <= maxa)%N /\ p = anchor /\ (p mod align = 0)%N.
Proof.
  intros anchor size align maxa k j p Ha Hm Hanch Hres.
  exact (zst_cond_sound zst_body anchor size align maxa k j p zst_canonical Ha Hm Hanch Hres).
Qed.

Theorem zst_complete_generated : forall anchor size align maxa,
  size = 0%N -> (align <= maxa)%N -> alloc_zst_model zst_body anchor size align maxa = Some anchor.
Proof. intros anchor size align maxa Hs Hl. exact (zst_cond_complete zst_body anchor size align maxa zst_canonical Hs Hl). Qed.

Theorem zst_none_generated : forall anchor size align maxa,
  (size <> 0%N \/ (maxa < align)%N) -> alloc_zst_model zst_body anchor size align maxa = None.
Proof. intros anchor size align maxa H. exact (zst_cond_none zst_body anchor size align maxa zst_canonical H). Qed.

(** The semantic check is not a syntactic accident: spelled with an early return and a De Morgan-negated
    guard, with flipped comparisons, or nested, the body is still canonical; a weakened guard
    ([align_of <= 2 * MAX_ALIGN] is not a comparison the model interprets; dropping the size test; [||]
    for [&&]) is not. *)
Definition zb_reference : zbody :=
  ZIf (ZAnd (ZEq ZSizeOf (ZLit 0)) (ZLe ZAlignOf ZMaxAlign)) ZRetSome ZRetNone.
Definition zb_early_demorgan : zbody :=
  ZIf (ZOr (ZNot (ZEq ZSizeOf (ZLit 0))) (ZLt ZMaxAlign ZAlignOf)) ZRetNone ZRetSome.
Definition zb_nested_flipped : zbody :=
  ZIf (ZNot (ZLt (ZLit 0) ZSizeOf)) (ZIf (ZNot (ZLt ZMaxAlign ZAlignOf)) ZRetSome ZRetNone) ZRetNone.
Definition zb_no_size_test : zbody := ZIf (ZLe ZAlignOf ZMaxAlign) ZRetSome ZRetNone.
Definition zb_or : zbody :=
  ZIf (ZOr (ZEq ZSizeOf (ZLit 0)) (ZLe ZAlignOf ZMaxAlign)) ZRetSome ZRetNone.
Definition zb_swapped_leaves : zbody :=
  ZIf (ZAnd (ZEq ZSizeOf (ZLit 0)) (ZLe ZAlignOf ZMaxAlign)) ZRetNone ZRetSome.
Definition zb_align_lt : zbody :=
  ZIf (ZAnd (ZEq ZSizeOf (ZLit 0)) (ZLt ZAlignOf ZMaxAlign)) ZRetSome ZRetNone.
Definition zb_size_le_one : zbody :=
  ZIf (ZAnd (ZLe ZSizeOf (ZLit 1)) (ZLe ZAlignOf ZMaxAlign)) ZRetSome ZRetNone.

Lemma zbody_canonical_examples :
  map zbody_canonical [zb_reference; zb_early_demorgan; zb_nested_flipped] = [true; true; true]
  /\ map zbody_canonical [zb_no_size_test; zb_or; zb_swapped_leaves; zb_align_lt; zb_size_le_one;
                          ZIf (ZUnknownC "x") ZRetSome ZRetNone; ZUnknownB "x"; ZRetSome; ZRetNone]
     = [false; false; false; false; false; false; false; false; false].
Proof. split; vm_compute; reflexivity. Qed.

(** *** Macro hygiene *)
Lemma unsafe_metavars_check : forallb metavar_harmless unsafe_metavars = true.
Proof. vm_compute. reflexivity. Qed.

Lemma unsafe_metavars_lifted : forall e, In e unsafe_metavars -> metavar_harmless e = true.
Proof. exact (proj1 (forallb_forall _ _) unsafe_metavars_check). Qed.

(** The scan sees the exported macros, and it is not empty: [unsize!] pastes its TYPE argument (only)
    inside its [unsafe] block, [field!] its field IDENT. *)
Lemma macros_present :
  forallb (fun n => existsb (String.eqb n) macro_names) ["unsize"; "__field"; "__unlock"] = true
  /\ existsb (fun e => String.eqb (fst (fst e)) "unsize#0" && String.eqb (snd e) "ty") unsafe_metavars = true.
Proof. split; vm_compute; reflexivity. Qed.

Lemma unsize_expr_in_unsafe_fails : metavar_harmless (("unsize#0", "gc"), "expr") = false.
Proof. vm_compute. reflexivity. Qed.

(** *** unsize! coerces raw pointers *)
Lemma coerce_fns_check :
  forallb coerce_fn_ok (coerce_fns pub_fns) = true
  /\ same_set (map fs_owner (coerce_fns pub_fns)) ["__CoercePtrInternal"; "Gc"; "GcWeak"] = true.
Proof. split; vm_compute; reflexivity. Qed.

Lemma coerce_fns_lifted : forall f, In f pub_fns -> fs_name f = "__coerce_unchecked" -> coerce_fn_ok f = true.
Proof.
  intros f Hin Hn. apply (proj1 (forallb_forall _ _) (proj1 coerce_fns_check)).
  unfold coerce_fns. apply filter_In. split; [exact Hin|]. rewrite Hn. reflexivity.
Qed.

Lemma unsize_macro_check : unsize_macro_ok unsize_macro_rules unsize_macro_matcher unsize_macro_text = true.
Proof. vm_compute. reflexivity. Qed.

(** a closure bound over references is rejected *)
Lemma ref_closure_rejected :
  raw_ptr_closure (BFn [] "FnOnce" [TRef LElided false (TParam "T")] (TRef LElided false (TParam "U"))) = false.
Proof. vm_compute. reflexivity. Qed.
