(** Finite checks of the C13 model over the regenerated tables ([vm_compute]), lifted to [forall]. *)
Require Import Coq.Strings.String Coq.Lists.List Coq.Bool.Bool Coq.Arith.PeanoNat.
Require Import GAApi.Syntax GAApi.ModelTypes GAApi.ModelWrite GAApi.ModelStatic GAApi.WriteProofs.
Require Import GAApi.Gen.GenTypes GAApi.Gen.GenWrite.
Import ListNotations.
Open Scope string_scope.

(** The tables of the current source tree. *)
Definition GenT : tables :=
  {| t_write_fns := write_fns; t_deref := deref_write_impls; t_index := index_write_impls;
     t_field := field_macro |}.

Lemma premise_check : premise GenT = true.
Proof. vm_compute. reflexivity. Qed.

Theorem covered_generated : forall o p, derivable GenT o p -> covered o p.
Proof. exact (covered_of_derivable GenT premise_check). Qed.

(** Declarations the calculus relies on. *)
Definition side_conditions : bool :=
  trait_is_unsafe traits "DerefWrite" && trait_is_unsafe traits "IndexWrite"
  && trait_fn_unsafe traits "Unlock" "unlock_unchecked"
  && write_struct_ok decls
  && forallb (lock_struct_ok decls) lock_names
  && forallb unlock_impl_ok unlock_impls && negb (is_nil unlock_impls)
  && unlock_macro_ok unlock_macro
  && is_nil GenWrite.unknown_items.

Lemma side_conditions_check : side_conditions = true.
Proof. vm_compute. reflexivity. Qed.

Lemma lock_fns_check : forallb lock_fn_ok lock_fns = true.
Proof. vm_compute. reflexivity. Qed.

Lemma lock_fns_lifted : forall f, In f lock_fns -> lock_fn_ok f = true.
Proof. exact (proj1 (forallb_forall _ _) lock_fns_check). Qed.

(** The lock API is really there (non-vacuity of the scan). *)
Lemma lock_fns_present :
  forallb (fun on => existsb (fun f => String.eqb (fs_owner f) (fst on) && String.eqb (fs_name f) (snd on)) lock_fns)
          [("Write", "unlock"); ("Gc", "unlock"); ("Gc", "borrow_mut"); ("Gc", "set"); ("Gc", "get_or_init");
           ("Lock", "as_cell"); ("RefLock", "as_ref_cell"); ("Lock", "take"); ("Unlock", "unlock_unchecked")] = true.
Proof. vm_compute. reflexivity. Qed.

Lemma cells_static_check : forallb collect_impl_static_ok collect_impls = true.
Proof. vm_compute. reflexivity. Qed.

Lemma cells_static_lifted : forall i, In i collect_impls -> collect_impl_static_ok i = true.
Proof. exact (proj1 (forallb_forall _ _) cells_static_check). Qed.

Lemma cells_present :
  forallb (fun n => existsb (fun i => match i_self i with TPath m _ _ => String.eqb m n | _ => false end) collect_impls)
          ["Cell"; "RefCell"] = true.
Proof. vm_compute. reflexivity. Qed.

(** *** Non-vacuity: concrete derivations exist in the generated tables. *)
Definition pick_ctor (o : origin) : option fnsig :=
  find (fun f => is_ctor f && negb (fs_unsafe f) && origin_eqb (ctor_origin f) o) write_fns.
Definition pick_proj (k : proj_kind) : option fnsig :=
  find (fun f => is_projection f && negb (fs_unsafe f) && proj_kind_eqb (proj_kind_of f) k) write_fns.
Definition pick_impl (l : list impl_hdr) (n : string) : option impl_hdr :=
  find (fun i => match i_self i with TPath m _ _ => String.eqb m n | _ => false end) l.

Lemma origin_eqb_eq : forall a b, origin_eqb a b = true -> a = b.
Proof. intros [] []; simpl; congruence. Qed.
Lemma proj_kind_eqb_eq : forall a b, proj_kind_eqb a b = true -> a = b.
Proof. intros [] []; simpl; congruence. Qed.

Lemma pick_ctor_spec : forall o f, pick_ctor o = Some f ->
  In f (ctors GenT) /\ fs_unsafe f = false /\ ctor_origin f = o.
Proof.
  intros o f H. apply find_some in H. destruct H as [Hin Hp].
  apply andb_prop in Hp. destruct Hp as [Hp Ho]. apply andb_prop in Hp. destruct Hp as [Hc Hs].
  split; [|split].
  - unfold ctors. apply filter_In. split; assumption.
  - apply negb_true_iff. exact Hs.
  - apply origin_eqb_eq. exact Ho.
Qed.

Lemma pick_proj_spec : forall k f, pick_proj k = Some f ->
  In f (projs GenT) /\ fs_unsafe f = false /\ proj_kind_of f = k.
Proof.
  intros k f H. apply find_some in H. destruct H as [Hin Hp].
  apply andb_prop in Hp. destruct Hp as [Hp Ho]. apply andb_prop in Hp. destruct Hp as [Hc Hs].
  split; [|split].
  - unfold projs. apply filter_In. split; assumption.
  - apply negb_true_iff. exact Hs.
  - apply proj_kind_eqb_eq. exact Ho.
Qed.

(** [Gc::write(mc, g)] then [.as_deref()] through [Box]: derivable (and covered). *)
Lemma barriered_deref_box_derivable :
  exists i, In i deref_write_impls /\ derivable GenT OBarriered [SDeref (i_self i)].
Proof.
  destruct (pick_ctor OBarriered) as [c|] eqn:Ec; [|vm_compute in Ec; discriminate].
  destruct (pick_proj PDeref) as [f|] eqn:Ef; [|vm_compute in Ef; discriminate].
  destruct (pick_impl deref_write_impls "Box") as [i|] eqn:Ei; [|vm_compute in Ei; discriminate].
  apply pick_ctor_spec in Ec. destruct Ec as [Hc [Hcs Hco]].
  apply pick_proj_spec in Ef. destruct Ef as [Hf [Hfs Hfk]].
  apply find_some in Ei. destruct Ei as [Hi _].
  exists i. split; [exact Hi|].
  rewrite <- Hco. change [SDeref (i_self i)] with (([] : list seg) ++ [SDeref (i_self i)])%list.
  eapply D_deref; eauto. apply D_ctor; assumption.
Qed.

(** [Write::from_mut(&mut v)] then [field!] then [[i]] through [Vec]. *)
Lemma exclusive_field_index_derivable :
  exists i, In i index_write_impls /\ derivable GenT OExclusive [SField true; SIndex (i_self i)].
Proof.
  destruct (pick_ctor OExclusive) as [c|] eqn:Ec; [|vm_compute in Ec; discriminate].
  destruct (pick_proj PIndex) as [f|] eqn:Ef; [|vm_compute in Ef; discriminate].
  destruct (pick_impl index_write_impls "Vec") as [i|] eqn:Ei; [|vm_compute in Ei; discriminate].
  apply pick_ctor_spec in Ec. destruct Ec as [Hc [Hcs Hco]].
  apply pick_proj_spec in Ef. destruct Ef as [Hf [Hfs Hfk]].
  apply find_some in Ei. destruct Ei as [Hi _].
  exists i. split; [exact Hi|].
  rewrite <- Hco.
  change [SField true; SIndex (i_self i)] with ((([] : list seg) ++ [SField true]) ++ [SIndex (i_self i)])%list.
  eapply D_index; eauto.
  assert (Hfm : field_macro_ok (t_field GenT) = true) by (vm_compute; reflexivity).
  rewrite <- Hfm at 1. apply D_field. apply D_ctor; assumption.
Qed.

(** *** Discrimination: re-adding [unsafe impl<T: ?Sized> DerefWrite for &T {}] (F2). *)
Definition ref_impl : impl_hdr :=
  {| i_unsafe := true; i_neg := false;
     i_g := {| g_lts := []; g_tps := [{| tp_name := "T"; tp_bounds := [BMaybeSized]; tp_default := None |}];
               g_consts := []; g_where := [] |};
     i_trait := "DerefWrite"; i_trait_lts := []; i_trait_args := [];
     i_self := TRef LElided false (TParam "T"); i_file := "barrier.rs"; i_cfg := []; i_consts := [] |}.

Definition GenT_F2 : tables :=
  {| t_write_fns := write_fns; t_deref := ref_impl :: deref_write_impls; t_index := index_write_impls;
     t_field := field_macro |}.

Lemma f2_premise_false : premise GenT_F2 = false.
Proof. vm_compute. reflexivity. Qed.

(** The explicit witness [from_mut . Deref(&T)]. *)
Lemma f2_witness : derivable GenT_F2 OExclusive [SDeref (TRef LElided false (TParam "T"))]
                   /\ ~ covered OExclusive [SDeref (TRef LElided false (TParam "T"))].
Proof.
  destruct (pick_ctor OExclusive) as [c|] eqn:Ec; [|vm_compute in Ec; discriminate].
  destruct (pick_proj PDeref) as [f|] eqn:Ef; [|vm_compute in Ef; discriminate].
  apply pick_ctor_spec in Ec. destruct Ec as [Hc [Hcs Hco]].
  apply pick_proj_spec in Ef. destruct Ef as [Hf [Hfs Hfk]].
  split.
  - rewrite <- Hco.
    change [SDeref (TRef LElided false (TParam "T"))]
      with (([] : list seg) ++ [SDeref (i_self ref_impl)])%list.
    eapply (D_deref GenT_F2); eauto.
    + apply D_ctor; assumption.
    + left. reflexivity.
  - intros [Hs | [_ Hall]]; [discriminate|].
    inversion Hall as [|? ? Hhd _]; subst. simpl in Hhd. discriminate.
Qed.
