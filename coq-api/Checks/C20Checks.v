(** Finite checks for the no-shared-state fact used by C20. *)
Require Import Coq.Strings.String Coq.Lists.List Coq.Bool.Bool Coq.Arith.PeanoNat Coq.NArith.NArith.
Require Import GAApi.Syntax GAApi.ModelTypes GAApi.ModelStatic GAApi.StaticProofs.
Require Import GAApi.Gen.GenTypes GAApi.Gen.GenCallGraph.
Import ListNotations.
Open Scope string_scope.

(** *** C20 *)
Lemma statics_check : is_nil statics && is_nil thread_locals && is_nil GenCallGraph.unknown_items = true.
Proof. vm_compute. reflexivity. Qed.

Lemma is_nil_spec : forall {A} (l : list A), is_nil l = true -> l = [].
Proof. intros A [|x l]; simpl; [reflexivity | discriminate]. Qed.

Lemma statics_nil : statics = [] /\ thread_locals = [] /\ GenCallGraph.unknown_items = [].
Proof.
  pose proof statics_check as H. apply andb_prop in H. destruct H as [H H3]. apply andb_prop in H. destruct H as [H1 H2].
  exact (conj (is_nil_spec _ H1) (conj (is_nil_spec _ H2) (is_nil_spec _ H3))).
Qed.

Lemma state_structs_check : forallb (state_struct_ok decls) state_structs = true.
Proof. vm_compute. reflexivity. Qed.

Lemma state_structs_lifted : forall n, In n state_structs -> state_struct_ok decls n = true.
Proof. exact (proj1 (forallb_forall _ _) state_structs_check). Qed.

Lemma fresh_ctors_check : fresh_ctor fns "Context" && fresh_ctor fns "Metrics" = true.
Proof. vm_compute. reflexivity. Qed.
