(** Finite checks of the C12 model over the regenerated tables ([vm_compute]), lifted to [forall]. *)
Require Import Coq.Strings.String Coq.Lists.List Coq.Bool.Bool Coq.Arith.PeanoNat.
Require Import GAApi.Syntax GAApi.ModelTypes GAApi.ModelStatic GAApi.TypesProofs.
Require Import GAApi.Gen.GenTypes GAApi.Gen.GenWrite.
Require GAApi.ModelSigs GAApi.Gen.GenSigs.
Import ListNotations.
Open Scope string_scope.

Definition ADTS := mk_adts decls.
Definition ENV := variances ADTS.

Lemma no_unknown_check : is_nil GenTypes.unknown_items = true.
Proof. vm_compute. reflexivity. Qed.

Lemma no_unknown : GenTypes.unknown_items = [].
Proof. pose proof no_unknown_check as H. destruct GenTypes.unknown_items; [reflexivity | discriminate]. Qed.

(** *** Variance *)
Lemma fixpoint_check : venv_eqb ENV (vstep ADTS ENV) = true.
Proof. vm_compute. reflexivity. Qed.

Lemma invariant_check : forallb (invariant_ok ADTS ENV) (branded ADTS) = true.
Proof. vm_compute. reflexivity. Qed.

Lemma base_check : forallb (fun q => pair_mem (fst q) (snd q) (branded ADTS)) brand_base = true.
Proof. vm_compute. reflexivity. Qed.

Lemma is_invariant_spec : forall o, is_invariant o = true -> o = Some Inv.
Proof. intros [[]|]; simpl; congruence. Qed.

Lemma invariant_lifted : forall T i, In (T, i) (branded ADTS) -> variance_lt ADTS ENV T i = Some Inv.
Proof.
  intros T i H. apply is_invariant_spec.
  exact (proj1 (forallb_forall _ _) invariant_check (T, i) H).
Qed.

Lemma base_lifted : forall T i, In (T, i) brand_base -> variance_lt ADTS ENV T i = Some Inv.
Proof.
  intros T i H. apply is_invariant_spec.
  pose proof (proj1 (forallb_forall _ _) base_check (T, i) H) as Hm. cbv beta in Hm.
  unfold pair_mem in Hm. apply existsb_exists in Hm. destruct Hm as [[T' i'] [Hin He]].
  cbn [fst snd] in He. apply andb_prop in He. destruct He as [He1 He2].
  apply String.eqb_eq in He1. apply Nat.eqb_eq in He2. subst.
  exact (proj1 (forallb_forall _ _) invariant_check (T, i) Hin).
Qed.

Lemma alias_check : forallb (alias_invariant_ok decls ENV) (branded_aliases decls (branded ADTS)) = true.
Proof. vm_compute. reflexivity. Qed.

Lemma alias_lifted : forall q, In q (branded_aliases decls (branded ADTS)) -> alias_invariant_ok decls ENV q = true.
Proof. exact (proj1 (forallb_forall _ _) alias_check). Qed.

(** *** Auto traits *)
Lemma not_auto_check : forallb (not_auto_ok impls decls) not_send_sync_names = true.
Proof. vm_compute. reflexivity. Qed.

Lemma not_auto_lifted : forall n, In n not_send_sync_names ->
  exists d, find_decl decls n = Some d
            /\ auto impls decls AUTO_FUEL ASend (generic_instance d) = false
            /\ auto impls decls AUTO_FUEL ASync (generic_instance d) = false.
Proof.
  intros n H. pose proof (proj1 (forallb_forall _ _) not_auto_check n H) as Hc.
  unfold not_auto_ok in Hc. destruct (find_decl decls n) as [d|]; [|discriminate].
  exists d. split; [reflexivity|].
  apply andb_prop in Hc. destruct Hc as [Hc Hsync]. apply andb_prop in Hc. destruct Hc as [_ Hsend].
  split; apply negb_true_iff; assumption.
Qed.

(** [&Write<_>] of a pointer-holding type is not [Send]: [Write<Gc<..>>] is not [Sync]. *)
Definition write_of_gc : ty := TPath "Write" [] [TPath "Gc" [LNamed "'gc"] [TParam "T"]].
Lemma write_gc_not_sync : auto impls decls AUTO_FUEL ASync write_of_gc = false
                          /\ auto impls decls AUTO_FUEL ASend (TRef (LNamed "'a") false write_of_gc) = false.
Proof. split; vm_compute; reflexivity. Qed.

(** *** Callbacks *)
Lemma callbacks_check : forallb (callback_ok decls) (callback_fns arena_fns) = true.
Proof. vm_compute. reflexivity. Qed.

Lemma callbacks_present_check :
  forallb (fun n => existsb (fun f => String.eqb (fs_name f) n) (callback_fns arena_fns)) expected_callback_names = true.
Proof. vm_compute. reflexivity. Qed.

Lemma no_other_source_check : forallb (no_other_context_source decls) arena_fns = true.
Proof. vm_compute. reflexivity. Qed.

Lemma callbacks_lifted : forall f, In f (callback_fns arena_fns) -> callback_ok decls f = true.
Proof. exact (proj1 (forallb_forall _ _) callbacks_check). Qed.

Lemma callbacks_present : forall n, In n expected_callback_names ->
  exists f, In f (callback_fns arena_fns) /\ fs_name f = n.
Proof.
  intros n H. pose proof (proj1 (forallb_forall _ _) callbacks_present_check n H) as He.
  apply existsb_exists in He. destruct He as [f [Hin Hn]]. exists f. split; [exact Hin|].
  apply String.eqb_eq. exact Hn.
Qed.

Lemma no_other_source : forall f, In f arena_fns -> no_other_context_source decls f = true.
Proof. exact (proj1 (forallb_forall _ _) no_other_source_check). Qed.

(** *** ['static]-only Collect impls *)
Lemma static_only_check : forallb collect_impl_static_ok collect_impls = true.
Proof. vm_compute. reflexivity. Qed.

Lemma static_only_lifted : forall i, In i collect_impls -> collect_impl_static_ok i = true.
Proof. exact (proj1 (forallb_forall _ _) static_only_check). Qed.

(** The guarded impls exist (non-vacuity): [&'static T], [Cell<T>], [RefCell<T>], [Static<T>]. *)
Lemma guarded_present :
  existsb (fun i => match i_self i with TRef LStatic false (TParam _) => true | _ => false end) collect_impls
  && forallb (fun n => existsb (fun i => match i_self i with TPath m _ _ => String.eqb m n | _ => false end) collect_impls)
             ["Cell"; "RefCell"; "Static"] = true.
Proof. vm_compute. reflexivity. Qed.

(** *** Impl headers keep the brand (unsize!) *)
Lemma impl_brand_check : forallb impl_args_brand_ok impls = true.
Proof. vm_compute. reflexivity. Qed.

Lemma impl_brand_lifted : forall i, In i impls -> impl_args_brand_ok i = true.
Proof. exact (proj1 (forallb_forall _ _) impl_brand_check). Qed.

Lemma unsize_impls_present :
  same_set (map (fun i => match i_self i with TPath n _ _ => n | _ => "?" end) (brand_carrying_impls "__CoercePtrInternal" impls))
           ["Gc"; "GcWeak"] = true.
Proof. vm_compute. reflexivity. Qed.

(** The re-branding header [impl<'gc, 'u, T, U: ?Sized, K> __CoercePtrInternal<Gc<'u, U>> for Gc<'gc, T, K>] fails. *)
Definition rebranding_impl : impl_hdr :=
  {| i_unsafe := true; i_neg := false;
     i_g := {| g_lts := ["'gc"; "'u"]; g_tps := []; g_consts := []; g_where := [] |};
     i_trait := "__CoercePtrInternal"; i_trait_lts := [];
     i_trait_args := [TPath "Gc" [LNamed "'u"] [TParam "U"]];
     i_self := TPath "Gc" [LNamed "'gc"] [TParam "T"; TParam "K"]; i_file := "unsize.rs"; i_cfg := [];
     i_consts := [] |}.
Lemma rebranding_impl_fails : impl_args_brand_ok rebranding_impl = false.
Proof. vm_compute. reflexivity. Qed.

(** *** Arguments of one call share one brand *)
Definition BRANDED := branded ADTS.

Lemma args_brand_check : forallb (ModelSigs.args_share_brand decls BRANDED) GenSigs.pub_fns = true.
Proof. vm_compute. reflexivity. Qed.

Lemma args_brand_lifted : forall f, In f GenSigs.pub_fns -> ModelSigs.args_share_brand decls BRANDED f = true.
Proof. exact (proj1 (forallb_forall _ _) args_brand_check). Qed.

(** not vacuous: many functions take two or more branded arguments, among them the ones a finalizer uses *)
Lemma args_brand_nonvacuous :
  Nat.leb 30 (List.length (filter (fun f => Nat.ltb 1 (List.length (ModelSigs.fn_brands decls BRANDED f))) GenSigs.pub_fns)) = true
  /\ forallb (fun on => existsb (fun f => String.eqb (fs_owner f) (fst on) && String.eqb (fs_name f) (snd on)
                                          && Nat.ltb 1 (List.length (ModelSigs.fn_brands decls BRANDED f))) GenSigs.pub_fns)
             [("Gc", "resurrect"); ("Gc", "is_dead"); ("GcWeak", "upgrade"); ("GcWeak", "resurrect"); ("Gc", "write");
              ("DynamicRootSet", "stash"); ("Mutation", "backward_barrier"); ("Mutation", "forward_barrier")] = true.
Proof. split; vm_compute; reflexivity. Qed.

(** [fn resurrect(fc: &Finalization<'_>, gc: Gc<'gc, T, K>)] -- the context at an anonymous lifetime -- fails *)
Lemma anonymous_context_fails :
  ModelSigs.brands_agree [LElided; LNamed "'gc"] = false /\ ModelSigs.brands_agree [LNamed "'a"; LNamed "'gc"] = false
  /\ ModelSigs.brands_agree [LNamed "'gc"; LNamed "'gc"; LNamed "'gc"] = true.
Proof. repeat split. Qed.
