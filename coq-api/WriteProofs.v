(** * C13 proofs: every derivable [&Write<_>] witness is covered, for all derivations, given the
    (finitely checkable) premise on the tables. *)
Require Import Coq.Strings.String Coq.Lists.List Coq.Bool.Bool Coq.Arith.PeanoNat.
Require Import GAApi.Syntax GAApi.ModelTypes GAApi.ModelWrite.
Import ListNotations.
Open Scope string_scope.

Lemma oclass_eqb_eq : forall a b, oclass_eqb a b = true -> a = b.
Proof. intros [] []; simpl; congruence. Qed.

Lemma origin_eqb_false : forall a b, origin_eqb a b = false -> a <> b.
Proof. intros [] []; simpl; congruence. Qed.

Lemma proj_kind_eqb_refl : forall a, proj_kind_eqb a a = true.
Proof. intros []; reflexivity. Qed.

Lemma covered_snoc : forall o p s, covered o p -> seg_class s = Unique -> covered o (p ++ [s]).
Proof.
  intros o p s [Hs | [Hf Hall]] Hc.
  - left; exact Hs.
  - right; split; [exact Hf|].
    apply Forall_app; split; [exact Hall|]. constructor; [exact Hc | constructor].
Qed.

Section Covered.
  Variable T : tables.
  Hypothesis Hprem : premise T = true.

  Lemma premise_split :
    forallb ctor_ok (ctors T) = true /\ forallb proj_ok (projs T) = true /\
    forallb impl_unique (t_deref T) = true /\ forallb impl_unique (t_index T) = true /\
    field_macro_ok (t_field T) = true.
  Proof. unfold premise in Hprem. repeat rewrite andb_true_iff in Hprem. tauto. Qed.

  Let Hctors := proj1 premise_split.
  Let Hprojs := proj1 (proj2 premise_split).
  Let Hderef := proj1 (proj2 (proj2 premise_split)).
  Let Hindex := proj1 (proj2 (proj2 (proj2 premise_split))).
  Let Hfield := proj2 (proj2 (proj2 (proj2 premise_split))).

  Theorem covered_of_derivable : forall o p, derivable T o p -> covered o p.
  Proof.
    induction 1 as [f Hin Hsafe
                   | o p _ IH
                   | o p _ IH
                   | o p f _ IH Hin Hsafe Hk
                   | o p f i _ IH Hin Hsafe Hk Hi
                   | o p f i _ IH Hin Hsafe Hk Hi
                   | o p f _ IH Hin Hsafe Hk].
    - (* constructor *)
      pose proof (proj1 (forallb_forall _ _) Hctors f Hin) as Hok.
      unfold ctor_ok in Hok. rewrite Hsafe in Hok. simpl in Hok.
      apply negb_true_iff in Hok. apply origin_eqb_false in Hok.
      destruct (ctor_origin f) eqn:E; try congruence.
      + right; split; [discriminate | constructor].
      + left; reflexivity.
      + right; split; [discriminate | constructor].
    - apply covered_snoc; [exact IH|]. simpl. rewrite Hfield. reflexivity.
    - apply covered_snoc; [exact IH | reflexivity].
    - apply covered_snoc; [exact IH | reflexivity].
    - apply covered_snoc; [exact IH|]. simpl.
      apply oclass_eqb_eq. exact (proj1 (forallb_forall _ _) Hindex i Hi).
    - apply covered_snoc; [exact IH|]. simpl.
      apply oclass_eqb_eq. exact (proj1 (forallb_forall _ _) Hderef i Hi).
    - (* an unrecognised safe projection is excluded by the premise *)
      pose proof (proj1 (forallb_forall _ _) Hprojs f Hin) as Hok.
      unfold proj_ok in Hok. rewrite Hsafe, Hk in Hok. simpl in Hok. discriminate.
  Qed.
End Covered.

(** The premise is also necessary in the following sense: a [Shared] marker impl yields an uncovered
    derivation as soon as some non-static constructor and the corresponding projection exist. *)
Lemma shared_deref_uncovered :
  forall T c f i,
    In c (ctors T) -> fs_unsafe c = false -> ctor_origin c <> OStatic ->
    In f (projs T) -> fs_unsafe f = false -> proj_kind_of f = PDeref ->
    In i (t_deref T) -> class_of (i_self i) = Shared ->
    exists o p, derivable T o p /\ ~ covered o p.
Proof.
  intros T c f i Hc Hcs Hns Hf Hfs Hk Hi Hsh.
  exists (ctor_origin c), ((@nil seg) ++ [SDeref (i_self i)])%list. split.
  - eapply D_deref; eauto. apply D_ctor; assumption.
  - intros [Hs | [_ Hall]]; [contradiction|].
    simpl in Hall. inversion Hall as [|? ? Hhd _]; subst. simpl in Hhd. congruence.
Qed.

(** Lifting of the lock-API scan. *)
Lemma forallb_In : forall {A} (f : A -> bool) l, forallb f l = true -> forall x, In x l -> f x = true.
Proof. intros A f l H x Hin. exact (proj1 (forallb_forall f l) H x Hin). Qed.
