(** * Static facts used by C03 (call graph) and C20 (no shared state).  Definitions only. *)
Require Import Coq.Strings.String Coq.Lists.List Coq.Bool.Bool Coq.Arith.PeanoNat Coq.NArith.NArith.
Require Import GAApi.Syntax GAApi.ModelTypes.
Import ListNotations.
Open Scope string_scope.

Definition memN (x : N) (l : list N) : bool := existsb (N.eqb x) l.

(** Node ids are positions in the generated list. *)
Definition node (g : list cg_fn) (id : N) : option cg_fn := nth_error g (N.to_nat id).

Definition succs (g : list cg_fn) (id : N) : list N :=
  match node g id with Some f => cg_edges f | None => [] end.

(** Paths of the generated graph. *)
Inductive path (g : list cg_fn) : N -> N -> Prop :=
| path_refl : forall x, path g x x
| path_step : forall x y z, In y (succs g x) -> path g y z -> path g x z.

(** Depth-first search with explicit fuel; its result is only *used* through the closure check below,
    so the fuel needs no adequacy proof. *)
Fixpoint reach (fuel : nat) (g : list cg_fn) (work seen : list N) : list N :=
  match fuel with
  | O => seen
  | S f =>
      match work with
      | [] => seen
      | x :: w => if memN x seen then reach f g w seen
                  else reach f g (succs g x ++ w)%list (x :: seen)
      end
  end.

Definition graph_fuel (g : list cg_fn) : nat :=
  S (length g + fold_right (fun f n => (length (cg_edges f) + n)%nat) 0%nat g).

Definition reach_from (g : list cg_fn) (starts : list N) : list N :=
  reach (graph_fuel g + length starts) g starts [].

(** [S] contains the start nodes and is closed under successors. *)
Definition closed (g : list cg_fn) (starts S : list N) : bool :=
  forallb (fun x => memN x S) starts
  && forallb (fun x => forallb (fun y => memN y S) (succs g x)) S.

Definition ids_where (g : list cg_fn) (p : cg_fn -> bool) : list N :=
  map cg_id (filter p g).

Definition ids_wf (g : list cg_fn) : bool :=
  (fix go (i : N) (l : list cg_fn) : bool :=
     match l with
     | [] => true
     | f :: r => N.eqb (cg_id f) i && go (N.succ i) r
     end) 0%N g.

(** *** C03 *)
Definition entry_owners : list string := ["Mutation"; "Finalization"].
Definition forbidden_names : list string :=
  ["sweep_one"; "drop_in_place"; "dealloc"; "do_collection"; "mark_one"].

Definition is_entry (f : cg_fn) : bool := mem (cg_owner f) entry_owners.
Definition is_forbidden (f : cg_fn) : bool := mem (cg_name f) forbidden_names.

Definition entries (g : list cg_fn) : list N := ids_where g is_entry.
Definition forbidden (g : list cg_fn) : list N := ids_where g is_forbidden.

Definition disjoint (a b : list N) : bool := forallb (fun x => negb (memN x b)) a.

(** No entry point reaches a forbidden function: witnessed by a closed set that contains the entries
    and none of the forbidden nodes. *)
Definition c03_entries_ok (g : list cg_fn) : bool :=
  let S := reach_from g (entries g) in
  closed g (entries g) S && disjoint (forbidden g) S
  && negb (Nat.eqb (length (entries g)) 0)
  && forallb (fun n => existsb (fun f => String.eqb (cg_name f) n) g) forbidden_names.

Definition arena_owners : list string := ["Arena"; "MarkedArena"].
Definition do_collection_ids (g : list cg_fn) : list N :=
  ids_where g (fun f => String.eqb (cg_name f) "do_collection").

Definition recv_exclusive (r : recv) : bool :=
  match r with RRefMut | RValue => true | _ => false end.

(** An arena method either takes [&mut self] / [self], or provably cannot reach [do_collection]. *)
Definition cannot_collect (g : list cg_fn) (f : cg_fn) : bool :=
  closed g [cg_id f] (reach_from g [cg_id f])
  && disjoint (do_collection_ids g) (reach_from g [cg_id f]).

(* [if] rather than [||]: the VM evaluates arguments eagerly, and [cannot_collect] is expensive. *)
Definition arena_method_ok (g : list cg_fn) (f : cg_fn) : bool :=
  if mem (cg_owner f) arena_owners
  then (if recv_exclusive (cg_recv f) then true else cannot_collect g f)
  else true.

Definition collecting_methods (g : list cg_fn) : list string :=
  map cg_name (filter (fun f => if mem (cg_owner f) arena_owners
                               then existsb (fun d => memN d (reach_from g [cg_id f])) (do_collection_ids g)
                               else false) g).

(** The name-based over-approximation itself, re-checked against the generated edges.  A call
    [(q, m)] in the body of [f] must be linked to every function [h] named [m] such that
    - [q = "."] (method call): [h] has a self receiver;
    - [q = ""] (unqualified call): [h] is a free or nested function;
    - [q] a struct/enum of the crate: [h] is owned by [q], or by something that is not a struct/enum
      of the crate (alias, trait, blanket impl);
    - [q] a trait of the crate: [h] belongs to an impl of [q] or is provided by [q];
    - [q] an alias, a type parameter in scope, or ["?"]: any [h];
    - [q] lower-case (a module path): [h] is a free function;
    - otherwise ([q] is external to the crate): [h] is a method of a trait impl or a provided method
      (the only way external code calls back into the crate). *)
Definition is_lower_initial (s : string) : bool :=
  match s with
  | String c _ => let n := Ascii.nat_of_ascii c in (Nat.leb 97 n && Nat.leb n 122) || Nat.eqb n 95
  | EmptyString => false
  end.

Record cg_names := { n_structs : list string; n_aliases : list string; n_traits : list string }.

Definition has_recv (h : cg_fn) : bool := match cg_recv h with RNone => false | _ => true end.

Definition must_link (ns : cg_names) (f : cg_fn) (q : string) (h : cg_fn) : bool :=
  let q := if String.eqb q "Self" then cg_owner f else q in
  if String.eqb q "." then has_recv h
  else if String.eqb q "" then String.eqb (cg_kind h) "free"
  else if mem q (cg_tparams f) || String.eqb q "?" || mem q (n_aliases ns) then true
  else if mem q (n_structs ns) then String.eqb (cg_owner h) q || negb (mem (cg_owner h) (n_structs ns))
  else if mem q (n_traits ns) then String.eqb (cg_trait h) q || String.eqb (cg_owner h) q
  else if is_lower_initial q then String.eqb (cg_kind h) "free"
  else String.eqb (cg_kind h) "trait".

Definition edge_rule_ok (ns : cg_names) (g : list cg_fn) (f : cg_fn) : bool :=
  forallb (fun qn =>
    forallb (fun h =>
      if String.eqb (cg_name h) (snd qn)
      then (if must_link ns f (fst qn) h then memN (cg_id h) (cg_edges f) else true)
      else true) g) (cg_call_names f).

(** Callback-taking functions of arena.rs: they either borrow / consume an arena ([self] receiver) or
    build a fresh context themselves. *)
Definition callback_borrows_arena (f : fnsig) : bool :=
  match callback_of f with
  | None => true
  | Some _ => match fs_recv f with
              | RNone => mem "new" (fs_calls f) && negb (existsb (mentions_path ["Arena"; "Context"]) (fs_params f))
              | _ => true
              end
  end.

(** *** C20 *)
Definition owned_prims : list string :=
  ["usize"; "isize"; "u8"; "u16"; "u32"; "u64"; "i8"; "i16"; "i32"; "i64"; "f32"; "f64"; "bool"; "char"].

(** Containers that own their contents; [NonNull] only occurs inside [GcPtr] (a pointer to an
    allocation made by, and linked into, this context); [Rc] is accepted because the context's
    constructor is checked to take no arguments (so it is created there); [Span] is the feature-gated
    logging handle. *)
Definition owned_ctors : list string :=
  ["Cell"; "UnsafeCell"; "RefCell"; "Option"; "Vec"; "Box"; "Rc"; "PhantomData"; "NonNull"; "Span"].

Fixpoint owned (fuel : nat) (ds : list decl) (t : ty) : bool :=
  match fuel with
  | O => false
  | S f =>
      match t with
      | TParam _ | TConst _ | TNever => true
      | TUnknown _ => false
      | TRef _ _ _ | TPtr _ _ | TDyn _ _ _ _ | TImplFn _ _ _ _ | TProj _ _ _ _ _ => false
      | TFnPtr _ _ => true
      | TSlice t' | TArray t' => owned f ds t'
      | TTuple ts => forallb (owned f ds) ts
      | TPath n lts args =>
          match find_decl ds n with
          | Some (DAlias _ _ g tgt) =>
              owned f ds (subst (zip_tps (g_tps g) (ty_args args)) (zip_lts (g_lts g) lts) tgt)
          | Some d => is_adt d && forallb (owned f ds) (decl_field_tys d) && forallb (owned f ds) args
          | None => (mem n owned_prims || mem n owned_ctors) && forallb (owned f ds) args
          end
      end
  end.

Definition state_structs : list string := ["Context"; "MetricsInner"; "Metrics"].

Definition state_struct_ok (ds : list decl) (n : string) : bool :=
  match find_decl ds n with
  | Some d => is_adt d && negb (Nat.eqb (length (decl_field_tys d)) 0)
              && forallb (owned 16 ds) (decl_field_tys d)
  | None => false
  end.

(** [Context::new] and [Metrics::new] take nothing: with no statics and no thread-locals in the crate
    there is nothing they could share between two arenas. *)
Definition fresh_ctor (g : list cg_fn) (owner : string) : bool :=
  existsb (fun f => String.eqb (cg_owner f) owner && String.eqb (cg_name f) "new"
                    && N.eqb (cg_nparams f) 0 && match cg_recv f with RNone => true | _ => false end) g
  && forallb (fun f => negb (String.eqb (cg_owner f) owner && String.eqb (cg_name f) "new")
                       || (N.eqb (cg_nparams f) 0 && match cg_recv f with RNone => true | _ => false end)) g.

Definition is_nil {A} (l : list A) : bool := match l with [] => true | _ => false end.
