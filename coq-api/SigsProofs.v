(** * C19: the model of the [alloc_zst] guard. *)
Require Import Coq.Strings.String Coq.Lists.List Coq.Bool.Bool Coq.NArith.NArith Coq.micromega.Lia.
Require Import GAApi.Syntax GAApi.ModelTypes GAApi.ModelSigs.
Import ListNotations.
Open Scope N_scope.

Lemma zexpr_eqb_eq : forall a b, zexpr_eqb a b = true -> a = b.
Proof.
  intros [] []; simpl; try discriminate; try reflexivity.
  intro H. apply N.eqb_eq in H. subst. reflexivity.
Qed.

Definition pval (s a m : N) (p : zprop) : bool :=
  match p with PSizeZero => s =? 0 | PAlignFits => a <=? m end.

Ltac nbool :=
  repeat match goal with
         | |- context [?x =? ?y] => destruct (N.eqb_spec x y)
         | |- context [?x <=? ?y] => destruct (N.leb_spec x y)
         | |- context [?x <? ?y] => destruct (N.ltb_spec x y)
         end; simpl; try reflexivity; try (exfalso; lia).

Ltac zsubst :=
  repeat match goal with
         | H : (_ && _)%bool = true |- _ => apply andb_prop in H; destruct H
         | H : zexpr_eqb _ _ = true |- _ => apply zexpr_eqb_eq in H; subst
         end.

(** A recognised comparison evaluates to the fact it was recognised as. *)
Lemma classify_sound : forall c p pos s a m,
  classify_atom c = Some (p, pos) -> eval_zcond s a m c = Some (lit_val (pval s a m p) pos).
Proof.
  intros c p pos s a m H.
  destruct c as [x y | x y | x y | | | | | ]; simpl in H; try discriminate.
  - destruct ((zexpr_eqb x ZSizeOf && zexpr_eqb y (ZLit 0)) || (zexpr_eqb x (ZLit 0) && zexpr_eqb y ZSizeOf))%bool eqn:E;
      [|discriminate].
    injection H as <- <-. apply orb_prop in E. destruct E as [E | E]; zsubst; cbn [eval_zcond eval_zexpr lift2 lit_val pval]; nbool.
  - destruct (zexpr_eqb x ZAlignOf && zexpr_eqb y ZMaxAlign)%bool eqn:E1.
    { injection H as <- <-. zsubst. reflexivity. }
    destruct (zexpr_eqb x ZSizeOf && zexpr_eqb y (ZLit 0))%bool eqn:E2.
    { injection H as <- <-. zsubst. cbn [eval_zcond eval_zexpr lift2 lit_val pval]. nbool. }
    destruct (zexpr_eqb x (ZLit 1) && zexpr_eqb y ZSizeOf)%bool eqn:E3; [|discriminate].
    injection H as <- <-. zsubst. cbn [eval_zcond eval_zexpr lift2 lit_val pval]. nbool.
  - destruct (zexpr_eqb x ZMaxAlign && zexpr_eqb y ZAlignOf)%bool eqn:E1.
    { injection H as <- <-. zsubst. cbn [eval_zcond eval_zexpr lift2 lit_val pval]. nbool. }
    destruct (zexpr_eqb x ZSizeOf && zexpr_eqb y (ZLit 1))%bool eqn:E2.
    { injection H as <- <-. zsubst. cbn [eval_zcond eval_zexpr lift2 lit_val pval]. nbool. }
    destruct (zexpr_eqb x (ZLit 0) && zexpr_eqb y ZSizeOf)%bool eqn:E3; [|discriminate].
    injection H as <- <-. zsubst. cbn [eval_zcond eval_zexpr lift2 lit_val pval]. nbool.
Qed.

Lemma peval_atom : forall c s a m v,
  match classify_atom c with
  | Some (PSizeZero, pos) => Some (lit_val (s =? 0) pos)
  | Some (PAlignFits, pos) => Some (lit_val (a <=? m) pos)
  | None => None
  end = Some v -> eval_zcond s a m c = Some v.
Proof.
  intros c s a m v H. destruct (classify_atom c) as [[p pos]|] eqn:E; [|discriminate].
  rewrite (classify_sound c p pos s a m E). destruct p; exact H.
Qed.

(** The propositional reading is sound for the arithmetic one, with [P := size == 0] and
    [Q := align <= MAX_ALIGN]. *)
Lemma peval_sound : forall c s a m v,
  peval (s =? 0) (a <=? m) c = Some v -> eval_zcond s a m c = Some v.
Proof.
  induction c as [x y | x y | x y | c1 IH1 c2 IH2 | c1 IH1 c2 IH2 | c1 IH1 | | u]; intros s a m v H.
  - apply peval_atom. exact H.
  - apply peval_atom. exact H.
  - apply peval_atom. exact H.
  - simpl in H. destruct (peval (s =? 0) (a <=? m) c1) as [v1|] eqn:E1; [|discriminate].
    destruct (peval (s =? 0) (a <=? m) c2) as [v2|] eqn:E2; [|discriminate].
    simpl. rewrite (IH1 _ _ _ _ E1), (IH2 _ _ _ _ E2). exact H.
  - simpl in H. destruct (peval (s =? 0) (a <=? m) c1) as [v1|] eqn:E1; [|discriminate].
    destruct (peval (s =? 0) (a <=? m) c2) as [v2|] eqn:E2; [|discriminate].
    simpl. rewrite (IH1 _ _ _ _ E1), (IH2 _ _ _ _ E2). exact H.
  - simpl in H. destruct (peval (s =? 0) (a <=? m) c1) as [v1|] eqn:E1; [|discriminate].
    simpl. rewrite (IH1 _ _ _ _ E1). exact H.
  - exact H.
  - discriminate.
Qed.

Lemma pbody_sound : forall b s a m v,
  pbody (s =? 0) (a <=? m) b = Some v -> body_hit s a m b = Some v.
Proof.
  induction b as [ | | c t IHt e IHe | u]; intros s a m v H; simpl in *; try exact H.
  destruct (peval (s =? 0) (a <=? m) c) as [vc|] eqn:E; [|discriminate].
  rewrite (peval_sound _ _ _ _ _ E). destruct vc; [apply IHt | apply IHe]; exact H.
Qed.

Lemma canonical_eval : forall b s a m,
  zbody_canonical b = true -> body_hit s a m b = Some ((s =? 0) && (a <=? m))%bool.
Proof.
  intros b s a m H. unfold zbody_canonical in H. simpl in H.
  repeat rewrite andb_true_iff in H. destruct H as [Htt [Htf [Hft [Hff _]]]].
  apply pbody_sound.
  destruct (s =? 0), (a <=? m); simpl in *.
  - destruct (pbody true true b) as [v|]; [|discriminate]. apply eqb_prop in Htt. congruence.
  - destruct (pbody true false b) as [v|]; [|discriminate]. apply eqb_prop in Htf. congruence.
  - destruct (pbody false true b) as [v|]; [|discriminate]. apply eqb_prop in Hft. congruence.
  - destruct (pbody false false b) as [v|]; [|discriminate]. apply eqb_prop in Hff. congruence.
Qed.

Lemma pow2_divide : forall k j, 2 ^ k <= 2 ^ j -> (2 ^ k | 2 ^ j).
Proof.
  intros k j H. apply N.pow_le_mono_r_iff in H; [|lia].
  replace j with (k + (j - k)) by lia. rewrite N.pow_add_r. apply N.divide_factor_l.
Qed.

(** If [alloc_zst] hands out the anchor, the type is zero-sized, its alignment does not exceed the
    cache's, and -- alignments being powers of two and the anchor being aligned to [MAX_ALIGN] -- the
    pointer is aligned for the type. *)
Theorem zst_cond_sound : forall c anchor size align maxa k j p,
  zbody_canonical c = true ->
  align = 2 ^ k -> maxa = 2 ^ j -> anchor mod maxa = 0 ->
  alloc_zst_model c anchor size align maxa = Some p ->
  size = 0 /\ align <= maxa /\ p = anchor /\ p mod align = 0.
Proof.
  intros c anchor size align maxa k j p Hc Ha Hm Hanch Hres.
  unfold alloc_zst_model in Hres. rewrite (canonical_eval _ size align maxa Hc) in Hres.
  destruct (size =? 0) eqn:Es; simpl in Hres; [|discriminate].
  destruct (align <=? maxa) eqn:El; simpl in Hres; [|discriminate].
  injection Hres as <-. apply N.eqb_eq in Es. apply N.leb_le in El.
  repeat split; try assumption.
  subst align maxa.
  assert (H2k : 2 ^ k <> 0) by (apply N.pow_nonzero; lia).
  assert (H2j : 2 ^ j <> 0) by (apply N.pow_nonzero; lia).
  apply N.mod_divide; [exact H2k|].
  apply N.mod_divide in Hanch; [|exact H2j].
  eapply N.divide_trans; [apply pow2_divide; exact El | exact Hanch].
Qed.

(** Conversely the anchor is handed out whenever the type is zero-sized with a small enough alignment
    (so the cache hit is decided by exactly that condition). *)
Theorem zst_cond_complete : forall c anchor size align maxa,
  zbody_canonical c = true -> size = 0 -> align <= maxa ->
  alloc_zst_model c anchor size align maxa = Some anchor.
Proof.
  intros c anchor size align maxa Hc Hs Hl.
  unfold alloc_zst_model. rewrite (canonical_eval _ size align maxa Hc).
  subst size. apply N.leb_le in Hl. rewrite Hl. reflexivity.
Qed.

Theorem zst_cond_none : forall c anchor size align maxa,
  zbody_canonical c = true -> (size <> 0 \/ maxa < align) ->
  alloc_zst_model c anchor size align maxa = None.
Proof.
  intros c anchor size align maxa Hc H.
  unfold alloc_zst_model. rewrite (canonical_eval _ size align maxa Hc).
  destruct H as [H | H].
  - apply N.eqb_neq in H. rewrite H. reflexivity.
  - apply N.leb_gt in H. rewrite H. rewrite andb_false_r. reflexivity.
Qed.
