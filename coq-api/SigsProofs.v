(** * C19: the model of the [alloc_zst] guard. *)
Require Import Coq.Strings.String Coq.Lists.List Coq.Bool.Bool Coq.NArith.NArith Coq.micromega.Lia.
Require Import GAApi.Syntax GAApi.ModelTypes GAApi.ModelSigs.
Import ListNotations.
Open Scope N_scope.

Lemma zexpr_eqb_eq : forall a b, zexpr_eqb a b = true -> a = b.
Proof.
  intros [] []; simpl; try discriminate; try reflexivity.
  intro H. apply N.eqb_eq in H. subst. reflexivity.
Qed.

Lemma size_zero_eval : forall c s a m, is_size_zero c = true -> eval_zcond s a m c = Some (s =? 0).
Proof.
  intros c s a m H. destruct c; simpl in H; try discriminate.
  apply orb_prop in H. destruct H as [H | H]; apply andb_prop in H; destruct H as [H1 H2];
    apply zexpr_eqb_eq in H1; apply zexpr_eqb_eq in H2; subst; simpl; [reflexivity|].
  rewrite N.eqb_sym. reflexivity.
Qed.

Lemma align_le_eval : forall c s a m, is_align_le_max c = true -> eval_zcond s a m c = Some (a <=? m).
Proof.
  intros c s a m H. destruct c; simpl in H; try discriminate.
  apply andb_prop in H. destruct H as [H1 H2].
  apply zexpr_eqb_eq in H1; apply zexpr_eqb_eq in H2; subst. reflexivity.
Qed.

Lemma canonical_eval : forall c s a m,
  zcond_canonical c = true -> eval_zcond s a m c = Some ((s =? 0) && (a <=? m))%bool.
Proof.
  intros c s a m H. destruct c; simpl in H; try discriminate.
  apply orb_prop in H. destruct H as [H | H]; apply andb_prop in H; destruct H as [H1 H2]; simpl.
  - rewrite (size_zero_eval _ s a m H1), (align_le_eval _ s a m H2). reflexivity.
  - rewrite (size_zero_eval _ s a m H1), (align_le_eval _ s a m H2). simpl. rewrite andb_comm. reflexivity.
Qed.

Lemma pow2_divide : forall k j, 2 ^ k <= 2 ^ j -> (2 ^ k | 2 ^ j).
Proof.
  intros k j H. apply N.pow_le_mono_r_iff in H; [|lia].
  replace j with (k + (j - k)) by lia. rewrite N.pow_add_r. apply N.divide_factor_l.
Qed.

(** If [alloc_zst] hands out the anchor, the type is zero-sized, its alignment does not exceed the
    cache's, and -- alignments being powers of two and the anchor being aligned to [MAX_ALIGN] -- the
    pointer is aligned for the type. *)
Theorem zst_cond_sound : forall c anchor size align maxa k j p,
  zcond_canonical c = true ->
  align = 2 ^ k -> maxa = 2 ^ j -> anchor mod maxa = 0 ->
  alloc_zst_model c anchor size align maxa = Some p ->
  size = 0 /\ align <= maxa /\ p = anchor /\ p mod align = 0.
Proof.
  intros c anchor size align maxa k j p Hc Ha Hm Hanch Hres.
  unfold alloc_zst_model in Hres. rewrite (canonical_eval _ size align maxa Hc) in Hres.
  destruct (size =? 0) eqn:Es; simpl in Hres; [|discriminate].
  destruct (align <=? maxa) eqn:El; simpl in Hres; [|discriminate].
  injection Hres as <-. apply N.eqb_eq in Es. apply N.leb_le in El.
  repeat split; try assumption.
  subst align maxa.
  assert (H2k : 2 ^ k <> 0) by (apply N.pow_nonzero; lia).
  assert (H2j : 2 ^ j <> 0) by (apply N.pow_nonzero; lia).
  apply N.mod_divide; [exact H2k|].
  apply N.mod_divide in Hanch; [|exact H2j].
  eapply N.divide_trans; [apply pow2_divide; exact El | exact Hanch].
Qed.

(** Conversely the anchor is handed out whenever the type is zero-sized with a small enough alignment
    (so the cache hit is decided by exactly that condition). *)
Theorem zst_cond_complete : forall c anchor size align maxa,
  zcond_canonical c = true -> size = 0 -> align <= maxa ->
  alloc_zst_model c anchor size align maxa = Some anchor.
Proof.
  intros c anchor size align maxa Hc Hs Hl.
  unfold alloc_zst_model. rewrite (canonical_eval _ size align maxa Hc).
  subst size. apply N.leb_le in Hl. rewrite Hl. reflexivity.
Qed.

Theorem zst_cond_none : forall c anchor size align maxa,
  zcond_canonical c = true -> (size <> 0 \/ maxa < align) ->
  alloc_zst_model c anchor size align maxa = None.
Proof.
  intros c anchor size align maxa Hc H.
  unfold alloc_zst_model. rewrite (canonical_eval _ size align maxa Hc).
  destruct H as [H | H].
  - apply N.eqb_neq in H. rewrite H. reflexivity.
  - apply N.leb_gt in H. rewrite H. rewrite andb_false_r. reflexivity.
Qed.
