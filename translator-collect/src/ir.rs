//! The intermediate representation: mirrors /verif/coq-collect/ModelDSL.v one to one.

#[derive(Debug, Clone, PartialEq)]
pub enum BExpr {
    True,
    False,
    Var(String),
    SelfNt,
    Or(Box<BExpr>, Box<BExpr>),
    And(Box<BExpr>, Box<BExpr>),
    Not(Box<BExpr>),
    Unknown(String),
}

#[derive(Debug, Clone, PartialEq)]
pub enum Place {
    SelfP,
    Var(String),
    Field(String),
    Deref(&'static str), // DStarStar | DBorrow | DGetCopy | DAsRef
    Unknown(String),
}

#[derive(Debug, Clone, PartialEq)]
pub enum IterSrc {
    SelfI,
    Method(String),
    Field(String),
    FieldMethod(String, String),
    Unknown(String),
}

#[derive(Debug, Clone, PartialEq)]
pub enum Scrut {
    SelfS,
    Method(String),
    Unknown(String),
}

#[derive(Debug, Clone, PartialEq)]
pub enum Stmt {
    Nop,
    Seq(Box<Stmt>, Box<Stmt>),
    TraceVal(Place),
    CollectTrace(Place),
    TraceGc(Place),
    TraceWeak(Place),
    ForEach(IterSrc, Vec<String>, Box<Stmt>),
    MatchEnum(Scrut, Vec<(String, Vec<String>, Stmt)>),
    IfConst(BExpr, Box<Stmt>),
    LetTuple(Vec<String>, Box<Stmt>),
    Unknown(String),
}

#[derive(Debug, Clone)]
pub struct Bound {
    pub ty: String,
    pub is_param: bool,
    pub collect: bool,
    pub is_static: bool,
    pub others: Vec<String>,
}

#[derive(Debug, Clone)]
pub struct Impl {
    pub id: String,
    pub tycon: String,
    pub self_ty: String,
    pub args: Vec<String>,
    pub file: String,
    pub line: usize,
    pub via_macro: Option<String>,
    pub gate: Vec<String>,
    pub bounds: Vec<Bound>,
    pub consts: Vec<String>,
    pub nt_explicit: bool,
    pub needs_trace: BExpr,
    pub body_explicit: bool,
    pub body: Stmt,
}

pub fn coq_str(s: &str) -> String {
    let mut o = String::from("\"");
    for ch in s.chars() {
        match ch {
            '"' => o.push_str("\"\""),
            '\n' | '\r' | '\t' => o.push(' '),
            c if c.is_ascii() && !c.is_ascii_control() => o.push(c),
            _ => o.push('?'),
        }
    }
    o.push('"');
    o
}

pub fn coq_list<T>(xs: &[T], f: impl Fn(&T) -> String) -> String {
    format!("[{}]", xs.iter().map(|x| f(x)).collect::<Vec<_>>().join("; "))
}

pub fn coq_bool(b: bool) -> &'static str {
    if b { "true" } else { "false" }
}

impl BExpr {
    pub fn coq(&self) -> String {
        match self {
            BExpr::True => "BTrue".into(),
            BExpr::False => "BFalse".into(),
            BExpr::Var(t) => format!("(BVar {})", coq_str(t)),
            BExpr::SelfNt => "BSelf".into(),
            BExpr::Or(a, b) => format!("(BOr {} {})", a.coq(), b.coq()),
            BExpr::And(a, b) => format!("(BAnd {} {})", a.coq(), b.coq()),
            BExpr::Not(a) => format!("(BNot {})", a.coq()),
            BExpr::Unknown(s) => format!("(BUnknown {})", coq_str(s)),
        }
    }
    pub fn has_unknown(&self) -> bool {
        match self {
            BExpr::Unknown(_) => true,
            BExpr::Or(a, b) | BExpr::And(a, b) => a.has_unknown() || b.has_unknown(),
            BExpr::Not(a) => a.has_unknown(),
            _ => false,
        }
    }
}

impl Place {
    pub fn coq(&self) -> String {
        match self {
            Place::SelfP => "PSelf".into(),
            Place::Var(x) => format!("(PVar {})", coq_str(x)),
            Place::Field(f) => format!("(PField {})", coq_str(f)),
            Place::Deref(k) => format!("(PDeref {})", k),
            Place::Unknown(s) => format!("(PUnknown {})", coq_str(s)),
        }
    }
}

impl IterSrc {
    pub fn coq(&self) -> String {
        match self {
            IterSrc::SelfI => "ISelf".into(),
            IterSrc::Method(m) => format!("(IMethod {})", coq_str(m)),
            IterSrc::Field(f) => format!("(IField {})", coq_str(f)),
            IterSrc::FieldMethod(f, m) => format!("(IFieldMethod {} {})", coq_str(f), coq_str(m)),
            IterSrc::Unknown(s) => format!("(IUnknown {})", coq_str(s)),
        }
    }
}

impl Scrut {
    pub fn coq(&self) -> String {
        match self {
            Scrut::SelfS => "SSelf".into(),
            Scrut::Method(m) => format!("(SMethod {})", coq_str(m)),
            Scrut::Unknown(s) => format!("(SUnknown {})", coq_str(s)),
        }
    }
}

impl Stmt {
    pub fn coq(&self) -> String {
        match self {
            Stmt::Nop => "Nop".into(),
            Stmt::Seq(a, b) => format!("(Seq {} {})", a.coq(), b.coq()),
            Stmt::TraceVal(p) => format!("(TraceVal {})", p.coq()),
            Stmt::CollectTrace(p) => format!("(CollectTrace {})", p.coq()),
            Stmt::TraceGc(p) => format!("(TraceGc {})", p.coq()),
            Stmt::TraceWeak(p) => format!("(TraceWeak {})", p.coq()),
            Stmt::ForEach(s, pats, b) => format!(
                "(ForEach {} {} {})",
                s.coq(),
                coq_list(pats, |x| coq_str(x)),
                b.coq()
            ),
            Stmt::MatchEnum(s, arms) => format!(
                "(MatchEnum {} {})",
                s.coq(),
                coq_list(arms, |(v, pats, b)| format!(
                    "({}, {}, {})",
                    coq_str(v),
                    coq_list(pats, |x| coq_str(x)),
                    b.coq()
                ))
            ),
            Stmt::IfConst(g, b) => format!("(IfConst {} {})", g.coq(), b.coq()),
            Stmt::LetTuple(pats, b) => {
                format!("(LetTuple {} {})", coq_list(pats, |x| coq_str(x)), b.coq())
            }
            Stmt::Unknown(s) => format!("(Unknown {})", coq_str(s)),
        }
    }

    pub fn unknowns(&self, out: &mut Vec<String>) {
        let pl = |p: &Place, out: &mut Vec<String>| {
            if let Place::Unknown(s) = p {
                out.push(format!("place `{}`", s));
            }
        };
        match self {
            Stmt::Nop => {}
            Stmt::Seq(a, b) => {
                a.unknowns(out);
                b.unknowns(out);
            }
            Stmt::TraceVal(p) | Stmt::CollectTrace(p) | Stmt::TraceGc(p) | Stmt::TraceWeak(p) => pl(p, out),
            Stmt::ForEach(s, _, b) => {
                if let IterSrc::Unknown(s) = s {
                    out.push(format!("iteration source `{}`", s));
                }
                b.unknowns(out);
            }
            Stmt::MatchEnum(s, arms) => {
                if let Scrut::Unknown(s) = s {
                    out.push(format!("scrutinee `{}`", s));
                }
                for (_, _, b) in arms {
                    b.unknowns(out);
                }
            }
            Stmt::IfConst(g, b) => {
                if g.has_unknown() {
                    out.push(format!("guard `{}`", g.coq()));
                }
                b.unknowns(out);
            }
            Stmt::LetTuple(_, b) => b.unknowns(out),
            Stmt::Unknown(s) => out.push(format!("statement `{}`", s)),
        }
    }
}

impl Impl {
    pub fn coq(&self) -> String {
        format!(
            "{{| i_id := {}; i_tycon := {}; i_self_ty := {}; i_args := {};\n     i_file := {}; i_gate := {};\n     i_bounds := {};\n     i_consts := {}; i_nt_explicit := {}; i_needs_trace := {};\n     i_body_explicit := {};\n     i_body := {} |}}",
            coq_str(&self.id),
            coq_str(&self.tycon),
            coq_str(&self.self_ty),
            coq_list(&self.args, |x| coq_str(x)),
            coq_str(&self.file),
            coq_list(&self.gate, |x| coq_str(x)),
            coq_list(&self.bounds, |b| format!(
                "{{| b_ty := {}; b_is_param := {}; b_collect := {}; b_static := {}; b_others := {} |}}",
                coq_str(&b.ty),
                coq_bool(b.is_param),
                coq_bool(b.collect),
                coq_bool(b.is_static),
                coq_list(&b.others, |x| coq_str(x))
            )),
            coq_list(&self.consts, |x| coq_str(x)),
            coq_bool(self.nt_explicit),
            self.needs_trace.coq(),
            coq_bool(self.body_explicit),
            self.body.coq()
        )
    }
}

pub fn json_str(s: &str) -> String {
    let mut o = String::from("\"");
    for ch in s.chars() {
        match ch {
            '"' => o.push_str("\\\""),
            '\\' => o.push_str("\\\\"),
            '\n' => o.push_str("\\n"),
            '\r' | '\t' => o.push(' '),
            c if (c as u32) < 0x20 => o.push(' '),
            c => o.push(c),
        }
    }
    o.push('"');
    o
}
