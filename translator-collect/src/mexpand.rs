//! A small `macro_rules!` expander: enough for the in-crate macros that produce `Collect` impls
//! (`static_collect!`, `impl_tuple!`) and, more generally, for rules built from literal tokens,
//! `$x:frag` with the common fragment kinds, and (nested) `$( ... ) sep? op` repetitions.
//! Matching is greedy without backtracking; if no rule matches, the caller fails closed.

use proc_macro2::{Delimiter, Group, Ident, Punct, Spacing, Span, TokenStream, TokenTree};
use quote::ToTokens;
use std::collections::BTreeMap;
use syn::ext::IdentExt;
use syn::parse::discouraged::Speculative;
use syn::parse::{ParseStream, Parser};

#[derive(Debug, Clone)]
pub enum Pat {
    Tok(TokenTree),
    Group(Delimiter, Vec<Pat>),
    Frag(String, String),
    Rep(Vec<Pat>, Option<TokenTree>, char),
}

#[derive(Debug, Clone)]
pub struct Rule {
    pub matcher: Vec<Pat>,
    pub body: TokenStream,
}

#[derive(Debug, Clone)]
#[allow(dead_code)]
pub struct MacroDef {
    pub name: String,
    pub file: String,
    pub rules: Vec<Rule>,
    pub raw: TokenStream,
}

#[derive(Debug, Clone)]
pub enum Binding {
    Leaf(TokenStream),
    Rep(Vec<Binding>),
}

type Binds = BTreeMap<String, Binding>;

fn is_punct(tt: &TokenTree, c: char) -> bool {
    matches!(tt, TokenTree::Punct(p) if p.as_char() == c)
}

pub fn parse_pats(ts: TokenStream) -> Result<Vec<Pat>, String> {
    let toks: Vec<TokenTree> = ts.into_iter().collect();
    let mut out = Vec::new();
    let mut i = 0;
    while i < toks.len() {
        match &toks[i] {
            t if is_punct(t, '$') => {
                i += 1;
                match toks.get(i) {
                    Some(TokenTree::Ident(name)) => {
                        // $name:kind
                        if !(toks.get(i + 1).map(|t| is_punct(t, ':')).unwrap_or(false)) {
                            return Err(format!("matcher: `${}` without fragment kind", name));
                        }
                        let kind = match toks.get(i + 2) {
                            Some(TokenTree::Ident(k)) => k.to_string(),
                            _ => return Err("matcher: missing fragment kind".into()),
                        };
                        out.push(Pat::Frag(name.to_string(), kind));
                        i += 3;
                    }
                    Some(TokenTree::Group(g)) if g.delimiter() == Delimiter::Parenthesis => {
                        let inner = parse_pats(g.stream())?;
                        i += 1;
                        let (sep, op, adv) = rep_tail(&toks[i..])?;
                        i += adv;
                        out.push(Pat::Rep(inner, sep, op));
                    }
                    _ => return Err("matcher: stray `$`".into()),
                }
            }
            TokenTree::Group(g) => {
                out.push(Pat::Group(g.delimiter(), parse_pats(g.stream())?));
                i += 1;
            }
            t => {
                out.push(Pat::Tok(t.clone()));
                i += 1;
            }
        }
    }
    Ok(out)
}

/// After a `$( ... )`: optional separator token, then one of `* + ?`.
fn rep_tail(toks: &[TokenTree]) -> Result<(Option<TokenTree>, char, usize), String> {
    let opc = |t: &TokenTree| match t {
        TokenTree::Punct(p) if matches!(p.as_char(), '*' | '+' | '?') => Some(p.as_char()),
        _ => None,
    };
    match toks.first() {
        None => Err("repetition without operator".into()),
        Some(t) => {
            if let Some(c) = opc(t) {
                // `$(...)?` cannot have a separator; `* +` directly after the group: no separator.
                return Ok((None, c, 1));
            }
            match toks.get(1).and_then(opc) {
                Some(c) => Ok((Some(t.clone()), c, 2)),
                None => Err("repetition: separator not followed by operator".into()),
            }
        }
    }
}

pub fn parse_macro_rules(name: &str, file: &str, tokens: TokenStream) -> Result<MacroDef, String> {
    let toks: Vec<TokenTree> = tokens.clone().into_iter().collect();
    let mut rules = Vec::new();
    let mut i = 0;
    while i < toks.len() {
        let m = match &toks[i] {
            TokenTree::Group(g) => g.clone(),
            _ => return Err(format!("macro {}: expected matcher group", name)),
        };
        if !(toks.get(i + 1).map(|t| is_punct(t, '=')).unwrap_or(false)
            && toks.get(i + 2).map(|t| is_punct(t, '>')).unwrap_or(false))
        {
            return Err(format!("macro {}: expected `=>`", name));
        }
        let b = match toks.get(i + 3) {
            Some(TokenTree::Group(g)) => g.clone(),
            _ => return Err(format!("macro {}: expected transcriber group", name)),
        };
        rules.push(Rule { matcher: parse_pats(m.stream())?, body: b.stream() });
        i += 4;
        if toks.get(i).map(|t| is_punct(t, ';')).unwrap_or(false) {
            i += 1;
        }
    }
    Ok(MacroDef { name: name.to_string(), file: file.to_string(), rules, raw: tokens })
}

fn pat_vars(pats: &[Pat], out: &mut Vec<String>) {
    for p in pats {
        match p {
            Pat::Frag(n, _) => out.push(n.clone()),
            Pat::Group(_, inner) => pat_vars(inner, out),
            Pat::Rep(inner, _, _) => pat_vars(inner, out),
            Pat::Tok(_) => {}
        }
    }
}

fn parse_frag(input: ParseStream, kind: &str) -> syn::Result<TokenStream> {
    Ok(match kind {
        "ident" => input.call(Ident::parse_any)?.into_token_stream(),
        "ty" => input.parse::<syn::Type>()?.into_token_stream(),
        "tt" => input.parse::<TokenTree>()?.into_token_stream(),
        "expr" => input.parse::<syn::Expr>()?.into_token_stream(),
        "path" => input.parse::<syn::Path>()?.into_token_stream(),
        "lifetime" => input.parse::<syn::Lifetime>()?.into_token_stream(),
        "literal" => input.parse::<syn::Lit>()?.into_token_stream(),
        "meta" => input.parse::<syn::Meta>()?.into_token_stream(),
        "item" => input.parse::<syn::Item>()?.into_token_stream(),
        "block" => input.parse::<syn::Block>()?.into_token_stream(),
        "vis" => input.parse::<syn::Visibility>()?.into_token_stream(),
        "pat" | "pat_param" => syn::Pat::parse_multi(input)?.into_token_stream(),
        k => return Err(input.error(format!("unsupported fragment kind `{}`", k))),
    })
}

fn match_seq(input: ParseStream, pats: &[Pat], out: &mut Binds) -> syn::Result<()> {
    for p in pats {
        match p {
            Pat::Tok(t) => {
                let got: TokenTree = input.parse()?;
                if got.to_string() != t.to_string() {
                    return Err(syn::Error::new(got.span(), format!("expected `{}`", t)));
                }
            }
            Pat::Group(d, inner) => {
                let g: Group = input.parse()?;
                if g.delimiter() != *d {
                    return Err(syn::Error::new(g.span(), "delimiter mismatch"));
                }
                let mut tmp = Binds::new();
                let parser = |s: ParseStream| -> syn::Result<()> {
                    match_seq(s, inner, &mut tmp)?;
                    if !s.is_empty() {
                        return Err(s.error("unexpected tokens in group"));
                    }
                    Ok(())
                };
                parser.parse2(g.stream())?;
                out.extend(tmp);
            }
            Pat::Frag(name, kind) => {
                let ts = parse_frag(input, kind)?;
                out.insert(name.clone(), Binding::Leaf(ts));
            }
            Pat::Rep(inner, sep, op) => {
                let mut iters: Vec<Binds> = Vec::new();
                loop {
                    if *op == '?' && iters.len() == 1 {
                        break;
                    }
                    if input.is_empty() {
                        break;
                    }
                    let fork = input.fork();
                    if !iters.is_empty() {
                        if let Some(s) = sep {
                            match fork.parse::<TokenTree>() {
                                Ok(t) if t.to_string() == s.to_string() => {}
                                _ => break,
                            }
                        }
                    }
                    let mut tmp = Binds::new();
                    let before = fork.cursor().token_stream().to_string();
                    match match_seq(&fork, inner, &mut tmp) {
                        Ok(()) => {
                            let after = fork.cursor().token_stream().to_string();
                            if before == after && sep.is_none() {
                                break; // no progress
                            }
                            input.advance_to(&fork);
                            iters.push(tmp);
                        }
                        Err(_) => break,
                    }
                }
                if *op == '+' && iters.is_empty() {
                    return Err(input.error("`+` repetition matched nothing"));
                }
                let mut vars = Vec::new();
                pat_vars(inner, &mut vars);
                for v in vars {
                    let col: Vec<Binding> = iters
                        .iter()
                        .map(|m| m.get(&v).cloned().unwrap_or(Binding::Rep(vec![])))
                        .collect();
                    out.insert(v, Binding::Rep(col));
                }
            }
        }
    }
    Ok(())
}

fn body_vars(ts: &TokenStream, out: &mut Vec<String>) {
    let toks: Vec<TokenTree> = ts.clone().into_iter().collect();
    let mut i = 0;
    while i < toks.len() {
        match &toks[i] {
            t if is_punct(t, '$') => {
                if let Some(TokenTree::Ident(n)) = toks.get(i + 1) {
                    out.push(n.to_string());
                    i += 2;
                    continue;
                }
                i += 1;
            }
            TokenTree::Group(g) => {
                body_vars(&g.stream(), out);
                i += 1;
            }
            _ => i += 1,
        }
    }
}

fn transcribe(ts: TokenStream, ctx: &Binds) -> Result<TokenStream, String> {
    let toks: Vec<TokenTree> = ts.into_iter().collect();
    let mut out = TokenStream::new();
    let mut i = 0;
    while i < toks.len() {
        match &toks[i] {
            t if is_punct(t, '$') => match toks.get(i + 1) {
                Some(TokenTree::Ident(n)) => {
                    let name = n.to_string();
                    if name == "crate" {
                        out.extend(std::iter::once(TokenTree::Ident(Ident::new("crate", Span::call_site()))));
                    } else {
                        match ctx.get(&name) {
                            Some(Binding::Leaf(ts)) => out.extend(ts.clone()),
                            Some(Binding::Rep(_)) => {
                                return Err(format!("`${}` used at the wrong repetition depth", name))
                            }
                            None => return Err(format!("unbound macro variable `${}`", name)),
                        }
                    }
                    i += 2;
                }
                Some(TokenTree::Group(g)) if g.delimiter() == Delimiter::Parenthesis => {
                    let (sep, _op, adv) = rep_tail(&toks[i + 2..])?;
                    let mut used = Vec::new();
                    body_vars(&g.stream(), &mut used);
                    let mut n: Option<usize> = None;
                    let mut repvars = Vec::new();
                    for v in &used {
                        if let Some(Binding::Rep(items)) = ctx.get(v) {
                            match n {
                                None => n = Some(items.len()),
                                Some(k) if k != items.len() => {
                                    return Err(format!("repetition count mismatch at `${}`", v))
                                }
                                _ => {}
                            }
                            repvars.push(v.clone());
                        }
                    }
                    let n = n.ok_or_else(|| "repetition without repeating variable".to_string())?;
                    for k in 0..n {
                        let mut sub = ctx.clone();
                        for v in &repvars {
                            if let Some(Binding::Rep(items)) = ctx.get(v) {
                                sub.insert(v.clone(), items[k].clone());
                            }
                        }
                        if k > 0 {
                            if let Some(s) = &sep {
                                out.extend(std::iter::once(s.clone()));
                            }
                        }
                        out.extend(transcribe(g.stream(), &sub)?);
                    }
                    i += 2 + adv;
                }
                _ => return Err("transcriber: stray `$`".into()),
            },
            TokenTree::Group(g) => {
                let inner = transcribe(g.stream(), ctx)?;
                let mut ng = Group::new(g.delimiter(), inner);
                ng.set_span(g.span());
                out.extend(std::iter::once(TokenTree::Group(ng)));
                i += 1;
            }
            TokenTree::Punct(p) => {
                // keep joint spacing so `::`, `||`, `=>` survive
                let mut np = Punct::new(p.as_char(), p.spacing());
                np.set_span(p.span());
                let _ = Spacing::Alone;
                out.extend(std::iter::once(TokenTree::Punct(np)));
                i += 1;
            }
            t => {
                out.extend(std::iter::once(t.clone()));
                i += 1;
            }
        }
    }
    Ok(out)
}

/// Expand one invocation. Returns the transcribed tokens of the first rule that matches.
pub fn expand(def: &MacroDef, args: TokenStream) -> Result<TokenStream, String> {
    let mut errs = Vec::new();
    for (k, r) in def.rules.iter().enumerate() {
        let mut binds = Binds::new();
        let parser = |s: ParseStream| -> syn::Result<()> {
            match_seq(s, &r.matcher, &mut binds)?;
            if !s.is_empty() {
                return Err(s.error("unexpected trailing tokens"));
            }
            Ok(())
        };
        match parser.parse2(args.clone()) {
            Ok(()) => return transcribe(r.body.clone(), &binds),
            Err(e) => errs.push(format!("rule {}: {}", k, e)),
        }
    }
    Err(format!("no rule of `{}!` matches `{}` ({})", def.name, args, errs.join("; ")))
}

/// Does some transcriber of this macro contain an `impl ... Collect` (as identifiers, not docs)?
pub fn mentions_collect_impl(def: &MacroDef) -> bool {
    fn idents(ts: &TokenStream, out: &mut Vec<String>) {
        for t in ts.clone() {
            match t {
                TokenTree::Ident(i) => out.push(i.to_string()),
                TokenTree::Group(g) => idents(&g.stream(), out),
                _ => {}
            }
        }
    }
    def.rules.iter().any(|r| {
        let mut v = Vec::new();
        idents(&r.body, &mut v);
        v.iter().any(|s| s == "impl") && v.iter().any(|s| s == "Collect")
    })
}
